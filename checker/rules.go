package main

// Shared: era UTxO rule lists (E3) and rule resolution through pure delegations.

import (
	"go/ast"
	"go/token"
	"go/types"
	"strings"

	"golang.org/x/tools/go/ssa"
)

var eraOrder = []string{"shelley", "allegra", "mary", "alonzo", "babbage", "conway", "dijkstra"}

type eraRules struct {
	Era   string
	Rules []*types.Func
	Pos   token.Pos
}

// eraRuleLists reads the UtxoValidationRules literal of every era package.
func (c *Ctx) eraRuleLists() map[string]*eraRules {
	out := map[string]*eraRules{}
	for _, era := range eraOrder {
		p := c.Pkg("ledger/" + era)
		v, ok := p.Types.Scope().Lookup("UtxoValidationRules").(*types.Var)
		if !ok {
			c.Undecided("ledger/%s has no UtxoValidationRules", era)
		}
		init, ip := c.pkgVarInit(v)
		cl, ok := unparen(init).(*ast.CompositeLit)
		if !ok {
			c.Undecided("ledger/%s.UtxoValidationRules is not a literal list", era)
		}
		er := &eraRules{Era: era, Pos: v.Pos()}
		for _, el := range cl.Elts {
			var id *ast.Ident
			switch x := unparen(el).(type) {
			case *ast.Ident:
				id = x
			case *ast.SelectorExpr:
				id = x.Sel
			}
			if id == nil {
				c.Undecided("ledger/%s.UtxoValidationRules: element %s is not a function name", era, types.ExprString(el))
			}
			f, ok := ip.TypesInfo.Uses[id].(*types.Func)
			if !ok {
				c.Undecided("ledger/%s.UtxoValidationRules: %s is not a function", era, id.Name)
			}
			er.Rules = append(er.Rules, f)
		}
		if len(er.Rules) < 10 {
			c.Undecided("ledger/%s.UtxoValidationRules has only %d rules", era, len(er.Rules))
		}
		out[era] = er
	}
	return out
}

// resolveDelegation follows `return g(args...)` bodies (single block, single static call whose result is returned).
func (c *Ctx) resolveDelegation(fn *ssa.Function) *ssa.Function {
	for i := 0; i < 6; i++ {
		if fn == nil || len(fn.Blocks) != 1 {
			return fn
		}
		b := fn.Blocks[0]
		r, ok := b.Instrs[len(b.Instrs)-1].(*ssa.Return)
		if !ok || len(r.Results) != 1 {
			return fn
		}
		call, ok := r.Results[0].(*ssa.Call)
		if !ok {
			return fn
		}
		callee := call.Call.StaticCallee()
		if callee == nil || len(callee.Blocks) == 0 {
			return fn
		}
		// only calls and the return in the block
		n := 0
		for _, in := range b.Instrs {
			switch in.(type) {
			case *ssa.Call, *ssa.Return, *ssa.DebugRef:
			default:
				n++
			}
		}
		if n > 0 {
			return fn
		}
		fn = callee
	}
	return fn
}

// staticClosure: functions reachable through static calls within the ledger packages (depth-limited).
func (c *Ctx) staticClosure(root *ssa.Function, depth int) map[*ssa.Function]bool {
	out := map[*ssa.Function]bool{}
	var walk func(f *ssa.Function, d int)
	walk = func(f *ssa.Function, d int) {
		if f == nil || out[f] || len(f.Blocks) == 0 || d > depth || f.Pkg == nil || !strings.HasPrefix(f.Pkg.Pkg.Path(), modPath) {
			return
		}
		out[f] = true
		for _, g := range f.AnonFuncs {
			walk(g, d)
		}
		for _, ci := range allCalls(f) {
			walk(ci.Common().StaticCallee(), d+1)
		}
	}
	walk(root, 0)
	return out
}

// returnOutcomes: whether fn can return a nil error / a non-nil error under the valuation (path-sensitive). A return
// that yields a result variable (a phi in the return block) is judged per incoming value actually taken.
func returnOutcomes(fn *ssa.Function, val map[string]int64) (accept, reject bool) {
	reach := psReachVal(fn, []*ssa.BasicBlock{fn.Blocks[0]}, nil, val)
	edges := lastPsEdges
	idx := errorResultIndex(fn)
	classify := func(v ssa.Value, at *ssa.BasicBlock) {
		switch {
		case idx < 0 || isNilConst(v):
			accept = true
		case definitelyNonNilErr(v, at, 0):
			reject = true
		default:
			accept = true // may be nil (a delegated verdict)
		}
	}
	for _, b := range fn.Blocks {
		r, ok := b.Instrs[len(b.Instrs)-1].(*ssa.Return)
		if !ok || !reach[b] {
			continue
		}
		if idx < 0 || idx >= len(r.Results) {
			accept = true
			continue
		}
		rv := returnedValue(r, idx)
		if ph, isPhi := rv.(*ssa.Phi); isPhi && ph.Block() == b {
			for i, e := range ph.Edges {
				if edges[[2]*ssa.BasicBlock{b.Preds[i], b}] {
					classify(e, b.Preds[i])
				}
			}
			continue
		}
		classify(rv, b)
	}
	return
}

// returnedUnder: the values fn can return at result idx under the valuation (path-sensitive); a result variable (a phi
// in the return block) contributes the incoming values of the edges actually taken.
func returnedUnder(fn *ssa.Function, idx int, val map[string]int64) []ssa.Value {
	reach := psReachVal(fn, []*ssa.BasicBlock{fn.Blocks[0]}, nil, val)
	edges := lastPsEdges
	var out []ssa.Value
	seen := map[ssa.Value]bool{}
	add := func(v ssa.Value) {
		if !seen[v] {
			seen[v] = true
			out = append(out, v)
		}
	}
	var expand func(v ssa.Value, d int)
	expand = func(v ssa.Value, d int) {
		if ph, isPhi := v.(*ssa.Phi); isPhi && d < 4 {
			b := ph.Block()
			for i, e := range ph.Edges {
				if reach[b.Preds[i]] && edges[[2]*ssa.BasicBlock{b.Preds[i], b}] {
					expand(e, d+1)
				}
			}
			return
		}
		add(v)
	}
	for _, b := range fn.Blocks {
		r, ok := b.Instrs[len(b.Instrs)-1].(*ssa.Return)
		if !ok || !reach[b] || idx >= len(r.Results) {
			continue
		}
		expand(returnedValue(r, idx), 0)
	}
	return out
}

// valuesUnder: the values v can stand for under the valuation: a merged variable (phi) contributes the incoming
// values of the edges actually taken (path-sensitive).
func valuesUnder(fn *ssa.Function, v ssa.Value, val map[string]int64) []ssa.Value {
	reach := psReachVal(fn, []*ssa.BasicBlock{fn.Blocks[0]}, nil, val)
	edges := lastPsEdges
	var out []ssa.Value
	seen := map[ssa.Value]bool{}
	var expand func(x ssa.Value, d int)
	expand = func(x ssa.Value, d int) {
		if ph, isPhi := x.(*ssa.Phi); isPhi && d < 4 {
			b := ph.Block()
			for i, e := range ph.Edges {
				if reach[b.Preds[i]] && edges[[2]*ssa.BasicBlock{b.Preds[i], b}] {
					expand(e, d+1)
				}
			}
			return
		}
		if !seen[x] {
			seen[x] = true
			out = append(out, x)
		}
	}
	expand(v, 0)
	return out
}

// successBypass: the position of a return of fn that may carry a nil error and is reachable from the entry without
// entering one of the stop blocks ("" when every such return lies behind a stop block). A return that yields a result
// variable (a phi in the return block) is judged per incoming edge: only edges whose error value can be nil count.
func (c *Ctx) successBypass(fn *ssa.Function, stop map[*ssa.BasicBlock]bool) string {
	seen := map[*ssa.BasicBlock]bool{}
	var walk func(b *ssa.BasicBlock)
	walk = func(b *ssa.BasicBlock) {
		if seen[b] || stop[b] {
			return
		}
		seen[b] = true
		for _, sb := range b.Succs {
			walk(sb)
		}
	}
	walk(fn.Blocks[0])
	ei := errorResultIndex(fn)
	for _, r := range successReturns(fn) {
		rb := r.Block()
		if ret, isRet := r.(*ssa.Return); isRet && ei >= 0 && ei < len(ret.Results) {
			if ph, isPhi := returnedValue(ret, ei).(*ssa.Phi); isPhi && ph.Block() == rb {
				for i, e := range ph.Edges {
					if definitelyNonNilErr(e, rb.Preds[i], 0) {
						continue
					}
					if _, isMI := e.(*ssa.MakeInterface); isMI {
						continue // a constructed error value
					}
					if g, isG := e.(*ssa.UnOp); isG {
						if _, isGlobal := g.X.(*ssa.Global); isGlobal {
							continue // a package-level sentinel error
						}
					}
					if seen[rb.Preds[i]] {
						return c.pos(r.Pos())
					}
				}
				continue
			}
		}
		if seen[rb] {
			return c.pos(r.Pos())
		}
	}
	return ""
}

// acceptsUnder: some success return of fn is reachable under the valuation (path-sensitive).
func acceptsUnder(fn *ssa.Function, val map[string]int64) bool {
	a, _ := returnOutcomes(fn, val)
	return a
}

// rejectsUnder: some non-success return is reachable under the valuation.
func rejectsUnder(fn *ssa.Function, val map[string]int64) bool {
	_, r := returnOutcomes(fn, val)
	return r
}

// ruleVerdict evaluates fn under val, first summarising static callees that receive the same leading parameters
// (their error result becomes a valued atom: 0 = nil, 1 = non-nil) so that helper extraction does not lose precision.
func (c *Ctx) ruleVerdict(fn *ssa.Function, val map[string]int64, depth int) (accept, reject bool) {
	v2 := map[string]int64{}
	for k, x := range val {
		v2[k] = x
	}
	if depth < 3 {
		for _, ci := range allCalls(fn) {
			callee := ci.Common().StaticCallee()
			if callee == nil || len(callee.Blocks) == 0 || callee.Pkg == nil || !strings.HasPrefix(callee.Pkg.Pkg.Path(), modPath) {
				continue
			}
			if errorResultIndex(callee) < 0 || callee.Signature.Results().Len() != 1 {
				continue
			}
			same := len(ci.Common().Args) > 0
			for i, a := range ci.Common().Args {
				pa, ok := a.(*ssa.Parameter)
				if !ok || i >= len(fn.Params) || fn.Params[i] != pa {
					same = false
				}
			}
			if !same {
				continue
			}
			a, r := c.ruleVerdict(callee, val, depth+1)
			if a != r {
				atom := descCall(ci.Common(), 0)
				if a {
					v2[atom] = 0
				} else {
					v2[atom] = 1
				}
			}
		}
	}
	return acceptsUnder(fn, v2), rejectsUnder(fn, v2)
}

// resolveGuardedDelegation additionally follows wrappers of the shape
// `if <guard fails> { return <non-nil error> }; return otherEra.SameName(tx, …)`.
func (c *Ctx) resolveGuardedDelegation(fn *ssa.Function) *ssa.Function {
	for i := 0; i < 6; i++ {
		fn = c.resolveDelegation(fn)
		if fn == nil {
			return fn
		}
		var next *ssa.Function
		n := 0
		ok := true
		idx := errorResultIndex(fn)
		for _, b := range fn.Blocks {
			r, isRet := b.Instrs[len(b.Instrs)-1].(*ssa.Return)
			if !isRet {
				continue
			}
			if idx >= 0 && len(r.Results) == 1 {
				if call, isCall := returnedValue(r, idx).(*ssa.Call); isCall {
					if cal := call.Call.StaticCallee(); cal != nil && cal.Name() == fn.Name() && cal != fn && len(call.Call.Args) > 0 && trace(call.Call.Args[0]) == "p0" {
						next = cal
						n++
						continue
					}
				}
				if definitelyNonNilErr(returnedValue(r, idx), b, 0) {
					continue
				}
			}
			ok = false
		}
		if !ok || n != 1 || next == nil {
			return fn
		}
		fn = next
	}
	return fn
}
