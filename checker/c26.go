package main

import (
	"fmt"
	"strings"

	"golang.org/x/tools/go/ssa"
)

func init() {
	register(&Prop{
		ID:        "C26",
		Technique: "era rule-list extraction + finite ordering abstraction (all order types of slot, invalid_before, invalid_hereafter and 0) over the resolved rule bodies",
		Explanation: "For each era the UtxoValidationRules literal is read; rules whose (delegation-resolved) body compares the slot with TTL()/ValidityIntervalStart() are evaluated for every valuation of (slot, start, ttl) in {0..3}^3 - which realises every ordering of the three quantities and equality with 0 (the accessors' 'absent') - using path-sensitive reachability with the comparison edges pruned by the valuation. " +
			"The era accepts a valuation iff every such rule has a reachable success return and no reachable error return. The resulting 64-cell table must equal the ledger's: Shelley accept ⇔ ttl=0 ∨ slot ≤ ttl; Allegra..Dijkstra accept ⇔ (start=0 ∨ slot ≥ start) ∧ (ttl=0 ∨ slot < ttl).",
		Assumptions: []string{"Transaction.TTL()/ValidityIntervalStart() return the body fields, 0 meaning absent (accessor convention of the library)"},
		Run:         runC26,
	})
}

func runC26(c *Ctx) {
	c.W.buildSSA()
	lists := c.eraRuleLists()
	const slotA = "p1"
	ttlA := "call:ledger/common.Transaction.TTL(p0)"
	startA := "call:ledger/common.Transaction.ValidityIntervalStart(p0)"
	for _, era := range eraOrder {
		er := lists[era]
		var rel []*ssa.Function
		var names []string
		for _, rf := range er.Rules {
			fn := c.resolveDelegation(c.SSAOf(rf))
			if fn == nil || len(fn.Blocks) == 0 {
				continue
			}
			uses := false
			for _, ef := range edgeFacts(fn) {
				if (strings.Contains(ef.Fact, ttlA) || strings.Contains(ef.Fact, startA)) && (strings.HasPrefix(ef.Fact, slotA+" ") || strings.HasSuffix(ef.Fact, " "+slotA)) {
					uses = true
				}
			}
			// also through static callees (helper extraction / reuse of an earlier era's rule)
			if !uses {
				for g := range c.staticClosure(fn, 2) {
					for _, ef := range edgeFacts(g) {
						if (strings.Contains(ef.Fact, ttlA) || strings.Contains(ef.Fact, startA)) && (strings.HasPrefix(ef.Fact, slotA+" ") || strings.HasSuffix(ef.Fact, " "+slotA)) {
							uses = true
						}
					}
				}
			}
			// or the bounds are read here and compared in a predicate helper
			if !uses {
				readsBound, hasSlot := false, false
				for _, ci := range allCalls(fn) {
					cn := calleeName(ci.Common())
					if cn == "iface:ledger/common.Transaction.TTL" || cn == "iface:ledger/common.Transaction.ValidityIntervalStart" {
						readsBound = true
					}
					if samePkgHelper(fn, ci.Common()) != nil {
						for _, a := range ci.Common().Args {
							if desc(a) == slotA {
								hasSlot = true
							}
						}
					}
				}
				uses = readsBound && hasSlot
			}
			if !uses {
				continue
			}
			rel = append(rel, fn)
			names = append(names, ssaFuncKey(fn))
		}
		key := "ledger/" + era
		if len(rel) == 0 {
			c.Bad("validity-interval-table", key, er.Pos, "no rule of the %s list compares the slot with the transaction's validity interval", era)
			continue
		}
		var bad []string
		cells := 0
		for s := int64(0); s <= 3; s++ {
			for st := int64(0); st <= 3; st++ {
				for t := int64(0); t <= 3; t++ {
					cells++
					val := map[string]int64{slotA: s, startA: st, ttlA: t}
					accept := true
					for _, fn := range rel {
						a, r := c.ruleVerdict(fn, val, 0)
						if !a || r {
							accept = false
						}
						if a && r {
							bad = append(bad, fmt.Sprintf("(slot=%d start=%d ttl=%d): %s is undetermined (both outcomes reachable)", s, st, t, ssaFuncKey(fn)))
						}
					}
					var want bool
					if era == "shelley" {
						want = t == 0 || s <= t
					} else {
						want = (st == 0 || s >= st) && (t == 0 || s < t)
					}
					if accept != want {
						bad = append(bad, fmt.Sprintf("(slot=%d start=%d ttl=%d): accepts=%v, ledger says %v", s, st, t, accept, want))
					}
				}
			}
		}
		if len(bad) > 4 {
			bad = append(bad[:4], fmt.Sprintf("… %d cells", len(bad)))
		}
		c.Check(len(bad) == 0, "validity-interval-table", key, er.Pos, fmt.Sprintf("%d cells agree with the ledger rule (rules: %s)", cells, strings.Join(names, ", ")),
			"validity interval table of "+era+" deviates: "+strings.Join(bad, "; ")+" (rules: "+strings.Join(names, ", ")+")")
	}
}
