package main

import (
	"go/token"
	"strings"

	"golang.org/x/tools/go/ssa"
)

func init() {
	register(&Prop{
		ID:        "C35",
		Technique: "constant table + structural unpacking of the hash preimages (append chains, slice bounds as SSA value identity) + loop-shape proof of the split function (recognised inductive forms only)",
		Explanation: "(1) merkleLeafTag = 0, merkleBranchTag = 1. (2) MerkleRoot returns Blake2b256Hash(nil) for an empty list and merkleNode(items) otherwise. (3) merkleNode: for a single item it hashes [leafTag] ‖ items[0]; otherwise it hashes [branchTag] ‖ merkleNode(items[:s]) ‖ merkleNode(items[s:]) in that order, where both slice bounds are the same SSA value s = largestPowerOfTwoBelow(len(items)) of the same list. " +
			"(4) largestPowerOfTwoBelow is proven for the recognised forms: a counter starting at 1, doubled while counter·2 < n, returned at exit (invariant: a power of two below n; exit: doubling would reach n), or 1 << (bits.Len(n-1)-1). Any other implementation of the split is reported as undecided rather than judged.",
		Assumptions: []string{"Blake2b", "the recursion terminates because 1 ≤ s < len(items) for len ≥ 2 (follows from (4))"},
		Run:         runC35,
	})
}

func runC35(c *Ctx) {
	c.W.buildSSA()
	rel := "ledger/byron"
	lt, ok1 := c.ConstIntOpt(rel, "merkleLeafTag")
	bt, ok2 := c.ConstIntOpt(rel, "merkleBranchTag")
	c.Check(ok1 && lt == 0, "merkle-tags", rel+".merkleLeafTag", token.NoPos, "leaf tag 0", "the leaf tag is not 0")
	c.Check(ok2 && bt == 1, "merkle-tags", rel+".merkleBranchTag", token.NoPos, "branch tag 1", "the branch tag is not 1")
	root := c.SSAFunc(rel, "MerkleRoot")
	node := c.SSAFunc(rel, "merkleNode")
	split := c.SSAFunc(rel, "largestPowerOfTwoBelow")
	if root == nil || node == nil {
		c.Undecided("MerkleRoot/merkleNode not found")
		return
	}
	// (2)
	{
		all := func(n int64, want func(string) bool) bool {
			vs := returnedUnder(root, 0, map[string]int64{"len(p0)": n})
			for _, v := range vs {
				if !want(trace(v)) {
					return false
				}
			}
			return len(vs) > 0
		}
		okEmpty := all(0, func(t string) bool { return t == "Blake2b256Hash(nil)" || t == "Blake2b256Hash(nil:[]byte)" })
		okRest := true
		for _, n := range []int64{1, 2, 3, 7} {
			okRest = okRest && all(n, func(t string) bool { return t == "merkleNode(p0)" })
		}
		c.Check(okEmpty, "merkle-root", ssaFuncKey(root)+":empty", root.Pos(), "an empty list hashes the empty string", "MerkleRoot of an empty list is not Blake2b256 of the empty string")
		c.Check(okRest, "merkle-root", ssaFuncKey(root)+":non-empty", root.Pos(), "a non-empty list is the root node over all items", "MerkleRoot of a non-empty list is not merkleNode(items)")
	}
	// (3)
	key := ssaFuncKey(node)
	byteLit := func(v ssa.Value) string {
		s, ok := v.(*ssa.Slice)
		if !ok {
			return trace(v)
		}
		al, ok := s.X.(*ssa.Alloc)
		if !ok {
			return trace(v)
		}
		var parts []string
		for _, r := range *al.Referrers() {
			if ia, ok := r.(*ssa.IndexAddr); ok {
				for _, rr := range *ia.Referrers() {
					if st, ok := rr.(*ssa.Store); ok {
						parts = append(parts, desc(st.Val))
					}
				}
			}
		}
		if len(parts) == 0 {
			return trace(v)
		}
		return "bytes{" + strings.Join(parts, ",") + "}"
	}
	unpack := func(v ssa.Value) (base ssa.Value, parts []ssa.Value) {
		cur := v
		for i := 0; i < 8; i++ {
			call, ok := cur.(*ssa.Call)
			if !ok {
				break
			}
			b, isB := call.Call.Value.(*ssa.Builtin)
			if !isB || b.Name() != "append" {
				break
			}
			parts = append([]ssa.Value{call.Call.Args[1]}, parts...)
			cur = call.Call.Args[0]
		}
		return cur, parts
	}
	isTag := func(s string, v int64) bool {
		return s == "bytes{"+itoa(v)+":byte}" || s == "bytes{"+itoa(v)+"}"
	}
	var leafOK, branchOK bool
	var splitVal ssa.Value
	for _, b := range node.Blocks {
		r, isR := b.Instrs[len(b.Instrs)-1].(*ssa.Return)
		if !isR {
			continue
		}
		call, isCall := r.Results[0].(*ssa.Call)
		// the hash may be taken in a small helper (merkleLeaf(item), merkleBranch(left, right)): its parameters then
		// stand for the arguments passed here
		bind := map[*ssa.Parameter]ssa.Value{}
		if isCall && !strings.HasSuffix(calleeName(&call.Call), ".Blake2b256Hash") {
			if h := samePkgHelper(node, &call.Call); h != nil && h != node {
				var inner *ssa.Call
				n := 0
				for _, hb := range h.Blocks {
					if hr, ok := hb.Instrs[len(hb.Instrs)-1].(*ssa.Return); ok && len(hr.Results) == 1 {
						n++
						if hc, ok := hr.Results[0].(*ssa.Call); ok && strings.HasSuffix(calleeName(&hc.Call), ".Blake2b256Hash") {
							inner = hc
						}
					}
				}
				if n == 1 && inner != nil {
					for i, q := range h.Params {
						if i < len(call.Call.Args) {
							bind[q] = call.Call.Args[i]
						}
					}
					call = inner
				}
			}
		}
		if !isCall || !strings.HasSuffix(calleeName(&call.Call), ".Blake2b256Hash") {
			c.Bad("merkle-node", key+":return:"+shortArg(trace(r.Results[0])), r.Pos(), "merkleNode returns %s, not a Blake2b-256 hash of a tagged preimage", shortArg(trace(r.Results[0])))
			continue
		}
		// a part that is (a slice of) a helper parameter reads as the argument bound to it
		resolve := func(v ssa.Value) ssa.Value {
			if q, ok := v.(*ssa.Parameter); ok {
				if a, ok := bind[q]; ok {
					return a
				}
			}
			return v
		}
		base, parts := unpack(call.Call.Args[0])
		if len(parts) == 0 {
			if ps, ok := concatParts(call.Call.Args[0]); ok && len(ps) >= 2 {
				base, parts = ps[0], ps[1:]
			}
		} else if !isTag(byteLit(base), lt) && !isTag(byteLit(base), bt) && len(parts) >= 1 {
			// append chain over an empty buffer: the first appended part is the tag
			if ms, isMS := base.(*ssa.Slice); !isMS || ms.High == nil || desc(ms.High) == "0" {
				base, parts = parts[0], parts[1:]
			}
		}
		for i := range parts {
			parts[i] = resolve(parts[i])
		}
		// which case: dominated by len == 1 ?
		v := c.mustPass(node, []ssa.Instruction{r}, func(f string) bool { return f == "len(p0) == 1" })
		if v[0].OK {
			// leaf: append([tag], items[0]...)
			okL := len(parts) == 1 && isTag(byteLit(base), lt) && trace(parts[0]) == "p0[]" && indexIsConst(parts[0], 0)
			c.Check(okL, "merkle-node", key+":leaf", r.Pos(), "leaf = H(0x00 ‖ item)", "the leaf hash is not Blake2b256(leafTag ‖ items[0]): base "+shortArg(byteLit(base))+", parts "+joinTraces(parts))
			leafOK = okL
			continue
		}
		// branch
		okB := len(parts) == 2 && isTag(byteLit(base), bt)
		var lcall, rcall *ssa.Call
		if okB {
			origin := func(v ssa.Value) *ssa.Call {
				if cl := hashArrayOrigin(v); cl != nil {
					return cl
				}
				// left[:] of a helper parameter holding the child hash
				if sl, ok := v.(*ssa.Slice); ok {
					if al, ok := sl.X.(*ssa.Alloc); ok {
						var val ssa.Value
						cnt := 0
						for _, rr := range *al.Referrers() {
							if st, ok := rr.(*ssa.Store); ok && st.Addr == ssa.Value(al) {
								val = st.Val
								cnt++
							}
						}
						if cnt == 1 {
							if cl, ok := resolve(val).(*ssa.Call); ok {
								return cl
							}
						}
					}
				}
				return nil
			}
			lcall = origin(parts[0])
			rcall = origin(parts[1])
			okB = lcall != nil && rcall != nil && lcall.Call.StaticCallee() == node && rcall.Call.StaticCallee() == node
		}
		if okB {
			ls, lok := lcall.Call.Args[0].(*ssa.Slice)
			rs, rok := rcall.Call.Args[0].(*ssa.Slice)
			okB = lok && rok && trace(ls.X) == "p0" && trace(rs.X) == "p0" && ls.Low == nil && ls.High != nil && rs.High == nil && rs.Low != nil && ls.High == rs.Low
			if okB {
				splitVal = ls.High
			}
		}
		c.Check(okB, "merkle-node", key+":branch", r.Pos(), "branch = H(0x01 ‖ node(items[:s]) ‖ node(items[s:])) with one split value s", "the branch hash is not Blake2b256(branchTag ‖ left ‖ right) over items[:s] and items[s:] of the same list with one split point: parts "+joinTraces(parts))
		branchOK = okB
	}
	c.Check(leafOK && branchOK, "merkle-node", key+":cases", node.Pos(), "one leaf case (len == 1) and one branch case", "merkleNode does not consist of a leaf case under len(items)==1 and a branch case otherwise")
	if splitVal != nil {
		st := trace(splitVal)
		c.Check(st == "largestPowerOfTwoBelow(len(p0))", "merkle-split", key+":split-of-count", node.Pos(), "s = largestPowerOfTwoBelow(len(items))", "the split point is "+shortArg(st)+", not largestPowerOfTwoBelow(len(items))")
	}
	// (4)
	if split == nil {
		c.Undecided("largestPowerOfTwoBelow not found")
		return
	}
	sk := ssaFuncKey(split)
	switch {
	case c.doublingLoop(split):
		c.Ok("merkle-split", sk+":largest-power-below", split.Pos(), "doubling loop from 1 while 2·p < n, returning p: the largest power of two strictly below n (n ≥ 2)")
	case c.bitLenForm(split):
		c.Ok("merkle-split", sk+":largest-power-below", split.Pos(), "1 << (bits.Len(n-1) - 1): the largest power of two strictly below n (n ≥ 2)")
	default:
		why := c35Refutation
		if why == "" {
			why = c.refuteSplit(split)
		}
		if why != "" {
			c.Bad("merkle-split", sk+":largest-power-below", split.Pos(), "%s", why)
		} else {
			c.Undecided("%s: the split function is not in a form this checker can prove or refute", sk)
		}
	}
}

func itoa(v int64) string {
	if v == 0 {
		return "0"
	}
	s := ""
	for v > 0 {
		s = string(rune('0'+v%10)) + s
		v /= 10
	}
	return s
}

func joinTraces(vs []ssa.Value) string {
	var out []string
	for _, v := range vs {
		out = append(out, shortArg(trace(v)))
	}
	return strings.Join(out, " ; ")
}

func indexIsConst(v ssa.Value, want int64) bool {
	idx := indexOf(v)
	k, ok := idx.(*ssa.Const)
	return ok && k.Int64() == want
}

// hashArrayOrigin: v is `arr[:]` where arr is a local holding the result of a call; returns that call.
func hashArrayOrigin(v ssa.Value) *ssa.Call {
	s, ok := v.(*ssa.Slice)
	if !ok {
		return nil
	}
	al, ok := s.X.(*ssa.Alloc)
	if !ok {
		return nil
	}
	if st := singleStore(al); st != nil {
		if call, ok := st.(*ssa.Call); ok {
			return call
		}
	}
	// the slice expression itself counts as an address use; look for the one store
	var val ssa.Value
	n := 0
	for _, r := range *al.Referrers() {
		if st, ok := r.(*ssa.Store); ok && st.Addr == ssa.Value(al) {
			val = st.Val
			n++
		}
	}
	if n == 1 {
		if call, ok := val.(*ssa.Call); ok {
			return call
		}
	}
	return nil
}

// doublingLoop: p := 1; for p*2 < n { p *= 2 }; return p   (also p<<1, p+p)
var c35Refutation string

func (c *Ctx) doublingLoop(fn *ssa.Function) bool {
	c35Refutation = ""
	if len(fn.Params) != 1 {
		return false
	}
	n := fn.Params[0]
	var ret *ssa.Return
	nRet := 0
	for _, b := range fn.Blocks {
		if r, ok := b.Instrs[len(b.Instrs)-1].(*ssa.Return); ok {
			ret = r
			nRet++
		}
	}
	if nRet != 1 {
		return false
	}
	ph, ok := ret.Results[0].(*ssa.Phi)
	if !ok || len(ph.Edges) != 2 {
		return false
	}
	isDouble := func(v ssa.Value) bool {
		bo, ok := v.(*ssa.BinOp)
		if !ok {
			return false
		}
		switch bo.Op {
		case token.MUL:
			return (bo.X == ssa.Value(ph) && desc(bo.Y) == "2") || (bo.Y == ssa.Value(ph) && desc(bo.X) == "2")
		case token.SHL:
			return bo.X == ssa.Value(ph) && desc(bo.Y) == "1"
		case token.ADD:
			return bo.X == ssa.Value(ph) && bo.Y == ssa.Value(ph)
		}
		return false
	}
	var init, step ssa.Value
	for _, e := range ph.Edges {
		if k, ok := e.(*ssa.Const); ok && k.Int64() == 1 {
			init = e
		} else {
			step = e
		}
	}
	if init == nil || step == nil || !isDouble(step) {
		return false
	}
	// the loop test, in the phi's block: if double(ph) < n continue else exit (to the return)
	iff, ok := ph.Block().Instrs[len(ph.Block().Instrs)-1].(*ssa.If)
	if !ok {
		return false
	}
	bo, ok := iff.Cond.(*ssa.BinOp)
	if !ok {
		return false
	}
	var contSucc int
	// the same loop with a non-strict test stops one doubling later: largest power of two ≤ n, i.e. n itself for powers of two
	if (bo.Op == token.LEQ && isDouble(bo.X) && bo.Y == ssa.Value(n)) || (bo.Op == token.GEQ && isDouble(bo.Y) && bo.X == ssa.Value(n)) ||
		(bo.Op == token.GTR && isDouble(bo.X) && bo.Y == ssa.Value(n)) || (bo.Op == token.LSS && isDouble(bo.Y) && bo.X == ssa.Value(n)) {
		c35Refutation = "the doubling loop continues while 2·p ≤ n, so for a count that is a power of two it returns the count itself instead of the largest power of two strictly below it (an empty right subtree)"
		return false
	}
	switch {
	case bo.Op == token.LSS && isDouble(bo.X) && bo.Y == ssa.Value(n):
		contSucc = 0
	case bo.Op == token.GTR && isDouble(bo.Y) && bo.X == ssa.Value(n):
		contSucc = 0
	case bo.Op == token.GEQ && isDouble(bo.X) && bo.Y == ssa.Value(n):
		contSucc = 1
	case bo.Op == token.LEQ && isDouble(bo.Y) && bo.X == ssa.Value(n):
		contSucc = 1
	default:
		return false
	}
	body := ph.Block().Succs[contSucc]
	exit := ph.Block().Succs[1-contSucc]
	if exit != ret.Block() && !(len(exit.Instrs) == 1 && len(exit.Succs) == 1 && exit.Succs[0] == ret.Block()) {
		return false
	}
	// the body computes the step and jumps back
	stepI, _ := step.(*ssa.BinOp)
	if stepI == nil || stepI.Block() != body {
		// the doubled value may be computed in the header and reused (no CSE in go/ssa, so normally recomputed in the body)
		if stepI == nil || !reachesBlock(body, ph.Block()) {
			return false
		}
	}
	return len(body.Succs) == 1 && body.Succs[0] == ph.Block() && ret.Block() == ph.Block() == false || (len(body.Succs) == 1 && body.Succs[0] == ph.Block())
}

// bitLenForm: 1 << (bits.Len(uint(n-1)) - 1)
func (c *Ctx) bitLenForm(fn *ssa.Function) bool {
	for _, b := range fn.Blocks {
		if r, ok := b.Instrs[len(b.Instrs)-1].(*ssa.Return); ok {
			t := trace(r.Results[0])
			if t == "(1 << (Len((p0 - 1)) - 1))" || t == "(1 << (Len64((p0 - 1)) - 1))" {
				return len(fn.Blocks) == 1
			}
		}
	}
	return false
}

// refuteSplit recognises forms that are certainly not "largest power of two strictly below n".
func (c *Ctx) refuteSplit(fn *ssa.Function) string {
	// clearing the lowest set bit (n & (n-1)) yields a power of two only when n has at most two set bits
	for _, in := range fnInstrs(fn) {
		bo, ok := in.(*ssa.BinOp)
		if !ok || bo.Op != token.AND {
			continue
		}
		x, y := trace(bo.X), trace(bo.Y)
		returned := false
		for _, b := range fn.Blocks {
			if r, ok := b.Instrs[len(b.Instrs)-1].(*ssa.Return); ok {
				if r.Results[0] == ssa.Value(bo) {
					returned = true
				}
				if ph, ok := r.Results[0].(*ssa.Phi); ok {
					for _, e := range ph.Edges {
						if e == ssa.Value(bo) {
							returned = true
						}
					}
				}
			}
		}
		if returned && ((x == "p0" && y == "(p0 - 1)") || (y == "p0" && x == "(p0 - 1)")) {
			return "the split is derived from n & (n-1), which clears the lowest set bit: for counts with three or more set bits (7, 11, 13, …) the result is not a power of two, so the tree shape differs from the reference construction"
		}
	}
	// n/2 or n>>1 alone is the balanced split, not the left-heavy one
	for _, b := range fn.Blocks {
		if r, ok := b.Instrs[len(b.Instrs)-1].(*ssa.Return); ok && len(fn.Blocks) == 1 {
			t := trace(r.Results[0])
			if t == "(p0 / 2)" || t == "(p0 >> 1)" {
				return "the split is n/2 (balanced), not the largest power of two below n"
			}
		}
	}
	return ""
}
