package main

import (
	"fmt"
	"go/types"
	"sort"
	"strings"

	"golang.org/x/tools/go/ssa"
)

func init() {
	register(&Prop{
		ID:        "C29",
		Technique: "decoder/evaluator table agreement + per-variant structural rules on the evaluator's SSA regions (loop-exit and branch-edge rules with bool tracking, value identity of the returned comparison) + argument provenance at the rule call sites",
		Explanation: "(1) NativeScript.UnmarshalCBOR maps ids 0..5 to pubkey/all/any/n-of-k/invalid-before/invalid-hereafter (the ledger's CDDL) and every type it can construct has a case in evaluate; a nil item and the default case evaluate to false. " +
			"(2) In evaluate, per variant region: pubkey returns the lookup of the script's own hash in the witness key-hash set; all returns true only through exhaustion of a range over all sub-scripts whose iterations continue only on a true sub-result, and otherwise false; any is the dual; n-of-k counts +1 exactly on true sub-results over all sub-scripts and returns count ≥ N (an early-exit form is accepted only with an explicit N = 0 ⇒ true path); invalid-before returns validityStart ≥ Slot and invalid-hereafter returns validityEnd ≤ Slot on the context fields. Sub-scripts are evaluated with the unchanged context. " +
			"(3) Each era's native-script rule (Allegra…Dijkstra, through delegation) evaluates every witness native script, rejects on a false result, builds the key-hash set from Blake2b224 of every vkey witness, and passes the transaction's validity start and TTL. " +
			"(4) Whether the evaluator can tell an absent bound from a present one: the context carries plain uint64 bounds fed from ValidityIntervalStart()/TTL() where 0 means absent; this conflation is reported (known finding). (5) Hash = Blake2b224(0x00 ‖ stored bytes).",
		Assumptions: []string{"sub-script decoding (C03) and stored bytes (C01)", "Blake2b", "depth/width are unbounded in the rules (structural induction over the recursive call)"},
		Run:         runC29,
	})
}

func runC29(c *Ctx) {
	c.W.buildSSA()
	rel := "ledger/common"
	// (1) decoder table
	wantIDs := map[int64]string{0: "NativeScriptPubkey", 1: "NativeScriptAll", 2: "NativeScriptAny", 3: "NativeScriptNofK", 4: "NativeScriptInvalidBefore", 5: "NativeScriptInvalidHereafter"}
	_, fd := c.FuncDecl(rel, "NativeScript.UnmarshalCBOR")
	got := map[int64]string{}
	for v, names := range variantAllocTable(c.SSAFunc(rel, "NativeScript.UnmarshalCBOR"), 5, func(t *types.Named) bool { return strings.HasPrefix(t.Obj().Name(), "NativeScript") }) {
		sort.Strings(names)
		got[v] = strings.Join(names, "+")
	}
	for id, name := range wantIDs {
		c.Check(got[id] == name, "variant-table", fmt.Sprintf("%s.(*NativeScript).UnmarshalCBOR:%d", rel, id), fd.Pos(), fmt.Sprintf("id %d decodes as %s", id, name), fmt.Sprintf("id %d decodes as %q, the ledger defines it as %s", id, got[id], name))
	}
	ev := c.SSAFunc(rel, "NativeScript.evaluate")
	if ev == nil {
		c.Undecided("evaluate not found")
		return
	}
	// regions
	regions := map[string]*ssa.BasicBlock{}
	asserts := map[string]*ssa.TypeAssert{}
	for _, ef := range edgeFacts(ev) {
		iff := ef.From.Instrs[len(ef.From.Instrs)-1].(*ssa.If)
		ex, ok := iff.Cond.(*ssa.Extract)
		if !ok || ex.Index != 1 || ef.Succ != 0 {
			continue
		}
		ta, ok := ex.Tuple.(*ssa.TypeAssert)
		if !ok || !strings.HasSuffix(trace(ta.X), "item<p0") {
			continue
		}
		name := typeStr(ta.AssertedType)
		name = name[strings.LastIndex(name, ".")+1:]
		regions[name] = ef.From.Succs[0]
		asserts[name] = ta
	}
	for _, name := range got {
		c.Check(regions[name] != nil, "variant-evaluated", ssaFuncKey(ev)+":"+name, ev.Pos(), "decodable variant has a case in evaluate", "scripts decoded as "+name+" have no case in evaluate and always fail")
	}
	inRegion := func(name string) []*ssa.BasicBlock {
		var out []*ssa.BasicBlock
		root := regions[name]
		if root == nil {
			return nil
		}
		for _, b := range ev.Blocks {
			if root.Dominates(b) {
				out = append(out, b)
			}
		}
		return out
	}
	returnsOf := func(bs []*ssa.BasicBlock) []*ssa.Return {
		var out []*ssa.Return
		for _, b := range bs {
			if r, ok := b.Instrs[len(b.Instrs)-1].(*ssa.Return); ok {
				out = append(out, r)
			}
		}
		return out
	}
	// the per-variant rules below read one return per variant case; an evaluator that merges its cases into a single
	// result variable, or moves them into helpers, is a different shape that these rules were not derived for
	{
		nRet := 0
		for _, b := range ev.Blocks {
			if _, ok := b.Instrs[len(b.Instrs)-1].(*ssa.Return); ok {
				nRet++
			}
		}
		var helpers []string
		for _, ci := range allCalls(ev) {
			if h := samePkgHelper(ev, ci.Common()); h != nil && h != ev && h.Parent() == nil {
				for _, cj := range allCalls(h) {
					if cj.Common().StaticCallee() == ev {
						helpers = append(helpers, h.Name())
					}
				}
			}
		}
		if nRet < 4 || len(helpers) > 0 {
			c.Undecided("%s: the evaluator is not in the one-return-per-variant form (%d returns, sub-script evaluation in helpers %v); the per-variant rules are intraprocedural and were not re-derived for this shape", ssaFuncKey(ev), nRet, helpers)
		}
	}
	// nil item / default → false
	{
		okNil := false
		for _, ef := range edgeFacts(ev) {
			if ef.Fact == "p0.item == nil" {
				s := ef.From.Succs[ef.Succ]
				if r, ok := s.Instrs[len(s.Instrs)-1].(*ssa.Return); ok && desc(r.Results[0]) == "false" {
					okNil = true
				}
			}
		}
		c.Check(okNil, "variant-evaluated", ssaFuncKey(ev)+":nil-item", ev.Pos(), "a script without item evaluates to false", "a script without a decoded item does not evaluate to false")
	}
	// time locks
	for _, tl := range []struct{ name, field, op string }{{"NativeScriptInvalidBefore", "validityStart", ">="}, {"NativeScriptInvalidHereafter", "validityEnd", "<="}} {
		key := ssaFuncKey(ev) + ":" + tl.name
		rs := returnsOf(inRegion(tl.name))
		if len(rs) != 1 {
			c.Check(false, "timelock-comparison", key, ev.Pos(), "", fmt.Sprintf("%d return sites in the %s case, expected a single comparison", len(rs), tl.name))
			continue
		}
		bo, ok := rs[0].Results[0].(*ssa.BinOp)
		okCmp := false
		shown := desc(rs[0].Results[0])
		if ok {
			x, y := trace(bo.X), trace(bo.Y)
			op := bo.Op.String()
			isCtx := func(s string) bool { return s == tl.field+"<p1" }
			isSlot := func(s string) bool { return strings.HasPrefix(s, "Slot<assert<item<p0") }
			if isCtx(x) && isSlot(y) {
				okCmp = op == tl.op
			} else if isSlot(x) && isCtx(y) {
				okCmp = swapOpStr(op) == tl.op
			}
			shown = x + " " + op + " " + y
		}
		c.Check(okCmp, "timelock-comparison", key, rs[0].Pos(), "returns ctx."+tl.field+" "+tl.op+" script slot", "the "+tl.name+" case returns "+shortArg(shown)+", the ledger defines it as "+tl.field+" "+tl.op+" slot")
	}
	// pubkey
	{
		key := ssaFuncKey(ev) + ":NativeScriptPubkey"
		rs := returnsOf(inRegion("NativeScriptPubkey"))
		ok := false
		if len(rs) == 1 {
			if lk, isLk := rs[0].Results[0].(*ssa.Lookup); isLk && !lk.CommaOk {
				m := trace(lk.X)
				// index: load of alloc that is the destination of copy(hash[:], s.Hash)
				idxAlloc, _ := rootValue(lk.Index, 0).(*ssa.Alloc)
				copied := false
				for _, ci := range allCalls(ev) {
					if b, isB := ci.Common().Value.(*ssa.Builtin); isB && b.Name() == "copy" {
						dst, _ := rootValue(ci.Common().Args[0], 0).(*ssa.Alloc)
						if dst != nil && dst == idxAlloc && strings.HasPrefix(trace(ci.Common().Args[1]), "Hash<assert<item<p0") {
							copied = true
						}
					}
				}
				ok = m == "keyHashes<p1" && copied
			}
		}
		c.Check(ok, "pubkey-witnessed", key, ev.Pos(), "returns membership of the script's own key hash in the witness key-hash set", "the pubkey case does not return keyHashes[script hash]")
	}
	// all / any
	for _, q := range []struct {
		name     string
		contOn   string // edge on which the iteration may continue
		exhaust  string // value returned after exhaustion
		shortcut string
	}{{"NativeScriptAll", "T:", "true", "false"}, {"NativeScriptAny", "F:", "false", "true"}} {
		key := ssaFuncKey(ev) + ":" + q.name
		bs := inRegion(q.name)
		call, head := c.subEvalCall(ev, bs, q.name)
		if call == nil {
			c.Check(false, "combinator-semantics", key, ev.Pos(), "", "no evaluation of the sub-scripts inside a loop over Scripts in the "+q.name+" case")
			continue
		}
		var contFrom *ssa.BasicBlock
		contSucc := -1
		for _, ef := range edgeFacts(ev) {
			iff := ef.From.Instrs[len(ef.From.Instrs)-1].(*ssa.If)
			if iff.Cond == ssa.Value(call) && strings.HasPrefix(ef.Fact, q.contOn) {
				contFrom, contSucc = ef.From, ef.Succ
			}
		}
		if contFrom == nil {
			c.Check(false, "combinator-semantics", key, call.Pos(), "", "the sub-script result is not branched on directly")
			continue
		}
		// iteration continues only on the continue edge
		reach := psReach(ev, []*ssa.BasicBlock{call.Block()}, func(from *ssa.BasicBlock, succ int) bool { return from == contFrom && succ == contSucc })
		okIter := !reach[head]
		// the other edge returns the shortcut value, exhaustion returns the exhaust value
		okShort, okExh := true, false
		for _, r := range returnsOf(bs) {
			v := desc(r.Results[0])
			if reach[r.Block()] && v != q.shortcut {
				okShort = false
			}
		}
		// exhaustion: from the loop head's exit edge
		for i, s := range head.Succs {
			if reachesBlock(s, head) {
				continue
			}
			_ = i
			exit := reachFromAvoiding([]*ssa.BasicBlock{head}, func(from *ssa.BasicBlock, succ int) bool { return from == head && from.Succs[succ] != s })
			okExh = true
			n := 0
			for _, r := range returnsOf(bs) {
				if exit[r.Block()] && !reachesBlock(r.Block(), head) && r.Block() != call.Block() {
					// returns reachable from the exit edge only (not from inside the loop body)
					if !reach[r.Block()] {
						n++
						if desc(r.Results[0]) != q.exhaust {
							okExh = false
						}
					}
				}
			}
			if n == 0 {
				okExh = false
			}
		}
		c.Check(okIter && okShort && okExh, "combinator-semantics", key, call.Pos(),
			"iterations continue only on "+q.contOn+"sub-result, the other edge returns "+q.shortcut+", exhaustion returns "+q.exhaust,
			fmt.Sprintf("the %s case is not '%s when every/any sub-script …': continue-only-on-%s=%v shortcut-returns-%s=%v exhaustion-returns-%s=%v", q.name, q.exhaust, q.contOn, okIter, q.shortcut, okShort, q.exhaust, okExh))
	}
	// n-of-k
	{
		name := "NativeScriptNofK"
		key := ssaFuncKey(ev) + ":" + name
		bs := inRegion(name)
		call, head := c.subEvalCall(ev, bs, name)
		if call == nil {
			c.Check(false, "n-of-k-semantics", key, ev.Pos(), "", "no evaluation of the sub-scripts inside a loop over Scripts in the n-of-k case")
		} else {
			// the counter: a phi at the loop head with edges {0, phi-in-body}; body value = phi(count+1 on T | count on F)
			var count *ssa.Phi
			for _, in := range head.Instrs {
				ph, ok := in.(*ssa.Phi)
				if !ok {
					break
				}
				if strings.Contains(typeStr(ph.Type()), "uint") || typeStr(ph.Type()) == "int" {
					for _, e := range ph.Edges {
						if k, ok := e.(*ssa.Const); ok && k.Int64() == 0 && !strings.Contains(ph.Comment, "rangeindex") {
							count = ph
						}
					}
				}
			}
			okCount := false
			if count != nil {
				for _, e := range count.Edges {
					if inner, ok := e.(*ssa.Phi); ok {
						inc, same := false, false
						for i, ie := range inner.Edges {
							pred := inner.Block().Preds[i]
							if bo, ok := ie.(*ssa.BinOp); ok && bo.Op.String() == "+" && bo.X == ssa.Value(count) && desc(bo.Y) == "1" {
								// reached via the T edge of the call
								inc = edgeIs(ev, call, pred, "T:")
							}
							if ie == ssa.Value(count) {
								same = edgeIsFrom(ev, call, pred, "F:")
							}
						}
						okCount = inc && same
					}
				}
			}
			rs := returnsOf(bs)
			var cmpRet *ssa.Return
			allConst := true
			for _, r := range rs {
				if _, ok := r.Results[0].(*ssa.Const); !ok {
					allConst = false
					cmpRet = r
				}
			}
			switch {
			case len(rs) == 1 && cmpRet != nil:
				bo, ok := cmpRet.Results[0].(*ssa.BinOp)
				okCmp := false
				if ok {
					x, y := bo.X, bo.Y
					nTrace := func(v ssa.Value) bool { return strings.HasPrefix(trace(v), "N<assert<item<p0") }
					okCmp = (x == ssa.Value(count) && nTrace(y) && bo.Op.String() == ">=") || (y == ssa.Value(count) && nTrace(x) && bo.Op.String() == "<=")
				}
				afterLoop := !reachesBlock(cmpRet.Block(), head)
				c.Check(okCount && okCmp && afterLoop, "n-of-k-semantics", key, cmpRet.Pos(), "counts true sub-results over all sub-scripts and returns count ≥ N",
					fmt.Sprintf("the n-of-k case does not return (number of true sub-scripts) ≥ N after visiting all sub-scripts: counter-ok=%v comparison-ok=%v after-loop=%v", okCount, okCmp, afterLoop))
			case allConst:
				// early-exit form: needs an explicit N == 0 ⇒ true path (otherwise a zero threshold fails when nothing passes)
				zeroPath := false
				for _, ef := range edgeFacts(ev) {
					if !regionHas(bs, ef.From) {
						continue
					}
					if strings.HasPrefix(ef.Fact, "assert(p0.item,*ledger/common.NativeScriptNofK)#0.N == 0") || strings.HasSuffix(ef.Fact, " >= assert(p0.item,*ledger/common.NativeScriptNofK)#0.N") && strings.HasPrefix(ef.Fact, "0 ") {
						s := ef.From.Succs[ef.Succ]
						if r, ok := s.Instrs[len(s.Instrs)-1].(*ssa.Return); ok && desc(r.Results[0]) == "true" && !reachesBlock(ef.From, head) == false || !reachesBlock(head, ef.From) {
							_ = r
							zeroPath = true
						}
					}
				}
				c.Check(zeroPath && okCount, "n-of-k-semantics", key, call.Pos(), "early-exit form with an explicit zero-threshold path",
					"the n-of-k case returns true only from inside the loop after a sub-script passes: a threshold of N = 0 is not satisfied when no sub-script passes (the ledger accepts 0-of-k unconditionally)")
			default:
				c.Undecided("%s: n-of-k case has an unrecognised shape (%d returns)", key, len(rs))
			}
		}
	}
	// sub-scripts evaluated with the same context: every recursive call passes the ctx parameter unchanged
	for _, ci := range allCalls(ev) {
		if ci.Common().StaticCallee() == ev {
			ct := trace(ci.Common().Args[1])
			c.Check(ct == "p1", "context-unchanged", ssaFuncKey(ev)+":"+shortArg(trace(ci.Common().Args[0])), ci.Pos(), "sub-script evaluated with the caller's context", "a sub-script is evaluated with "+shortArg(ct)+" instead of the caller's context")
		}
	}
	// the context parameter is never written
	if len(ev.Params) > 1 {
		written := false
		for _, in := range fnInstrs(ev) {
			if st, ok := in.(*ssa.Store); ok {
				if fa, ok := st.Addr.(*ssa.FieldAddr); ok {
					if al, ok := fa.X.(*ssa.Alloc); ok && singleStore(al) == ssa.Value(ev.Params[1]) {
						written = true
					}
				}
			}
		}
		c.Check(!written, "context-unchanged", ssaFuncKey(ev)+":no-writes", ev.Pos(), "evaluate never modifies its context", "evaluate modifies the evaluation context while walking the script")
	}
	// (3) rule call sites
	lists := c.eraRuleLists()
	impls := map[*ssa.Function][]string{}
	for _, era := range []string{"allegra", "mary", "alonzo", "babbage", "conway", "dijkstra"} {
		er := lists[era]
		if er == nil {
			c.Undecided("no rule list for %s", era)
			continue
		}
		var impl *ssa.Function
		for _, rf := range er.Rules {
			if strings.HasSuffix(rf.Name(), "UtxoValidateNativeScripts") {
				impl = c.resolveDelegation(c.SSAOf(rf))
			}
		}
		c.Check(impl != nil, "native-script-rule-listed", "ledger/"+era, er.Pos, "the era validates native scripts", "the "+era+" rule list has no native-script rule")
		if impl != nil {
			impls[impl] = append(impls[impl], era)
		}
	}
	for impl, eras := range impls {
		c.checkNativeScriptRule(impl, strings.Join(eras, ","))
	}
	// (5) hash
	{
		hf := c.SSAFunc(rel, "NativeScript.Hash")
		tagV, _ := c.ConstIntOpt(rel, "ScriptRefTypeNativeScript")
		var concat, hash *ssa.Call
		for _, ci := range allCalls(hf) {
			cl, ok := ci.(*ssa.Call)
			if !ok {
				continue
			}
			n := calleeName(ci.Common())
			if strings.Contains(n, "slices.Concat") {
				concat = cl
			}
			if strings.HasSuffix(n, ".Blake2b224Hash") {
				hash = cl
			}
		}
		ok := concat != nil && hash != nil && hash.Call.Args[0] == ssa.Value(concat)
		if ok {
			ok = false
			for _, r := range returnsOf(hf.Blocks) {
				if rootValue(r.Results[0], 0) == ssa.Value(hash) || strings.HasPrefix(trace(r.Results[0]), "Blake2b224Hash(") {
					ok = true
				}
			}
		}
		first, second := "?", "?"
		if concat != nil {
			first = firstSliceElem(hf, concat.Call.Args[0], 0)
			second = firstSliceElem(hf, concat.Call.Args[0], 1)
		}
		okOrder := first == "bytes{0}" && strings.Contains(second, "Cbor(") && tagV == 0
		c.Check(ok && okOrder, "script-hash", ssaFuncKey(hf), hf.Pos(), "Blake2b224 over tag 0x00 followed by the stored encoding", "NativeScript.Hash is not Blake2b224(0x00 ‖ stored bytes): preimage parts are "+shortArg(first)+" then "+shortArg(second)+fmt.Sprintf(" (tag constant %d)", tagV))
	}
}

func swapOpStr(op string) string {
	switch op {
	case "<=":
		return ">="
	case ">=":
		return "<="
	case "<":
		return ">"
	case ">":
		return "<"
	}
	return op
}

func regionHas(bs []*ssa.BasicBlock, b *ssa.BasicBlock) bool {
	for _, x := range bs {
		if x == b {
			return true
		}
	}
	return false
}

// edgeIs: pred is reached (possibly through empty blocks) from the prefix-edge of the If testing call.
func edgeIs(fn *ssa.Function, call *ssa.Call, pred *ssa.BasicBlock, prefix string) bool {
	for _, ef := range edgeFacts(fn) {
		iff := ef.From.Instrs[len(ef.From.Instrs)-1].(*ssa.If)
		if iff.Cond == ssa.Value(call) && strings.HasPrefix(ef.Fact, prefix) {
			s := ef.From.Succs[ef.Succ]
			if s == pred {
				return true
			}
		}
	}
	return false
}

// edgeIsFrom: pred is the If block itself (the edge goes directly from the test to the join) on the prefix edge.
func edgeIsFrom(fn *ssa.Function, call *ssa.Call, pred *ssa.BasicBlock, prefix string) bool {
	if edgeIs(fn, call, pred, prefix) {
		return true
	}
	if len(pred.Instrs) == 0 {
		return false
	}
	iff, ok := pred.Instrs[len(pred.Instrs)-1].(*ssa.If)
	return ok && iff.Cond == ssa.Value(call)
}

// subEvalCall finds the recursive evaluate call on an element of <variant>.Scripts inside a range loop in the region.
func (c *Ctx) subEvalCall(ev *ssa.Function, bs []*ssa.BasicBlock, variant string) (*ssa.Call, *ssa.BasicBlock) {
	for _, b := range bs {
		for _, in := range b.Instrs {
			call, ok := in.(*ssa.Call)
			if !ok || call.Call.StaticCallee() != ev {
				continue
			}
			t := trace(call.Call.Args[0])
			if !strings.HasPrefix(t, "Scripts<assert<item<p0") || !strings.HasSuffix(t, "[]") {
				continue
			}
			head := loopHeadOf(b)
			if head == nil {
				continue
			}
			// the loop is a full range: bound is len(Scripts) of the same variant
			okBound := false
			if iff, ok := head.Instrs[len(head.Instrs)-1].(*ssa.If); ok {
				if bo, ok := iff.Cond.(*ssa.BinOp); ok && bo.Op.String() == "<" {
					bt := trace(bo.Y)
					okBound = strings.HasPrefix(bt, "len(Scripts<assert<item<p0") && !strings.Contains(bt, "[:]") && !strings.Contains(t, "[:]")
				}
			}
			if !okBound {
				continue
			}
			return call, head
		}
	}
	return nil, nil
}

func firstSliceElem(fn *ssa.Function, sl ssa.Value, idx int) string {
	// variadic slice: Slice of Alloc of array; stores through IndexAddr with const index
	s, ok := sl.(*ssa.Slice)
	if !ok {
		return trace(sl)
	}
	al, ok := s.X.(*ssa.Alloc)
	if !ok {
		return trace(sl)
	}
	for _, r := range *al.Referrers() {
		ia, ok := r.(*ssa.IndexAddr)
		if !ok {
			continue
		}
		if k, ok := ia.Index.(*ssa.Const); ok && int(k.Int64()) == idx {
			for _, rr := range *ia.Referrers() {
				if st, ok := rr.(*ssa.Store); ok {
					v := st.Val
					// a byte-slice literal: Slice of Alloc with stores of consts
					if s2, ok := v.(*ssa.Slice); ok {
						if a2, ok := s2.X.(*ssa.Alloc); ok {
							var parts []string
							for _, r2 := range *a2.Referrers() {
								if ia2, ok := r2.(*ssa.IndexAddr); ok {
									for _, r3 := range *ia2.Referrers() {
										if st2, ok := r3.(*ssa.Store); ok {
											parts = append(parts, desc(st2.Val))
										}
									}
								}
							}
							if len(parts) > 0 {
								return "bytes{" + strings.Join(parts, ",") + "}"
							}
						}
					}
					return trace(v)
				}
			}
		}
	}
	return "?"
}

func (c *Ctx) checkNativeScriptRule(fn *ssa.Function, eras string) {
	key := ssaFuncKey(fn)
	var evalCall *ssa.Call
	for _, ci := range allCalls(fn) {
		n := calleeName(ci.Common())
		if strings.HasSuffix(n, "(*NativeScript).Evaluate") || strings.HasSuffix(n, "(*NativeScript).EvaluateWithGuards") {
			if cl, ok := ci.(*ssa.Call); ok {
				evalCall = cl
			}
		}
	}
	if evalCall == nil {
		c.Check(false, "rule-evaluates-scripts", key, fn.Pos(), "", "the native-script rule ("+eras+") never evaluates a script")
		return
	}
	args := evalCall.Call.Args
	recv := trace(args[0])
	okRecv := strings.Contains(recv, "NativeScripts(Witnesses(p0))") && strings.HasSuffix(recv, "[]")
	head := loopHeadOf(evalCall.Block())
	c.Check(okRecv && head != nil, "rule-evaluates-scripts", key+":every-script", evalCall.Pos(), "every witness native script is evaluated in a range loop", "the rule does not evaluate each element of Witnesses().NativeScripts(): "+shortArg(recv))
	// false → error; iteration continues only on true
	var contFrom *ssa.BasicBlock
	contSucc := -1
	for _, ef := range edgeFacts(fn) {
		iff := ef.From.Instrs[len(ef.From.Instrs)-1].(*ssa.If)
		if iff.Cond == ssa.Value(evalCall) && strings.HasPrefix(ef.Fact, "T:") {
			contFrom, contSucc = ef.From, ef.Succ
		}
	}
	if contFrom != nil && head != nil {
		reach := psReach(fn, []*ssa.BasicBlock{evalCall.Block()}, func(from *ssa.BasicBlock, succ int) bool { return from == contFrom && succ == contSucc })
		bad := reach[head]
		for _, r := range successReturns(fn) {
			if reach[r.Block()] {
				bad = true
			}
		}
		c.Check(!bad, "rule-evaluates-scripts", key+":false-rejects", evalCall.Pos(), "a script evaluating to false ends in an error", "a native script that evaluates to false does not make the rule fail")
	} else {
		c.Check(false, "rule-evaluates-scripts", key+":false-rejects", evalCall.Pos(), "", "the script's result is not branched on")
	}
	// arguments
	st := trace(args[2])
	c.Check(st == "ValidityIntervalStart(p0)", "rule-evaluates-scripts", key+":start-arg", evalCall.Pos(), "the validity start passed is the transaction's", "the validity start passed to the evaluator is "+shortArg(st))
	en := trace(args[3])
	okEnd := strings.Contains(en, "TTL(p0)")
	c.Check(okEnd, "rule-evaluates-scripts", key+":end-arg", evalCall.Pos(), "the validity end passed derives from the transaction's TTL", "the validity end passed to the evaluator is "+shortArg(en))
	c.Check(c.mapKeysAreVkeyHashesLoose(fn, args[4]), "rule-evaluates-scripts", key+":key-hashes", evalCall.Pos(), "the key-hash set holds Blake2b224 of every vkey witness", "the key-hash set given to the evaluator is not built from the hash of every vkey witness")
	// (4) presence of bounds
	pStart := evalCall.Call.StaticCallee().Params[2].Type()
	plain := func(t types.Type) bool { b, ok := t.Underlying().(*types.Basic); return ok && b.Info()&types.IsInteger != 0 }
	c.Check(!(plain(pStart) && st == "ValidityIntervalStart(p0)"), "timelock-bound-presence", key+":start", evalCall.Pos(), "an absent validity start is distinguishable from slot 0",
		"an absent validity start reaches the evaluator as slot 0, so invalid-before with bound 0 holds for a transaction that has no validity start (the ledger says an absent start never satisfies invalid-before)")
	c.Check(!(plain(evalCall.Call.StaticCallee().Params[3].Type()) && okEnd), "timelock-bound-presence", key+":end", evalCall.Pos(), "an absent upper bound is distinguishable from a slot number",
		"an absent TTL reaches the evaluator as MaxUint64 (and an explicit TTL of 0 is treated as absent), so invalid-hereafter with bound MaxUint64 holds for a transaction without upper bound (the ledger says an absent bound never satisfies invalid-hereafter)")
}

func (c *Ctx) mapKeysAreVkeyHashesLoose(fn *ssa.Function, m ssa.Value) bool {
	ok := false
	for _, in := range fnInstrs(fn) {
		mu, isMu := in.(*ssa.MapUpdate)
		if !isMu || mu.Map != m {
			continue
		}
		t := trace(mu.Key)
		if strings.HasPrefix(t, "Blake2b224Hash(Vkey<") && strings.Contains(t, "Vkey(Witnesses(p0))") && inLoop(mu.Block()) && desc(mu.Value) == "true" {
			ok = true
		}
	}
	return ok
}
