package main

// E5: backward provenance of byte-slice values.

import (
	"strings"

	"golang.org/x/tools/go/ssa"
)

// origins returns the set of origin labels a byte value may derive from.
// Labels: "param:<i>", "stored:<desc>" (result of a Cbor()/Bytes() accessor on stored bytes), "raw:<desc>" (RawMessage / DecodeRaw / Skip slices),
// "encoded:<callee>", "nil", "const", "alloc", "free:<name>", "other:<desc>".
func origins(v ssa.Value) map[string]bool { return originsMode(v, false) }

// originsIP additionally looks through calls to repository functions: their result is what they return, with the
// parameters standing for the call's arguments.
func originsIP(v ssa.Value) map[string]bool { return originsMode(v, true) }

func originsMode(v ssa.Value, ip bool) map[string]bool {
	out := map[string]bool{}
	seen := map[ssa.Value]bool{}
	var walk func(v ssa.Value, d int)
	// walkHelper: the result of a call to a repository function with a body is whatever that function returns, with its
	// parameters standing for the call's arguments (depth-limited, no recursion into the same function)
	helperStack := map[*ssa.Function]bool{}
	var walkHelper func(call *ssa.Call, idx int, d int) bool
	walkHelper = func(call *ssa.Call, idx int, d int) bool {
		h := call.Call.StaticCallee()
		if cn := calleeName(&call.Call); strings.HasSuffix(cn, ".Cbor") || strings.HasSuffix(cn, ").Bytes") || strings.HasSuffix(cn, ").DecodeRaw") || strings.HasSuffix(cn, ").Skip") || strings.HasPrefix(cn, "cbor.Encode") || strings.HasSuffix(cn, ".MarshalCBOR") {
			return false // these have a fixed meaning (stored / raw / encoded bytes)
		}
		if !ip || h == nil || len(h.Blocks) == 0 || h.Pkg == nil || !strings.HasPrefix(h.Pkg.Pkg.Path(), "github.com/blinklabs-io/gouroboros") || helperStack[h] || len(helperStack) >= 3 {
			return false
		}
		helperStack[h] = true
		defer delete(helperStack, h)
		sub := map[string]bool{}
		n := 0
		for _, b := range h.Blocks {
			r, ok := b.Instrs[len(b.Instrs)-1].(*ssa.Return)
			if !ok || idx >= len(r.Results) {
				continue
			}
			n++
			for k := range originsMode(returnedValue(r, idx), true) {
				sub[k] = true
			}
		}
		if n == 0 {
			return false
		}
		for k := range sub {
			if strings.HasPrefix(k, "param:") {
				i := int(k[len("param:")] - '0')
				if i >= 0 && i < len(call.Call.Args) {
					walk(call.Call.Args[i], d+1)
					continue
				}
			}
			if k == "nil" {
				// an error path returning nil bytes adds nothing about where successful bytes come from
				continue
			}
			out[k] = true
		}
		return true
	}
	walk = func(v ssa.Value, d int) {
		if v == nil || seen[v] {
			return
		}
		seen[v] = true
		if d > 14 {
			out["other:deep"] = true
			return
		}
		switch x := v.(type) {
		case *ssa.Const:
			if x.IsNil() {
				out["nil"] = true
			} else {
				out["const"] = true
			}
		case *ssa.Parameter:
			for i, p := range x.Parent().Params {
				if p == x {
					out[paramLabel(i)] = true
				}
			}
		case *ssa.FreeVar:
			out["free:"+x.Name()] = true
		case *ssa.Slice:
			walk(x.X, d+1)
		case *ssa.Convert:
			walk(x.X, d+1)
		case *ssa.ChangeType:
			walk(x.X, d+1)
		case *ssa.MakeInterface:
			walk(x.X, d+1)
		case *ssa.Phi:
			for _, e := range x.Edges {
				walk(e, d+1)
			}
		case *ssa.Extract:
			if call, ok := x.Tuple.(*ssa.Call); ok && walkHelper(call, x.Index, d) {
				return
			}
			walk(x.Tuple, d+1)
		case *ssa.UnOp:
			// load
			switch a := x.X.(type) {
			case *ssa.Alloc:
				n := 0
				for _, u := range referrersOf(a) {
					if st, ok := u.(*ssa.Store); ok && st.Addr == a {
						n++
						walk(st.Val, d+1)
					}
				}
				if n == 0 {
					out["alloc"] = true
				}
			case *ssa.IndexAddr:
				// element of a slice: RawMessage elements are raw wire items
				ts := typeStr(a.X.Type())
				if strings.Contains(ts, "RawMessage") {
					out["raw:"+desc(a.X)] = true
				} else {
					walk(a.X, d+1)
				}
			case *ssa.FieldAddr:
				out["field:"+desc(a)] = true
			case *ssa.FreeVar:
				out["free:"+a.Name()] = true
			default:
				walk(x.X, d+1)
			}
		case *ssa.Index:
			walk(x.X, d+1)
		case *ssa.Lookup:
			walk(x.X, d+1)
		case *ssa.Call:
			cn := calleeName(&x.Call)
			switch {
			case strings.HasSuffix(cn, ".Cbor") || strings.HasSuffix(cn, "RawMessage).Bytes") || strings.HasSuffix(cn, "WrappedCbor).Bytes") || strings.HasSuffix(cn, "(ByteString).Bytes") || strings.HasSuffix(cn, "(*ByteString).Bytes"):
				out["stored:"+cn] = true
			case strings.HasSuffix(cn, ").DecodeRaw") || strings.HasSuffix(cn, ").Skip"):
				out["raw:"+cn] = true
			case cn == "cbor.Encode" || strings.HasPrefix(cn, "cbor.Encode") || strings.HasSuffix(cn, ".MarshalCBOR") || strings.HasSuffix(cn, "(*Buffer).Bytes") || strings.HasSuffix(cn, ".Marshal"):
				out["encoded:"+cn] = true
			case cn == "append" || cn == "slices.Concat" || cn == "bytes.Join":
				out["encoded:"+cn] = true
			case cn == "slices.Clone" || cn == "bytes.Clone":
				walk(x.Call.Args[0], d+1)
			default:
				if walkHelper(x, 0, d) {
					return
				}
				out["call:"+cn] = true
			}
		case *ssa.Alloc:
			out["alloc"] = true
		case *ssa.MakeSlice:
			out["make"] = true
		default:
			out["other:"+desc(v)] = true
		}
	}
	walk(v, 0)
	return out
}

func paramLabel(i int) string { return "param:" + string(rune('0'+i)) }

func originList(m map[string]bool) string {
	return strings.Join(sortedKeys(m), ",")
}
