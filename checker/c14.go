package main

import (
	"go/token"
	"fmt"
	"strings"

	"golang.org/x/tools/go/ssa"
)

func init() {
	register(&Prop{
		ID:        "C14",
		Technique: "finite decision table (must-reach and may-reach) over setState's guards + timeout table extraction against spec constants",
		Explanation: "Structure only (timing itself is a schedule quantity): in stateLoop's setState closure the call that arms the state timer is analysed over the finite valuation space (agency ∈ {None,Client,Server}, role ∈ {None,Client,Server}, first-call flag, timeout>0): it must be reached on *every* path when agency≠None ∧ role≠None ∧ not the first (initial) call ∧ timeout>0, and be unreachable otherwise; " +
			"the first-call flag is a one-shot variable set after the initial setState; the previous timer is cleared before the state is stored on every entry; the armed duration is the entry's Timeout or TimeoutFunc() of the *new* state; the timer case of stateLoop calls SendError; only stateLoop/setState write the timer. " +
			"Table clause: the extracted NtN state maps carry the network spec's per-state timeouts (chain-sync 3673s/10s/10s/135–269s, block-fetch 60s/60s, tx-submission 10s/10s, keep-alive 97s/60s, peer-sharing 60s, handshake 10s/10s) and NtC maps carry none.",
		Assumptions: []string{"time.Timer fires after its duration (runtime contract)", "that a timeout error 'is reported exactly when the peer stalls' in wall-clock terms is not decided; only the arming/clearing structure is"},
		Run:         runC14,
	})
}

func runC14(c *Ctx) {
	sl := c.SSAFunc("protocol", "Protocol.stateLoop")
	var setState, getTimer *ssa.Function
	for _, a := range sl.AnonFuncs {
		for _, ci := range allCalls(a) {
			if calleeName(ci.Common()) == "time.NewTimer" {
				setState = a
			}
		}
	}
	if setState == nil {
		c.Bad("timer-armed", "protocol.(*Protocol).stateLoop", sl.Pos(), "no closure of stateLoop arms a time.Timer: state timeouts never fire")
		return
	}
	key := ssaFuncKey(setState)
	var newTimer ssa.CallInstruction
	for _, ci := range allCalls(setState) {
		if calleeName(ci.Common()) == "time.NewTimer" {
			newTimer = ci
		}
	}
	// discover atoms
	var agencyAtom, roleAtom, toAtom string
	agencyAtom, roleAtom = atomComparedWithConst(setState, ".Agency"), atomComparedWithConst(setState, ".config.Role")
	for _, ef := range edgeFacts(setState) {
		if strings.HasSuffix(ef.Fact, " > 0") && strings.Contains(ef.Fact, ".Timeout") {
			toAtom = strings.TrimSuffix(ef.Fact, " > 0")
		}
	}
	// the branching may sit in helpers of setState: the agency is then the argument that carries StateMap[s].Agency,
	// the role is the helper's receiver's config.Role, and the timeout is whatever time.Duration is compared with 0
	for _, ci := range allCalls(setState) {
		h := samePkgHelper(setState, ci.Common())
		if h == nil {
			continue
		}
		for _, a := range ci.Common().Args {
			if d := desc(a); agencyAtom == "" && strings.HasSuffix(d, ".Agency") {
				agencyAtom = d
			}
		}
		if roleAtom == "" && len(ci.Common().Args) > 0 {
			for _, ef := range edgeFacts(h) {
				if strings.HasPrefix(ef.Fact, "p0.config.Role == ") {
					roleAtom = desc(ci.Common().Args[0]) + ".config.Role"
				}
			}
		}
	}
	if toAtom == "" {
		for _, b := range setState.Blocks {
			iff, ok := b.Instrs[len(b.Instrs)-1].(*ssa.If)
			if !ok {
				continue
			}
			if bo, ok := iff.Cond.(*ssa.BinOp); ok && bo.Op == token.GTR && desc(bo.Y) == "0" && typeStr(bo.X.Type()) == "time.Duration" {
				toAtom = desc(bo.X)
			}
		}
	}
	// the one-shot flag: a bool allocated in stateLoop, bound into setState, stored true in stateLoop after the first setState call
	flagAtom := ""
	var flagAlloc *ssa.Alloc
	for _, b := range sl.Blocks {
		for _, in := range b.Instrs {
			mc, ok := in.(*ssa.MakeClosure)
			if !ok || mc.Fn != setState {
				continue
			}
			for i, bind := range mc.Bindings {
				al, ok := bind.(*ssa.Alloc)
				if !ok || typeStr(al.Type()) != "*bool" {
					continue
				}
				// stored true in stateLoop?
				for _, u := range referrersOf(al) {
					if st, ok := u.(*ssa.Store); ok && st.Addr == al && desc(st.Val) == "true" && st.Parent() == sl {
						flagAtom = "free:" + setState.FreeVars[i].Name()
						flagAlloc = al
					}
				}
			}
		}
	}
	if agencyAtom == "" || roleAtom == "" || toAtom == "" {
		c.Bad("timer-armed", key, newTimer.Pos(), "setState does not branch on agency, role and timeout>0 (atoms: %q %q %q)", agencyAtom, roleAtom, toAtom)
		return
	}
	if flagAtom == "" {
		c.Bad("initial-state-flag", key, newTimer.Pos(), "no one-shot 'initial state already set' flag (a bool set true by stateLoop after the first setState) guards the timer: either the initial state gets a timeout or a later return to that state never does")
		return
	}
	// the flag is set exactly once, after the first (non-loop) setState call, and never reset
	nTrue, nOther := 0, 0
	for _, f := range withAnon(sl) {
		for _, b := range f.Blocks {
			for _, in := range b.Instrs {
				st, ok := in.(*ssa.Store)
				if !ok {
					continue
				}
				isFlag := st.Addr == flagAlloc
				if fv, ok := st.Addr.(*ssa.FreeVar); ok && "free:"+fv.Name() == flagAtom {
					isFlag = true
				}
				if !isFlag {
					continue
				}
				if desc(st.Val) == "true" && f == sl && !inLoop(b) {
					nTrue++
				} else if desc(st.Val) != "false" || f != sl || inLoop(b) {
					nOther++
				}
			}
		}
	}
	c.Check(nTrue == 1 && nOther == 0, "initial-state-flag", key, newTimer.Pos(), "one-shot flag: set true once after the initial setState, never reset", fmt.Sprintf("the initial-state flag is not one-shot (true-stores outside the loop: %d, other writes: %d)", nTrue, nOther))

	// decision table
	mismatch := []string{}
	rows := 0
	for a := int64(0); a <= 2; a++ {
		for r := int64(0); r <= 2; r++ {
			for fl := int64(0); fl <= 1; fl++ {
				for to := int64(0); to <= 1; to++ {
					rows++
					val := map[string]int64{agencyAtom: a, roleAtom: r, flagAtom: fl, toAtom: to}
					want := a != 0 && r != 0 && fl == 1 && to == 1
					may := psReachVal(setState, []*ssa.BasicBlock{setState.Blocks[0]}, nil, val)[newTimer.Block()]
					// must: with the arming block removed, no return is reachable
					cutArm := func(from *ssa.BasicBlock, i int) bool { return from.Succs[i] == newTimer.Block() }
					r2 := psReachVal(setState, []*ssa.BasicBlock{setState.Blocks[0]}, cutArm, val)
					skip := false
					for _, b := range setState.Blocks {
						if _, isRet := b.Instrs[len(b.Instrs)-1].(*ssa.Return); isRet && r2[b] && b != newTimer.Block() {
							skip = true
						}
					}
					must := may && !skip
					if want && !must {
						mismatch = append(mismatch, fmt.Sprintf("(agency=%d role=%d later-call=%d timeout>0=%d): timer can be skipped", a, r, fl, to))
					}
					if !want && may {
						mismatch = append(mismatch, fmt.Sprintf("(agency=%d role=%d later-call=%d timeout>0=%d): timer armed", a, r, fl, to))
					}
				}
			}
		}
	}
	if len(mismatch) > 4 {
		mismatch = append(mismatch[:4], fmt.Sprintf("… %d rows", len(mismatch)))
	}
	c.Check(len(mismatch) == 0, "timer-armed", key, newTimer.Pos(), fmt.Sprintf("timer armed on all paths iff agency≠None ∧ role≠None ∧ not the initial call ∧ timeout>0 (%d valuations)", rows),
		"arming of the state timer deviates from the table: "+strings.Join(mismatch, "; "))
	// duration: entry.Timeout or entry.TimeoutFunc() of StateMap[new state]
	durD := desc(newTimer.Common().Args[0])
	okDur := strings.Contains(durD, ".Timeout") && strings.Contains(durD, ".TimeoutFunc()")
	if call, isCall := newTimer.Common().Args[0].(*ssa.Call); isCall && !okDur {
		// entry.effectiveTimeout(): a helper on the entry that yields TimeoutFunc() if set, else Timeout
		if h := samePkgHelper(setState, &call.Call); h != nil {
			var rs []string
			for _, hb := range h.Blocks {
				if hr, ok := hb.Instrs[len(hb.Instrs)-1].(*ssa.Return); ok && len(hr.Results) == 1 {
					rs = append(rs, desc(hr.Results[0]))
				}
			}
			j := strings.Join(rs, " | ")
			nilGuard := false
			for _, ef := range edgeFacts(h) {
				if strings.HasSuffix(ef.Fact, ".TimeoutFunc == nil") || strings.HasSuffix(ef.Fact, ".TimeoutFunc != nil") {
					nilGuard = true
				}
			}
			okDur = len(rs) == 2 && strings.Contains(j, ".Timeout") && strings.Contains(j, ".TimeoutFunc()") && nilGuard
			durD = "helper " + h.Name() + " returning " + j
		}
	}
	okSrc := false
	for _, b := range setState.Blocks {
		for _, in := range b.Instrs {
			if lk, ok := in.(*ssa.Lookup); ok && strings.HasSuffix(desc(lk.X), ".config.StateMap") && desc(lk.Index) == "p0" {
				okSrc = true
			}
		}
	}
	c.Check(okDur && okSrc, "timer-duration", key, newTimer.Pos(), "duration = TimeoutFunc() if set, else Timeout, of StateMap[new state]", "the timer duration is "+durD+" (state map of the new state read: "+fmt.Sprint(okSrc)+")")
	// previous timer cleared before the state store
	var clearStore, stateStore ssa.Instruction
	stopSeen := false
	for _, b := range setState.Blocks {
		for _, in := range b.Instrs {
			if st, ok := in.(*ssa.Store); ok {
				if fv, ok := st.Addr.(*ssa.FreeVar); ok && strings.HasPrefix(typeStr(fv.Type()), "**time.Timer") && isNilConst(st.Val) && clearStore == nil {
					clearStore = st
				}
				if fa, ok := st.Addr.(*ssa.FieldAddr); ok && fieldName(fa.X.Type(), fa.Field) == "currentState" {
					stateStore = st
				}
			}
		}
	}
	for _, f := range closureFuncs(setState, 2) {
		for _, ci := range allCalls(f) {
			if calleeName(ci.Common()) == "time.(*Timer).Stop" {
				stopSeen = true
			}
		}
	}
	c.Check(clearStore != nil && stateStore != nil && stopSeen && precedes(clearStore, stateStore), "timer-cleared", key, setState.Pos(), "previous timer stopped and cleared on every entry, before the new state is stored", "the previous state's timer is not stopped/cleared on every state change: a stale timeout can fire in a later state")
	// timer case reports
	for _, a := range sl.AnonFuncs {
		if a != setState {
			getTimer = a
		}
	}
	okCase := false
	// the select state that waits on the current timer: a closure returning nil | timer.C, the same written inline
	// (a nil channel variable set to timer.C when a timer is armed), or timer.C itself
	var isTimerChanValue func(v ssa.Value, d int) bool
	isTimerChanValue = func(v ssa.Value, d int) bool {
		if d > 3 {
			return false
		}
		if strings.HasPrefix(timerChanDesc(v), "time.Timer.C(") {
			return true
		}
		switch x := v.(type) {
		case *ssa.Phi:
			n := 0
			for _, e := range x.Edges {
				if isNilConst(e) {
					continue
				}
				if !isTimerChanValue(e, d+1) {
					return false
				}
				n++
			}
			return n > 0
		case *ssa.ChangeType:
			return isTimerChanValue(x.X, d+1)
		}
		return false
	}
	inlineTimerChan := false
	for _, in := range fnInstrs(sl) {
		sel, ok := in.(*ssa.Select)
		if !ok {
			continue
		}
		for _, st := range sel.States {
			if st.Send != nil || !isTimerChanValue(st.Chan, 0) {
				continue
			}
			want := "sel:<-" + desc(st.Chan)
			for _, ef := range edgeFacts(sl) {
				if ef.Fact != want {
					continue
				}
				inlineTimerChan = true
				blk := ef.From.Succs[ef.Succ]
				for _, in2 := range blk.Instrs {
					if ci, ok := in2.(ssa.CallInstruction); ok && calleeName(ci.Common()) == "protocol.(*Protocol).SendError" {
						okCase = true
					}
				}
			}
		}
	}
	if inlineTimerChan {
		c.Ok("timer-channel", "protocol.(*Protocol).stateLoop:inline", sl.Pos(), "select waits on the current timer's channel (nil when none)")
	}
	for _, ef := range edgeFacts(sl) {
		if getTimer != nil && strings.HasPrefix(ef.Fact, "sel:<-call:closure:"+ssaFuncKey(getTimer)) {
			blk := ef.From.Succs[ef.Succ]
			for _, in := range blk.Instrs {
				if ci, ok := in.(ssa.CallInstruction); ok && calleeName(ci.Common()) == "protocol.(*Protocol).SendError" {
					okCase = true
				}
			}
		}
	}
	c.Check(okCase, "timer-fires-error", "protocol.(*Protocol).stateLoop", sl.Pos(), "the timer case reports a timeout through SendError", "the state loop does not turn an expired state timer into SendError")
	if getTimer != nil {
		okGet := true
		for _, b := range getTimer.Blocks {
			if r, ok := b.Instrs[len(b.Instrs)-1].(*ssa.Return); ok {
				d := desc(r.Results[0])
				if d != "nil" && !strings.HasSuffix(d, ".C") {
					okGet = false
				}
			}
		}
		c.Check(okGet, "timer-channel", ssaFuncKey(getTimer), getTimer.Pos(), "select waits on the current timer's channel (nil when none)", "the select does not wait on the current state timer's channel")
	}
	c.checkTimeoutTable()
}

func (c *Ctx) checkTimeoutTable() {
	const s = int64(1e9)
	type exp struct{ ns int64 }
	want := map[string]map[string]int64{
		"protocol/chainsync.StateMapNtN":  {"Idle": 3673 * s, "CanAwait": 10 * s, "Intersect": 10 * s, "MustReply": -2, "Done": 0},
		"protocol/chainsync.StateMapNtC":  {"Idle": 0, "CanAwait": 0, "Intersect": 0, "MustReply": 0, "Done": 0},
		"protocol/blockfetch.StateMap":    {"Idle": 0, "Busy": 60 * s, "Streaming": 60 * s, "Done": 0},
		"protocol/txsubmission.StateMap":  {"Init": 0, "Idle": 0, "TxIdsBlocking": 0, "TxIdsNonBlocking": 10 * s, "Txs": 10 * s, "Done": 0},
		"protocol/keepalive.StateMap":     {"Client": 97 * s, "Server": 60 * s, "Done": 0},
		"protocol/peersharing.StateMap":   {"Idle": 0, "Busy": 60 * s, "Done": 0},
		"protocol/handshake.StateMapNtN":  {"Propose": 10 * s, "Confirm": 10 * s, "Done": 0},
		"protocol/handshake.StateMapNtC":  {"Propose": 0, "Confirm": 0, "Done": 0},
		"protocol/localtxsubmission.StateMap": {"*": 0},
		"protocol/localtxmonitor.StateMap":    {"*": 0},
		"protocol/localstatequery.StateMap":   {"*": 0},
	}
	sms := c.extractStateMachines()
	seen := map[string]bool{}
	for _, sm := range sms {
		w, ok := want[sm.Key()]
		if !ok {
			continue
		}
		seen[sm.Key()] = true
		for _, id := range sm.sortedIDs() {
			e := sm.Entries[id]
			exp, ok := w[e.StateName]
			if !ok {
				exp, ok = w["*"]
			}
			if !ok {
				c.Note("%s[%s]: no spec timeout recorded", sm.Key(), e.StateName)
				continue
			}
			k := fmt.Sprintf("%s[%s]", sm.Key(), e.StateName)
			switch {
			case exp == -2:
				// random timeout in [min,max): via TimeoutFunc with the spec'd bounds
				mn, ok1 := c.ConstIntOpt("protocol/chainsync", "MustReplyTimeoutMin")
				mx, ok2 := c.ConstIntOpt("protocol/chainsync", "MustReplyTimeoutMax")
				c.Check(e.TimeoutFunc != "" && ok1 && ok2 && mn == 135*s && mx == 269*s, "timeout-table", k, e.Pos, "random timeout drawn from [135s,269s) per spec", fmt.Sprintf("MustReply timeout is not the spec's random 135–269 s (func=%q min=%d max=%d)", e.TimeoutFunc, mn, mx))
			case e.TimeoutNs == -1:
				c.Bad("timeout-table", k, e.Pos, "timeout %s is not a constant", e.TimeoutExpr)
			default:
				c.Check(e.TimeoutNs == exp && (exp != 0 || e.TimeoutFunc == ""), "timeout-table", k, e.Pos, fmt.Sprintf("timeout %ds as in the network spec", exp/s),
					fmt.Sprintf("state timeout is %dns (func %q), the network specification says %dns", e.TimeoutNs, e.TimeoutFunc, exp))
			}
		}
	}
	for k := range want {
		if !seen[k] {
			c.Bad("timeout-table", k, 0, "state map %s not found", k)
		}
	}
	c.Floor("timeout-table", 40)
}
