package main

import (
	"fmt"
	"go/token"
	"strings"

	"golang.org/x/tools/go/ssa"
)

func init() {
	register(&Prop{
		ID:        "C38",
		Technique: "must-pass-through on the verifier's guard edges, typestate of the response scalar (which setter initialises the value used in the group equations), constant slice-bound table of the proof layout",
		Explanation: "Narrow guard clauses; cryptographic soundness is not decided. (1) VerifyAndHash returns an output only after: the public key decodes (SetBytes error nil), 8·Y ≠ identity (small-order rejection), verify returned no error and true; the output is ProofToHash of the same proof argument. " +
			"(2) verify: the response scalar used in s·B and s·H is the very object initialised by Scalar.SetCanonicalBytes on the 32 proof bytes s (no other setter touches it) and every use is dominated by that call's nil error, so a non-canonical s is rejected; the challenge is reduced from the 16 proof bytes c; the group terms are c·Y, s·B, s·H, c·Γ combined by subtraction; the result is ConstantTimeCompare(c bytes, hashPoints(H,Γ,U,V).Bytes()) == 1. " +
			"(3) decodeProofArrays: length must equal ProofSize = 80; Γ = pi[0:32], c = pi[32:48], s = pi[48:80].",
		Assumptions: []string{"filippo.io/edwards25519 and SHA-512", "bit-flip sensitivity follows from the hash/curve checks and is not enumerated"},
		Run:         runC38,
	})
}

func runC38(c *Ctx) {
	c.W.buildSSA()
	rel := "vrf"
	// (1)
	if fn := c.SSAFunc(rel, "VerifyAndHash"); fn != nil {
		key := ssaFuncKey(fn)
		rets := successReturns(fn)
		var out []ssa.Instruction
		for _, r := range rets {
			t := trace(r.(*ssa.Return).Results[0])
			if strings.HasPrefix(t, "ProofToHash(") {
				c.Check(t == "ProofToHash(p1)#0", "verify-and-hash", key+":output-of-same-proof", r.Pos(), "the output is derived from the verified proof", "the output returned is "+shortArg(t)+", not ProofToHash(proof)")
				out = append(out, r)
			} else {
				c.Bad("verify-and-hash", key+":return:"+shortArg(t), r.Pos(), "VerifyAndHash can return %s without error", shortArg(t))
			}
		}
		if len(out) == 0 {
			c.Bad("verify-and-hash", key, fn.Pos(), "VerifyAndHash never returns ProofToHash(proof)")
		}
		guards := []struct{ name, prefix, suffix string }{
			{"public-key-decodes", "call:filippo.io/edwards25519.(*Point).SetBytes(", ",p0)#1 == nil"},
			{"not-small-order", "call:filippo.io/edwards25519.(*Point).Equal(call:filippo.io/edwards25519.(*Point).MultByCofactor(", " != 1"},
			{"verify-no-error", "call:vrf.verify(", ",p1,p2)#1 == nil"},
			{"verify-true", "T:call:vrf.verify(", ",p1,p2)#0"},
		}
		for _, g := range guards {
			v := c.mustPass(fn, out, func(f string) bool { return strings.HasPrefix(f, g.prefix) && strings.HasSuffix(f, g.suffix) })
			ok, w := len(out) > 0, ""
			for _, x := range v {
				if !x.OK {
					ok, w = false, x.Witness
				}
			}
			c.Check(ok, "verify-and-hash", key+":"+g.name, fn.Pos(), "an output requires "+g.name, "VerifyAndHash can return an output without the check '"+g.name+"' ("+w+")")
		}
		// small order test is on 8·Y of the decoded key
		okSO := false
		for _, g := range closureFuncs(fn, 1) {
			for _, ci := range allCalls(g) {
				if strings.HasSuffix(calleeName(ci.Common()), "(*Point).MultByCofactor") {
					okSO = len(ci.Common().Args) == 2
				}
			}
		}
		c.Check(okSO, "verify-and-hash", key+":cofactor", fn.Pos(), "small order is tested by multiplying by the cofactor", "the small-order test does not multiply the key by the cofactor")
	} else {
		c.Undecided("vrf.VerifyAndHash not found")
	}
	// (2)
	fn := c.SSAFunc(rel, "verify")
	if fn == nil {
		c.Undecided("vrf.verify not found")
		return
	}
	key := ssaFuncKey(fn)
	var decode *ssa.Call
	for _, ci := range allCalls(fn) {
		if cal := ci.Common().StaticCallee(); cal != nil && cal.Name() == "decodeProofArrays" {
			decode, _ = ci.(*ssa.Call)
		}
	}
	if decode == nil {
		c.Bad("response-scalar-canonical", key, fn.Pos(), "verify does not decode the proof through decodeProofArrays")
		return
	}
	cArr := rootValue(decode.Call.Args[1], 0)
	sArr := rootValue(decode.Call.Args[2], 0)
	// scalar uses
	var sVals []ssa.Value
	for _, ci := range allCalls(fn) {
		n := calleeName(ci.Common())
		switch {
		case strings.HasSuffix(n, "(*Point).ScalarBaseMult"):
			sVals = append(sVals, ci.Common().Args[1])
		}
	}
	if len(sVals) != 1 {
		c.Bad("response-scalar-canonical", key+":base-mult", fn.Pos(), "verify has %d ScalarBaseMult calls, expected exactly one (s·B)", len(sVals))
		return
	}
	sVal := sVals[0]
	// setters on sVal
	var canon *ssa.Call
	others := []string{}
	for _, ci := range allCalls(fn) {
		cc := ci.Common()
		n := calleeName(cc)
		if !strings.Contains(n, "edwards25519.(*Scalar).Set") || len(cc.Args) == 0 || cc.Args[0] != sVal {
			continue
		}
		if strings.HasSuffix(n, ".SetCanonicalBytes") {
			canon, _ = ci.(*ssa.Call)
		} else {
			others = append(others, n[strings.LastIndex(n, ".")+1:])
		}
	}
	okCanon := canon != nil && len(others) == 0
	if okCanon {
		okCanon = rootValue(canon.Call.Args[1], 0) == sArr
		if sl, ok := canon.Call.Args[1].(*ssa.Slice); ok {
			okCanon = okCanon && sl.Low == nil && sl.High == nil
		}
	}
	det := "the response scalar is set by " + strings.Join(others, ",")
	if canon == nil && len(others) == 0 {
		det = "the response scalar is never decoded from the proof"
	}
	c.Check(okCanon, "response-scalar-canonical", key+":setter", fn.Pos(), "s is initialised only by SetCanonicalBytes on the proof's 32 s bytes", det+": a proof whose s is replaced by s+L (a different byte string) still verifies, so verification does not fail for a non-canonical response scalar")
	if canon != nil {
		// every use of s as an operand is dominated by the nil error of the canonical decode
		var uses []ssa.Instruction
		for _, ci := range allCalls(fn) {
			cc := ci.Common()
			if ci == ssa.CallInstruction(canon) {
				continue
			}
			for i, a := range cc.Args {
				if a == sVal && i > 0 {
					uses = append(uses, ci.(ssa.Instruction))
				}
			}
		}
		reach, _ := reachAvoiding(fn, func(from *ssa.BasicBlock, succ int) bool {
			iff, ok := from.Instrs[len(from.Instrs)-1].(*ssa.If)
			if !ok {
				return false
			}
			bo, ok := iff.Cond.(*ssa.BinOp)
			if !ok {
				return false
			}
			ex, ok := bo.X.(*ssa.Extract)
			if !ok || ex.Tuple != ssa.Value(canon) || ex.Index != 1 || !isNilConst(bo.Y) {
				return false
			}
			// cut the "== nil" edge
			return (bo.Op == token.EQL && succ == 0) || (bo.Op == token.NEQ && succ == 1)
		})
		okDom := len(uses) >= 2
		for _, u := range uses {
			if reach[u.Block()] {
				okDom = false
			}
		}
		c.Check(okDom, "response-scalar-canonical", key+":error-rejects", canon.Pos(), "s is used only after SetCanonicalBytes succeeded", "the response scalar is used although SetCanonicalBytes may have failed")
	}
	// group terms
	want := map[string]bool{}
	for _, ci := range allCalls(fn) {
		cc := ci.Common()
		n := calleeName(cc)
		if strings.HasSuffix(n, "(*Point).ScalarMult") && len(cc.Args) == 3 {
			sc, pt := cc.Args[1], trace(cc.Args[2])
			who := "?"
			switch {
			case sc == sVal:
				who = "s"
			default:
				// challenge: a scalar set by SetUniformBytes from the c bytes
				for _, cj := range allCalls(fn) {
					cn := calleeName(cj.Common())
					if strings.HasSuffix(cn, "(*Scalar).SetUniformBytes") && cj.Common().Args[0] == sc {
						who = "c"
					}
				}
				// or built by a helper that returns the scalar it set with SetUniformBytes
				if call, isCall := sc.(*ssa.Call); isCall {
					if h := samePkgHelper(fn, &call.Call); h != nil {
						for _, hb := range h.Blocks {
							hr, isR := hb.Instrs[len(hb.Instrs)-1].(*ssa.Return)
							if !isR || len(hr.Results) != 1 {
								continue
							}
							for _, cj := range allCalls(h) {
								if strings.HasSuffix(calleeName(cj.Common()), "(*Scalar).SetUniformBytes") && cj.Common().Args[0] == hr.Results[0] {
									who = "c"
								}
							}
						}
					}
				}
			}
			switch {
			case pt == "p0":
				want[who+"·Y"] = true
			case strings.HasPrefix(pt, "hashToCurveElligator2(p0,p2)#0"):
				want[who+"·H"] = true
			case strings.HasPrefix(pt, "decodeProofArrays(p1,"):
				want[who+"·Γ"] = true
			default:
				want[who+"·"+shortArg(pt)] = true
			}
		}
	}
	for _, t := range []string{"c·Y", "s·H", "c·Γ"} {
		c.Check(want[t], "group-equations", key+":"+t, fn.Pos(), "term "+t+" is computed", fmt.Sprintf("the verification equations lack the term %s (found %v)", t, sortedKeys(want)))
	}
	c.Check(len(want) == 3, "group-equations", key+":only-these", fn.Pos(), "exactly the terms c·Y, s·H, c·Γ (and s·B)", fmt.Sprintf("unexpected scalar multiplications: %v", sortedKeys(want)))
	// challenge bytes: copied from cArr
	okC := false
	for _, ci := range allCalls(fn) {
		if b, ok := ci.Common().Value.(*ssa.Builtin); ok && b.Name() == "copy" && rootValue(ci.Common().Args[1], 0) == cArr {
			okC = true
		}
	}
	// or copied inside a helper that receives the c array
	for _, ci := range allCalls(fn) {
		h := samePkgHelper(fn, ci.Common())
		if h == nil {
			continue
		}
		for i, a := range ci.Common().Args {
			if rootValue(a, 0) != cArr || i >= len(h.Params) {
				continue
			}
			for _, cj := range allCalls(h) {
				if b, ok := cj.Common().Value.(*ssa.Builtin); ok && b.Name() == "copy" && rootValue(cj.Common().Args[1], 0) == ssa.Value(h.Params[i]) {
					okC = true
				}
			}
		}
	}
	c.Check(okC, "group-equations", key+":challenge-from-proof", fn.Pos(), "the challenge scalar is built from the proof's c bytes", "the challenge scalar is not derived from the proof's c bytes")
	// final comparison
	for _, b := range fn.Blocks {
		r, ok := b.Instrs[len(b.Instrs)-1].(*ssa.Return)
		if !ok || !isNilConst(returnedValue(r, 1)) {
			continue
		}
		bo, isBo := r.Results[0].(*ssa.BinOp)
		okFinal := false
		shown := trace(r.Results[0])
		if isBo && bo.Op == token.EQL && desc(bo.Y) == "1" {
			if call, isCall := bo.X.(*ssa.Call); isCall && calleeName(&call.Call) == "crypto/subtle.ConstantTimeCompare" {
				a0, a1 := call.Call.Args[0], call.Call.Args[1]
				t1 := trace(a1)
				okFinal = rootValue(a0, 0) == cArr && strings.HasPrefix(t1, "Bytes(hashPoints(hashToCurveElligator2(p0,p2)#0,decodeProofArrays(p1,")
				if !okFinal {
					t0 := trace(a0)
					okFinal = rootValue(a1, 0) == cArr && strings.HasPrefix(t0, "Bytes(hashPoints(")
				}
			}
		}
		c.Check(okFinal, "challenge-recomputed", key, r.Pos(), "accepts ⇔ the proof's c equals hashPoints(H, Γ, U, V) in constant time", "verify's result is "+shortArg(shown)+", not ConstantTimeCompare(c, hashPoints(H,Γ,U,V).Bytes()) == 1")
	}
	// (3) proof layout
	if dp := c.SSAFunc(rel, "decodeProofArrays"); dp != nil {
		dk := ssaFuncKey(dp)
		ps, _ := c.ConstIntOpt(rel, "ProofSize")
		c.Check(ps == 80, "proof-layout", rel+".ProofSize", token.NoPos, "80 bytes", fmt.Sprintf("ProofSize is %d", ps))
		okLen := false
		for _, ef := range edgeFacts(dp) {
			if ef.Fact == fmt.Sprintf("len(p0) != %d", ps) {
				s := ef.From.Succs[ef.Succ]
				if r, ok := s.Instrs[len(s.Instrs)-1].(*ssa.Return); ok && !isNilConst(returnedValue(r, 1)) {
					okLen = true
				}
			}
		}
		c.Check(okLen, "proof-layout", dk+":length", dp.Pos(), "a proof of another length is rejected", "decodeProofArrays does not reject proofs whose length differs from ProofSize")
		bounds := map[string]string{}
		for _, in := range fnInstrs(dp) {
			sl, ok := in.(*ssa.Slice)
			if !ok || trace(sl.X) != "p0" {
				continue
			}
			lo, hi := "0", "len"
			if sl.Low != nil {
				lo = desc(sl.Low)
			}
			if sl.High != nil {
				hi = desc(sl.High)
			}
			// who consumes it
			for _, r := range *sl.Referrers() {
				if ci, ok := r.(ssa.CallInstruction); ok {
					n := calleeName(ci.Common())
					switch {
					case strings.HasSuffix(n, "(*Point).SetBytes"):
						bounds["gamma"] = lo + ":" + hi
					case n == "copy":
						dst := trace(ci.Common().Args[0])
						if strings.HasPrefix(dst, "p1") {
							bounds["c"] = lo + ":" + hi
						} else if strings.HasPrefix(dst, "p2") {
							bounds["s"] = lo + ":" + hi
						}
					}
				}
			}
		}
		for part, want := range map[string]string{"gamma": "0:32", "c": "32:48", "s": "48:80"} {
			c.Check(bounds[part] == want, "proof-layout", dk+":"+part, dp.Pos(), part+" = pi["+want+"]", fmt.Sprintf("%s is read from pi[%s], the proof layout is pi[%s]", part, bounds[part], want))
		}
	}
}
