package main

// Mutable *big.Int objects: alias classes, and the operations applied to an object before a program point.

import (
	"strings"

	"golang.org/x/tools/go/ssa"
)

var bigMutators = map[string]bool{"Add": true, "Sub": true, "Mul": true, "Div": true, "Quo": true, "Rsh": true, "Lsh": true, "Mod": true, "Rem": true, "DivMod": true, "QuoRem": true,
	"Set": true, "SetUint64": true, "SetInt64": true, "SetBytes": true, "SetString": true, "Neg": true, "Abs": true, "Exp": true, "Sqrt": true, "And": true, "Or": true, "Xor": true, "Not": true, "SetBit": true}

var bigDivision = map[string]bool{"Div": true, "Quo": true, "Rsh": true, "Mod": true, "Rem": true, "DivMod": true, "QuoRem": true, "Sqrt": true}

func bigMethod(cc *ssa.CallCommon) string {
	cn := calleeName(cc)
	if strings.HasPrefix(cn, "math/big.(*Int).") {
		return strings.TrimPrefix(cn, "math/big.(*Int).")
	}
	return ""
}

type bigObjs struct {
	fn     *ssa.Function
	parent map[ssa.Value]ssa.Value
}

func newBigObjs(fn *ssa.Function) *bigObjs {
	b := &bigObjs{fn: fn, parent: map[ssa.Value]ssa.Value{}}
	for _, ci := range allCalls(fn) {
		m := bigMethod(ci.Common())
		if m != "" && bigMutators[m] && ci.Value() != nil && len(ci.Common().Args) > 0 {
			b.union(ci.Value(), ci.Common().Args[0])
		}
	}
	// phis and loads of local pointer variables alias too
	for _, blk := range fn.Blocks {
		for _, in := range blk.Instrs {
			switch x := in.(type) {
			case *ssa.Phi:
				if strings.HasSuffix(typeStr(x.Type()), "big.Int") {
					for _, e := range x.Edges {
						if !isNilConst(e) {
							b.union(x, e)
						}
					}
				}
			}
		}
	}
	return b
}

func (b *bigObjs) find(v ssa.Value) ssa.Value {
	for {
		p, ok := b.parent[v]
		if !ok || p == v {
			return v
		}
		v = p
	}
}

func (b *bigObjs) union(x, y ssa.Value) {
	rx, ry := b.find(x), b.find(y)
	if rx != ry {
		b.parent[rx] = ry
	}
}

// opsBefore returns the mutating calls on the object of v from which `at` is reachable (or that precede it in its block).
func (b *bigObjs) opsBefore(v ssa.Value, at ssa.Instruction) []ssa.CallInstruction {
	root := b.find(v)
	var out []ssa.CallInstruction
	for _, ci := range allCalls(b.fn) {
		m := bigMethod(ci.Common())
		if m == "" || !bigMutators[m] || len(ci.Common().Args) == 0 {
			continue
		}
		if b.find(ci.Common().Args[0]) != root {
			continue
		}
		in := ci.(ssa.Instruction)
		if in == at || reachesInstr(in, at) {
			out = append(out, ci)
		}
	}
	return out
}

// leavesBefore: descriptions of the non-object inputs that flow into the object of v before `at`, and whether a division is involved.
func (b *bigObjs) leavesBefore(v ssa.Value, at ssa.Instruction) (leaves map[string]bool, division string) {
	leaves = map[string]bool{}
	seen := map[ssa.Value]bool{}
	var walk func(v ssa.Value, d int)
	walk = func(v ssa.Value, d int) {
		root := b.find(v)
		if seen[root] || d > 8 {
			return
		}
		seen[root] = true
		ops := b.opsBefore(v, at)
		if len(ops) == 0 {
			leaves[desc(v)] = true
		}
		// members of the class that are not results of mutators are sources too (e.g. a call result like tx.Fee())
		for m := range b.parent {
			if b.find(m) == root {
				if c, ok := m.(*ssa.Call); ok && bigMethod(&c.Call) == "" {
					leaves[desc(m)] = true
				}
			}
		}
		if c, ok := root.(*ssa.Call); ok && bigMethod(&c.Call) == "" {
			leaves[desc(root)] = true
		}
		for _, ci := range ops {
			m := bigMethod(ci.Common())
			if bigDivision[m] && division == "" {
				division = m
			}
			for _, a := range ci.Common().Args[1:] {
				if strings.HasSuffix(typeStr(a.Type()), "big.Int") {
					walk(a, d+1)
				} else {
					leaves[desc(a)] = true
				}
			}
		}
	}
	walk(v, 0)
	return
}
