package main

import (
	"fmt"
	"go/token"
	"go/types"
	"strings"

	"golang.org/x/tools/go/ssa"
)

func init() {
	register(&Prop{
		ID:        "C45",
		Technique: "symbolic ≤-prover over SSA (dominating comparison facts, inductive treatment of loop accumulators, recognition of the cap idiom v = min(w, bound − acc)) applied to every unsigned subtraction, plus structural rules tying what is added to an accumulator to what is paid out",
		Explanation: "Decides the wrap-freedom and bookkeeping structure of the reward split, not the floating-point shares themselves. (1) Every uint64 subtraction a − b in CalculateRewards and distributePoolRewards is proven non-negative: by a dominating comparison, or because b is an accumulator that starts at 0 and only grows by values capped with min(·, a − b), or because b = c + s with s capped by a − c. (2) In CalculateRewards each pool amount stored is the capped share, the same value is added to totalDistributed, the remainder pot − totalDistributed is added to one pool before distribution, every stored amount is passed to distributePoolRewards and its result stored under the same pool, and TotalRewards is the pot. " +
			"(3) In distributePoolRewards every value added to the 'assigned' accumulator is stored as that delegator's reward on the same path (what is counted as paid is paid), the undistributed remainder total − operator − assigned is added to the operator, and the result's TotalRewards is the input amount. Together: operator + Σ delegators = pool total and Σ pool totals = pot, with no wrap-around.",
		Assumptions: []string{"uint64 additions on these paths are bounded by the pot (they sum parts of a value that fits)", "the float64 share computations are arbitrary (any value), which is exactly why every use is capped"},
		Run:         runC45,
	})
}

type leqProver struct {
	c    *Ctx
	fn   *ssa.Function
	hyp  map[ssa.Value]bool // induction hypotheses: value ≤ bound currently being proven
	deep int
}

func exprEq(a, b ssa.Value) bool {
	if a == b {
		return true
	}
	ta, tb := trace(a), trace(b)
	return ta == tb && !strings.Contains(ta, "…") && !strings.Contains(ta, "phi(")
}

// factHolds: every path to `at` passes an edge on which x ≤ y is known.
func (p *leqProver) factHolds(x, y ssa.Value, at *ssa.BasicBlock) bool {
	type e struct {
		b *ssa.BasicBlock
		s int
	}
	var edges []e
	for _, b := range p.fn.Blocks {
		iff, ok := b.Instrs[len(b.Instrs)-1].(*ssa.If)
		if !ok {
			continue
		}
		bo, ok := iff.Cond.(*ssa.BinOp)
		if !ok {
			continue
		}
		for s := 0; s < 2; s++ {
			op := bo.Op
			if s == 1 {
				op = negOp(op)
			}
			l, r := bo.X, bo.Y
			// x <= y, x < y, x == y ; or y >= x, y > x
			if exprEq(l, x) && exprEq(r, y) && (op == token.LEQ || op == token.LSS || op == token.EQL) {
				edges = append(edges, e{b, s})
			}
			if exprEq(l, y) && exprEq(r, x) && (op == token.GEQ || op == token.GTR || op == token.EQL) {
				edges = append(edges, e{b, s})
			}
		}
	}
	if len(edges) == 0 {
		return false
	}
	reach, _ := reachAvoiding(p.fn, func(from *ssa.BasicBlock, succ int) bool {
		for _, ed := range edges {
			if ed.b == from && ed.s == succ {
				return true
			}
		}
		return false
	})
	return !reach[at]
}

// capBy: v ≤ y − a  (v = min(w, y − a) as a phi, or the difference itself)
func (p *leqProver) capBy(v, y, a ssa.Value, at *ssa.BasicBlock) bool {
	isDiff := func(d ssa.Value) bool {
		bo, ok := d.(*ssa.BinOp)
		return ok && bo.Op == token.SUB && exprEq(bo.X, y) && exprEq(bo.Y, a)
	}
	if isDiff(v) {
		return true
	}
	if k, ok := v.(*ssa.Const); ok && k.Value != nil && k.Int64() == 0 {
		return true
	}
	// the cap written with the builtin: min(w, y − a) ≤ y − a
	if call, isCall := v.(*ssa.Call); isCall {
		if b, isB := call.Call.Value.(*ssa.Builtin); isB && b.Name() == "min" {
			for _, arg := range call.Call.Args {
				if isDiff(arg) || p.deep < 10 && p.capBy(arg, y, a, at) {
					return true
				}
			}
			return false
		}
	}
	ph, ok := v.(*ssa.Phi)
	if !ok {
		// a plain value guarded by a dominating comparison with the difference
		for _, b := range p.fn.Blocks {
			for _, in := range b.Instrs {
				if d, ok := in.(*ssa.BinOp); ok && isDiff(d) && p.factHolds(v, d, at) {
					return true
				}
			}
		}
		return false
	}
	for i, e := range ph.Edges {
		pred := ph.Block().Preds[i]
		if isDiff(e) {
			continue
		}
		if k, ok := e.(*ssa.Const); ok && k.Value != nil && k.Int64() == 0 {
			continue
		}
		// e is the uncapped value w: the edge pred→phi must lie on the side where w ≤ diff
		okEdge := false
		for _, b := range p.fn.Blocks {
			for _, in := range b.Instrs {
				d, isBo := in.(*ssa.BinOp)
				if !isBo || !isDiff(d) {
					continue
				}
				// the deciding If: w > d (true → cap) ; we need pred reached via the false edge, or pred is the If block itself
				iff, isIf := pred.Instrs[len(pred.Instrs)-1].(*ssa.If)
				if isIf {
					if c, isC := iff.Cond.(*ssa.BinOp); isC {
						var leqSucc = -1
						switch {
						case c.Op == token.GTR && exprEq(c.X, e) && exprEq(c.Y, d):
							leqSucc = 1
						case c.Op == token.LEQ && exprEq(c.X, e) && exprEq(c.Y, d):
							leqSucc = 0
						case c.Op == token.LSS && exprEq(c.X, d) && exprEq(c.Y, e):
							leqSucc = 1
						case c.Op == token.GEQ && exprEq(c.X, d) && exprEq(c.Y, e):
							leqSucc = 0
						}
						if leqSucc >= 0 && pred.Succs[leqSucc] == ph.Block() {
							okEdge = true
						}
					}
				}
				if !okEdge && p.factHolds(e, d, pred) {
					okEdge = true
				}
			}
		}
		if !okEdge {
			return false
		}
	}
	return true
}

// leq proves x ≤ y at block `at`.
func (p *leqProver) leq(x, y ssa.Value, at *ssa.BasicBlock) bool {
	p.deep++
	defer func() { p.deep-- }()
	if p.deep > 12 {
		return false
	}
	if exprEq(x, y) || p.hyp[x] {
		return true
	}
	if k, ok := x.(*ssa.Const); ok && k.Value != nil && k.Int64() == 0 {
		return true
	}
	if p.factHolds(x, y, at) {
		return true
	}
	switch v := x.(type) {
	case *ssa.Call:
		// min(a, b) ≤ y when either operand is
		if b, isB := v.Call.Value.(*ssa.Builtin); isB && b.Name() == "min" {
			for _, arg := range v.Call.Args {
				if p.leq(arg, y, at) {
					return true
				}
			}
		}
	case *ssa.Phi:
		p.hyp[v] = true
		defer delete(p.hyp, v)
		for i, e := range v.Edges {
			if !p.leq(e, y, v.Block().Preds[i]) {
				return false
			}
		}
		return true
	case *ssa.BinOp:
		if v.Op == token.ADD {
			// a + s ≤ y  when a ≤ y and s ≤ y − a
			if p.leq(v.X, y, at) && p.capBy(v.Y, y, v.X, at) {
				return true
			}
			if p.leq(v.Y, y, at) && p.capBy(v.X, y, v.Y, at) {
				return true
			}
		}
	}
	return false
}

func runC45(c *Ctx) {
	c.W.buildSSA()
	rel := "ledger/common"
	calc := c.SSAFunc(rel, "CalculateRewards")
	dist := c.SSAFunc(rel, "distributePoolRewards")
	if calc == nil || dist == nil {
		c.Undecided("reward functions not found")
		return
	}
	// (1) every unsigned subtraction
	for _, fn := range []*ssa.Function{calc, dist} {
		n := 0
		ord := map[string]int{}
		for _, in := range fnInstrs(fn) {
			bo, ok := in.(*ssa.BinOp)
			if !ok || bo.Op != token.SUB {
				continue
			}
			bt, isB := bo.Type().Underlying().(*types.Basic)
			if !isB || bt.Info()&types.IsUnsigned == 0 {
				continue
			}
			n++
			k := shortArg(trace(bo.X)) + " - " + shortArg(trace(bo.Y))
			ord[k]++
			key := fmt.Sprintf("%s:%s#%d", ssaFuncKey(fn), k, ord[k])
			pr := &leqProver{c: c, fn: fn, hyp: map[ssa.Value]bool{}}
			ok2 := pr.leq(bo.Y, bo.X, bo.Block())
			c.Check(ok2, "no-unsigned-wrap", key, bo.Pos(), "the subtrahend is provably ≤ the minuend here", "the unsigned subtraction "+k+" is not protected: nothing on the path bounds the right operand by the left one, so a share inflated by float64 rounding (or counted twice) wraps around to an amount far above the pot")
		}
		c.Note("%s: %d unsigned subtractions examined", ssaFuncKey(fn), n)
	}
	// signed detours are a smell: int64 conversions of amounts
	for _, fn := range []*ssa.Function{calc, dist} {
		for _, in := range fnInstrs(fn) {
			cv, ok := in.(*ssa.Convert)
			if !ok {
				continue
			}
			from, _ := cv.X.Type().Underlying().(*types.Basic)
			to, _ := cv.Type().Underlying().(*types.Basic)
			if from != nil && to != nil && from.Kind() == types.Int64 && to.Kind() == types.Uint64 {
				// int64 → uint64 of a difference: must be guarded non-negative
				c.Bad("no-unsigned-wrap", ssaFuncKey(fn)+":int64→uint64:"+shortArg(trace(cv.X)), cv.Pos(), "a signed intermediate %s is converted back to uint64: a negative adjustment becomes a huge amount", shortArg(trace(cv.X)))
			}
		}
	}
	// (3) distributePoolRewards bookkeeping
	{
		dk := ssaFuncKey(dist)
		// the assigned accumulator: loop phi of uint64 that is compared with / subtracted from the stakeholder total
		var updates []*ssa.MapUpdate
		for _, in := range fnInstrs(dist) {
			if mu, ok := in.(*ssa.MapUpdate); ok {
				t := trace(mu.Map)
				if _, isMM := rootValue(mu.Map, 0).(*ssa.MakeMap); isMM || t == "makemap" || strings.HasPrefix(t, "DelegatorRewards<") {
					updates = append(updates, mu)
				}
			}
		}
		c.Check(len(updates) >= 1, "paid-equals-counted", dk+":delegator-map", dist.Pos(), "delegator rewards are stored", "no delegator reward is ever stored")
		// every ADD whose one operand is a loop accumulator and whose other operand is a reward value: the same value is stored in the same block
		nAcc := 0
		for _, in := range fnInstrs(dist) {
			bo, ok := in.(*ssa.BinOp)
			if !ok || bo.Op != token.ADD || !inLoop(bo.Block()) {
				continue
			}
			ph, isPhi := bo.X.(*ssa.Phi)
			if !isPhi {
				continue
			}
			// is this accumulator later used against a total (subtracted or compared)? identify by: flows to a SUB as right operand
			usedAsAssigned := false
			for _, in2 := range fnInstrs(dist) {
				if s, ok := in2.(*ssa.BinOp); ok && s.Op == token.SUB && (s.Y == ssa.Value(ph) || inPhiFamily(s.Y, ph)) {
					usedAsAssigned = true
				}
			}
			if !usedAsAssigned {
				continue
			}
			nAcc++
			stored := false
			for _, mu := range updates {
				if mu.Value == bo.Y && mu.Block() == bo.Block() {
					stored = true
				}
			}
			c.Check(stored, "paid-equals-counted", dk+":assigned+="+shortArg(trace(bo.Y)), bo.Pos(), "what is counted as assigned is stored as that delegator's reward on the same path", "a reward is added to the 'assigned' total without being stored for the delegator on the same path: it is counted as paid but never paid, so the remainder-to-operator step does not reclaim it and operator + delegators < pool total")
		}
		c.Check(nAcc >= 1, "paid-equals-counted", dk+":accumulator", dist.Pos(), "an assigned-total accumulator exists", "no accumulator of assigned delegator rewards found")
		// and every stored reward is counted
		for _, mu := range updates {
			counted := false
			for _, in := range mu.Block().Instrs {
				if bo, ok := in.(*ssa.BinOp); ok && bo.Op == token.ADD && bo.Y == mu.Value {
					counted = true
				}
			}
			c.Check(counted, "paid-equals-counted", dk+":stored:"+shortArg(trace(mu.Value)), mu.Pos(), "every stored reward is counted in the assigned total", "a delegator reward is stored without being added to the assigned total: operator + delegators > pool total")
		}
		// result fields
		fields := map[string]ssa.Value{}
		for _, in := range fnInstrs(dist) {
			st, ok := in.(*ssa.Store)
			if !ok {
				continue
			}
			if fa, ok := st.Addr.(*ssa.FieldAddr); ok && strings.HasSuffix(typeStr(fa.X.Type()), "PoolRewards") {
				if reachesBlock(st.Block(), st.Block()) || true {
					name := fieldName(fa.X.Type(), fa.Field)
					// keep the one in the final return block (dominated by the remainder step)
					if prev, has := fields[name]; !has || instrBlockIndex(st) > instrBlockIndexOf(prev, dist) {
						fields[name] = st.Val
					}
				}
			}
		}
		if v := fields["TotalRewards"]; v != nil {
			c.Check(trace(v) == "p1", "paid-equals-counted", dk+":total-is-input", dist.Pos(), "TotalRewards is the amount given to the pool", "TotalRewards is "+shortArg(trace(v))+", not the amount handed to distributePoolRewards")
		}
		// remainder to operator: OperatorRewards (final) = phi(op + (T − assigned) | op)
		okRem := false
		if v := fields["OperatorRewards"]; v != nil {
			if ph, ok := v.(*ssa.Phi); ok {
				var diff *ssa.BinOp
				for _, e := range ph.Edges {
					if bo, ok := e.(*ssa.BinOp); ok && bo.Op == token.ADD {
						if d, ok := bo.Y.(*ssa.BinOp); ok && d.Op == token.SUB {
							diff = d
						}
					}
				}
				if diff != nil {
					okRem = true
					pr := &leqProver{c: c, fn: dist, hyp: map[ssa.Value]bool{}}
					for i, e := range ph.Edges {
						if bo, ok := e.(*ssa.BinOp); ok && bo.Op == token.ADD {
							continue
						}
						// the remainder may be skipped only when there is none: total − operator ≤ assigned on that edge
						pred := ph.Block().Preds[i]
						edgeOK := pr.factHolds(diff.X, diff.Y, pred)
						if iff, isIf := pred.Instrs[len(pred.Instrs)-1].(*ssa.If); isIf && !edgeOK {
							if cb, isBo := iff.Cond.(*ssa.BinOp); isBo {
								for sidx, sb := range pred.Succs {
									if sb != ph.Block() {
										continue
									}
									op := cb.Op
									if sidx == 1 {
										op = negOp(op)
									}
									if exprEq(cb.X, diff.X) && exprEq(cb.Y, diff.Y) && (op == token.LEQ || op == token.LSS || op == token.EQL) {
										edgeOK = true
									}
									if exprEq(cb.X, diff.Y) && exprEq(cb.Y, diff.X) && (op == token.GEQ || op == token.GTR || op == token.EQL) {
										edgeOK = true
									}
								}
							}
						}
						if !edgeOK {
							okRem = false
						}
					}
				}
			}
		}
		c.Check(okRem, "paid-equals-counted", dk+":remainder-to-operator", dist.Pos(), "the undistributed remainder goes to the operator", "the undistributed remainder (total − operator − assigned) is not added to the operator's reward on every path where it is positive")
	}
	// (2) CalculateRewards bookkeeping
	{
		ck := ssaFuncKey(calc)
		var amounts ssa.Value
		var distCall *ssa.Call
		for _, ci := range allCalls(calc) {
			if ci.Common().StaticCallee() == dist {
				distCall, _ = ci.(*ssa.Call)
			}
		}
		if distCall == nil {
			c.Bad("pot-split", ck, calc.Pos(), "CalculateRewards never distributes a pool's amount")
			return
		}
		amtT := trace(distCall.Call.Args[1])
		// next(range(M))#2 : the amounts map
		if ex, ok := distCall.Call.Args[1].(*ssa.Extract); ok && ex.Index == 2 {
			if nx, ok := ex.Tuple.(*ssa.Next); ok {
				if rg, ok := nx.Iter.(*ssa.Range); ok {
					amounts = rg.X
				}
			}
		}
		c.Check(amounts != nil, "pot-split", ck+":distributes-stored-amounts", distCall.Pos(), "each stored pool amount is what gets distributed", "the amount distributed per pool is "+shortArg(amtT)+", not a value of the pool-amount map")
		// the amounts may be allocated by a helper that receives the pot and returns the map: the same rules are then
		// read in the helper, with the pot being the parameter bound to pots.Rewards
		scanFn, scanMap := calc, amounts
		isPot := func(v ssa.Value) bool { return strings.HasPrefix(trace(v), "Rewards<") }
		inHelper := false
		if call, isCall := amounts.(*ssa.Call); isCall && amounts != nil {
			if h := samePkgHelper(calc, &call.Call); h != nil {
				var ret ssa.Value
				n := 0
				for _, hb := range h.Blocks {
					if hr, ok := hb.Instrs[len(hb.Instrs)-1].(*ssa.Return); ok && len(hr.Results) == 1 {
						ret = hr.Results[0]
						n++
					}
				}
				potIdx := -1
				for i, a := range call.Call.Args {
					if strings.HasPrefix(trace(a), "Rewards<") {
						potIdx = i
					}
				}
				if n != 1 || potIdx < 0 {
					c.Undecided("%s: the per-pool amounts are allocated in helper %s in a shape the pot-split rules do not read", ck, h.Name())
				}
				scanFn, scanMap, inHelper = h, ret, true
				potParam := h.Params[potIdx]
				isPot = func(v ssa.Value) bool { return v == ssa.Value(potParam) }
			}
		}
		if amounts != nil {
			nStore, okCap, okSum, okRem := 0, false, false, false
			for _, in := range fnInstrs(scanFn) {
				mu, ok := in.(*ssa.MapUpdate)
				if !ok || mu.Map != scanMap {
					continue
				}
				nStore++
				if inLoop(mu.Block()) {
					if _, isPhi := mu.Value.(*ssa.Phi); isPhi {
						okCap = true
					}
					// the cap written as min(share, pot − distributed)
					if call, isCall := mu.Value.(*ssa.Call); isCall {
						if b, isB := call.Call.Value.(*ssa.Builtin); isB && b.Name() == "min" {
							for _, a := range call.Call.Args {
								if d, isD := a.(*ssa.BinOp); isD && d.Op == token.SUB && isPot(d.X) {
									okCap = true
								}
							}
						}
					}
					for _, in2 := range mu.Block().Instrs {
						if bo, ok := in2.(*ssa.BinOp); ok && bo.Op == token.ADD && bo.Y == mu.Value {
							okSum = true
						}
					}
				}
				if bo, ok := mu.Value.(*ssa.BinOp); ok && bo.Op == token.ADD {
					if d, ok := bo.Y.(*ssa.BinOp); ok && d.Op == token.SUB && isPot(d.X) {
						okRem = strings.HasPrefix(trace(bo.X), "lookup(") && (inHelper || distCallAfter(calc, mu, distCall))
					}
				}
			}
			c.Check(okCap && okSum, "pot-split", ck+":share-capped-and-summed", calc.Pos(), "each pool's share is capped by what is left of the pot and the same value is added to the running total", "the per-pool share stored is not the capped value that is also added to totalDistributed")
			c.Check(okRem, "pot-split", ck+":remainder-to-a-pool", calc.Pos(), "pot − totalDistributed is added to one pool before distribution", "the rounding remainder of the pot is not added to a pool before the per-pool distribution: pool totals do not add up to the pot")
			c.Check(nStore == 2, "pot-split", ck+":amount-writers", calc.Pos(), "two writes of pool amounts (share, remainder)", fmt.Sprintf("%d writes of pool amounts", nStore))
		}
		// result stored under the same pool
		okKey := false
		for _, in := range fnInstrs(calc) {
			if mu, ok := in.(*ssa.MapUpdate); ok && strings.Contains(trace(mu.Map), "PoolRewards<") {
				okKey = strings.HasSuffix(trace(mu.Key), "#1") && strings.Contains(trace(mu.Value), "distributePoolRewards(")
				if ex, ok := mu.Key.(*ssa.Extract); ok {
					if a1, ok := distCall.Call.Args[1].(*ssa.Extract); ok {
						okKey = okKey && ex.Tuple == a1.Tuple
					}
				}
			}
		}
		c.Check(okKey, "pot-split", ck+":result-under-same-pool", calc.Pos(), "a pool's distribution is stored under that pool", "the distribution result is not stored under the pool whose amount was distributed")
	}
}

func inPhiFamily(v ssa.Value, ph *ssa.Phi) bool {
	seen := map[ssa.Value]bool{}
	var walk func(x ssa.Value, d int) bool
	walk = func(x ssa.Value, d int) bool {
		if x == ssa.Value(ph) {
			return true
		}
		if d > 6 || seen[x] {
			return false
		}
		seen[x] = true
		if p, ok := x.(*ssa.Phi); ok {
			for _, e := range p.Edges {
				if walk(e, d+1) {
					return true
				}
			}
		}
		if b, ok := x.(*ssa.BinOp); ok && b.Op == token.ADD {
			return walk(b.X, d+1)
		}
		return false
	}
	return walk(v, 0)
}

func instrBlockIndex(in ssa.Instruction) int { return in.Block().Index }

func instrBlockIndexOf(v ssa.Value, fn *ssa.Function) int {
	if in, ok := v.(ssa.Instruction); ok && in.Block() != nil {
		return in.Block().Index
	}
	return -1
}

func distCallAfter(fn *ssa.Function, mu *ssa.MapUpdate, call *ssa.Call) bool {
	return reachesBlock(mu.Block(), call.Block()) && !reachesBlock(call.Block(), mu.Block())
}
