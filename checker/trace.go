package main

import (
	"fmt"
	"go/token"
	"go/types"
	"strings"

	"golang.org/x/tools/go/ssa"
)

// trace renders the provenance chain of a value, resolving local spills (allocs with a single whole-value store).
// Example: Hash<assert<PayloadPayload(Address(Output<UtxoById(p1,Inputs(p0)[])#0))
func trace(v ssa.Value) string { return traceD(v, 0) }

func singleStore(a *ssa.Alloc) ssa.Value {
	var val ssa.Value
	n := 0
	for _, r := range *a.Referrers() {
		switch x := r.(type) {
		case *ssa.Store:
			if x.Addr == a {
				val = x.Val
				n++
			} else {
				return nil // the address itself is stored somewhere: may be written through it
			}
		case *ssa.UnOp, *ssa.FieldAddr, *ssa.IndexAddr, *ssa.DebugRef, *ssa.Slice:
		case *ssa.MakeClosure:
			// captured by a closure: fine as long as the closure never assigns the captured variable itself
			fnc, _ := x.Fn.(*ssa.Function)
			if fnc == nil {
				return nil
			}
			for i, b := range x.Bindings {
				if b != ssa.Value(a) || i >= len(fnc.FreeVars) {
					continue
				}
				fv := fnc.FreeVars[i]
				for _, fr := range *fv.Referrers() {
					switch y := fr.(type) {
					case *ssa.Store:
						if y.Addr == ssa.Value(fv) {
							return nil
						}
					case *ssa.UnOp, *ssa.FieldAddr, *ssa.IndexAddr, *ssa.DebugRef:
					default:
						return nil
					}
				}
			}
		case ssa.CallInstruction:
			// receiver of a method call: treated as read-only (accessor idiom); any other argument position may be written through
			cc := x.Common()
			if cal := cc.StaticCallee(); cal != nil && cal.Signature.Recv() != nil && len(cc.Args) > 0 && cc.Args[0] == ssa.Value(a) {
				cnt := 0
				for _, arg := range cc.Args {
					if arg == ssa.Value(a) {
						cnt++
					}
				}
				if cnt == 1 {
					continue
				}
			}
			return nil
		default:
			return nil // address escapes (call argument, closure binding, interface): other writers possible
		}
	}
	if n == 1 {
		return val
	}
	return nil
}

// traceIP is trace in the vocabulary of root: a parameter of a same-package helper with exactly one call site reads as
// the argument passed there, and the result of an unexported same-package helper with exactly one non-zero returned
// value reads as that value (verify, ok := m.loadVerifier() → the asserted Load).
func traceIP(root *ssa.Function, v ssa.Value) string {
	old := traceRoot
	traceRoot = root
	defer func() { traceRoot = old }()
	return traceD(v, 0)
}

var traceRoot *ssa.Function

// traceOpaque: helpers whose calls a rule wants to see by name rather than looked through.
var traceOpaque = map[string]bool{}

// traceBind: while a helper's returned value is being read, its parameters stand for the arguments of that call.
var traceBind = map[*ssa.Parameter]ssa.Value{}

// helperResult: the single non-zero value an unexported same-package helper returns at result idx.
func helperResult(call *ssa.Call, idx int) ssa.Value {
	h := call.Call.StaticCallee()
	if h != nil && traceOpaque[h.Name()] {
		return nil
	}
	if traceRoot == nil || h == nil || fnPkg(h) == nil || fnPkg(h) != fnPkg(traceRoot) || len(h.Blocks) == 0 || h.Parent() != nil || h.Object() == nil || h.Object().Exported() {
		return nil
	}
	var val ssa.Value
	for _, b := range h.Blocks {
		r, ok := b.Instrs[len(b.Instrs)-1].(*ssa.Return)
		if !ok || idx >= len(r.Results) {
			continue
		}
		rv := returnedValue(r, idx)
		if k, isK := rv.(*ssa.Const); isK && (k.Value == nil || isZeroConst(k)) {
			continue
		}
		if val != nil && val != rv {
			return nil
		}
		val = rv
	}
	return val
}

// traceBound traces a helper's returned value with the helper's parameters bound to the call's arguments.
func traceBound(call *ssa.Call, rv ssa.Value, d int) string {
	h := call.Call.StaticCallee()
	var set []*ssa.Parameter
	for i, p := range h.Params {
		if _, dup := traceBind[p]; !dup && i < len(call.Call.Args) {
			traceBind[p] = call.Call.Args[i]
			set = append(set, p)
		}
	}
	r := traceD(rv, d+1)
	for _, p := range set {
		delete(traceBind, p)
	}
	return r
}

func traceD(v ssa.Value, d int) string {
	if v == nil {
		return "?"
	}
	if d > 30 {
		return "…"
	}
	if traceRoot != nil {
		switch x := v.(type) {
		case *ssa.Parameter:
			if b, ok := traceBind[x]; ok {
				delete(traceBind, x)
				r := traceD(b, d+1)
				traceBind[x] = b
				return r
			}
			if f := x.Parent(); f != traceRoot && f.Pkg == traceRoot.Pkg && f.Parent() == nil {
				if cs := callersInPkg(f); len(cs) == 1 {
					for i, p := range f.Params {
						if p == x && i < len(cs[0].Common().Args) {
							return traceD(cs[0].Common().Args[i], d+1)
						}
					}
				}
			}
		case *ssa.Extract:
			if cl, ok := x.Tuple.(*ssa.Call); ok {
				if rv := helperResult(cl, x.Index); rv != nil {
					return traceBound(cl, rv, d)
				}
			}
		case *ssa.Call:
			if x.Call.Signature().Results().Len() == 1 {
				if rv := helperResult(x, 0); rv != nil {
					return traceBound(x, rv, d)
				}
			}
		}
	}
	switch x := v.(type) {
	case *ssa.Parameter:
		for i, p := range x.Parent().Params {
			if p == x {
				return fmt.Sprintf("p%d", i)
			}
		}
	case *ssa.Const:
		return desc(x)
	case *ssa.UnOp:
		if x.Op == token.MUL {
			return traceD(x.X, d+1)
		}
		return x.Op.String() + traceD(x.X, d+1)
	case *ssa.Alloc:
		if s := singleStore(x); s != nil {
			return traceD(s, d+1)
		}
		return "alloc:" + typeStr(x.Type())
	case *ssa.FieldAddr:
		return fieldName(x.X.Type(), x.Field) + "<" + traceD(x.X, d+1)
	case *ssa.Field:
		return fieldName(x.X.Type(), x.Field) + "<" + traceD(x.X, d+1)
	case *ssa.Extract:
		return fmt.Sprintf("%s#%d", traceD(x.Tuple, d+1), x.Index)
	case *ssa.TypeAssert:
		return "assert<" + traceD(x.X, d+1)
	case *ssa.ChangeType:
		return traceD(x.X, d+1)
	case *ssa.ChangeInterface:
		return traceD(x.X, d+1)
	case *ssa.Convert:
		return traceD(x.X, d+1)
	case *ssa.MakeInterface:
		return traceD(x.X, d+1)
	case *ssa.Slice:
		return traceD(x.X, d+1) + "[:]"
	case *ssa.IndexAddr:
		return traceD(x.X, d+1) + "[]"
	case *ssa.Index:
		return traceD(x.X, d+1) + "[]"
	case *ssa.Lookup:
		return "lookup(" + traceD(x.X, d+1) + "," + traceD(x.Index, d+1) + ")"
	case *ssa.Next:
		return "next(" + traceD(x.Iter, d+1) + ")"
	case *ssa.Range:
		return "range(" + traceD(x.X, d+1) + ")"
	case *ssa.Phi:
		var parts []string
		seen := map[string]bool{}
		for _, e := range x.Edges {
			s := traceD(e, d+4)
			if !seen[s] {
				seen[s] = true
				parts = append(parts, s)
			}
		}
		return "phi(" + strings.Join(parts, "|") + ")"
	case *ssa.Call:
		cc := &x.Call
		name := ""
		var args []ssa.Value
		if cc.IsInvoke() {
			name = cc.Method.Name()
			args = append([]ssa.Value{cc.Value}, cc.Args...)
		} else if cal := cc.StaticCallee(); cal != nil {
			name = cal.Name()
			args = cc.Args
		} else if b, ok := cc.Value.(*ssa.Builtin); ok {
			name = b.Name()
			args = cc.Args
		} else {
			name = "dyn:" + traceD(cc.Value, d+1)
			args = cc.Args
		}
		var as []string
		for _, a := range args {
			as = append(as, traceD(a, d+1))
		}
		return name + "(" + strings.Join(as, ",") + ")"
	case *ssa.MakeMap:
		return "makemap"
	case *ssa.FreeVar:
		return "free:" + x.Name()
	case *ssa.Global:
		return "global:" + x.Name()
	case *ssa.BinOp:
		return "(" + traceD(x.X, d+1) + " " + x.Op.String() + " " + traceD(x.Y, d+1) + ")"
	}
	return desc(v)
}

// sliceElemSources: where the elements of a slice value come from — trace strings of single elements stored into a
// slice literal, and of whole slices appended/concatenated in. append, slices.Concat, slice literals, make (no
// elements) and phis are looked through; anything else is one opaque source (its trace).
func sliceElemSources(v ssa.Value, depth int, out map[string]bool) {
	if depth > 8 || v == nil {
		return
	}
	arrayStores := func(al *ssa.Alloc, each func(ssa.Value)) {
		for _, r := range *al.Referrers() {
			if ia, ok := r.(*ssa.IndexAddr); ok {
				for _, rr := range *ia.Referrers() {
					if st, ok := rr.(*ssa.Store); ok && st.Addr == ia {
						each(st.Val)
					}
				}
			}
		}
	}
	switch x := v.(type) {
	case *ssa.Const:
		return // nil slice
	case *ssa.MakeSlice:
		// make([]T, n, cap) followed by s[i] = x: the elements assigned by index
		if refs := x.Referrers(); refs != nil {
			for _, r := range *refs {
				if ia, ok := r.(*ssa.IndexAddr); ok {
					for _, rr := range *ia.Referrers() {
						if st, ok := rr.(*ssa.Store); ok && st.Addr == ia {
							out["elem:"+trace(st.Val)] = true
						}
					}
				}
			}
		}
		return
	case *ssa.Phi:
		for _, e := range x.Edges {
			sliceElemSources(e, depth+1, out)
		}
	case *ssa.Slice:
		if al, ok := x.X.(*ssa.Alloc); ok {
			if _, isArr := al.Type().(*types.Pointer).Elem().Underlying().(*types.Array); isArr {
				arrayStores(al, func(e ssa.Value) { out["elem:"+trace(e)] = true })
				return
			}
		}
		sliceElemSources(x.X, depth+1, out)
	case *ssa.Call:
		switch calleeName(&x.Call) {
		case "append":
			sliceElemSources(x.Call.Args[0], depth+1, out)
			if len(x.Call.Args) > 1 {
				sliceElemSources(x.Call.Args[1], depth+1, out)
			}
			return
		}
		if strings.HasPrefix(calleeName(&x.Call), "slices.Concat") && len(x.Call.Args) == 1 {
			if sl, ok := x.Call.Args[0].(*ssa.Slice); ok {
				if al, ok := sl.X.(*ssa.Alloc); ok {
					arrayStores(al, func(e ssa.Value) { sliceElemSources(e, depth+1, out) })
					return
				}
			}
		}
		out["slice:"+trace(v)] = true
	default:
		out["slice:"+trace(v)] = true
	}
}
