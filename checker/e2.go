package main

// E2: finite abstraction. Edges whose facts contradict a valuation of a few integer atoms are pruned,
// then reachability is computed; enumerating the (finite) valuations yields a decision table.

import (
	"strconv"
	"strings"

	"golang.org/x/tools/go/ssa"
)

// evalFact evaluates "A op K" under val; known=false if A is not valued or K not an integer.
func evalFact(f string, val map[string]int64) (known, truth bool) {
	for _, op := range []string{" == ", " != ", " <= ", " >= ", " < ", " > "} {
		i := strings.LastIndex(f, op)
		if i < 0 {
			continue
		}
		a, ks := f[:i], f[i+len(op):]
		if ks == "nil" {
			// nil-ness of a valued atom: 0 = nil, anything else = non-nil
			if v, ok := val[a]; ok {
				if strings.TrimSpace(op) == "==" {
					return true, v == 0
				}
				return true, v != 0
			}
			return false, false
		}
		k, err := strconv.ParseInt(ks, 10, 64)
		var v int64
		ok := false
		if err == nil {
			v, ok = val[a]
		}
		if !ok {
			// maybe both sides are atoms
			va, oka := val[a]
			vb, okb := val[ks]
			if oka && okb {
				v, k, ok = va, vb, true
			}
		}
		if !ok {
			return false, false
		}
		switch strings.TrimSpace(op) {
		case "==":
			return true, v == k
		case "!=":
			return true, v != k
		case "<=":
			return true, v <= k
		case ">=":
			return true, v >= k
		case "<":
			return true, v < k
		case ">":
			return true, v > k
		}
	}
	if strings.HasPrefix(f, "T:") {
		if v, ok := val[f[2:]]; ok {
			return true, v != 0
		}
	}
	if strings.HasPrefix(f, "F:") {
		if v, ok := val[f[2:]]; ok {
			return true, v == 0
		}
	}
	return false, false
}

// feasibleBlocks returns the blocks reachable from entry under the valuation.
func feasibleBlocks(fn *ssa.Function, val map[string]int64) map[*ssa.BasicBlock]bool {
	infeasible := map[*ssa.BasicBlock][2]bool{}
	for _, ef := range edgeFacts(fn) {
		if known, truth := evalFact(ef.Fact, val); known && !truth {
			v := infeasible[ef.From]
			v[ef.Succ] = true
			infeasible[ef.From] = v
		}
	}
	reach, _ := reachAvoiding(fn, func(from *ssa.BasicBlock, succ int) bool {
		return succ < 2 && infeasible[from][succ]
	})
	return reach
}

// reachFromAvoiding: blocks reachable from the successors of the given start blocks when cut edges are removed.
func reachFromAvoiding(starts []*ssa.BasicBlock, cut func(from *ssa.BasicBlock, succ int) bool) map[*ssa.BasicBlock]bool {
	reach := map[*ssa.BasicBlock]bool{}
	var q []*ssa.BasicBlock
	push := func(from *ssa.BasicBlock) {
		for i, s := range from.Succs {
			if cut != nil && cut(from, i) {
				continue
			}
			if !reach[s] {
				reach[s] = true
				q = append(q, s)
			}
		}
	}
	for _, s := range starts {
		push(s)
	}
	for len(q) > 0 {
		b := q[0]
		q = q[1:]
		push(b)
	}
	return reach
}

func cutByFacts(fn *ssa.Function, match func(string) bool) func(from *ssa.BasicBlock, succ int) bool {
	cutSet := map[*ssa.BasicBlock][2]bool{}
	for _, f := range edgeFacts(fn) {
		if match(f.Fact) {
			v := cutSet[f.From]
			v[f.Succ] = true
			cutSet[f.From] = v
		}
	}
	return func(from *ssa.BasicBlock, succ int) bool { return succ < 2 && cutSet[from][succ] }
}
