package main

import (
	"fmt"
	"go/ast"
	"go/token"
	"strings"

	"golang.org/x/tools/go/ssa"
)

func init() {
	register(&Prop{
		ID:        "C30",
		Technique: "must-pass-through on overflow guards, forbidden raw arithmetic in the fee closure, provenance traces of the size and of both operands of the deciding comparisons, per era",
		Explanation: "(1) CalculateMinFee returns nil error only after hi==0 of bits.Mul64(a,size) and carry==0 of bits.Add64(lo,b,0), returns that sum, rejects a negative size, and contains no unchecked * or + on the fee operands. " +
			"(2) TxSizeForFee measures len of tx.Cbor() (re-encoding only when that is empty); it subtracts exactly one only when Type() ≥ Alonzo and the array length decoded from the header of those same bytes equals 4 (a decision made on the first byte alone is reported: it misses non-canonical headers); every other return is the full length. " +
			"(3) Every era's fee rule (Shelley…Dijkstra, through delegation) accepts iff tx.Fee() ≥ MinFeeTx, whose value is CalculateMinFee(TxSizeForFee(tx), pp.MinFeeA, pp.MinFeeB) with errors propagated. (4) Every era's max-size rule accepts iff the length of the original bytes (tx.Cbor() with encode fallback, or cbor.Encode(tx), which C01 shows returns stored bytes first) ≤ pp.MaxTxSize.",
		Assumptions: []string{"math/bits", "Transaction.MarshalCBOR returns stored bytes first (C01)", "StreamDecoder.DecodeArrayHeader reads any definite-length header form (its switch is checked for the 1/2/3/5/9-byte forms)"},
		Run:         runC30,
	})
}

func runC30(c *Ctx) {
	c.W.buildSSA()
	rel := "ledger/common"
	// (1)
	{
		fn := c.SSAFunc(rel, "CalculateMinFee")
		key := ssaFuncKey(fn)
		rets := successReturns(fn)
		var mul, add *ssa.Call
		for _, ci := range allCalls(fn) {
			switch calleeName(ci.Common()) {
			case "math/bits.Mul64":
				mul, _ = ci.(*ssa.Call)
			case "math/bits.Add64":
				add, _ = ci.(*ssa.Call)
			}
		}
		if mul == nil || add == nil || len(rets) == 0 {
			c.Bad("min-fee-overflow-checked", key, fn.Pos(), "CalculateMinFee does not use bits.Mul64 and bits.Add64: a·size+b can wrap silently")
		} else {
			ma, mb := trace(mul.Call.Args[0]), trace(mul.Call.Args[1])
			okMul := (ma == "p1" && mb == "p0") || (ma == "p0" && mb == "p1")
			a0, a1, a2 := add.Call.Args[0], trace(add.Call.Args[1]), desc(add.Call.Args[2])
			ex, _ := a0.(*ssa.Extract)
			okAdd := ex != nil && ex.Tuple == ssa.Value(mul) && ex.Index == 1 && a1 == "p2" && a2 == "0"
			c.Check(okMul && okAdd, "min-fee-overflow-checked", key+":formula", mul.Pos(), "computes lo(a·size) + b with 128-bit multiply and carry-out add", fmt.Sprintf("the fee formula is not lo(minFeeA·size)+minFeeB: Mul64(%s,%s) Add64(%s,%s,%s)", ma, mb, shortArg(trace(a0)), a1, a2))
			for _, g := range []struct{ name, fact string }{
				{"mul-high-zero", desc(mul) + "#0 == 0"},
				{"add-carry-zero", desc(add) + "#1 == 0"},
				{"size-non-negative", "p0 >= 0"},
			} {
				v := c.mustPass(fn, rets, func(f string) bool { return f == g.fact })
				ok, w := true, ""
				for _, x := range v {
					if !x.OK {
						ok, w = false, x.Witness
					}
				}
				c.Check(ok, "min-fee-overflow-checked", key+":"+g.name, fn.Pos(), "success requires "+g.fact, "CalculateMinFee can succeed without "+g.fact+": an overflowing fee computation is wrapped instead of reported ("+w+")")
			}
			okRet := true
			for _, r := range rets {
				rv := r.(*ssa.Return).Results[0]
				e, _ := rv.(*ssa.Extract)
				if e == nil || e.Tuple != ssa.Value(add) || e.Index != 0 {
					okRet = false
				}
			}
			c.Check(okRet, "min-fee-overflow-checked", key+":returns-sum", fn.Pos(), "returns the checked sum", "CalculateMinFee does not return the sum produced by the checked addition")
			raw := ""
			for _, in := range fnInstrs(fn) {
				if bo, ok := in.(*ssa.BinOp); ok && (bo.Op == token.MUL || bo.Op == token.ADD || bo.Op == token.SHL) {
					raw = desc(bo)
				}
			}
			c.Check(raw == "", "min-fee-overflow-checked", key+":no-raw-arithmetic", fn.Pos(), "no unchecked * or + in the function", "unchecked arithmetic "+shortArg(raw)+" in CalculateMinFee")
		}
	}
	// (2)
	{
		fn := c.SSAFunc(rel, "TxSizeForFee")
		key := ssaFuncKey(fn)
		alonzo, _ := c.ConstIntOpt(rel, "txTypeAlonzo")
		idx := 0
		var fullSize ssa.Value
		nMinus, nFull := 0, 0
		// the sizes the function can return with a nil error: one per return, or one per incoming value when a
		// single return yields a result variable (a phi); the guards are required where the value is computed
		type sizeSite struct {
			v ssa.Value
			r ssa.Instruction
			b *ssa.BasicBlock
		}
		var sites []sizeSite
		for _, b := range fn.Blocks {
			r, ok := b.Instrs[len(b.Instrs)-1].(*ssa.Return)
			if !ok || !isNilConst(returnedValue(r, 1)) {
				continue
			}
			if ph, isPhi := r.Results[idx].(*ssa.Phi); isPhi && !strings.HasPrefix(trace(ph), "len(") {
				for i, e := range ph.Edges {
					var at ssa.Instruction
					if in, isIn := e.(ssa.Instruction); isIn {
						at = in
					} else {
						pb := ph.Block().Preds[i]
						at = pb.Instrs[len(pb.Instrs)-1]
					}
					sites = append(sites, sizeSite{e, at, at.Block()})
				}
				continue
			}
			sites = append(sites, sizeSite{r.Results[idx], r, b})
		}
		for _, site := range sites {
			v, r, b := site.v, site.r, site.b
			t := trace(v)
			isLen := func(s string) bool {
				return s == "len(phi(Encode(p0)#0|Cbor(p0)))" || s == "len(phi(Cbor(p0)|Encode(p0)#0))" || s == "len(Cbor(p0))"
			}
			switch {
			case isLen(t):
				nFull++
				fullSize = v
				c.Ok("fee-size-original-length", key+":full@"+c.returnKey(fn, b), r.Pos(), "returns the length of the original bytes")
			case strings.HasPrefix(t, "(len(") && strings.HasSuffix(t, " - 1)") && isLen(strings.TrimSuffix(strings.TrimPrefix(t, "("), " - 1)")):
				nMinus++
				// guards
				vType := c.mustPass(fn, []ssa.Instruction{r}, func(f string) bool {
					return f == fmt.Sprintf("call:ledger/common.Transaction.Type(p0) >= %d", alonzo)
				})
				c.Check(vType[0].OK, "fee-size-original-length", key+":minus-one-era", r.Pos(), "one byte is subtracted only for Alonzo and later", "one byte is subtracted for transactions before Alonzo as well ("+vType[0].Witness+")")
				// the 4-element test: decoded header length of the same bytes
				okHdr := false
				badByte := ""
				for _, ef := range edgeFacts(fn) {
					iff := ef.From.Instrs[len(ef.From.Instrs)-1].(*ssa.If)
					bo, ok := iff.Cond.(*ssa.BinOp)
					if !ok {
						continue
					}
					tx, ty := trace(bo.X), trace(bo.Y)
					if strings.HasPrefix(tx, "DecodeArrayHeader(NewStreamDecoder(phi(") && strings.HasSuffix(tx, "#0)#0") && strings.Contains(tx, "Cbor(p0)") && ty == "4" && ef.Fact == desc(bo.X)+" == 4" {
						v := c.mustPass(fn, []ssa.Instruction{r}, func(f string) bool { return f == ef.Fact })
						if v[0].OK {
							okHdr = true
						}
					}
					if (strings.HasSuffix(tx, "Cbor(p0)[]") || strings.Contains(tx, "Cbor(p0))[]") || strings.HasSuffix(tx, ")[]")) && strings.Contains(tx, "Cbor(p0)") {
						if k, ok := bo.Y.(*ssa.Const); ok {
							badByte = fmt.Sprintf("%s %s %s", shortArg(tx), bo.Op, k.Value)
						}
					}
				}
				if !okHdr && badByte == "" {
					// the envelope test may live in a boolean helper over the same bytes
					for _, b2 := range fn.Blocks {
						iff, ok := b2.Instrs[len(b2.Instrs)-1].(*ssa.If)
						if !ok {
							continue
						}
						call, ok := iff.Cond.(*ssa.Call)
						if !ok {
							continue
						}
						h := samePkgHelper(fn, &call.Call)
						if h == nil || len(call.Call.Args) != 1 || !strings.Contains(trace(call.Call.Args[0]), "Cbor(p0)") {
							continue
						}
						okF, _ := factsForValue(fn, call)
						if v := c.mustPass(fn, []ssa.Instruction{r}, func(f string) bool { return f == okF }); okF == "" || !v[0].OK {
							continue
						}
						all := true
						for _, in := range fnInstrs(h) {
							switch x := in.(type) {
							case *ssa.Return:
								rv := returnedValue(x, 0)
								if k, isK := rv.(*ssa.Const); isK && k.Value != nil && k.Value.String() == "false" {
									continue
								}
								bo, isB := rv.(*ssa.BinOp)
								if !isB || bo.Op != token.EQL || desc(bo.Y) != "4" || trace(bo.X) != "DecodeArrayHeader(NewStreamDecoder(p0)#0)#0" {
									all = false
								}
							case *ssa.BinOp:
								if tx := trace(x.X); strings.HasSuffix(tx, "[]") && strings.Contains(tx, "p0") {
									if k, ok := x.Y.(*ssa.Const); ok {
										badByte = fmt.Sprintf("%s %s %s", shortArg(tx), x.Op, k.Value)
									}
								}
							}
						}
						if all && badByte == "" {
							okHdr = true
						}
					}
				}
				switch {
				case okHdr:
					c.Ok("fee-size-original-length", key+":minus-one-four-elements", r.Pos(), "one byte is subtracted only when the decoded array header of the same bytes has length 4")
				case badByte != "":
					c.Bad("fee-size-original-length", key+":minus-one-four-elements", r.Pos(), "the four-element envelope is recognised by comparing a raw byte (%s): a four-element array with a non-canonical (longer) header is sized one byte too large, so the minimum fee demanded is a·len+b", badByte)
				default:
					c.Undecided("%s: the condition under which one byte is subtracted was not recognised", key)
				}
			default:
				c.Bad("fee-size-original-length", key+":return:"+shortArg(t), r.Pos(), "TxSizeForFee returns %s, which is neither the original length nor that length minus one", t)
			}
		}
		_ = fullSize
		c.Check(nMinus == 1 && nFull >= 1, "fee-size-original-length", key+":shape", fn.Pos(), "one minus-one return, the others return the full length", fmt.Sprintf("TxSizeForFee has %d minus-one returns and %d full-length returns", nMinus, nFull))
		// the fallback encode is used only when the stored bytes are empty
		for _, ci := range allCalls(fn) {
			if calleeName(ci.Common()) == "cbor.Encode" {
				v := c.mustPass(fn, []ssa.Instruction{ci.(ssa.Instruction)}, func(f string) bool { return f == "len(call:ledger/common.Transaction.Cbor(p0)) == 0" })
				c.Check(v[0].OK, "fee-size-original-length", key+":encode-fallback-only", ci.Pos(), "re-encoding happens only when no original bytes exist", "the transaction is re-encoded although original bytes exist: the size is that of the re-encoding ("+v[0].Witness+")")
			}
		}
	}
	// DecodeArrayHeader handles every definite header form
	{
		p, fd := c.FuncDecl("cbor", "StreamDecoder.DecodeArrayHeader")
		if fd != nil {
			forms := map[int64]bool{}
			ast.Inspect(fd.Body, func(n ast.Node) bool {
				cc, ok := n.(*ast.CaseClause)
				if !ok {
					return true
				}
				for _, e := range cc.List {
					if be, ok := e.(*ast.BinaryExpr); ok && be.Op == token.EQL {
						if v, ok := constInt(p.TypesInfo, be.Y); ok {
							forms[v] = true
						}
					}
				}
				return true
			})
			ok := forms[24] && forms[25] && forms[26] && forms[27]
			c.Check(ok, "array-header-forms", "cbor.(*StreamDecoder).DecodeArrayHeader", fd.Pos(), "1-, 2-, 4- and 8-byte length forms are handled", "DecodeArrayHeader does not handle all definite length forms (24,25,26,27)")
		}
	}
	// (3)/(4)
	lists := c.eraRuleLists()
	feeImpl := map[*ssa.Function][]string{}
	sizeImpl := map[*ssa.Function][]string{}
	for _, era := range []string{"shelley", "allegra", "mary", "alonzo", "babbage", "conway", "dijkstra"} {
		er := lists[era]
		if er == nil {
			c.Undecided("no rule list for %s", era)
			continue
		}
		var fee, size *ssa.Function
		for _, rf := range er.Rules {
			if strings.HasSuffix(rf.Name(), "UtxoValidateFeeTooSmallUtxo") {
				fee = c.resolveGuardedDelegation(c.SSAOf(rf))
			}
			if strings.HasSuffix(rf.Name(), "UtxoValidateMaxTxSizeUtxo") {
				size = c.resolveGuardedDelegation(c.SSAOf(rf))
			}
		}
		c.Check(fee != nil, "fee-rule-listed", "ledger/"+era+":fee", er.Pos, "fee rule listed", "the "+era+" rule list has no minimum-fee rule")
		c.Check(size != nil, "fee-rule-listed", "ledger/"+era+":max-size", er.Pos, "max-size rule listed", "the "+era+" rule list has no maximum-size rule")
		if fee != nil {
			feeImpl[fee] = append(feeImpl[fee], era)
		}
		if size != nil {
			sizeImpl[size] = append(sizeImpl[size], era)
		}
	}
	for fn := range feeImpl {
		c.checkFeeRule(fn)
	}
	for fn := range sizeImpl {
		c.checkMaxSizeRule(fn)
	}
}


func (c *Ctx) checkFeeRule(fn *ssa.Function) {
	key := ssaFuncKey(fn)
	var cmp *ssa.Call
	for _, ci := range allCalls(fn) {
		if bigMethod(ci.Common()) == "Cmp" {
			cmp, _ = ci.(*ssa.Call)
		}
	}
	if cmp == nil {
		c.Bad("fee-at-least-minimum", key, fn.Pos(), "no comparison of the fee with the minimum fee")
		return
	}
	a, b := trace(cmp.Call.Args[0]), trace(cmp.Call.Args[1])
	isFee := func(s string) bool { return strings.Contains(s, "Fee(p0)") && !strings.Contains(s, "MinFeeTx") }
	isMin := func(s string) bool { return strings.HasPrefix(s, "SetUint64(") && strings.Contains(s, "MinFeeTx(p0,p3)#0") }
	var wantFact string
	switch {
	case isFee(a) && isMin(b):
		wantFact = desc(cmp) + " >= 0"
	case isMin(a) && isFee(b):
		wantFact = desc(cmp) + " <= 0"
	default:
		c.Bad("fee-at-least-minimum", key+":operands", cmp.Pos(), "the comparison is between %s and %s, not between tx.Fee() and MinFeeTx(tx,pp)", shortArg(a), shortArg(b))
		return
	}
	// accept exactly on wantFact
	okAccept := true
	w := ""
	rets := successReturns(fn)
	v := c.mustPass(fn, rets, func(f string) bool { return f == wantFact })
	for _, x := range v {
		if !x.OK {
			okAccept, w = false, x.Witness
		}
	}
	// and the accept edge really leads to success (not inverted): the edge's target returns nil
	okDir := false
	for _, ef := range edgeFacts(fn) {
		if ef.Fact == wantFact {
			s := ef.From.Succs[ef.Succ]
			if r, ok := s.Instrs[len(s.Instrs)-1].(*ssa.Return); ok && isNilConst(returnedValue(r, 0)) {
				okDir = true
			}
		}
	}
	c.Check(okAccept && okDir && len(rets) > 0, "fee-at-least-minimum", key, cmp.Pos(), "accepts iff fee ≥ minimum fee", "the fee rule does not accept exactly when tx.Fee() ≥ MinFeeTx(tx,pp) ("+w+")")
	// MinFeeTx of the same package
	var minFee *ssa.Function
	for _, ci := range allCalls(fn) {
		if cal := ci.Common().StaticCallee(); cal != nil && cal.Name() == "MinFeeTx" {
			minFee = cal
		}
	}
	if minFee == nil {
		c.Bad("fee-at-least-minimum", key+":min-fee", fn.Pos(), "MinFeeTx is not called")
		return
	}
	mk := ssaFuncKey(minFee)
	okVal := false
	var shown string
	for _, b := range minFee.Blocks {
		r, ok := b.Instrs[len(b.Instrs)-1].(*ssa.Return)
		if !ok {
			continue
		}
		if definitelyNonNilErr(returnedValue(r, 1), b, 0) {
			continue
		}
		t := trace(r.Results[0])
		shown = t
		if strings.HasPrefix(t, "CalculateMinFee(TxSizeForFee(p0)#0,MinFeeA<") && strings.Contains(t, ",MinFeeB<") {
			okVal = true
		} else {
			okVal = false
			break
		}
	}
	c.Check(okVal, "fee-at-least-minimum", mk+":value", minFee.Pos(), "MinFeeTx = CalculateMinFee(TxSizeForFee(tx), pp.MinFeeA, pp.MinFeeB)", "MinFeeTx returns "+shortArg(shown)+", not CalculateMinFee(TxSizeForFee(tx), MinFeeA, MinFeeB)")
}

func (c *Ctx) checkMaxSizeRule(fn *ssa.Function) {
	key := ssaFuncKey(fn)
	found := false
	for _, ef := range edgeFacts(fn) {
		iff := ef.From.Instrs[len(ef.From.Instrs)-1].(*ssa.If)
		bo, ok := iff.Cond.(*ssa.BinOp)
		if !ok {
			continue
		}
		x, y := trace(bo.X), trace(bo.Y)
		isLen := func(s string) bool {
			return s == "len(phi(Encode(p0)#0|Cbor(p0)))" || s == "len(phi(Cbor(p0)|Encode(p0)#0))" || s == "len(Cbor(p0))" || s == "len(Encode(p0)#0)"
		}
		isMax := func(s string) bool { return strings.HasPrefix(s, "MaxTxSize<") }
		var accept string
		switch {
		case isLen(x) && isMax(y):
			accept = "<="
		case isMax(x) && isLen(y):
			accept = ">="
		default:
			continue
		}
		if found {
			continue
		}
		found = true
		// which edge carries the accept relation?
		op := bo.Op.String()
		acceptSucc := -1
		if op == accept {
			acceptSucc = 0
		} else if negOp(bo.Op).String() == accept {
			acceptSucc = 1
		}
		ok2 := false
		if acceptSucc >= 0 {
			s := ef.From.Succs[acceptSucc]
			if r, ok := s.Instrs[len(s.Instrs)-1].(*ssa.Return); ok && isNilConst(returnedValue(r, 0)) {
				// and the other edge cannot reach success
				other := ef.From.Succs[1-acceptSucc]
				reach := reachFromAvoiding([]*ssa.BasicBlock{other}, nil)
				reach[other] = true
				bad := false
				for _, sr := range successReturns(fn) {
					if reach[sr.Block()] && sr.Block() != s {
						bad = true
					}
				}
				ok2 = !bad
			}
		}
		c.Check(ok2, "max-size-original-length", key, iff.Pos(), "accepts iff len(original bytes) ≤ MaxTxSize", "the max-size rule does not accept exactly when the original length ≤ MaxTxSize: "+shortArg(x)+" "+op+" "+shortArg(y))
	}
	if !found {
		c.Bad("max-size-original-length", key, fn.Pos(), "no comparison of the original encoding's length with MaxTxSize was found")
	}
}
