package main

import (
	"fmt"
	"go/ast"
	"go/token"
	"go/types"
	"sort"
	"strings"

	"golang.org/x/tools/go/packages"
	"golang.org/x/tools/go/ssa"
)

func init() {
	register(&Prop{
		ID:        "C20",
		Technique: "table extraction of the version maps + finite valuation of the generator per table key + writer/reader struct and value-range agreement",
		Explanation: "(1) protocolVersions and the DMQ tables are read as data: keys are constants in disjoint namespaces (NtN 7..15, NtC ≥ 0x8000, DMQ NtC 0x1001.., DMQ NtN 1..2); era flags of each entry form a prefix of Shelley..Dijkstra whose length never decreases with the version inside a namespace; NtC-only flags appear only on NtC keys and NtN-only flags only on NtN keys. " +
			"(2) GetProtocolVersionsNtC/NtN keep exactly the keys of their namespace (the filter comparison dominates the append) and sort before returning. (3) For every table key the generator GetProtocolVersionMap is evaluated with the loop variable pinned to that key (and the mode it belongs to): the struct type it stores must be the struct type the key's own decoder decodes into. " +
			"(4) Every constant the generator can store into a field is accepted by that key's decoder (decoder success reachable with the field pinned to the constant, helpers summarised), and each accessor reads the field the generator sets from the corresponding argument, with peer-sharing true exactly for the 'public' constant of that struct generation.",
		Assumptions: []string{"CBOR round trip of the structs themselves is the library's (toarray structs)"},
		Run:         runC20,
	})
}

type pvEntry struct {
	key     int64
	decoder string
	flags   map[string]bool
	pos     token.Pos
}

func (c *Ctx) readVersionTable(name string) []pvEntry {
	p := c.Pkg("protocol")
	v, ok := p.Types.Scope().Lookup(name).(*types.Var)
	if !ok {
		c.Undecided("protocol.%s not found", name)
	}
	init, ip := c.pkgVarInit(v)
	cl, ok := unparen(init).(*ast.CompositeLit)
	if !ok {
		c.Undecided("protocol.%s is not a literal", name)
	}
	var out []pvEntry
	for _, el := range cl.Elts {
		kv := el.(*ast.KeyValueExpr)
		k, ok := constInt(ip.TypesInfo, kv.Key)
		if !ok {
			c.Undecided("protocol.%s: non-constant key %s", name, types.ExprString(kv.Key))
		}
		e := pvEntry{key: k, flags: map[string]bool{}, pos: kv.Pos()}
		vcl, ok := unparen(kv.Value).(*ast.CompositeLit)
		if !ok {
			c.Undecided("protocol.%s[%d]: entry is not a literal", name, k)
		}
		for _, fe := range vcl.Elts {
			fkv := fe.(*ast.KeyValueExpr)
			fn := fkv.Key.(*ast.Ident).Name
			if fn == "NewVersionDataFromCborFunc" {
				if id, ok := unparen(fkv.Value).(*ast.Ident); ok {
					e.decoder = id.Name
				}
				continue
			}
			tv := ip.TypesInfo.Types[fkv.Value]
			if tv.Value == nil {
				c.Undecided("protocol.%s[%d].%s is not constant", name, k, fn)
			}
			e.flags[fn] = tv.Value.ExactString() == "true"
		}
		out = append(out, e)
	}
	sort.Slice(out, func(i, j int) bool { return out[i].key < out[j].key })
	return out
}

var eraFlags = []string{"EnableShelleyEra", "EnableAllegraEra", "EnableMaryEra", "EnableAlonzoEra", "EnableBabbageEra", "EnableConwayEra", "EnableDijkstraEra"}
var ntcOnly = []string{"EnableLocalQueryProtocol", "EnableLocalTxMonitorProtocol"}
var ntnOnly = []string{"EnableKeepAliveProtocol", "EnableFullDuplex", "EnablePeerSharingProtocol", "PeerSharingUseV11"}

func runC20(c *Ctx) {
	c.W.buildSSA()
	off := c.ConstInt("protocol", "ProtocolVersionNtCOffset")
	c.Check(off == 0x8000, "ntc-offset", "protocol.ProtocolVersionNtCOffset", 0, "0x8000", fmt.Sprintf("NtC offset is %#x, the wire uses bit 15", off))
	tab := c.readVersionTable("protocolVersions")
	if len(tab) < 15 {
		c.Undecided("protocolVersions has only %d entries", len(tab))
	}
	// (1) namespaces, prefixes, monotonicity
	lastLen := map[bool]int{}
	for _, e := range tab {
		ntc := e.key >= off
		key := fmt.Sprintf("protocolVersions[%d]", e.key)
		if ntc {
			c.Check(e.key-off >= 9 && e.key-off <= 64, "version-namespace", key, e.pos, "NtC key", "NtC key out of range")
		} else {
			c.Check(e.key >= 7 && e.key < 64, "version-namespace", key, e.pos, "NtN key", fmt.Sprintf("key %d is neither a NtN (7..) nor a NtC (≥0x8000) version", e.key))
		}
		// prefix
		n := 0
		prefix := true
		for i, f := range eraFlags {
			if e.flags[f] {
				if i != n {
					prefix = false
				}
				n++
			}
		}
		c.Check(prefix && n >= 1, "era-prefix", key, e.pos, fmt.Sprintf("eras enabled = first %d of the sequence", n), "the enabled eras are not a prefix of Shelley..Dijkstra")
		c.Check(n >= lastLen[ntc], "era-monotone", key, e.pos, "era prefix does not shrink with the version", fmt.Sprintf("version enables %d eras, an earlier version of the same namespace enables %d", n, lastLen[ntc]))
		if n > lastLen[ntc] {
			lastLen[ntc] = n
		}
		bad := ""
		for _, f := range ntcOnly {
			if e.flags[f] && !ntc {
				bad = f
			}
		}
		for _, f := range ntnOnly {
			if e.flags[f] && ntc {
				bad = f
			}
		}
		c.Check(bad == "", "flag-namespace", key, e.pos, "only flags of its own namespace", "flag "+bad+" is set on a version of the other namespace")
		c.Check(e.decoder != "", "version-decoder", key, e.pos, "has a version-data decoder "+e.decoder, "entry has no version-data decoder")
	}
	// DMQ tables disjoint
	seenKeys := map[int64]string{}
	for _, t := range []string{"protocolVersions", "dmqProtocolVersionsNtC", "dmqProtocolVersionsNtN"} {
		for _, e := range c.readVersionTable(t) {
			if prev, dup := seenKeys[e.key]; dup {
				c.Bad("version-namespace", fmt.Sprintf("%s[%d]", t, e.key), e.pos, "version key %d also appears in %s: GetProtocolVersion is ambiguous", e.key, prev)
			}
			seenKeys[e.key] = t
		}
	}
	c.Ok("version-namespace", "tables-disjoint", 0, "Cardano and DMQ version tables have disjoint keys (%d keys)", len(seenKeys))

	// (2) list functions
	for _, spec := range []struct{ fn, fact string }{{"GetProtocolVersionsNtC", " >= 32768"}, {"GetProtocolVersionsNtN", " < 32768"}} {
		fn := c.SSAFunc("protocol", spec.fn)
		var appends, sorts []ssa.Instruction
		for _, ci := range allCalls(fn) {
			switch calleeName(ci.Common()) {
			case "append":
				appends = append(appends, ci.(ssa.Instruction))
			case "slices.Sort", "sort.Slice", "slices.SortFunc":
				sorts = append(sorts, ci.(ssa.Instruction))
			}
		}
		okF := len(appends) > 0
		for _, v := range c.mustPass(fn, appends, func(f string) bool { return strings.HasPrefix(f, "next(range(global:protocol.protocolVersions))#1") && strings.HasSuffix(f, spec.fact) }) {
			if !v.OK {
				okF = false
			}
		}
		c.Check(okF, "list-filter", "protocol."+spec.fn, fn.Pos(), "only keys with version"+spec.fact+" are listed", "the list can contain versions of the other namespace")
		okS := false
		for _, s := range sorts {
			for _, b := range fn.Blocks {
				if r, ok := b.Instrs[len(b.Instrs)-1].(*ssa.Return); ok && precedes(s, r) && !inLoop(s.Block()) {
					okS = true
				}
			}
		}
		c.Check(okS, "list-sorted", "protocol."+spec.fn, fn.Pos(), "sorted before returning", "the version list is returned without being sorted (map iteration order)")
	}

	// (3)+(4) generator vs decoder per key
	gen := c.SSAFunc("protocol", "GetProtocolVersionMap")
	verAtom := "next(range(global:protocol.protocolVersions))#1"
	modeNtC := c.ConstInt("protocol", "ProtocolModeNodeToClient")
	modeNtN := c.ConstInt("protocol", "ProtocolModeNodeToNode")
	for _, e := range tab {
		key := fmt.Sprintf("protocolVersions[%d]", e.key)
		mode := modeNtN
		if e.key >= off {
			mode = modeNtC
		}
		reach := psReachVal(gen, []*ssa.BasicBlock{gen.Blocks[0]}, nil, map[string]int64{verAtom: e.key, "p0": mode})
		wTypes := map[string]bool{}
		fieldConsts := map[string]map[int64]bool{}
		for _, b := range gen.Blocks {
			if !reach[b] {
				continue
			}
			for _, in := range b.Instrs {
				mu, ok := in.(*ssa.MapUpdate)
				if !ok {
					continue
				}
				// the concrete value(s) behind the stored interface, followed through same-package constructor
				// helpers evaluated under the same valuation
				ifaceSources(gen, mu.Value, map[string]int64{verAtom: e.key, "p0": mode}, reach, 0, func(val ssa.Value, r map[*ssa.BasicBlock]bool) {
					wTypes[typeStr(val.Type())] = true
					// constants stored into integer fields of the struct being built (through its alloc)
					collectFieldConsts(val, fieldConsts, r)
				})
			}
		}
		// reader type
		dec := c.FuncObjOpt("protocol", e.decoder)
		if dec == nil {
			c.Bad("writer-reader-type", key, e.pos, "decoder %s not found", e.decoder)
			continue
		}
		dfn := c.SSAOf(dec)
		rType := ""
		for _, ci := range allCalls(dfn) {
			if calleeName(ci.Common()) == "cbor.Decode" {
				if pt, ok := ci.Common().Args[1].(*ssa.MakeInterface); ok {
					if p, ok := pt.X.Type().(*types.Pointer); ok {
						rType = typeStr(p.Elem())
					}
				}
			}
		}
		wl := sortedKeys(wTypes)
		c.Check(len(wl) == 1 && wl[0] == rType, "writer-reader-type", key, e.pos, "generated and decoded as "+rType, fmt.Sprintf("GetProtocolVersionMap generates %v for this version but its decoder %s decodes %s", wl, e.decoder, rType))
		// (4) decoder accepts every constant the writer can store
		for fld, consts := range fieldConsts {
			for k := range consts {
				atom := "alloc:*" + rType + "." + fld
				// embedded struct fields: try both the outer and promoted path
				a, r := c.ruleVerdictArgs(dfn, map[string]int64{atom: k, "alloc:*" + rType + ".VersionDataNtN11to12." + fld: k}, 0)
				c.Check(a && !r || a, "writer-value-accepted", fmt.Sprintf("%s:%s=%d", key, fld, k), e.pos, "the decoder accepts the value the generator writes", fmt.Sprintf("the generator writes %s=%d for this version but its own decoder %s rejects that value", fld, k, e.decoder))
				if a && r {
					// undetermined is acceptable only if no guard mentions the field at all
				}
			}
		}
	}
	// accessors
	c.checkVersionDataAccessors()
}

func collectFieldConsts(v ssa.Value, out map[string]map[int64]bool, reach map[*ssa.BasicBlock]bool) {
	ld, ok := v.(*ssa.UnOp)
	if !ok {
		return
	}
	al, ok := ld.X.(*ssa.Alloc)
	if !ok {
		return
	}
	var visit func(addr ssa.Value, d int)
	visit = func(addr ssa.Value, d int) {
		if d > 3 {
			return
		}
		for _, u := range referrersOf(addr) {
			fa, ok := u.(*ssa.FieldAddr)
			if !ok {
				continue
			}
			name := fieldName(fa.X.Type(), fa.Field)
			for _, u2 := range referrersOf(fa) {
				st, ok := u2.(*ssa.Store)
				if !ok || st.Addr != fa {
					continue
				}
				var leaves func(x ssa.Value, dd int)
				leaves = func(x ssa.Value, dd int) {
					if dd > 4 {
						return
					}
					switch y := x.(type) {
					case *ssa.Const:
						if b, ok := y.Type().Underlying().(*types.Basic); ok && b.Info()&types.IsInteger != 0 {
							if out[name] == nil {
								out[name] = map[int64]bool{}
							}
							out[name][y.Int64()] = true
						}
					case *ssa.Phi:
						for i, e := range y.Edges {
							if reach[y.Block().Preds[i]] {
								leaves(e, dd+1)
							}
						}
					case *ssa.Convert:
						leaves(y.X, dd+1)
					}
				}
				leaves(st.Val, 0)
			}
			visit(fa, d+1) // embedded struct
		}
	}
	visit(al, 0)
}

// ruleVerdictArgs is ruleVerdict with callee summaries that map valued arguments onto the callee's parameters.
func (c *Ctx) ruleVerdictArgs(fn *ssa.Function, val map[string]int64, depth int) (accept, reject bool) {
	v2 := map[string]int64{}
	for k, x := range val {
		v2[k] = x
	}
	if depth < 3 {
		for _, ci := range allCalls(fn) {
			callee := ci.Common().StaticCallee()
			if callee == nil || len(callee.Blocks) == 0 || callee.Pkg == nil || !strings.HasPrefix(callee.Pkg.Pkg.Path(), modPath) {
				continue
			}
			if errorResultIndex(callee) < 0 || callee.Signature.Results().Len() != 1 {
				continue
			}
			cv := map[string]int64{}
			for i, a := range ci.Common().Args {
				if k, ok := a.(*ssa.Const); ok && k.Value != nil {
					if b, ok := k.Type().Underlying().(*types.Basic); ok && b.Info()&types.IsInteger != 0 {
						cv[fmt.Sprintf("p%d", i)] = k.Int64()
					}
					continue
				}
				if x, ok := val[desc(a)]; ok {
					cv[fmt.Sprintf("p%d", i)] = x
				}
			}
			if len(cv) == 0 {
				continue
			}
			a, r := c.ruleVerdictArgs(callee, cv, depth+1)
			if a != r {
				atom := descCall(ci.Common(), 0)
				if a {
					v2[atom] = 0
				} else {
					v2[atom] = 1
				}
			}
		}
	}
	return acceptsUnder(fn, v2), rejectsUnder(fn, v2)
}

func (c *Ctx) checkVersionDataAccessors() {
	p := c.Pkg("protocol")
	want := map[string]string{"NetworkMagic": "CborNetworkMagic", "DiffusionMode": "CborInitiatorAndResponderDiffusionMode", "Query": "CborQuery", "PeerSharing": "CborPeerSharing"}
	n := 0
	c.eachFuncDecl(func(rel string) bool { return rel == "protocol" }, func(pp *packages.Package, fd *ast.FuncDecl, obj *types.Func) {
		fld, ok := want[obj.Name()]
		if !ok || fd.Recv == nil {
			return
		}
		rt := p.TypesInfo.TypeOf(fd.Recv.List[0].Type)
		if rt == nil || !strings.HasPrefix(typeStr(rt), "protocol.VersionData") {
			return
		}
		fn := c.SSAOf(obj)
		st, isStruct := rt.Underlying().(*types.Struct)
		hasField := false
		if isStruct {
			hasField = structHasFieldDeep(st, fld)
		}
		var rets []string
		for _, b := range fn.Blocks {
			if r, ok := b.Instrs[len(b.Instrs)-1].(*ssa.Return); ok {
				rets = append(rets, desc(r.Results[0]))
			}
		}
		rd := strings.Join(rets, " | ")
		key := ssaFuncKey(fn)
		n++
		if !hasField {
			// the struct generation has no such field: accessor must be a constant (or the value itself for the uint32 newtype)
			c.Check(rd == "false" || rd == "true" || rd == "p0" || strings.Contains(rd, "alloc:") && !strings.Contains(rd, "Cbor") || rd == "0", "versiondata-accessor", key, fn.Pos(), "constant/self accessor ("+rd+")", "accessor returns "+rd+" although the struct has no "+fld)
			return
		}
		c.Check(strings.Contains(rd, "."+fld) || strings.Contains(rd, ")."+obj.Name()+"("), "versiondata-accessor", key, fn.Pos(), "reads "+fld+" ("+shortArg(rd)+")", obj.Name()+"() returns "+rd+", not the "+fld+" field that the generator sets")
	})
	if n < 16 {
		c.Undecided("only %d version-data accessors found (20 confirmed)", n)
	}
	// peer sharing polarity: true for the generation's public constant, false for its no-sharing constant
	for _, spec := range []struct {
		typ          string
		pub, no, prv string
	}{{"VersionDataNtN11to12", "PeerSharingModeV11PeerSharingPublic", "PeerSharingModeV11NoPeerSharing", "PeerSharingModeV11PeerSharingPrivate"}, {"VersionDataNtN13andUp", "PeerSharingModePeerSharingPublic", "PeerSharingModeNoPeerSharing", ""}} {
		fn := c.SSAFunc("protocol", spec.typ+".PeerSharing")
		eval := func(v int64) (bool, bool) {
			for _, b := range fn.Blocks {
				if r, ok := b.Instrs[len(b.Instrs)-1].(*ssa.Return); ok {
					if rv := returnedValue(r, 0); rv != nil {
						tf, _ := condFacts(rv)
						if len(tf) == 1 && !strings.HasPrefix(tf[0], "T:") {
							// atom = left operand
							for _, op := range []string{" >= ", " != ", " == ", " > ", " <= ", " < "} {
								if i := strings.Index(tf[0], op); i > 0 {
									known, truth := evalFact(tf[0], map[string]int64{tf[0][:i]: v})
									return truth, known
								}
							}
						}
					}
				}
			}
			return false, false
		}
		pub, no := c.ConstInt("protocol", spec.pub), c.ConstInt("protocol", spec.no)
		tp, k1 := eval(pub)
		tn, k2 := eval(no)
		c.Check(k1 && k2 && tp && !tn, "peersharing-polarity", "protocol."+spec.typ, fn.Pos(), fmt.Sprintf("PeerSharing() is true for %d (public) and false for %d (none)", pub, no), fmt.Sprintf("PeerSharing() gives %v for the public constant %d and %v for the no-sharing constant %d", tp, pub, tn, no))
	}
}

func structHasFieldDeep(st *types.Struct, name string) bool {
	for i := 0; i < st.NumFields(); i++ {
		f := st.Field(i)
		if f.Name() == name {
			return true
		}
		if f.Embedded() {
			if s2, ok := f.Type().Underlying().(*types.Struct); ok && structHasFieldDeep(s2, name) {
				return true
			}
		}
	}
	return false
}

// ifaceSources visits the concrete values an interface-typed value can hold under the valuation: the operand of a
// MakeInterface, the feasible edges of a phi, and the feasible returns of a same-package helper whose parameters
// take the valued or constant arguments.
func ifaceSources(fn *ssa.Function, v ssa.Value, val map[string]int64, reach map[*ssa.BasicBlock]bool, depth int, visit func(ssa.Value, map[*ssa.BasicBlock]bool)) {
	if depth > 4 {
		visit(v, reach)
		return
	}
	switch x := v.(type) {
	case *ssa.MakeInterface:
		visit(x.X, reach)
	case *ssa.Phi:
		for i, e := range x.Edges {
			if reach[x.Block().Preds[i]] {
				ifaceSources(fn, e, val, reach, depth+1, visit)
			}
		}
	case *ssa.Call:
		h := samePkgHelper(fn, &x.Call)
		if h == nil {
			visit(v, reach)
			return
		}
		hval := map[string]int64{}
		for i, a := range x.Call.Args {
			if cv, ok := a.(*ssa.Convert); ok {
				a = cv.X
			}
			if k, ok := a.(*ssa.Const); ok && k.Value != nil {
				if b, ok := k.Type().Underlying().(*types.Basic); ok && b.Info()&types.IsInteger != 0 {
					hval[fmt.Sprintf("p%d", i)] = k.Int64()
				}
				continue
			}
			if xv, ok := val[desc(a)]; ok {
				hval[fmt.Sprintf("p%d", i)] = xv
			}
		}
		hreach := psReachVal(h, []*ssa.BasicBlock{h.Blocks[0]}, nil, hval)
		for _, b := range h.Blocks {
			if r, ok := b.Instrs[len(b.Instrs)-1].(*ssa.Return); ok && hreach[b] && len(r.Results) >= 1 {
				ifaceSources(h, returnedValue(r, 0), hval, hreach, depth+1, visit)
			}
		}
	default:
		visit(v, reach)
	}
}
