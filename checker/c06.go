package main

import (
	"go/types"
	"go/ast"
	"go/token"
	"strings"

	"golang.org/x/tools/go/ssa"
)

func init() {
	register(&Prop{
		ID:        "C06",
		Technique: "who-may-write on MultiAsset.data with freshness (ownership) rules for stored maps and quantities, provenance of the decoded data through pruneZeroAssets, encoder option table, and operator rules inside the quantity helpers (generic bodies analysed once for all instantiations)",
		Explanation: "Decides structural necessary conditions of the algebraic laws: (a) every write of MultiAsset.data in a decoder is the result of pruneZeroAssets, which deletes exactly the entries whose amount is zero (amountIsZero) and then empty policies; (b) MarshalCBOR encodes the map through cbor.Encode whose encoder options sort with SortCoreDeterministic; " +
			"(c) Add never stores into the receiver a map or a quantity object owned by the operand: inner maps stored are fresh MakeMaps and quantities are results of addAmounts, whose big-integer branch returns a newly allocated Int; Add visits every (policy, asset) of the operand and combines with the receiver's current quantity of the same key; (d) Compare decides on counts of the normalised (zero-free, copied) maps and on amountsEqual of each quantity; normalize skips exactly the zero amounts and copies big integers; (e) amountIsZero/amountsEqual treat a nil big integer as zero; " +
			"(f) the fixed-width branches of addAmounts add with the machine operator without an overflow check — reported (known finding) because the sum then disagrees with integer addition.",
		Assumptions: []string{"math/big", "Go map semantics", "commutativity/associativity/transitivity themselves are value-level and follow from (c)–(e) only under exact per-asset addition; they are not enumerated"},
		Run:         runC06,
	})
}

func runC06(c *Ctx) {
	c.W.buildSSA()
	rel := "ledger/common"
	// (a) writers of .data
	nW := 0
	for _, fn := range c.pkgFuncs(rel) {
		if fn.TypeParams().Len() == 0 && len(fn.TypeArgs()) > 0 {
			continue // instantiations: analyse the generic origin only
		}
		for _, in := range fnInstrs(fn) {
			st, ok := in.(*ssa.Store)
			if !ok {
				continue
			}
			fa, ok := st.Addr.(*ssa.FieldAddr)
			if !ok || fieldName(fa.X.Type(), fa.Field) != "data" || !strings.Contains(typeStr(fa.X.Type()), "MultiAsset") {
				continue
			}
			nW++
			key := ssaFuncKey(fn) + ":" + shortArg(trace(st.Val))
			t := trace(st.Val)
			name := fn.Name()
			switch {
			case name == "UnmarshalJSON":
				c.Ok("decoded-zero-free", key, st.Pos(), "JSON import is not a wire decoder (not covered by the property)")
			case strings.HasPrefix(name, "Unmarshal"):
				c.Check(strings.HasPrefix(t, "pruneZeroAssets"), "decoded-zero-free", key, st.Pos(), "decoded data passes through pruneZeroAssets", "the decoder stores "+shortArg(t)+" without pruning zero quantities: a decoded value keeps zero entries")
			case name == "NewMultiAsset":
				c.Ok("decoded-zero-free", key, st.Pos(), "constructor stores the caller's map (caller-owned by contract)")
			default:
				c.Bad("decoded-zero-free", key, st.Pos(), "MultiAsset.data is written in %s, outside the constructor and the decoders", name)
			}
		}
	}
	if nW < 3 {
		c.Undecided("only %d writes to MultiAsset.data found", nW)
	}
	// pruneZeroAssets
	if fn := c.SSAFunc(rel, "pruneZeroAssets"); fn != nil {
		key := ssaFuncKey(fn)
		var delAsset, delPolicy ssa.CallInstruction
		for _, ci := range allCalls(fn) {
			if b, ok := ci.Common().Value.(*ssa.Builtin); ok && b.Name() == "delete" {
				if strings.Contains(trace(ci.Common().Args[0]), "next(range(p0))#2") {
					delAsset = ci
				} else if trace(ci.Common().Args[0]) == "p0" {
					delPolicy = ci
				}
			}
		}
		// maps.DeleteFunc(inner map, func(_, qty) bool { return amountIsZero(qty) }) deletes exactly the zero entries
		viaDeleteFunc := false
		if delAsset == nil {
			for _, ci := range allCalls(fn) {
				if !strings.HasPrefix(calleeName(ci.Common()), "maps.DeleteFunc") || len(ci.Common().Args) != 2 || !strings.Contains(trace(ci.Common().Args[0]), "next(range(p0))#2") {
					continue
				}
				var pred *ssa.Function
				switch x := ci.Common().Args[1].(type) {
				case *ssa.MakeClosure:
					pred, _ = x.Fn.(*ssa.Function)
				case *ssa.Function:
					pred = x
				}
				if pred == nil || len(pred.Params) != 2 {
					continue
				}
				exact := true
				for _, in := range fnInstrs(pred) {
					if r, ok := in.(*ssa.Return); ok {
						t := trace(r.Results[0])
						if !(strings.HasPrefix(t, "amountIsZero") && strings.HasSuffix(t, "(p1)")) {
							exact = false
						}
					}
				}
				if exact {
					delAsset, viaDeleteFunc = ci, true
				}
			}
		}
		// maps.DeleteFunc(data, func(_, assets) bool { maps.DeleteFunc(assets, isZero); return len(assets) == 0 })
		nested := false
		if delAsset == nil && delPolicy == nil {
			exactZeroPred := func(v ssa.Value) bool {
				var pred *ssa.Function
				switch x := v.(type) {
				case *ssa.MakeClosure:
					pred, _ = x.Fn.(*ssa.Function)
				case *ssa.Function:
					pred = x
				}
				if pred == nil || len(pred.Params) != 2 {
					return false
				}
				for _, in := range fnInstrs(pred) {
					if r, ok := in.(*ssa.Return); ok {
						t := trace(r.Results[0])
						if !(strings.HasPrefix(t, "amountIsZero") && strings.HasSuffix(t, "(p1)")) {
							return false
						}
					}
				}
				return true
			}
			for _, ci := range allCalls(fn) {
				if !strings.HasPrefix(calleeName(ci.Common()), "maps.DeleteFunc") || len(ci.Common().Args) != 2 || trace(ci.Common().Args[0]) != "p0" {
					continue
				}
				var outer *ssa.Function
				switch x := ci.Common().Args[1].(type) {
				case *ssa.MakeClosure:
					outer, _ = x.Fn.(*ssa.Function)
				case *ssa.Function:
					outer = x
				}
				if outer == nil || len(outer.Params) != 2 {
					continue
				}
				var inner ssa.CallInstruction
				for _, cj := range allCalls(outer) {
					if strings.HasPrefix(calleeName(cj.Common()), "maps.DeleteFunc") && len(cj.Common().Args) == 2 && trace(cj.Common().Args[0]) == "p1" && exactZeroPred(cj.Common().Args[1]) {
						inner = cj
					}
				}
				okRet := inner != nil
				for _, in := range fnInstrs(outer) {
					if r, ok := in.(*ssa.Return); ok {
						if trace(r.Results[0]) != "(len(p1) == 0)" || !(inner != nil && (inner.Block() == r.Block() && precedes(inner.(ssa.Instruction), r) || inner.Block().Dominates(r.Block()))) {
							okRet = false
						}
					}
				}
				if okRet {
					nested = true
				}
			}
		}
		okA := viaDeleteFunc || nested
		if delAsset != nil && !viaDeleteFunc {
			v := c.mustPass(fn, []ssa.Instruction{delAsset.(ssa.Instruction)}, func(f string) bool {
				return strings.HasPrefix(f, "T:call:ledger/common.amountIsZero(")
			})
			// and every zero is deleted: the T edge leads to the delete
			okA = v[0].OK
			for _, ef := range edgeFacts(fn) {
				if strings.HasPrefix(ef.Fact, "T:call:ledger/common.amountIsZero(") {
					okA = okA && ef.From.Succs[ef.Succ] == delAsset.Block()
				}
			}
		}
		c.Check(okA, "prune-exactly-zeros", key+":assets", fn.Pos(), "an asset entry is deleted exactly when amountIsZero holds", "pruneZeroAssets does not delete exactly the zero-quantity entries")
		okP := nested
		if delPolicy != nil {
			v := c.mustPass(fn, []ssa.Instruction{delPolicy.(ssa.Instruction)}, func(f string) bool {
				return strings.HasPrefix(f, "len(next(range(p0))#2) == 0")
			})
			okP = v[0].OK && delAsset != nil && reachesBlock(delAsset.Block(), delPolicy.Block())
		}
		c.Check(okP, "prune-exactly-zeros", key+":policies", fn.Pos(), "a policy is deleted exactly when it is left without assets, after its assets were pruned", "pruneZeroAssets does not remove exactly the policies left empty after pruning")
	} else {
		c.Undecided("pruneZeroAssets not found")
	}
	// (b)
	if fn := c.SSAFunc(rel, "MultiAsset.MarshalCBOR"); fn != nil {
		ok := false
		for _, b := range fn.Blocks {
			if r, isR := b.Instrs[len(b.Instrs)-1].(*ssa.Return); isR {
				ok = trace(r.Results[0]) == "Encode(data<p0)#0"
			}
		}
		c.Check(ok, "encoding-deterministic", ssaFuncKey(fn), fn.Pos(), "encodes the map itself through cbor.Encode", "MultiAsset.MarshalCBOR does not encode m.data through cbor.Encode")
	}
	{
		p := c.Pkg("cbor")
		found := false
		for _, f := range p.Syntax {
			ast.Inspect(f, func(n ast.Node) bool {
				kv, ok := n.(*ast.KeyValueExpr)
				if !ok {
					return true
				}
				if id, ok := kv.Key.(*ast.Ident); ok && id.Name == "Sort" {
					if sel, ok := kv.Value.(*ast.SelectorExpr); ok {
						found = true
						c.Check(sel.Sel.Name == "SortCoreDeterministic" || sel.Sel.Name == "SortCanonical" || sel.Sel.Name == "SortBytewiseLexical", "encoding-deterministic", "cbor:EncOptions.Sort", kv.Pos(), "map keys are sorted deterministically ("+sel.Sel.Name+")", "the encoder's Sort option is "+sel.Sel.Name+": map encodings depend on iteration order")
					}
				}
				return true
			})
		}
		if !found {
			c.Bad("encoding-deterministic", "cbor:EncOptions.Sort", token.NoPos, "no Sort option is set on the encoder: map encodings depend on iteration order")
		}
	}
	// (c) Add
	if fn := c.SSAFunc(rel, "MultiAsset.Add"); fn != nil {
		key := ssaFuncKey(fn)
		n := 0
		// map writes in the receiver's own helper methods (ensurePolicy) count as Add's
		for _, h := range closureFuncs(fn, 1) {
			if h == fn || h.Signature.Recv() == nil {
				continue
			}
			for _, in := range fnInstrs(h) {
				if mu, ok := in.(*ssa.MapUpdate); ok && strings.Contains(trace(mu.Map), "data<p0") {
					if _, isMM := trace(mu.Value), true; isMM && strings.Contains(trace(mu.Value), "makemap") {
						n++
					}
				}
			}
		}
		for _, in := range fnInstrs(fn) {
			mu, ok := in.(*ssa.MapUpdate)
			if !ok {
				continue
			}
			mt := traceIP(fn, mu.Map)
			if !strings.Contains(mt, "data<p0") {
				c.Bad("add-owns-its-storage", key+":writes:"+shortArg(mt), mu.Pos(), "Add writes into %s, which is not the receiver's storage", mt)
				continue
			}
			n++
			vt := trace(mu.Value)
			switch mu.Value.(type) {
			case *ssa.MakeMap:
				c.Ok("add-owns-its-storage", key+":inner-map", mu.Pos(), "a fresh inner map is stored")
			default:
				if strings.HasPrefix(vt, "addAmounts") {
					a0 := vt
					okArgs := (strings.Contains(a0, "Asset(p0,next(range(data<p1))#1") || strings.Contains(a0, "lookup(lookup(data<p0,next(range(data<p1))#1)#0,next(range(next(range(data<p1))#2))#1)") || strings.Contains(a0, "lookup(lookup(data<p0,next(range(data<p1))#1),next(range(next(range(data<p1))#2))#1)")) && strings.Contains(a0, "next(range(next(range(data<p1))#2))#2")
					c.Check(okArgs, "add-owns-its-storage", key+":quantity", mu.Pos(), "stores addAmounts(receiver's current quantity of the key, operand's quantity)", "the quantity stored is "+shortArg(vt)+", not addAmounts(receiver[key], operand[key])")
					// key identity
					kt := trace(mu.Key)
					c.Check(kt == "next(range(next(range(data<p1))#2))#1" && strings.Contains(mt, "next(range(data<p1))#1"), "add-owns-its-storage", key+":same-key", mu.Pos(), "stored under the operand entry's own policy and asset", "the sum is stored under "+shortArg(kt)+" in "+shortArg(mt))
				} else {
					c.Bad("add-owns-its-storage", key+":stores:"+shortArg(vt), mu.Pos(), "Add stores %s into the receiver: an object owned by the operand becomes shared, so a later Add on the receiver silently changes the operand (and sums depend on the order operands are reused in)", shortArg(vt))
				}
			}
		}
		c.Check(n >= 2, "add-owns-its-storage", key+":sites", fn.Pos(), "Add writes the receiver's maps", "Add has fewer than two map writes")
	}
	// addAmounts
	if fn := c.SSAFunc(rel, "addAmounts"); fn != nil {
		key := ssaFuncKey(fn)
		okFresh := false
		for _, ci := range allCalls(fn) {
			if bigMethod(ci.Common()) == "Add" {
				_, isAlloc := ci.Common().Args[0].(*ssa.Alloc)
				okFresh = isAlloc
				a, b := trace(ci.Common().Args[1]), trace(ci.Common().Args[2])
				c.Check(strings.Contains(a, "assert<p0") && strings.Contains(b, "assert<p1"), "quantity-addition", key+":bigint-operands", ci.Pos(), "adds the two arguments", "the big-integer branch adds "+shortArg(a)+" and "+shortArg(b))
			}
		}
		c.Check(okFresh, "quantity-addition", key+":bigint-fresh", fn.Pos(), "the big-integer sum is a newly allocated Int", "the big-integer branch of addAmounts writes the sum into one of its arguments: sums alias operands")
		for _, in := range fnInstrs(fn) {
			bo, ok := in.(*ssa.BinOp)
			if !ok {
				continue
			}
			ts := typeStr(bo.Type())
			if bo.Op == token.ADD {
				// guarded?
				guarded := false
				for _, ci := range allCalls(fn) {
					n := calleeName(ci.Common())
					if strings.Contains(n, "Checked") || strings.Contains(n, "bits.Add") {
						guarded = true
					}
				}
				c.Check(guarded, "quantity-addition-exact", key+":"+ts, bo.Pos(), "fixed-width addition is overflow-checked", "the "+ts+" branch adds with the machine operator and no overflow check: for quantities near the end of the range the sum wraps and disagrees with integer addition")
			} else if bo.Op != token.EQL && bo.Op != token.NEQ {
				c.Bad("quantity-addition", key+":operator:"+bo.Op.String(), bo.Pos(), "addAmounts applies %s to the quantities", bo.Op)
			}
		}
	}
	// (d) Compare / normalize
	if fn := c.SSAFunc(rel, "MultiAsset.Compare"); fn != nil {
		key := ssaFuncKey(fn)
		nEq := 0
		for _, h := range closureFuncs(fn, 1) {
			for _, ci := range allCalls(h) {
				if strings.Contains(calleeName(ci.Common()), ".amountsEqual") {
					nEq++
				}
			}
		}
		c.Check(nEq >= 1, "compare-zero-insensitive", key+":amountsEqual", fn.Pos(), "quantities are compared with amountsEqual", "Compare does not compare quantities through amountsEqual")
		raw := 0
		// reading a single quantity out of the raw maps is what Asset() does too; what must not come from the raw maps
		// is anything that sees their zero entries: a length, an iteration, a presence test
		var onlyLookups func(v ssa.Value, d int) bool
		onlyLookups = func(v ssa.Value, d int) bool {
			if d > 3 {
				return false
			}
			for _, r := range *v.Referrers() {
				switch x := r.(type) {
				case *ssa.UnOp:
					if !onlyLookups(x, d+1) {
						return false
					}
				case *ssa.Lookup:
					if x.X != v || x.CommaOk {
						return false
					}
					if _, isMap := x.Type().Underlying().(*types.Map); isMap && !onlyLookups(x, d+1) {
						return false
					}
				case *ssa.DebugRef:
				default:
					return false
				}
			}
			return true
		}
		for _, in := range fnInstrs(fn) {
			if fa, ok := in.(*ssa.FieldAddr); ok && fieldName(fa.X.Type(), fa.Field) == "data" && !onlyLookups(fa, 0) {
				raw++
			}
		}
		c.Check(raw == 0, "compare-zero-insensitive", key+":no-raw-data", fn.Pos(), "Compare reads the maps only through normalize()/Asset()", "Compare reads .data directly: zero entries influence the result")
		okLen := 0
		for _, f := range edgeFacts(fn) {
			if strings.HasPrefix(f.Fact, "len(") && strings.Contains(f.Fact, "normalize(") && strings.Contains(f.Fact, " != len(") {
				okLen++
			}
		}
		c.Check(okLen >= 2, "compare-zero-insensitive", key+":counts", fn.Pos(), "policy and asset counts are taken from the normalised maps", "Compare does not compare the counts of the normalised (zero-free) maps")
	}
	if fn := c.SSAFunc(rel, "MultiAsset.normalize"); fn != nil {
		key := ssaFuncKey(fn)
		nU := 0
		okAll := true
		for _, in := range fnInstrs(fn) {
			mu, ok := in.(*ssa.MapUpdate)
			if !ok {
				continue
			}
			if _, isMM := mu.Value.(*ssa.MakeMap); isMM {
				continue
			}
			nU++
			v := c.mustPass(fn, []ssa.Instruction{mu}, func(f string) bool { return strings.HasPrefix(f, "F:call:ledger/common.amountIsZero(") })
			if !v[0].OK {
				okAll = false
			}
		}
		c.Check(nU >= 1 && okAll, "compare-zero-insensitive", key+":skips-zeros", fn.Pos(), "normalize keeps exactly the non-zero quantities", "normalize keeps zero quantities (or drops non-zero ones)")
		// non-zero entries are always kept: from the F edge every path reaches a MapUpdate
		copies := false
		for _, h := range closureFuncs(fn, 1) {
			for _, ci := range allCalls(h) {
				if bigMethod(ci.Common()) == "Set" {
					if _, isAlloc := ci.Common().Args[0].(*ssa.Alloc); isAlloc {
						copies = true
					}
				}
			}
		}
		c.Check(copies, "compare-zero-insensitive", key+":copies", fn.Pos(), "big integers are copied into the normalised map", "normalize shares big integers with the original value")
	}
	// (e) nil = zero
	if fn := c.SSAFunc(rel, "amountIsZero"); fn != nil {
		ok := false
		for _, ef := range edgeFacts(fn) {
			if strings.HasSuffix(ef.Fact, "#0 == nil") || strings.HasSuffix(ef.Fact, " == nil") {
				s := ef.From.Succs[ef.Succ]
				if r, isR := s.Instrs[len(s.Instrs)-1].(*ssa.Return); isR && desc(r.Results[0]) == "true" {
					ok = true
				}
			}
		}
		c.Check(ok, "nil-is-zero", ssaFuncKey(fn), fn.Pos(), "a nil big integer counts as zero", "amountIsZero does not treat a nil big integer as zero")
		okSign := false
		for _, b := range fn.Blocks {
			if r, isR := b.Instrs[len(b.Instrs)-1].(*ssa.Return); isR {
				if bo, isBo := r.Results[0].(*ssa.BinOp); isBo && bo.Op == token.EQL && strings.HasPrefix(trace(bo.X), "Sign(") && desc(bo.Y) == "0" {
					okSign = true
				}
			}
		}
		c.Check(okSign, "nil-is-zero", ssaFuncKey(fn)+":sign", fn.Pos(), "a big integer is zero iff Sign()==0", "amountIsZero does not decide big integers by Sign()==0")
	}
	if fn := c.SSAFunc(rel, "amountsEqual"); fn != nil {
		okCmp := false
		for _, b := range fn.Blocks {
			if r, isR := b.Instrs[len(b.Instrs)-1].(*ssa.Return); isR {
				if bo, isBo := r.Results[0].(*ssa.BinOp); isBo && bo.Op == token.EQL && strings.HasPrefix(trace(bo.X), "Cmp(") && desc(bo.Y) == "0" {
					t := trace(bo.X)
					okCmp = strings.Contains(t, "assert<p0") && strings.Contains(t, "assert<p1")
				}
			}
		}
		c.Check(okCmp, "nil-is-zero", ssaFuncKey(fn)+":cmp", fn.Pos(), "two big integers are equal iff a.Cmp(b)==0", "amountsEqual does not compare big integers with a.Cmp(b)==0")
	}
}
