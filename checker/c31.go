package main

import (
	"fmt"
	"go/token"
	"strings"

	"golang.org/x/tools/go/ssa"
)

func init() {
	register(&Prop{
		ID:        "C31",
		Technique: "structural unpacking of the hash preimage (nested appends) with provenance traces, must-pass-through rules on the accepting paths, and per-version path-sensitive classification of the language-view encoder's phi edges",
		Explanation: "Per era rule (Alonzo, Babbage, Conway, Dijkstra): (1) the value compared with the declared hash is Blake2b256 of append(append(append(_, R), D), L) in that order, where R comes from the stored bytes of WsRedeemers, D from the stored bytes of WsPlutusData, L from EncodeLangViews(used, pp.CostModels); re-encoding of R or D happens only under an empty-stored-bytes guard; " +
			"(2) every accepting path either passes the equality edge of that comparison, or passes all of: declared hash nil, no redeemers, no datums; and no accepting path exists with a declared hash but neither redeemers nor datums. " +
			"(3) EncodeLangViews: for version 0 the key is the two bytes 0x41 0x00 and the value is Encode(Encode(IndefLengthList(costs))) (byte-string-wrapped indefinite list); for versions 1..3 the key is the single byte of the version and the value Encode(costs); the entries are sorted with ShortLex on the key before assembly; the result is a definite map header followed by key,value pairs in that order. (4) ShortLex orders by length first and then bytewise.",
		Assumptions: []string{"cbor.Encode of IndefLengthList / []int64 / []byte produce the standard encodings (value-level, not decided)", "which languages count as 'used' is taken as the rule computes it", "C01 for the stored bytes being the original bytes"},
		Run:         runC31,
	})
}

func runC31(c *Ctx) {
	c.W.buildSSA()
	lists := c.eraRuleLists()
	impls := map[*ssa.Function][]string{}
	for _, era := range []string{"alonzo", "babbage", "conway", "dijkstra"} {
		er := lists[era]
		if er == nil {
			c.Undecided("no rule list for %s", era)
			continue
		}
		var impl *ssa.Function
		for _, rf := range er.Rules {
			if strings.HasSuffix(rf.Name(), "UtxoValidateScriptDataHash") {
				impl = c.resolveDelegation(c.SSAOf(rf))
			}
		}
		c.Check(impl != nil, "script-data-hash-rule-listed", "ledger/"+era, er.Pos, "rule listed", "the "+era+" rule list has no script-data-hash rule")
		if impl != nil {
			impls[impl] = append(impls[impl], era)
		}
	}
	for fn := range impls {
		c.checkScriptDataHashRule(fn)
	}
	c.checkLangViews()
	c.checkShortLex()
}

func (c *Ctx) checkScriptDataHashRule(fn *ssa.Function) {
	key := ssaFuncKey(fn)
	// the deciding comparison
	var cmpFrom *ssa.BasicBlock
	eqSucc := -1
	var hashCall *ssa.Call
	for _, b := range fn.Blocks {
		iff, ok := b.Instrs[len(b.Instrs)-1].(*ssa.If)
		if !ok {
			continue
		}
		bo, ok := iff.Cond.(*ssa.BinOp)
		if !ok || (bo.Op != token.EQL && bo.Op != token.NEQ) {
			continue
		}
		x, y := trace(bo.X), trace(bo.Y)
		var other ssa.Value
		switch {
		case x == "ScriptDataHash(p0)" && strings.HasPrefix(y, "Blake2b256Hash("):
			other = bo.Y
		case y == "ScriptDataHash(p0)" && strings.HasPrefix(x, "Blake2b256Hash("):
			other = bo.X
		default:
			continue
		}
		if call, ok := rootValue(other, 0).(*ssa.Call); ok {
			hashCall = call
		} else if al, ok := rootValue(other, 0).(*ssa.Alloc); ok {
			if call, ok := singleStore(al).(*ssa.Call); ok {
				hashCall = call
			}
		}
		cmpFrom = b
		if bo.Op == token.EQL {
			eqSucc = 0
		} else {
			eqSucc = 1
		}
	}
	if cmpFrom == nil || hashCall == nil {
		c.Bad("hash-comparison", key, fn.Pos(), "the declared script data hash is never compared with a Blake2b-256 hash")
		return
	}
	// unpack preimage
	parts, baseOK := concatParts(hashCall.Call.Args[0])
	if len(parts) != 3 || !baseOK {
		c.Bad("hash-preimage", key, hashCall.Pos(), "the hashed bytes are not redeemers ‖ datums ‖ language views appended to an empty buffer (%d parts found)", len(parts))
		return
	}
	rT, dT, lT := trace(parts[0]), trace(parts[1]), trace(parts[2])
	isStored := func(t, field string) bool { return strings.Contains(t, "Cbor(") && strings.Contains(t, field) }
	c.Check(isStored(rT, "WsRedeemers"), "hash-preimage", key+":redeemers-first", hashCall.Pos(), "first part: stored bytes of the redeemers", "the first part of the hashed bytes is "+shortArg(rT)+", not the stored redeemer bytes")
	c.Check(isStored(dT, "WsPlutusData") && !strings.Contains(dT, "WsRedeemers"), "hash-preimage", key+":datums-second", hashCall.Pos(), "second part: stored bytes of the datums (or nothing)", "the second part of the hashed bytes is "+shortArg(dT)+", not the stored datum bytes")
	c.Check(strings.HasPrefix(lT, "EncodeLangViews(") && strings.Contains(lT, "CostModels<assert<p3") || strings.HasPrefix(lT, "EncodeLangViews(") && strings.Contains(lT, "CostModels<"), "hash-preimage", key+":langviews-third", hashCall.Pos(), "third part: EncodeLangViews(used, pp.CostModels)", "the third part of the hashed bytes is "+shortArg(lT)+", not the language views of the protocol parameters' cost models")
	// re-encoding only under the empty guard
	for _, ci := range allCalls(fn) {
		if calleeName(ci.Common()) != "cbor.Encode" {
			continue
		}
		at := trace(ci.Common().Args[0])
		var field string
		switch {
		case strings.Contains(at, "WsRedeemers"):
			field = "WsRedeemers"
		case strings.Contains(at, "WsPlutusData"):
			field = "WsPlutusData"
		default:
			continue
		}
		v := c.mustPass(fn, []ssa.Instruction{ci.(ssa.Instruction)}, func(f string) bool {
			return strings.HasPrefix(f, "len(call:cbor.(DecodeStoreCbor).Cbor(") && strings.Contains(f, field) && strings.HasSuffix(f, " == 0")
		})
		c.Check(v[0].OK, "hash-preimage", key+":reencode-only-when-empty:"+field, ci.Pos(), "re-encoding "+field+" happens only when no original bytes exist", field+" is re-encoded although original bytes exist: the hash is taken over the re-encoding, not the original bytes ("+v[0].Witness+")")
	}
	// accepting paths
	facts := edgeFacts(fn)
	type edge struct {
		from *ssa.BasicBlock
		succ int
	}
	var rNon, rEmpty, dNon, dEmpty, declNil, declNonNil []edge
	for _, f := range facts {
		e := edge{f.From, f.Succ}
		isR := strings.Contains(f.Fact, "WsRedeemers") && !strings.Contains(f.Fact, "Cbor(")
		isD := strings.Contains(f.Fact, "WsPlutusData") && !strings.Contains(f.Fact, "Cbor(")
		switch {
		case isR && strings.HasSuffix(f.Fact, " > 0"):
			rNon = append(rNon, e)
		case isR && strings.HasSuffix(f.Fact, " <= 0"):
			rEmpty = append(rEmpty, e)
		case isD && strings.HasSuffix(f.Fact, " > 0"):
			dNon = append(dNon, e)
		case isD && strings.HasSuffix(f.Fact, " <= 0"):
			dEmpty = append(dEmpty, e)
		case f.Fact == "call:ledger/common.Transaction.ScriptDataHash(p0) == nil":
			declNil = append(declNil, e)
		case f.Fact == "call:ledger/common.Transaction.ScriptDataHash(p0) != nil":
			declNonNil = append(declNonNil, e)
		}
	}
	if len(rNon) == 0 || len(dNon) == 0 || len(declNil) == 0 {
		c.Undecided("%s: redeemer/datum/declared-hash tests not recognised (%d,%d,%d)", key, len(rNon), len(dNon), len(declNil))
		return
	}
	inSet := func(set []edge, from *ssa.BasicBlock, succ int) bool {
		for _, e := range set {
			if e.from == from && e.succ == succ {
				return true
			}
		}
		return false
	}
	succs := successReturns(fn)
	reaches := func(cut func(*ssa.BasicBlock, int) bool) (bool, string) {
		reach, parent := reachAvoiding(fn, cut)
		for _, r := range succs {
			if reach[r.Block()] {
				return true, c.witness(fn, parent, r.Block())
			}
		}
		return false, ""
	}
	isEq := func(from *ssa.BasicBlock, succ int) bool { return from == cmpFrom && succ == eqSucc }
	// (a) without hash equality, acceptance needs declared==nil, no redeemers, no datums
	for _, req := range []struct {
		name string
		set  []edge
	}{{"declared-hash-absent", declNil}, {"no-redeemers", rEmpty}, {"no-datums", dEmpty}} {
		bad, w := reaches(func(from *ssa.BasicBlock, succ int) bool { return isEq(from, succ) || inSet(req.set, from, succ) })
		c.Check(!bad, "hash-acceptance", key+":without-match-needs:"+req.name, fn.Pos(), "a path accepting without a hash match requires "+req.name, "the rule can accept without the declared hash matching although the condition '"+req.name+"' does not hold ("+w+")")
	}
	// (b) a declared hash with neither redeemers nor datums is rejected
	{
		bad, w := reaches(func(from *ssa.BasicBlock, succ int) bool {
			return inSet(rNon, from, succ) || inSet(dNon, from, succ) || inSet(declNil, from, succ)
		})
		c.Check(!bad, "hash-acceptance", key+":extraneous-hash-rejected", fn.Pos(), "a declared hash without redeemers and datums cannot be accepted", "a declared hash is accepted although the transaction has neither redeemers nor datums ("+w+")")
	}
	_ = declNonNil
}

func (c *Ctx) checkLangViews() {
	fn := c.SSAFunc("ledger/common", "EncodeLangViews")
	if fn == nil {
		c.Undecided("EncodeLangViews not found")
		return
	}
	key := ssaFuncKey(fn)
	// the version atom: key of the range over p0
	atom := ""
	for _, in := range fnInstrs(fn) {
		if ex, ok := in.(*ssa.Extract); ok && ex.Index == 1 && desc(ex) == atom2trace() {
			atom = atom2trace()
		}
	}
	if atom == "" {
		c.Undecided("%s: version variable not recognised", key)
		return
	}
	// where the langView entries are built: EncodeLangViews itself or a helper it calls once with the version
	type literal struct {
		al       *ssa.Alloc
		tag, par ssa.Value
	}
	builder := fn
	var lits []literal
	for _, g := range closureFuncs(fn, 1) {
		if g.Parent() != nil {
			continue
		}
		byAlloc := map[*ssa.Alloc]*literal{}
		var order []*ssa.Alloc
		for _, in := range fnInstrs(g) {
			st, ok := in.(*ssa.Store)
			if !ok {
				continue
			}
			fa, ok := st.Addr.(*ssa.FieldAddr)
			if !ok || !strings.HasSuffix(typeStr(fa.X.Type()), "langView") {
				continue
			}
			al, _ := fa.X.(*ssa.Alloc)
			if al == nil {
				continue
			}
			if byAlloc[al] == nil {
				byAlloc[al] = &literal{al: al}
				order = append(order, al)
			}
			switch fieldName(fa.X.Type(), fa.Field) {
			case "tag":
				byAlloc[al].tag = st.Val
			case "params":
				byAlloc[al].par = st.Val
			}
		}
		if len(order) > 0 {
			builder = g
			lits = nil
			for _, al := range order {
				lits = append(lits, *byAlloc[al])
			}
			break
		}
	}
	if len(lits) == 0 {
		c.Undecided("%s: no langView entry with tag and params is built here or in a helper", key)
		return
	}
	bval := func(v int64) map[string]int64 { return map[string]int64{atom: v} }
	if builder != fn {
		cs := callersInPkg(builder)
		if len(cs) != 1 || cs[0].Parent() != fn {
			c.Undecided("%s: the entry builder %s is not called exactly once from here", key, builder.Name())
			return
		}
		pi := -1
		for i, a := range cs[0].Common().Args {
			if desc(a) == atom || trace(a) == atom {
				pi = i
			}
		}
		if pi < 0 {
			c.Undecided("%s: the entry builder %s does not receive the version", key, builder.Name())
			return
		}
		bval = func(v int64) map[string]int64 { return map[string]int64{fmt.Sprintf("p%d", pi): v} }
		// what is collected is the builder's result
		collected := false
		for _, ci := range allCalls(fn) {
			if b, isB := ci.Common().Value.(*ssa.Builtin); isB && b.Name() == "append" && strings.Contains(typeStr(ci.Common().Args[0].Type()), "langView") && len(ci.Common().Args) > 1 {
				srcs := map[string]bool{}
				sliceElemSources(ci.Common().Args[1], 0, srcs)
				for sname := range srcs {
					if strings.Contains(sname, builder.Name()+"(") {
						collected = true
					}
				}
			}
		}
		c.Check(collected, "langviews-entry", key+":collects-built-entry", fn.Pos(), "the entries collected are the ones "+builder.Name()+" builds", "the entries collected are not the ones built by "+builder.Name())
	}
	tr := func(v ssa.Value) string { return traceIP(fn, v) }
	bytesOf := func(v ssa.Value) string {
		s, ok := v.(*ssa.Slice)
		if !ok {
			return tr(v)
		}
		al, ok := s.X.(*ssa.Alloc)
		if !ok {
			return tr(v)
		}
		type kv struct {
			i int64
			s string
		}
		var parts []kv
		for _, r := range *al.Referrers() {
			if ia, ok := r.(*ssa.IndexAddr); ok {
				k, _ := ia.Index.(*ssa.Const)
				for _, rr := range *ia.Referrers() {
					if st, ok := rr.(*ssa.Store); ok && k != nil {
						parts = append(parts, kv{k.Int64(), tr(st.Val)})
					}
				}
			}
		}
		out := make([]string, len(parts))
		for _, p := range parts {
			if int(p.i) < len(out) {
				out[p.i] = p.s
			}
		}
		return "bytes{" + strings.Join(out, ",") + "}"
	}
	for v := int64(0); v <= 3; v++ {
		reach := psReachVal(builder, []*ssa.BasicBlock{builder.Blocks[0]}, nil, bval(v))
		edges := lastPsEdges
		// values a stored field can have under this version: a merged variable contributes the edges actually taken
		var expand func(x ssa.Value, d int) []ssa.Value
		expand = func(x ssa.Value, d int) []ssa.Value {
			ph, isPhi := x.(*ssa.Phi)
			if !isPhi || d > 3 {
				return []ssa.Value{x}
			}
			var out []ssa.Value
			for i, e := range ph.Edges {
				pred := ph.Block().Preds[i]
				if reach[pred] && edges[[2]*ssa.BasicBlock{pred, ph.Block()}] {
					out = append(out, expand(e, d+1)...)
				}
			}
			return out
		}
		check := func(vals []ssa.Value, pos token.Pos, what string, want func(string) bool, wantDesc string) int {
			n := 0
			for _, e := range vals {
				n++
				var got string
				if what == "key" {
					got = bytesOf(e)
				} else {
					got = tr(e)
				}
				c.Check(want(got), "langviews-entry", fmt.Sprintf("%s:version=%d:%s", key, v, what), pos, wantDesc, fmt.Sprintf("for Plutus version index %d the language-view %s is %s, the ledger defines %s", v, what, shortArg(got), wantDesc))
			}
			return n
		}
		nK, nV := 0, 0
		for _, l := range lits {
			if !reach[l.al.Block()] || l.tag == nil || l.par == nil {
				continue
			}
			// the literal's stores are in its block or later; only literals whose stores are reachable count
			if v == 0 {
				nK += check(expand(l.tag, 0), l.al.Pos(), "key", func(s string) bool { return s == "bytes{65:byte,0:byte}" || s == "bytes{65,0}" }, "the two bytes 0x41 0x00 (double-serialised 0)")
				nV += check(expand(l.par, 0), l.al.Pos(), "value", func(s string) bool {
					return strings.HasPrefix(s, "Encode(Encode(") && strings.HasSuffix(s, "#0)#0") && c.indefListArg(builder)
				}, "Encode(Encode(indefinite-length list of the costs)) — a byte string wrapping the indefinite list")
			} else {
				nK += check(expand(l.tag, 0), l.al.Pos(), "key", func(s string) bool { return s == "bytes{"+atom2trace()+"}" }, "the single byte of the version")
				nV += check(expand(l.par, 0), l.al.Pos(), "value", func(s string) bool {
					return s == "Encode(lookup(p1,next(range(p0))#1)#0)#0"
				}, "Encode(cost model list) without wrapping")
			}
		}
		if nK == 0 || nV == 0 {
			c.Bad("langviews-entry", fmt.Sprintf("%s:version=%d:produced", key, v), fn.Pos(), "no language-view entry is produced for Plutus version index %d", v)
		}
	}
	// sorted before assembly
	var sortCall ssa.CallInstruction
	sortKind := ""
	for _, ci := range allCalls(fn) {
		switch cn := calleeName(ci.Common()); {
		case cn == "sort.Slice" || cn == "sort.SliceStable":
			sortCall, sortKind = ci, "less"
		case strings.HasPrefix(cn, "slices.SortFunc") || strings.HasPrefix(cn, "slices.SortStableFunc"):
			sortCall, sortKind = ci, "cmp"
		}
	}
	if sortCall == nil {
		c.Bad("langviews-sorted", key, fn.Pos(), "the language views are not sorted before being written: keys are emitted in map-iteration order")
		return
	}
	okCmp := false
	var cl *ssa.Function
	switch x := sortCall.Common().Args[1].(type) {
	case *ssa.MakeClosure:
		cl, _ = x.Fn.(*ssa.Function)
	case *ssa.Function:
		cl = x
	case *ssa.ChangeType:
		cl, _ = x.X.(*ssa.Function)
	}
	if cl != nil {
		for _, b := range cl.Blocks {
			r, ok := b.Instrs[len(b.Instrs)-1].(*ssa.Return)
			if !ok {
				continue
			}
			switch sortKind {
			case "cmp":
				// func(x, y langView) int { return ShortLex(x.tag, y.tag) }
				okCmp = trace(r.Results[0]) == "ShortLex(tag<p0,tag<p1)"
			case "less":
				if bo, ok := r.Results[0].(*ssa.BinOp); ok && bo.Op == token.LSS && desc(bo.Y) == "0" {
					t := trace(bo.X)
					okCmp = strings.HasPrefix(t, "ShortLex(tag<free:views[],tag<free:views[])")
					if call, isCall := bo.X.(*ssa.Call); okCmp && isCall {
						for k := 0; k < 2; k++ {
							var idx ssa.Value
							if u, isU := call.Call.Args[k].(*ssa.UnOp); isU {
								if fa, isFA := u.X.(*ssa.FieldAddr); isFA {
									idx = indexOf(fa.X)
								}
							}
							if idx != ssa.Value(cl.Params[k]) {
								okCmp = false
							}
						}
					}
				}
			}
		}
	}
	c.Check(okCmp, "langviews-sorted", key+":comparator", sortCall.Pos(), "entries are ordered by ShortLex on their keys", "the sort comparator is not ShortLex on the keys of the two elements compared")
	// assembly after the sort: inside one loop over the views, key then value are emitted onto the same accumulator
	type emit struct {
		call *ssa.Call
		what string // tag / params
		ord  int    // position within one variadic append
	}
	var emits []emit
	for _, ci := range allCalls(fn) {
		b, isB := ci.Common().Value.(*ssa.Builtin)
		if !isB || b.Name() != "append" || len(ci.Common().Args) < 2 {
			continue
		}
		call, _ := ci.(*ssa.Call)
		if call == nil {
			continue
		}
		classify := func(t string) string {
			switch {
			case strings.HasPrefix(t, "tag<"):
				return "tag"
			case strings.HasPrefix(t, "params<"):
				return "params"
			}
			return ""
		}
		arg := ci.Common().Args[1]
		if w := classify(trace(arg)); w != "" {
			emits = append(emits, emit{call, w, 0}) // append(acc, v.tag...)
			continue
		}
		// append(parts, v.tag, v.params): a literal [][]byte
		if sl, ok := arg.(*ssa.Slice); ok {
			if al, ok := sl.X.(*ssa.Alloc); ok {
				for _, r := range *al.Referrers() {
					ia, ok := r.(*ssa.IndexAddr)
					if !ok {
						continue
					}
					k, _ := ia.Index.(*ssa.Const)
					for _, rr := range *ia.Referrers() {
						if st, ok := rr.(*ssa.Store); ok && k != nil {
							if w := classify(trace(st.Val)); w != "" {
								emits = append(emits, emit{call, w, int(k.Int64())})
							}
						}
					}
				}
			}
		}
	}
	var tagE, parE *emit
	for i := range emits {
		switch emits[i].what {
		case "tag":
			tagE = &emits[i]
		case "params":
			parE = &emits[i]
		}
	}
	okDom := len(emits) == 2 && tagE != nil && parE != nil
	for _, e := range emits {
		if !sortCall.Block().Dominates(e.call.Block()) || sortCall.Block() == e.call.Block() {
			okDom = false
		}
	}
	c.Check(okDom, "langviews-sorted", key+":before-assembly", sortCall.Pos(), "keys and values are written after sorting", "the entries are written before (or independently of) the sort")
	okOrder := false
	if tagE != nil && parE != nil && inLoop(tagE.call.Block()) {
		if tagE.call == parE.call {
			okOrder = tagE.ord < parE.ord
		} else {
			okOrder = parE.call.Call.Args[0] == ssa.Value(tagE.call)
		}
	}
	c.Check(okOrder, "langviews-assembly", key+":key-then-value", fn.Pos(), "each entry is written as key then value, for every view", "entries are not written as key followed by value for every view")
	// views are not appended to after sorting
	for _, ci := range allCalls(fn) {
		if b, isB := ci.Common().Value.(*ssa.Builtin); isB && b.Name() == "append" && strings.Contains(typeStr(ci.Common().Args[0].Type()), "langView") {
			c.Check(!sortCall.Block().Dominates(ci.Block()), "langviews-sorted", key+":no-late-entries", ci.Pos(), "views are collected before sorting", "a view is added after the list was sorted")
		}
	}
	// map header: 0xa0 + len for fewer than 24 entries
	okHdr := false
	for _, in := range fnInstrs(fn) {
		if bo, ok := in.(*ssa.BinOp); ok && bo.Op == token.ADD {
			if (desc(bo.X) == "160" || desc(bo.X) == "160:byte") && strings.HasPrefix(trace(bo.Y), "len(") {
				okHdr = true
			}
		}
	}
	c.Check(okHdr, "langviews-assembly", key+":map-header", fn.Pos(), "definite-length map header 0xa0+n", "the result does not start with a definite-length map header 0xa0+n")
}

func atom2trace() string { return "next(range(p0))#1" }

// indefListArg: some cbor.Encode argument in fn has type cbor.IndefLengthList.
func (c *Ctx) indefListArg(fn *ssa.Function) bool {
	for _, ci := range allCalls(fn) {
		if calleeName(ci.Common()) != "cbor.Encode" {
			continue
		}
		a := ci.Common().Args[0]
		if mi, ok := a.(*ssa.MakeInterface); ok {
			a = mi.X
		}
		if strings.HasSuffix(typeStr(a.Type()), "cbor.IndefLengthList") {
			return true
		}
	}
	return false
}

func (c *Ctx) checkShortLex() {
	fn := c.SSAFunc("ledger/common", "ShortLex")
	if fn == nil {
		c.Undecided("ShortLex not found")
		return
	}
	key := ssaFuncKey(fn)
	retOf := func(b *ssa.BasicBlock) string {
		if r, ok := b.Instrs[len(b.Instrs)-1].(*ssa.Return); ok {
			return desc(r.Results[0])
		}
		return "?"
	}
	want := map[string]string{
		"len(p0) < len(p1)": "-1",
		"len(p0) > len(p1)": "1",
	}
	got := map[string]bool{}
	var lenBlocks []*ssa.BasicBlock
	for _, f := range edgeFacts(fn) {
		if w, ok := want[f.Fact]; ok {
			got[f.Fact] = retOf(f.From.Succs[f.Succ]) == w
			lenBlocks = append(lenBlocks, f.From)
		}
	}
	// library form: if c := cmp.Compare(len(a), len(b)); c != 0 { return c }; return bytes.Compare(a, b)
	{
		var lenCmp *ssa.Call
		for _, ci := range allCalls(fn) {
			if cl, isCall := ci.(*ssa.Call); isCall && strings.HasPrefix(calleeName(ci.Common()), "cmp.Compare") && len(ci.Common().Args) == 2 && trace(ci.Common().Args[0]) == "len(p0)" && trace(ci.Common().Args[1]) == "len(p1)" {
				lenCmp = cl
			}
		}
		if lenCmp != nil {
			okLen, okBytes, okOrder := false, false, false
			var zeroEdgeTo *ssa.BasicBlock
			for _, f := range edgeFacts(fn) {
				iff := f.From.Instrs[len(f.From.Instrs)-1].(*ssa.If)
				bo, isBo := iff.Cond.(*ssa.BinOp)
				if !isBo || bo.X != ssa.Value(lenCmp) || desc(bo.Y) != "0" {
					continue
				}
				nonZero := (bo.Op == token.NEQ && f.Succ == 0) || (bo.Op == token.EQL && f.Succ == 1)
				s := f.From.Succs[f.Succ]
				if nonZero {
					if r, isR := s.Instrs[len(s.Instrs)-1].(*ssa.Return); isR && returnedValue(r, 0) == ssa.Value(lenCmp) {
						okLen = true
					}
				} else {
					zeroEdgeTo = s
				}
			}
			if zeroEdgeTo != nil {
				for _, b := range fn.Blocks {
					r, isR := b.Instrs[len(b.Instrs)-1].(*ssa.Return)
					if !isR || !(b == zeroEdgeTo || zeroEdgeTo.Dominates(b)) {
						continue
					}
					if cl, isCall := returnedValue(r, 0).(*ssa.Call); isCall && calleeName(&cl.Call) == "bytes.Compare" && trace(cl.Call.Args[0]) == "p0" && trace(cl.Call.Args[1]) == "p1" {
						okBytes = true
						okOrder = lenCmp.Block().Dominates(cl.Block())
					}
				}
			}
			if okLen && okBytes {
				c.Ok("shortlex-order", key+":length-first", fn.Pos(), "a non-zero cmp.Compare(len(a), len(b)) is the result: shorter sorts first")
				c.Ok("shortlex-order", key+":bytewise", fn.Pos(), "equal lengths are ordered by bytes.Compare(a, b)")
				c.Check(okOrder, "shortlex-order", key+":length-before-bytes", fn.Pos(), "length decides before any byte is compared", "bytes are compared before the lengths have been compared")
				c.Ok("shortlex-order", key+":equal", fn.Pos(), "equal keys compare 0 (bytes.Compare)")
				return
			}
		}
	}
	c.Check(got["len(p0) < len(p1)"] && got["len(p0) > len(p1)"], "shortlex-order", key+":length-first", fn.Pos(), "shorter sorts first", "ShortLex does not order by length first (shorter < longer)")
	// byte comparisons
	okLt, okGt := false, false
	var cmpBlocks []*ssa.BasicBlock
	for _, f := range edgeFacts(fn) {
		iff := f.From.Instrs[len(f.From.Instrs)-1].(*ssa.If)
		bo, ok := iff.Cond.(*ssa.BinOp)
		if !ok || f.Succ != 0 {
			continue
		}
		x, y := trace(bo.X), trace(bo.Y)
		if !(strings.HasPrefix(x, "p0[]") || x == "p0[]") || !(strings.HasPrefix(y, "p1[]") || y == "p1[]") {
			continue
		}
		// same index
		ix, iy := indexOf(bo.X), indexOf(bo.Y)
		if ix == nil || ix != iy {
			continue
		}
		cmpBlocks = append(cmpBlocks, f.From)
		switch bo.Op {
		case token.LSS:
			okLt = retOf(f.From.Succs[0]) == "-1"
		case token.GTR:
			okGt = retOf(f.From.Succs[0]) == "1"
		}
	}
	c.Check(okLt && okGt, "shortlex-order", key+":bytewise", fn.Pos(), "equal lengths are ordered bytewise", "ShortLex does not order equal-length keys bytewise (a[i]<b[i] ⇒ -1, a[i]>b[i] ⇒ 1)")
	// length tests come before the byte comparisons
	okFirst := len(lenBlocks) == 2 && len(cmpBlocks) > 0
	for _, lb := range lenBlocks {
		for _, cb := range cmpBlocks {
			if !lb.Dominates(cb) {
				okFirst = false
			}
		}
	}
	c.Check(okFirst, "shortlex-order", key+":length-before-bytes", fn.Pos(), "length decides before any byte is compared", "bytes are compared before the lengths have been compared")
	// exhaustion returns 0
	ok0 := false
	for _, r := range successReturns(fn) {
		if desc(r.(*ssa.Return).Results[0]) == "0" {
			ok0 = true
		}
	}
	c.Check(ok0, "shortlex-order", key+":equal", fn.Pos(), "equal keys compare 0", "ShortLex never returns 0")
}

func indexOf(v ssa.Value) ssa.Value {
	if u, ok := v.(*ssa.UnOp); ok {
		v = u.X
	}
	switch x := v.(type) {
	case *ssa.IndexAddr:
		return x.Index
	case *ssa.Index:
		return x.Index
	}
	return nil
}

// concatParts: the byte strings concatenated, in order, to form v: an append chain over an empty base, or
// slices.Concat over a list of slices. ok is false when the base is not empty or the shape is neither.
func concatParts(v ssa.Value) (parts []ssa.Value, ok bool) {
	if call, isCall := v.(*ssa.Call); isCall && strings.HasPrefix(calleeName(&call.Call), "slices.Concat") && len(call.Call.Args) == 1 {
		sl, isSl := call.Call.Args[0].(*ssa.Slice)
		if !isSl {
			return nil, false
		}
		al, isAl := sl.X.(*ssa.Alloc)
		if !isAl {
			return nil, false
		}
		byIdx := map[int64]ssa.Value{}
		for _, r := range *al.Referrers() {
			if ia, isIA := r.(*ssa.IndexAddr); isIA {
				k, isK := ia.Index.(*ssa.Const)
				if !isK {
					return nil, false
				}
				for _, rr := range *ia.Referrers() {
					if st, isSt := rr.(*ssa.Store); isSt && st.Addr == ia {
						byIdx[k.Int64()] = st.Val
					}
				}
			}
		}
		for i := int64(0); i < int64(len(byIdx)); i++ {
			e, has := byIdx[i]
			if !has {
				return nil, false
			}
			parts = append(parts, e)
		}
		return parts, true
	}
	cur := v
	for i := 0; i < 8; i++ {
		call, isCall := cur.(*ssa.Call)
		if !isCall {
			break
		}
		b, isB := call.Call.Value.(*ssa.Builtin)
		if !isB || b.Name() != "append" {
			break
		}
		parts = append([]ssa.Value{call.Call.Args[1]}, parts...)
		cur = call.Call.Args[0]
	}
	if ms, isMS := cur.(*ssa.MakeSlice); isMS {
		return parts, desc(ms.Len) == "0"
	}
	return parts, isNilConst(cur)
}
