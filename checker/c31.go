package main

import (
	"fmt"
	"go/token"
	"strings"

	"golang.org/x/tools/go/ssa"
)

func init() {
	register(&Prop{
		ID:        "C31",
		Technique: "structural unpacking of the hash preimage (nested appends) with provenance traces, must-pass-through rules on the accepting paths, and per-version path-sensitive classification of the language-view encoder's phi edges",
		Explanation: "Per era rule (Alonzo, Babbage, Conway, Dijkstra): (1) the value compared with the declared hash is Blake2b256 of append(append(append(_, R), D), L) in that order, where R comes from the stored bytes of WsRedeemers, D from the stored bytes of WsPlutusData, L from EncodeLangViews(used, pp.CostModels); re-encoding of R or D happens only under an empty-stored-bytes guard; " +
			"(2) every accepting path either passes the equality edge of that comparison, or passes all of: declared hash nil, no redeemers, no datums; and no accepting path exists with a declared hash but neither redeemers nor datums. " +
			"(3) EncodeLangViews: for version 0 the key is the two bytes 0x41 0x00 and the value is Encode(Encode(IndefLengthList(costs))) (byte-string-wrapped indefinite list); for versions 1..3 the key is the single byte of the version and the value Encode(costs); the entries are sorted with ShortLex on the key before assembly; the result is a definite map header followed by key,value pairs in that order. (4) ShortLex orders by length first and then bytewise.",
		Assumptions: []string{"cbor.Encode of IndefLengthList / []int64 / []byte produce the standard encodings (value-level, not decided)", "which languages count as 'used' is taken as the rule computes it", "C01 for the stored bytes being the original bytes"},
		Run:         runC31,
	})
}

func runC31(c *Ctx) {
	c.W.buildSSA()
	lists := c.eraRuleLists()
	impls := map[*ssa.Function][]string{}
	for _, era := range []string{"alonzo", "babbage", "conway", "dijkstra"} {
		er := lists[era]
		if er == nil {
			c.Undecided("no rule list for %s", era)
			continue
		}
		var impl *ssa.Function
		for _, rf := range er.Rules {
			if strings.HasSuffix(rf.Name(), "UtxoValidateScriptDataHash") {
				impl = c.resolveDelegation(c.SSAOf(rf))
			}
		}
		c.Check(impl != nil, "script-data-hash-rule-listed", "ledger/"+era, er.Pos, "rule listed", "the "+era+" rule list has no script-data-hash rule")
		if impl != nil {
			impls[impl] = append(impls[impl], era)
		}
	}
	for fn := range impls {
		c.checkScriptDataHashRule(fn)
	}
	c.checkLangViews()
	c.checkShortLex()
}

func (c *Ctx) checkScriptDataHashRule(fn *ssa.Function) {
	key := ssaFuncKey(fn)
	// the deciding comparison
	var cmpFrom *ssa.BasicBlock
	eqSucc := -1
	var hashCall *ssa.Call
	for _, b := range fn.Blocks {
		iff, ok := b.Instrs[len(b.Instrs)-1].(*ssa.If)
		if !ok {
			continue
		}
		bo, ok := iff.Cond.(*ssa.BinOp)
		if !ok || (bo.Op != token.EQL && bo.Op != token.NEQ) {
			continue
		}
		x, y := trace(bo.X), trace(bo.Y)
		var other ssa.Value
		switch {
		case x == "ScriptDataHash(p0)" && strings.HasPrefix(y, "Blake2b256Hash("):
			other = bo.Y
		case y == "ScriptDataHash(p0)" && strings.HasPrefix(x, "Blake2b256Hash("):
			other = bo.X
		default:
			continue
		}
		if call, ok := rootValue(other, 0).(*ssa.Call); ok {
			hashCall = call
		} else if al, ok := rootValue(other, 0).(*ssa.Alloc); ok {
			if call, ok := singleStore(al).(*ssa.Call); ok {
				hashCall = call
			}
		}
		cmpFrom = b
		if bo.Op == token.EQL {
			eqSucc = 0
		} else {
			eqSucc = 1
		}
	}
	if cmpFrom == nil || hashCall == nil {
		c.Bad("hash-comparison", key, fn.Pos(), "the declared script data hash is never compared with a Blake2b-256 hash")
		return
	}
	// unpack preimage
	parts, baseOK := concatParts(hashCall.Call.Args[0])
	if len(parts) != 3 || !baseOK {
		c.Bad("hash-preimage", key, hashCall.Pos(), "the hashed bytes are not redeemers ‖ datums ‖ language views appended to an empty buffer (%d parts found)", len(parts))
		return
	}
	rT, dT, lT := trace(parts[0]), trace(parts[1]), trace(parts[2])
	isStored := func(t, field string) bool { return strings.Contains(t, "Cbor(") && strings.Contains(t, field) }
	c.Check(isStored(rT, "WsRedeemers"), "hash-preimage", key+":redeemers-first", hashCall.Pos(), "first part: stored bytes of the redeemers", "the first part of the hashed bytes is "+shortArg(rT)+", not the stored redeemer bytes")
	c.Check(isStored(dT, "WsPlutusData") && !strings.Contains(dT, "WsRedeemers"), "hash-preimage", key+":datums-second", hashCall.Pos(), "second part: stored bytes of the datums (or nothing)", "the second part of the hashed bytes is "+shortArg(dT)+", not the stored datum bytes")
	c.Check(strings.HasPrefix(lT, "EncodeLangViews(") && strings.Contains(lT, "CostModels<assert<p3") || strings.HasPrefix(lT, "EncodeLangViews(") && strings.Contains(lT, "CostModels<"), "hash-preimage", key+":langviews-third", hashCall.Pos(), "third part: EncodeLangViews(used, pp.CostModels)", "the third part of the hashed bytes is "+shortArg(lT)+", not the language views of the protocol parameters' cost models")
	// re-encoding only under the empty guard
	for _, ci := range allCalls(fn) {
		if calleeName(ci.Common()) != "cbor.Encode" {
			continue
		}
		at := trace(ci.Common().Args[0])
		var field string
		switch {
		case strings.Contains(at, "WsRedeemers"):
			field = "WsRedeemers"
		case strings.Contains(at, "WsPlutusData"):
			field = "WsPlutusData"
		default:
			continue
		}
		v := c.mustPass(fn, []ssa.Instruction{ci.(ssa.Instruction)}, func(f string) bool {
			return strings.HasPrefix(f, "len(call:cbor.(DecodeStoreCbor).Cbor(") && strings.Contains(f, field) && strings.HasSuffix(f, " == 0")
		})
		c.Check(v[0].OK, "hash-preimage", key+":reencode-only-when-empty:"+field, ci.Pos(), "re-encoding "+field+" happens only when no original bytes exist", field+" is re-encoded although original bytes exist: the hash is taken over the re-encoding, not the original bytes ("+v[0].Witness+")")
	}
	// accepting paths
	facts := edgeFacts(fn)
	type edge struct {
		from *ssa.BasicBlock
		succ int
	}
	var rNon, rEmpty, dNon, dEmpty, declNil, declNonNil []edge
	for _, f := range facts {
		e := edge{f.From, f.Succ}
		isR := strings.Contains(f.Fact, "WsRedeemers") && !strings.Contains(f.Fact, "Cbor(")
		isD := strings.Contains(f.Fact, "WsPlutusData") && !strings.Contains(f.Fact, "Cbor(")
		switch {
		case isR && strings.HasSuffix(f.Fact, " > 0"):
			rNon = append(rNon, e)
		case isR && strings.HasSuffix(f.Fact, " <= 0"):
			rEmpty = append(rEmpty, e)
		case isD && strings.HasSuffix(f.Fact, " > 0"):
			dNon = append(dNon, e)
		case isD && strings.HasSuffix(f.Fact, " <= 0"):
			dEmpty = append(dEmpty, e)
		case f.Fact == "call:ledger/common.Transaction.ScriptDataHash(p0) == nil":
			declNil = append(declNil, e)
		case f.Fact == "call:ledger/common.Transaction.ScriptDataHash(p0) != nil":
			declNonNil = append(declNonNil, e)
		}
	}
	if len(rNon) == 0 || len(dNon) == 0 || len(declNil) == 0 {
		c.Undecided("%s: redeemer/datum/declared-hash tests not recognised (%d,%d,%d)", key, len(rNon), len(dNon), len(declNil))
		return
	}
	inSet := func(set []edge, from *ssa.BasicBlock, succ int) bool {
		for _, e := range set {
			if e.from == from && e.succ == succ {
				return true
			}
		}
		return false
	}
	succs := successReturns(fn)
	reaches := func(cut func(*ssa.BasicBlock, int) bool) (bool, string) {
		reach, parent := reachAvoiding(fn, cut)
		for _, r := range succs {
			if reach[r.Block()] {
				return true, c.witness(fn, parent, r.Block())
			}
		}
		return false, ""
	}
	isEq := func(from *ssa.BasicBlock, succ int) bool { return from == cmpFrom && succ == eqSucc }
	// (a) without hash equality, acceptance needs declared==nil, no redeemers, no datums
	for _, req := range []struct {
		name string
		set  []edge
	}{{"declared-hash-absent", declNil}, {"no-redeemers", rEmpty}, {"no-datums", dEmpty}} {
		bad, w := reaches(func(from *ssa.BasicBlock, succ int) bool { return isEq(from, succ) || inSet(req.set, from, succ) })
		c.Check(!bad, "hash-acceptance", key+":without-match-needs:"+req.name, fn.Pos(), "a path accepting without a hash match requires "+req.name, "the rule can accept without the declared hash matching although the condition '"+req.name+"' does not hold ("+w+")")
	}
	// (b) a declared hash with neither redeemers nor datums is rejected
	{
		bad, w := reaches(func(from *ssa.BasicBlock, succ int) bool {
			return inSet(rNon, from, succ) || inSet(dNon, from, succ) || inSet(declNil, from, succ)
		})
		c.Check(!bad, "hash-acceptance", key+":extraneous-hash-rejected", fn.Pos(), "a declared hash without redeemers and datums cannot be accepted", "a declared hash is accepted although the transaction has neither redeemers nor datums ("+w+")")
	}
	_ = declNonNil
}

func (c *Ctx) checkLangViews() {
	fn := c.SSAFunc("ledger/common", "EncodeLangViews")
	if fn == nil {
		c.Undecided("EncodeLangViews not found")
		return
	}
	key := ssaFuncKey(fn)
	// the version atom: key of the range over p0
	atom := ""
	for _, f := range edgeFacts(fn) {
		if strings.HasPrefix(f.Fact, "next(range(p0))#1 == ") {
			atom = "next(range(p0))#1"
		}
	}
	if atom == "" {
		c.Undecided("%s: version variable not recognised", key)
		return
	}
	// stores of tag / params into the langView literal
	var tagV, parV ssa.Value
	for _, in := range fnInstrs(fn) {
		st, ok := in.(*ssa.Store)
		if !ok {
			continue
		}
		fa, ok := st.Addr.(*ssa.FieldAddr)
		if !ok || !strings.HasSuffix(typeStr(fa.X.Type()), "langView") {
			continue
		}
		switch fieldName(fa.X.Type(), fa.Field) {
		case "tag":
			tagV = st.Val
		case "params":
			parV = st.Val
		}
	}
	tp, ok1 := tagV.(*ssa.Phi)
	pp, ok2 := parV.(*ssa.Phi)
	if !ok1 || !ok2 {
		c.Undecided("%s: tag/params are not merged per version as expected", key)
		return
	}
	bytesOf := func(v ssa.Value) string {
		s, ok := v.(*ssa.Slice)
		if !ok {
			return trace(v)
		}
		al, ok := s.X.(*ssa.Alloc)
		if !ok {
			return trace(v)
		}
		type kv struct {
			i int64
			s string
		}
		var parts []kv
		for _, r := range *al.Referrers() {
			if ia, ok := r.(*ssa.IndexAddr); ok {
				k, _ := ia.Index.(*ssa.Const)
				for _, rr := range *ia.Referrers() {
					if st, ok := rr.(*ssa.Store); ok && k != nil {
						parts = append(parts, kv{k.Int64(), trace(st.Val)})
					}
				}
			}
		}
		out := make([]string, len(parts))
		for _, p := range parts {
			if int(p.i) < len(out) {
				out[p.i] = p.s
			}
		}
		return "bytes{" + strings.Join(out, ",") + "}"
	}
	for v := int64(0); v <= 3; v++ {
		reach := psReachVal(fn, []*ssa.BasicBlock{fn.Blocks[0]}, nil, map[string]int64{atom: v})
		check := func(ph *ssa.Phi, what string, want func(string) bool, wantDesc string) {
			n := 0
			for i, e := range ph.Edges {
				pred := ph.Block().Preds[i]
				if !reach[pred] || !lastPsEdges[[2]*ssa.BasicBlock{pred, ph.Block()}] {
					continue
				}
				n++
				var got string
				if what == "key" {
					got = bytesOf(e)
				} else {
					got = trace(e)
				}
				c.Check(want(got), "langviews-entry", fmt.Sprintf("%s:version=%d:%s", key, v, what), ph.Pos(), wantDesc, fmt.Sprintf("for Plutus version index %d the language-view %s is %s, the ledger defines %s", v, what, shortArg(got), wantDesc))
			}
			if n == 0 {
				c.Bad("langviews-entry", fmt.Sprintf("%s:version=%d:%s", key, v, what), ph.Pos(), "no %s is produced for Plutus version index %d", what, v)
			}
		}
		if v == 0 {
			check(tp, "key", func(s string) bool { return s == "bytes{65:byte,0:byte}" || s == "bytes{65,0}" }, "the two bytes 0x41 0x00 (double-serialised 0)")
			check(pp, "value", func(s string) bool {
				return strings.HasPrefix(s, "Encode(Encode(") && strings.HasSuffix(s, "#0)#0") && c.indefListArg(fn)
			}, "Encode(Encode(indefinite-length list of the costs)) — a byte string wrapping the indefinite list")
		} else {
			check(tp, "key", func(s string) bool { return s == "bytes{"+atom2trace()+"}" }, "the single byte of the version")
			check(pp, "value", func(s string) bool {
				return s == "Encode(lookup(p1,next(range(p0))#1)#0)#0"
			}, "Encode(cost model list) without wrapping")
		}
	}
	// sorted before assembly
	var sortCall ssa.CallInstruction
	for _, ci := range allCalls(fn) {
		if calleeName(ci.Common()) == "sort.Slice" || calleeName(ci.Common()) == "sort.SliceStable" {
			sortCall = ci
		}
	}
	if sortCall == nil {
		c.Bad("langviews-sorted", key, fn.Pos(), "the language views are not sorted before being written: keys are emitted in map-iteration order")
	} else {
		okCmp := false
		if mc, ok := sortCall.Common().Args[1].(*ssa.MakeClosure); ok {
			cl := mc.Fn.(*ssa.Function)
			for _, b := range cl.Blocks {
				if r, ok := b.Instrs[len(b.Instrs)-1].(*ssa.Return); ok {
					if bo, ok := r.Results[0].(*ssa.BinOp); ok && bo.Op == token.LSS && desc(bo.Y) == "0" {
						t := trace(bo.X)
						okCmp = strings.HasPrefix(t, "ShortLex(tag<free:views[],tag<free:views[])")
						if call, isCall := bo.X.(*ssa.Call); okCmp && isCall {
							for k := 0; k < 2; k++ {
								var idx ssa.Value
								if u, isU := call.Call.Args[k].(*ssa.UnOp); isU {
									if fa, isFA := u.X.(*ssa.FieldAddr); isFA {
										idx = indexOf(fa.X)
									}
								}
								if idx != ssa.Value(cl.Params[k]) {
									okCmp = false
								}
							}
						}
					}
				}
			}
		}
		c.Check(okCmp, "langviews-sorted", key+":comparator", sortCall.Pos(), "less(i,j) = ShortLex(views[i].tag, views[j].tag) < 0", "the sort comparator is not ShortLex on the keys of elements i and j")
		// assembly after the sort: every append of tag/params into the result is dominated by the sort call
		nAsm := 0
		okDom := true
		var tagApp, parApp *ssa.Call
		for _, ci := range allCalls(fn) {
			b, isB := ci.Common().Value.(*ssa.Builtin)
			if !isB || b.Name() != "append" {
				continue
			}
			at := trace(ci.Common().Args[1])
			if strings.HasPrefix(at, "tag<") || strings.HasPrefix(at, "params<") {
				nAsm++
				if !sortCall.Block().Dominates(ci.Block()) || sortCall.Block() == ci.Block() {
					okDom = false
				}
				if strings.HasPrefix(at, "tag<") {
					tagApp, _ = ci.(*ssa.Call)
				} else {
					parApp, _ = ci.(*ssa.Call)
				}
			}
		}
		c.Check(nAsm == 2 && okDom, "langviews-sorted", key+":before-assembly", sortCall.Pos(), "keys and values are written after sorting", "the entries are written before (or independently of) the sort")
		okOrder := tagApp != nil && parApp != nil && parApp.Call.Args[0] == ssa.Value(tagApp) && inLoop(tagApp.Block())
		c.Check(okOrder, "langviews-assembly", key+":key-then-value", fn.Pos(), "each entry is written as key then value, for every view", "entries are not written as key followed by value for every view")
		// views are not appended to after sorting
		for _, ci := range allCalls(fn) {
			if b, isB := ci.Common().Value.(*ssa.Builtin); isB && b.Name() == "append" && strings.Contains(typeStr(ci.Common().Args[0].Type()), "langView") {
				c.Check(!sortCall.Block().Dominates(ci.Block()), "langviews-sorted", key+":no-late-entries", ci.Pos(), "views are collected before sorting", "a view is added after the list was sorted")
			}
		}
	}
	// map header: 0xa0 + len for fewer than 24 entries
	okHdr := false
	for _, in := range fnInstrs(fn) {
		if bo, ok := in.(*ssa.BinOp); ok && bo.Op == token.ADD {
			if (desc(bo.X) == "160" || desc(bo.X) == "160:byte") && strings.HasPrefix(trace(bo.Y), "len(") {
				okHdr = true
			}
		}
	}
	c.Check(okHdr, "langviews-assembly", key+":map-header", fn.Pos(), "definite-length map header 0xa0+n", "the result does not start with a definite-length map header 0xa0+n")
}

func atom2trace() string { return "next(range(p0))#1" }

// indefListArg: some cbor.Encode argument in fn has type cbor.IndefLengthList.
func (c *Ctx) indefListArg(fn *ssa.Function) bool {
	for _, ci := range allCalls(fn) {
		if calleeName(ci.Common()) != "cbor.Encode" {
			continue
		}
		a := ci.Common().Args[0]
		if mi, ok := a.(*ssa.MakeInterface); ok {
			a = mi.X
		}
		if strings.HasSuffix(typeStr(a.Type()), "cbor.IndefLengthList") {
			return true
		}
	}
	return false
}

func (c *Ctx) checkShortLex() {
	fn := c.SSAFunc("ledger/common", "ShortLex")
	if fn == nil {
		c.Undecided("ShortLex not found")
		return
	}
	key := ssaFuncKey(fn)
	retOf := func(b *ssa.BasicBlock) string {
		if r, ok := b.Instrs[len(b.Instrs)-1].(*ssa.Return); ok {
			return desc(r.Results[0])
		}
		return "?"
	}
	want := map[string]string{
		"len(p0) < len(p1)": "-1",
		"len(p0) > len(p1)": "1",
	}
	got := map[string]bool{}
	var lenBlocks []*ssa.BasicBlock
	for _, f := range edgeFacts(fn) {
		if w, ok := want[f.Fact]; ok {
			got[f.Fact] = retOf(f.From.Succs[f.Succ]) == w
			lenBlocks = append(lenBlocks, f.From)
		}
	}
	c.Check(got["len(p0) < len(p1)"] && got["len(p0) > len(p1)"], "shortlex-order", key+":length-first", fn.Pos(), "shorter sorts first", "ShortLex does not order by length first (shorter < longer)")
	// byte comparisons
	okLt, okGt := false, false
	var cmpBlocks []*ssa.BasicBlock
	for _, f := range edgeFacts(fn) {
		iff := f.From.Instrs[len(f.From.Instrs)-1].(*ssa.If)
		bo, ok := iff.Cond.(*ssa.BinOp)
		if !ok || f.Succ != 0 {
			continue
		}
		x, y := trace(bo.X), trace(bo.Y)
		if !(strings.HasPrefix(x, "p0[]") || x == "p0[]") || !(strings.HasPrefix(y, "p1[]") || y == "p1[]") {
			continue
		}
		// same index
		ix, iy := indexOf(bo.X), indexOf(bo.Y)
		if ix == nil || ix != iy {
			continue
		}
		cmpBlocks = append(cmpBlocks, f.From)
		switch bo.Op {
		case token.LSS:
			okLt = retOf(f.From.Succs[0]) == "-1"
		case token.GTR:
			okGt = retOf(f.From.Succs[0]) == "1"
		}
	}
	c.Check(okLt && okGt, "shortlex-order", key+":bytewise", fn.Pos(), "equal lengths are ordered bytewise", "ShortLex does not order equal-length keys bytewise (a[i]<b[i] ⇒ -1, a[i]>b[i] ⇒ 1)")
	// length tests come before the byte comparisons
	okFirst := len(lenBlocks) == 2 && len(cmpBlocks) > 0
	for _, lb := range lenBlocks {
		for _, cb := range cmpBlocks {
			if !lb.Dominates(cb) {
				okFirst = false
			}
		}
	}
	c.Check(okFirst, "shortlex-order", key+":length-before-bytes", fn.Pos(), "length decides before any byte is compared", "bytes are compared before the lengths have been compared")
	// exhaustion returns 0
	ok0 := false
	for _, r := range successReturns(fn) {
		if desc(r.(*ssa.Return).Results[0]) == "0" {
			ok0 = true
		}
	}
	c.Check(ok0, "shortlex-order", key+":equal", fn.Pos(), "equal keys compare 0", "ShortLex never returns 0")
}

func indexOf(v ssa.Value) ssa.Value {
	if u, ok := v.(*ssa.UnOp); ok {
		v = u.X
	}
	switch x := v.(type) {
	case *ssa.IndexAddr:
		return x.Index
	case *ssa.Index:
		return x.Index
	}
	return nil
}

// concatParts: the byte strings concatenated, in order, to form v: an append chain over an empty base, or
// slices.Concat over a list of slices. ok is false when the base is not empty or the shape is neither.
func concatParts(v ssa.Value) (parts []ssa.Value, ok bool) {
	if call, isCall := v.(*ssa.Call); isCall && strings.HasPrefix(calleeName(&call.Call), "slices.Concat") && len(call.Call.Args) == 1 {
		sl, isSl := call.Call.Args[0].(*ssa.Slice)
		if !isSl {
			return nil, false
		}
		al, isAl := sl.X.(*ssa.Alloc)
		if !isAl {
			return nil, false
		}
		byIdx := map[int64]ssa.Value{}
		for _, r := range *al.Referrers() {
			if ia, isIA := r.(*ssa.IndexAddr); isIA {
				k, isK := ia.Index.(*ssa.Const)
				if !isK {
					return nil, false
				}
				for _, rr := range *ia.Referrers() {
					if st, isSt := rr.(*ssa.Store); isSt && st.Addr == ia {
						byIdx[k.Int64()] = st.Val
					}
				}
			}
		}
		for i := int64(0); i < int64(len(byIdx)); i++ {
			e, has := byIdx[i]
			if !has {
				return nil, false
			}
			parts = append(parts, e)
		}
		return parts, true
	}
	cur := v
	for i := 0; i < 8; i++ {
		call, isCall := cur.(*ssa.Call)
		if !isCall {
			break
		}
		b, isB := call.Call.Value.(*ssa.Builtin)
		if !isB || b.Name() != "append" {
			break
		}
		parts = append([]ssa.Value{call.Call.Args[1]}, parts...)
		cur = call.Call.Args[0]
	}
	if ms, isMS := cur.(*ssa.MakeSlice); isMS {
		return parts, desc(ms.Len) == "0"
	}
	return parts, isNilConst(cur)
}
