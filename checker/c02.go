package main

import (
	"go/constant"
	"encoding/json"
	"fmt"
	"go/token"
	"go/types"
	"os"
	"path/filepath"
	"regexp"
	"sort"
	"strings"

	"golang.org/x/tools/go/ssa"
)

func init() {
	register(&Prop{
		ID:        "C02",
		Technique: "call-graph closure of the decode entry points + per-site rules (decoder limits table, unchecked type assertions, explicit panics, data-sized allocations, constant-index reads without a dominating length guard, recursion depth guards) with an audited per-site table",
		Explanation: "Necessary conditions of totality, decided over R(D), the static/CHA call closure of the decode entry points D (UnmarshalCBOR methods, New*FromCbor*, NewMsgFromCbor*, cbor.Decode*, DecodeIdFromList, ListLength, StreamDecoder methods, diagnostic parsers, address constructors from bytes): " +
			"(a) every fxamacker DecOptions literal bounds MaxNestedLevels (≤256), MaxArrayElements and MaxMapPairs, and every cbor.Decode* entry obtains its mode from one of them; (b) every non-comma-ok type assertion and every explicit panic in R(D) is either absent or listed in the audited table with a reason why the dynamic type is fixed / the panic is unreachable from decoded data; " +
			"(c) every make/allocation whose size derives from a length decoded from the input (a value returned by a header parser, not len() of an existing slice) is dominated by a comparison that bounds it against the remaining input or a constant; (d) every constant-index read of a slice in R(D) is dominated by a length guard on that slice that covers the index; (e) processMap recovers the unhashable-key panic and turns it into an error; (f) self-recursive parsers outside the CBOR library carry a depth counter compared with a constant.",
		Assumptions: []string{"fxamacker/cbor honours its configured limits and does not panic", "variable-index bounds, nil dereferences, termination and memory proportionality in general are NOT decided"},
		Run:         runC02,
	})
}

var c02EntryRe = regexp.MustCompile(`^(UnmarshalCBOR|New[A-Za-z0-9]*FromCbor[A-Za-z0-9]*|NewMsgFromCbor[A-Za-z0-9]*|Decode[A-Za-z0-9]*|DecodeIdFromList|ListLength|ListLengthOrIndef|Diagnose[A-Za-z0-9]*|ParseDiagnostic[A-Za-z0-9]*|NewAddress|NewAddressFromBytes|NewByronAddressFromParts|DetermineBlockType|ExtractTransactionOffsets|NewStreamDecoder|NewStreamingBlockDecoder)$`)

type c02Audit struct {
	Key    string `json:"key"`
	Reason string `json:"reason"`
}

func loadC02Audit() map[string]string {
	out := map[string]string{}
	dir := os.Getenv("VERIF_DIR")
	b, err := os.ReadFile(filepath.Join(dir, "audit", "c02_audited.json"))
	if err != nil {
		return out
	}
	var list []c02Audit
	if json.Unmarshal(b, &list) == nil {
		for _, a := range list {
			out[a.Key] = a.Reason
		}
	}
	return out
}

func repoFunc(fn *ssa.Function) bool {
	return fn != nil && fn.Pkg != nil && strings.HasPrefix(fn.Pkg.Pkg.Path(), "github.com/blinklabs-io/gouroboros") && !strings.Contains(fn.Pkg.Pkg.Path(), "/internal/")
}

func (c *Ctx) c02Closure() (entries []*ssa.Function, closure map[*ssa.Function]bool) {
	c.W.buildSSA()
	cg := c.W.CallGraph()
	closure = map[*ssa.Function]bool{}
	var work []*ssa.Function
	for fn := range cg.Nodes {
		if !repoFunc(fn) || fn.Parent() != nil || fn.Synthetic != "" {
			continue
		}
		rel := relPkg(fn.Pkg.Pkg.Path())
		if !(rel == "cbor" || strings.HasPrefix(rel, "ledger") || strings.HasPrefix(rel, "protocol")) {
			continue
		}
		if !c02EntryRe.MatchString(fn.Name()) {
			continue
		}
		if fn.Object() != nil && !fn.Object().Exported() && fn.Name() != "UnmarshalCBOR" {
			continue
		}
		entries = append(entries, fn)
		work = append(work, fn)
	}
	for len(work) > 0 {
		fn := work[len(work)-1]
		work = work[:len(work)-1]
		if closure[fn] {
			continue
		}
		closure[fn] = true
		for _, an := range fn.AnonFuncs {
			work = append(work, an)
		}
		n := cg.Nodes[fn]
		if n == nil {
			continue
		}
		for _, e := range n.Out {
			callee := e.Callee.Func
			if !repoFunc(callee) {
				continue
			}
			// do not follow encode paths reached through interface dispatch on MarshalCBOR
			if e.Site != nil && e.Site.Common().IsInvoke() && callee.Name() != "UnmarshalCBOR" && !strings.Contains(callee.Name(), "Decode") {
				// restrict CHA fan-out: follow an invoke only into the same package or into methods named like decode helpers
				if callee.Pkg != fn.Pkg {
					continue
				}
			}
			work = append(work, callee)
		}
	}
	return
}

// valueUpperBound: an upper bound of an unsigned/integer value built from input bytes, constants, shifts and
// bit-or/additions, following the results of module functions; known is false for anything else.
func valueUpperBound(v ssa.Value, d int) (ub int64, known bool) {
	if d > 8 || v == nil {
		return 0, false
	}
	const lim = int64(1) << 40
	clamp := func(x int64) int64 {
		if x > lim || x < 0 {
			return lim
		}
		return x
	}
	byteTyped := func(t types.Type) (int64, bool) {
		if b, ok := t.Underlying().(*types.Basic); ok {
			switch b.Kind() {
			case types.Uint8:
				return 255, true
			case types.Uint16:
				return 65535, true
			case types.Bool:
				return 1, true
			}
		}
		return 0, false
	}
	if k, ok := v.(*ssa.Const); ok {
		if k.Value != nil && k.Value.Kind() == constant.Int {
			if x, exact := constant.Int64Val(k.Value); exact && x >= 0 {
				return clamp(x), true
			}
		}
		return 0, false
	}
	if m, ok := byteTyped(v.Type()); ok {
		// a byte-sized value, whatever computed it; refine through a mask
		if bo, isBo := v.(*ssa.BinOp); isBo && bo.Op == token.AND {
			if a, ka := valueUpperBound(bo.X, d+1); ka && a < m {
				m = a
			}
			if b, kb := valueUpperBound(bo.Y, d+1); kb && b < m {
				m = b
			}
		}
		return m, true
	}
	switch x := v.(type) {
	case *ssa.Convert:
		return valueUpperBound(x.X, d+1)
	case *ssa.ChangeType:
		return valueUpperBound(x.X, d+1)
	case *ssa.BinOp:
		a, ka := valueUpperBound(x.X, d+1)
		b, kb := valueUpperBound(x.Y, d+1)
		switch x.Op {
		case token.SHL:
			if k, isK := x.Y.(*ssa.Const); isK && ka && k.Value != nil {
				if sh, exact := constant.Int64Val(k.Value); exact && sh >= 0 && sh < 40 {
					return clamp(a << uint(sh)), true
				}
			}
		case token.OR, token.ADD, token.XOR:
			if ka && kb {
				return clamp(a + b), true
			}
		case token.AND:
			switch {
			case ka && kb:
				return min(a, b), true
			case ka:
				return a, true
			case kb:
				return b, true
			}
		case token.MUL:
			if ka && kb {
				return clamp(a * b), true
			}
		case token.SHR, token.QUO, token.REM:
			if ka {
				return a, true
			}
		}
	case *ssa.Phi:
		m := int64(0)
		for _, e := range x.Edges {
			if e == ssa.Value(x) {
				continue
			}
			a, k := valueUpperBound(e, d+2)
			if !k {
				return 0, false
			}
			m = max(m, a)
		}
		return m, true
	case *ssa.Extract, *ssa.Call:
		var call *ssa.Call
		idx := 0
		if ex, isEx := x.(*ssa.Extract); isEx {
			call, _ = ex.Tuple.(*ssa.Call)
			idx = ex.Index
		} else {
			call = x.(*ssa.Call)
		}
		if call == nil {
			return 0, false
		}
		h := call.Call.StaticCallee()
		if h == nil || len(h.Blocks) == 0 || h.Pkg == nil || !strings.HasPrefix(h.Pkg.Pkg.Path(), modPath) {
			return 0, false
		}
		m := int64(0)
		n := 0
		for _, b := range h.Blocks {
			r, isR := b.Instrs[len(b.Instrs)-1].(*ssa.Return)
			if !isR || idx >= len(r.Results) {
				continue
			}
			a, k := valueUpperBound(returnedValue(r, idx), d+2)
			if !k {
				return 0, false
			}
			n++
			m = max(m, a)
		}
		return m, n > 0
	}
	return 0, false
}

func runC02(c *Ctx) {
	audit := loadC02Audit()
	used := map[string]bool{}
	entries, closure := c.c02Closure()
	c.Note("decode entry points: %d, closure: %d functions", len(entries), len(closure))
	if len(entries) < 150 || len(closure) < 300 {
		c.Undecided("decode closure unexpectedly small (%d entries, %d functions)", len(entries), len(closure))
	}
	// (a) limits
	c.checkDecOptions()
	var fns []*ssa.Function
	for fn := range closure {
		fns = append(fns, fn)
	}
	sort.Slice(fns, func(i, j int) bool { return ssaFuncKey(fns[i]) < ssaFuncKey(fns[j]) })
	site := func(rule, key string, pos token.Pos, okDetail, badDetail string) {
		if r, ok := audit[rule+" "+key]; ok {
			used[rule+" "+key] = true
			c.Ok(rule, key, pos, "audited: "+r)
			return
		}
		c.Bad(rule, key, pos, "%s", badDetail)
		_ = okDetail
	}
	nAssert, nPanic, nMake, nIdx := 0, 0, 0, 0
	for _, fn := range fns {
		fk := ssaFuncKey(fn)
		ord := map[string]int{}
		uniq := func(s string) string {
			ord[s]++
			if ord[s] > 1 {
				return fmt.Sprintf("%s#%d", s, ord[s])
			}
			return s
		}
		recovers := false
		for _, an := range withAnon(fn) {
			for _, ci := range allCalls(an) {
				if b, ok := ci.Common().Value.(*ssa.Builtin); ok && b.Name() == "recover" {
					recovers = true
				}
			}
		}
		// big-number divisions panic on a zero divisor: in the decode closure the divisor must have been found non-zero
		for _, ci := range allCalls(fn) {
			cn := calleeName(ci.Common())
			div := -1
			switch cn {
			case "math/big.(*Rat).SetFrac", "math/big.(*Int).Quo", "math/big.(*Int).Div", "math/big.(*Int).Mod", "math/big.(*Int).Rem", "math/big.(*Rat).Quo":
				div = 2
			case "math/big.(*Int).QuoRem", "math/big.(*Int).DivMod":
				div = 2
			case "math/big.(*Rat).SetFrac64":
				div = 2
			case "math/big.(*Rat).Inv":
				div = 1
			}
			if div < 0 || div >= len(ci.Common().Args) || recovers {
				continue
			}
			dv := ci.Common().Args[div]
			if k, isK := dv.(*ssa.Const); isK {
				if k.Value != nil && k.Int64() != 0 {
					continue
				}
			}
			if nc, isCall := dv.(*ssa.Call); isCall {
				// NewInt(k) with a non-zero constant
				if calleeName(&nc.Call) == "math/big.NewInt" {
					if k, isK := nc.Call.Args[0].(*ssa.Const); isK && k.Value != nil && k.Int64() != 0 {
						continue
					}
				}
			}
			dd := desc(dv)
			v := c.mustPass(fn, []ssa.Instruction{ci.(ssa.Instruction)}, func(f string) bool {
				return f == "call:math/big.(*Int).Sign("+dd+") != 0" || f == "call:math/big.(*Int).Sign("+dd+") > 0" || f == dd+" != 0" || f == dd+" > 0" ||
					f == "call:math/big.(*Int).BitLen("+dd+") != 0" || f == "call:math/big.(*Int).BitLen("+dd+") > 0" || f == "call:math/big.(*Int).Sign("+dd+") == 1" || f == "call:math/big.(*Int).Sign("+dd+") >= 1" ||
					strings.HasPrefix(f, "call:math/big.(*Int).Cmp("+dd+",") && (strings.HasSuffix(f, " != 0") || strings.HasSuffix(f, " > 0"))
			})
			key := uniq(fk + ":" + cn[strings.LastIndex(cn, ".")+1:] + "(" + shortArg(trace(dv)) + ")")
			if v[0].OK {
				c.Ok("division-guarded", key, ci.Pos(), "the divisor was found non-zero on every path")
				continue
			}
			site("division-guarded", key, ci.Pos(), "", cn+" with divisor "+shortArg(trace(dv))+" that was not found non-zero on every path ("+v[0].Witness+"): a zero taken from the input panics with a division by zero")
		}
		for _, in := range fnInstrs(fn) {
			switch x := in.(type) {
			case *ssa.TypeAssert:
				if x.CommaOk {
					continue
				}
				// assertions generated for type switches' default / generic conversions any(x).(T) with identical static type
				if mi, ok := x.X.(*ssa.MakeInterface); ok && types.Identical(mi.X.Type(), x.AssertedType) {
					continue
				}
				nAssert++
				key := uniq(fk + ":" + shortArg(trace(x.X)) + ".(" + typeStr(x.AssertedType) + ")")
				if recovers {
					c.Ok("no-unchecked-assertion", key, x.Pos(), "inside a function that recovers")
					continue
				}
				if c.assertGuardedBySwitch(x) {
					c.Ok("no-unchecked-assertion", key, x.Pos(), "dominated by a successful comma-ok assertion / type-switch case of the same value to the same type")
					continue
				}
				site("no-unchecked-assertion", key, x.Pos(), "", "unchecked type assertion on "+shortArg(trace(x.X))+" to "+typeStr(x.AssertedType)+" in the decode closure: a value of another dynamic type panics")
			case *ssa.Panic:
				nPanic++
				key := uniq(fk + ":panic(" + shortArg(trace(x.X)) + ")")
				if recovers {
					c.Ok("no-explicit-panic", key, x.Pos(), "inside a function that recovers")
					continue
				}
				site("no-explicit-panic", key, x.Pos(), "", "explicit panic reachable from a decode entry point")
			case *ssa.MakeSlice:
				sz := x.Cap
				if _, isConst := sz.(*ssa.Const); isConst {
					sz = x.Len
				}
				if _, isConst := sz.(*ssa.Const); isConst {
					continue
				}
				if !sizeFromHeader(sz, 0) {
					continue
				}
				nMake++
				key := uniq(fk + ":make(" + shortArg(trace(sz)) + ")")
				if c.sizeBounded(fn, x, sz) {
					c.Ok("allocation-bounded", key, x.Pos(), "the decoded size is compared against a bound on every path to the allocation")
					continue
				}
				// a size whose reader can only produce small numbers (one or two length bytes) is bounded by construction;
				// when the reader can produce more, an audited reason that relied on it no longer holds
				if ub, known := valueUpperBound(sz, 0); known {
					if ub <= 1<<16 {
						c.Ok("allocation-bounded", key, x.Pos(), fmt.Sprintf("the size is at most %d by construction of the code that reads it", ub))
					} else {
						c.Bad("allocation-bounded", key, x.Pos(), "allocation sized by %s, a length claimed inside the input that can be as large as %d, with no dominating bound: a few input bytes reserve memory proportional to the claimed length", shortArg(trace(sz)), ub)
					}
					continue
				}
				site("allocation-bounded", key, x.Pos(), "", "allocation sized by "+shortArg(trace(sz))+", a length claimed inside the input, with no dominating bound: memory follows the claimed length, not the input size")
			case *ssa.MakeMap:
				if x.Reserve == nil {
					continue
				}
				if _, isConst := x.Reserve.(*ssa.Const); isConst || !sizeFromHeader(x.Reserve, 0) {
					continue
				}
				nMake++
				key := uniq(fk + ":makemap(" + shortArg(trace(x.Reserve)) + ")")
				if c.sizeBounded(fn, x, x.Reserve) {
					c.Ok("allocation-bounded", key, x.Pos(), "bounded")
					continue
				}
				site("allocation-bounded", key, x.Pos(), "", "map reserved with "+shortArg(trace(x.Reserve))+", a length claimed inside the input, with no dominating bound")
			case *ssa.IndexAddr, *ssa.Index:
				var base, idx ssa.Value
				if ia, ok := x.(*ssa.IndexAddr); ok {
					base, idx = ia.X, ia.Index
				} else {
					base, idx = x.(*ssa.Index).X, x.(*ssa.Index).Index
				}
				k, ok := idx.(*ssa.Const)
				if !ok {
					continue
				}
				if _, isSlice := base.Type().Underlying().(*types.Slice); !isSlice {
					continue
				}
				// freshly made literal slices (Slice of Alloc) are in range by construction
				if sl, ok := base.(*ssa.Slice); ok {
					if _, ok := sl.X.(*ssa.Alloc); ok {
						continue
					}
				}
				nIdx++
				key := uniq(fk + ":" + shortArg(trace(base)) + "[" + k.Value.String() + "]")
				if c.indexGuarded(fn, in, base, k.Int64()) {
					c.Ok("index-guarded", key, in.Pos(), "a dominating length test covers the index")
					continue
				}
				if why := c.indexGuardedIP(fn, in, base, k.Int64()); why != "" {
					c.Ok("index-guarded", key, in.Pos(), why)
					continue
				}
				if recovers {
					c.Ok("index-guarded", key, in.Pos(), "inside a function that recovers")
					continue
				}
				site("index-guarded", key, in.Pos(), "", "constant index "+k.Value.String()+" into "+shortArg(trace(base))+" without a dominating length check: a shorter input panics")
			}
		}
	}
	c.Note("sites: %d unchecked assertions, %d panics, %d data-sized allocations, %d constant-index reads", nAssert, nPanic, nMake, nIdx)
	if nIdx < 20 {
		c.Undecided("constant-index rule matched only %d sites", nIdx)
	}
	// positive control for allocation rule is the seeded corpus; (e) recover in processMap
	{
		fn := c.SSAFunc("cbor", "Value.processMap")
		ok := false
		if fn != nil {
			// functions deferred by processMap: func literals and directly deferred package functions
			cands := withAnon(fn)
			for _, in := range fnInstrs(fn) {
				if d, isD := in.(*ssa.Defer); isD {
					if h := resolveCallee(d.Common()); h != nil && len(h.Blocks) > 0 && h.Pkg == fn.Pkg {
						cands = append(cands, h)
					}
				}
			}
			for _, an := range cands {
				for _, ci := range allCalls(an) {
					b, isB := ci.Common().Value.(*ssa.Builtin)
					if !isB || b.Name() != "recover" {
						continue
					}
					// from the "recovered something" edge a store into the enclosing function's error result is reachable
					for _, ef := range edgeFacts(an) {
						iff := ef.From.Instrs[len(ef.From.Instrs)-1].(*ssa.If)
						bo, isBo := iff.Cond.(*ssa.BinOp)
						if !isBo || bo.X != ci.Value() || !isNilConst(bo.Y) {
							continue
						}
						if (bo.Op == token.NEQ && ef.Succ == 0) || (bo.Op == token.EQL && ef.Succ == 1) {
							start := ef.From.Succs[ef.Succ]
							reach := reachFromAvoiding([]*ssa.BasicBlock{start}, nil)
							reach[start] = true
							for blk := range reach {
								for _, in := range blk.Instrs {
									if st, isSt := in.(*ssa.Store); isSt {
										if fv, isFV := st.Addr.(*ssa.FreeVar); isFV && isErrorType(fv.Type().Underlying().(*types.Pointer).Elem()) {
											ok = true
										}
										// deferred helper: the error result is reached through a *error parameter
										if pa, isP := st.Addr.(*ssa.Parameter); isP {
											if pt, isPt := pa.Type().Underlying().(*types.Pointer); isPt && isErrorType(pt.Elem()) {
												ok = true
											}
										}
									}
								}
							}
						}
					}
				}
			}
		}
		if fn != nil {
			c.Check(ok, "unhashable-key-recovered", "cbor.(*Value).processMap", fn.Pos(), "a deferred recover turns the unhashable-key panic into an error", "processMap no longer recovers: an unhashable map key in the input panics")
		} else {
			c.Undecided("cbor.(*Value).processMap not found")
		}
	}
	// (f) recursion depth
	for _, fn := range fns {
		if fn.Pkg == nil || fn.Parent() != nil {
			continue
		}
		selfRec := false
		for _, ci := range allCalls(fn) {
			if ci.Common().StaticCallee() == fn {
				selfRec = true
			}
		}
		if !selfRec {
			continue
		}
		// recursion over an already-decoded tree (receiver/arg is a typed struct built by the bounded decoder) vs recursion over raw bytes
		rawBytes := false
		for _, p := range fn.Params {
			if strings.HasSuffix(typeStr(p.Type()), "[]byte") || strings.HasSuffix(typeStr(p.Type()), "RawMessage") {
				rawBytes = true
			}
		}
		key := ssaFuncKey(fn)
		if !rawBytes && !strings.Contains(strings.ToLower(fn.Name()), "diagnos") && !strings.Contains(strings.ToLower(fn.Name()), "parse") {
			continue
		}
		hasDepth := false
		for _, f := range edgeFacts(fn) {
			lf := strings.ToLower(f.Fact)
			if strings.Contains(lf, "depth") || strings.Contains(lf, "level") || strings.Contains(lf, "nest") {
				hasDepth = true
			}
		}
		for _, p := range fn.Params {
			n := strings.ToLower(p.Name())
			if strings.Contains(n, "depth") || strings.Contains(n, "level") {
				// compared with something?
				for _, f := range edgeFacts(fn) {
					if strings.Contains(f.Fact, "p") {
						hasDepth = hasDepth || strings.Contains(f.Fact, paramName(fn, p))
					}
				}
			}
		}
		if hasDepth {
			c.Ok("recursion-depth-bounded", key, fn.Pos(), "self-recursive parser compares a depth counter")
		} else {
			site("recursion-depth-bounded", key, fn.Pos(), "", "self-recursive parser over input bytes without a depth bound: deeply nested input exhausts the stack")
		}
	}
	for k := range audit {
		if !used[k] {
			c.Note("audit entry no longer matches a site: %s", k)
		}
	}
}

func paramName(fn *ssa.Function, p *ssa.Parameter) string {
	for i, q := range fn.Params {
		if q == p {
			return fmt.Sprintf("p%d", i)
		}
	}
	return "?"
}

// sizeFromHeader: the value derives from a length parsed out of the input (result of a header parser, a byte of the
// input, or arithmetic on such), as opposed to len() of an existing in-memory collection.
func sizeFromHeader(v ssa.Value, d int) bool {
	if d > 8 {
		return false
	}
	switch x := v.(type) {
	case *ssa.Const:
		return false
	case *ssa.Call:
		if b, ok := x.Call.Value.(*ssa.Builtin); ok {
			switch b.Name() {
			case "len", "cap":
				return false
			case "min":
				// bounded by the other operand if that one is not from the header
				all := true
				for _, a := range x.Call.Args {
					if !sizeFromHeader(a, d+1) {
						all = false
					}
				}
				return all
			}
		}
		n := calleeName(&x.Call)
		return strings.Contains(n, "Header") || strings.Contains(n, "ListLength") || strings.Contains(n, "Length") || strings.Contains(n, "Uint") || strings.Contains(n, "readLen") || strings.Contains(n, "parseLen")
	case *ssa.Extract:
		return sizeFromHeader(x.Tuple, d+1)
	case *ssa.BinOp:
		return sizeFromHeader(x.X, d+1) || sizeFromHeader(x.Y, d+1)
	case *ssa.Convert:
		return sizeFromHeader(x.X, d+1)
	case *ssa.ChangeType:
		return sizeFromHeader(x.X, d+1)
	case *ssa.Phi:
		for _, e := range x.Edges {
			if sizeFromHeader(e, d+2) {
				return true
			}
		}
		return false
	case *ssa.UnOp:
		if x.Op == token.MUL {
			// load: a field of a decoded struct named like a length
			if fa, ok := x.X.(*ssa.FieldAddr); ok {
				n := strings.ToLower(fieldName(fa.X.Type(), fa.Field))
				return strings.Contains(n, "len") || strings.Contains(n, "count") || strings.Contains(n, "size")
			}
			if al, ok := x.X.(*ssa.Alloc); ok {
				if s := singleStore(al); s != nil {
					return sizeFromHeader(s, d+1)
				}
			}
			if ia, ok := x.X.(*ssa.IndexAddr); ok {
				// a byte of the input
				return strings.HasSuffix(typeStr(ia.X.Type()), "[]byte")
			}
		}
		return sizeFromHeader(x.X, d+1)
	case *ssa.Parameter:
		n := strings.ToLower(x.Name())
		return strings.Contains(n, "len") || strings.Contains(n, "count") || n == "n" || strings.Contains(n, "size")
	}
	return false
}

// sizeBounded: every path to the allocation passes a comparison of the size value (or its source) with something.
func (c *Ctx) sizeBounded(fn *ssa.Function, at ssa.Instruction, sz ssa.Value) bool {
	roots := map[string]bool{}
	var collect func(v ssa.Value, d int)
	collect = func(v ssa.Value, d int) {
		if d > 6 {
			return
		}
		roots[desc(v)] = true
		switch x := v.(type) {
		case *ssa.BinOp:
			collect(x.X, d+1)
			collect(x.Y, d+1)
		case *ssa.Convert:
			collect(x.X, d+1)
		case *ssa.ChangeType:
			collect(x.X, d+1)
		case *ssa.Phi:
			for _, e := range x.Edges {
				collect(e, d+2)
			}
		case *ssa.UnOp:
			collect(x.X, d+1)
		}
	}
	collect(sz, 0)
	delete(roots, "1")
	delete(roots, "2")
	v := c.mustPass(fn, []ssa.Instruction{at}, func(f string) bool {
		parts := strings.Fields(f)
		if len(parts) != 3 {
			return false
		}
		switch parts[1] {
		case "<", "<=", ">", ">=":
		default:
			return false
		}
		return roots[parts[0]] || roots[parts[2]]
	})
	return v[0].OK
}

// indexGuarded: a dominating fact on len(base) implies index < len.
func (c *Ctx) indexGuarded(fn *ssa.Function, at ssa.Instruction, base ssa.Value, idx int64) bool {
	names := map[string]bool{"len(" + desc(base) + ")": true}
	// also the same slice seen through a phi-free reload
	bt := trace(base)
	match := func(f string) bool {
		parts := strings.Fields(f)
		if len(parts) != 3 {
			return false
		}
		l, op, r := parts[0], parts[1], parts[2]
		isLen := func(s string) bool {
			return names[s]
		}
		var n int64
		var lenLeft bool
		switch {
		case isLen(l):
			if _, err := fmt.Sscan(r, &n); err != nil {
				return false
			}
			lenLeft = true
		case isLen(r):
			if _, err := fmt.Sscan(l, &n); err != nil {
				return false
			}
		default:
			return false
		}
		if !lenLeft {
			op = swapOpStr(op)
		}
		switch op {
		case ">":
			return n >= idx
		case ">=":
			return n > idx
		case "==":
			return n > idx
		case "!=":
			return n == 0 && idx == 0 // len != 0 ⇒ len ≥ 1
		}
		return false
	}
	v := c.mustPass(fn, []ssa.Instruction{at}, match)
	if v[0].OK {
		return true
	}
	_ = bt
	return false
}

// indexGuardedIP: the length guard lives in another function of the module —
// (A) the slice is the result of a helper whose every successful return is dominated by a length test covering the
// index, and the read happens only after the helper's error was found nil; or
// (B) the slice is a parameter of an unexported function all of whose callers pass an argument that is guarded at
// the call site, directly or by the true edge of a predicate whose every true return is behind such a length test.
func (c *Ctx) indexGuardedIP(fn *ssa.Function, at ssa.Instruction, base ssa.Value, idx int64) string {
	inModule := func(h *ssa.Function) bool {
		return h != nil && len(h.Blocks) > 0 && h.Pkg != nil && strings.HasPrefix(h.Pkg.Pkg.Path(), modPath)
	}
	// (A)
	if ex, ok := base.(*ssa.Extract); ok {
		if call, ok := ex.Tuple.(*ssa.Call); ok {
			h := call.Call.StaticCallee()
			if inModule(h) {
				ei := errorResultIndex(h)
				okAll, n := true, 0
				for _, b := range h.Blocks {
					r, isR := b.Instrs[len(b.Instrs)-1].(*ssa.Return)
					if !isR || ex.Index >= len(r.Results) {
						continue
					}
					if ei >= 0 && ei < len(r.Results) && definitelyNonNilErr(returnedValue(r, ei), b, 0) {
						continue
					}
					n++
					if !c.indexGuarded(h, r, returnedValue(r, ex.Index), idx) {
						okAll = false
					}
				}
				if okAll && n > 0 && ei >= 0 {
					errD := ""
					for _, u := range referrersOf(call) {
						if e2, ok := u.(*ssa.Extract); ok && e2.Index == ei {
							errD = desc(e2)
						}
					}
					v := c.mustPass(fn, []ssa.Instruction{at}, func(f string) bool { return errD != "" && f == errD+" == nil" })
					if v[0].OK {
						return "every successful return of " + h.Name() + " is behind a length test covering the index, and its error was found nil"
					}
				}
			}
		}
	}
	// (B)
	if p, ok := base.(*ssa.Parameter); ok && fn.Object() != nil && !fn.Object().Exported() && fn.Parent() == nil {
		pi := -1
		for i, q := range fn.Params {
			if q == p {
				pi = i
			}
		}
		cs := callersInPkg(fn)
		if pi < 0 || len(cs) == 0 {
			return ""
		}
		for _, ci := range cs {
			if pi >= len(ci.Common().Args) {
				return ""
			}
			arg := ci.Common().Args[pi]
			caller := ci.Parent()
			if c.indexGuarded(caller, ci, arg, idx) {
				continue
			}
			// a predicate over the same argument
			okPred := false
			for _, cj := range allCalls(caller) {
				g := cj.Common().StaticCallee()
				if !inModule(g) || cj.Value() == nil {
					continue
				}
				if bt, isB := cj.Value().Type().Underlying().(*types.Basic); !isB || bt.Kind() != types.Bool {
					continue
				}
				gi := -1
				for i, a := range cj.Common().Args {
					if a == arg || trace(a) == trace(arg) {
						gi = i
					}
				}
				if gi < 0 || gi >= len(g.Params) {
					continue
				}
				want := "T:" + desc(cj.Value())
				if v := c.mustPass(caller, []ssa.Instruction{ci}, func(f string) bool { return f == want }); !v[0].OK {
					continue
				}
				trueOK, nTrue := true, 0
				for _, b := range g.Blocks {
					r, isR := b.Instrs[len(b.Instrs)-1].(*ssa.Return)
					if !isR || len(r.Results) != 1 {
						continue
					}
					if k, isK := r.Results[0].(*ssa.Const); isK && desc(k) == "false" {
						continue
					}
					nTrue++
					if !c.indexGuarded(g, r, g.Params[gi], idx) {
						trueOK = false
					}
				}
				if trueOK && nTrue > 0 {
					okPred = true
				}
			}
			if !okPred {
				return ""
			}
		}
		return "every caller passes a slice whose length was tested (at the call site or by a predicate that is true only behind the test)"
	}
	return ""
}

// assertGuardedBySwitch: x.(T) is dominated by the T edge of a comma-ok assertion of the same operand to the same type.
func (c *Ctx) assertGuardedBySwitch(ta *ssa.TypeAssert) bool {
	fn := ta.Parent()
	want := ""
	for _, in := range fnInstrs(fn) {
		o, ok := in.(*ssa.TypeAssert)
		if !ok || !o.CommaOk || o == ta {
			continue
		}
		if trace(o.X) == trace(ta.X) && types.Identical(o.AssertedType, ta.AssertedType) {
			want = "T:" + desc(o) + "#1"
			v := c.mustPass(fn, []ssa.Instruction{ta}, func(f string) bool { return f == want })
			if v[0].OK {
				return true
			}
		}
	}
	return false
}

// structFieldInts: the integer constants stored into the fields of a struct value that is built by a composite
// literal, either in place or in a same-package constructor helper whose parameters receive constants at the call.
func structFieldInts(v ssa.Value, args []ssa.Value, depth int, out map[string]int64) bool {
	if depth > 3 {
		return false
	}
	switch x := v.(type) {
	case *ssa.UnOp:
		al, ok := x.X.(*ssa.Alloc)
		if !ok || x.Op != token.MUL {
			return false
		}
		for _, r := range *al.Referrers() {
			fa, ok := r.(*ssa.FieldAddr)
			if !ok {
				continue
			}
			for _, rr := range *fa.Referrers() {
				st, ok := rr.(*ssa.Store)
				if !ok || st.Addr != fa {
					continue
				}
				val := st.Val
				if cv, ok := val.(*ssa.Convert); ok {
					val = cv.X
				}
				if pa, ok := val.(*ssa.Parameter); ok && args != nil {
					for i, q := range pa.Parent().Params {
						if q == pa && i < len(args) {
							val = args[i]
						}
					}
				}
				if k, ok := val.(*ssa.Const); ok && k.Value != nil && k.Value.Kind() == constant.Int {
					out[fieldName(fa.X.Type(), fa.Field)] = k.Int64()
				}
			}
		}
		return true
	case *ssa.Call:
		h := x.Call.StaticCallee()
		if h == nil || len(h.Blocks) == 0 || h.Pkg == nil || x.Parent() == nil || h.Pkg != x.Parent().Pkg {
			return false
		}
		ok := false
		for _, b := range h.Blocks {
			if r, isR := b.Instrs[len(b.Instrs)-1].(*ssa.Return); isR && len(r.Results) == 1 {
				ok = structFieldInts(returnedValue(r, 0), x.Call.Args, depth+1, out) || ok
			}
		}
		return ok
	}
	return false
}

func (c *Ctx) checkDecOptions() {
	// every place where decoder options become a decoder mode: the limits in force there
	c.W.buildSSA()
	for _, fn := range c.pkgFuncs("cbor") {
		for _, ci := range allCalls(fn) {
			cn := calleeName(ci.Common())
			if !strings.HasPrefix(cn, "github.com/fxamacker/cbor/v2.DecOptions.DecMode") && !strings.HasPrefix(cn, "github.com/fxamacker/cbor/v2.(DecOptions).DecMode") {
				continue
			}
			vals := map[string]int64{}
			key := stableClosureNames(ssaFuncKey(fn)) + ":DecOptions"
			if !structFieldInts(ci.Common().Args[0], nil, 0, vals) {
				c.Undecided("%s: decoder options passed to %s are not built by a composite literal here or in a constructor helper", ssaFuncKey(fn), cn)
			}
			c.Check(vals["MaxNestedLevels"] > 0 && vals["MaxNestedLevels"] <= 256, "decoder-limits", key+":MaxNestedLevels", ci.Pos(), fmt.Sprintf("MaxNestedLevels=%d", vals["MaxNestedLevels"]), fmt.Sprintf("MaxNestedLevels is %d: nesting is not bounded to ≤256", vals["MaxNestedLevels"]))
			c.Check(vals["MaxArrayElements"] > 0 && vals["MaxArrayElements"] <= 10_000_000, "decoder-limits", key+":MaxArrayElements", ci.Pos(), fmt.Sprintf("MaxArrayElements=%d", vals["MaxArrayElements"]), fmt.Sprintf("MaxArrayElements is %d (unset or above the audited 10M)", vals["MaxArrayElements"]))
			c.Check(vals["MaxMapPairs"] > 0 && vals["MaxMapPairs"] <= 10_000_000, "decoder-limits", key+":MaxMapPairs", ci.Pos(), fmt.Sprintf("MaxMapPairs=%d", vals["MaxMapPairs"]), fmt.Sprintf("MaxMapPairs is %d (unset or above the audited 10M)", vals["MaxMapPairs"]))
		}
	}
	c.Floor("decoder-limits", 9)
	// every decoder construction uses a mode (no _cbor.NewDecoder / _cbor.Unmarshal with default options on input bytes)
	c.W.buildSSA()
	for _, fn := range c.pkgFuncs("cbor") {
		for _, ci := range allCalls(fn) {
			n := calleeName(ci.Common())
			if n == "github.com/fxamacker/cbor/v2.Unmarshal" || n == "github.com/fxamacker/cbor/v2.NewDecoder" {
				c.Bad("decoder-limits", ssaFuncKey(fn)+":"+n, ci.Pos(), "%s is used with the library's default options instead of one of the configured decoder modes", n)
			}
		}
	}
}
