package main

// Interprocedural must-pass with edge and instruction events.
//
// An "event" is either an If edge carrying a fact accepted by Spec.Edge, or an instruction accepted by Spec.Instr.
// A call to a same-package helper counts as an event when every path through the helper (to the class of return that
// leads to the caller's branch, when the caller branches on the result) passes an event. Helper facts are translated
// into the caller's vocabulary by substituting parameters with the call's arguments.

import (
	"fmt"
	"go/constant"
	"go/token"
	"strconv"
	"strings"
	"go/types"

	"golang.org/x/tools/go/ssa"
)

type PassSpec struct {
	Edge  func(fact string) bool
	Instr func(in ssa.Instruction) bool
}

type passCuts struct {
	edge  map[*ssa.BasicBlock][2]bool
	after map[*ssa.BasicBlock]ssa.Instruction // first event instruction in the block (everything after it has passed)
}

func (pc *passCuts) cut(from *ssa.BasicBlock, succ int) bool {
	if pc.after[from] != nil {
		return true
	}
	return succ < 2 && pc.edge[from][succ]
}

// resolveCallee: the static callee, also through a local closure variable that is assigned exactly once
// (stop := func(){…}; … stop()), including when that variable is captured by the calling closure.
func resolveCallee(cc *ssa.CallCommon) *ssa.Function {
	if cc.IsInvoke() {
		return nil
	}
	if h := cc.StaticCallee(); h != nil {
		return h
	}
	ld, ok := cc.Value.(*ssa.UnOp)
	if !ok || ld.Op != token.MUL {
		return nil
	}
	return closureInCell(ld.X, 3)
}

func closureInCell(cell ssa.Value, depth int) *ssa.Function {
	switch x := cell.(type) {
	case *ssa.Alloc:
		switch v := singleStore(x).(type) {
		case *ssa.MakeClosure:
			f, _ := v.Fn.(*ssa.Function)
			return f
		case *ssa.Function:
			return v
		}
	case *ssa.FreeVar:
		fnc := x.Parent()
		if depth <= 0 || fnc == nil || fnc.Parent() == nil {
			return nil
		}
		idx := -1
		for i, fv := range fnc.FreeVars {
			if fv == x {
				idx = i
			}
		}
		for _, in := range fnInstrs(fnc.Parent()) {
			if mc, ok := in.(*ssa.MakeClosure); ok && mc.Fn == ssa.Value(fnc) && idx >= 0 && idx < len(mc.Bindings) {
				return closureInCell(mc.Bindings[idx], depth-1)
			}
		}
	}
	return nil
}

// fnPkg: the declaring package, also for instantiations of generic functions (whose Pkg field is nil).
func fnPkg(f *ssa.Function) *ssa.Package {
	if f == nil {
		return nil
	}
	if f.Pkg != nil {
		return f.Pkg
	}
	if o := f.Origin(); o != nil {
		return o.Pkg
	}
	if f.Parent() != nil {
		return fnPkg(f.Parent())
	}
	return nil
}

func samePkgHelper(fn *ssa.Function, cc *ssa.CallCommon) *ssa.Function {
	h := resolveCallee(cc)
	// inside a generic body, calls to sibling generic functions name an instance over the type parameters that has
	// no body of its own: the generic origin is the code that runs
	if h != nil && (len(h.Blocks) == 0 || strings.HasPrefix(h.Synthetic, "instantiation wrapper")) && h.Origin() != nil && len(h.Origin().Blocks) > 0 {
		h = h.Origin()
	}
	if h == nil || fnPkg(h) == nil || fnPkg(h) != fnPkg(fn) || len(h.Blocks) == 0 || h == fn {
		return nil
	}
	return h
}

func computePassCuts(fn *ssa.Function, spec PassSpec, depth int, stack map[*ssa.Function]bool) *passCuts {
	pc := &passCuts{edge: map[*ssa.BasicBlock][2]bool{}, after: map[*ssa.BasicBlock]ssa.Instruction{}}
	if spec.Edge != nil {
		for _, f := range edgeFacts(fn) {
			if f.Succ < 2 && spec.Edge(f.Fact) {
				v := pc.edge[f.From]
				v[f.Succ] = true
				pc.edge[f.From] = v
			}
		}
	}
	for _, b := range fn.Blocks {
		for _, in := range b.Instrs {
			if pc.after[b] != nil {
				break
			}
			if spec.Instr != nil && spec.Instr(in) {
				pc.after[b] = in
				break
			}
			// a helper all of whose paths pass an event
			ci, ok := in.(*ssa.Call)
			if !ok || depth <= 0 {
				continue
			}
			h := samePkgHelper(fn, &ci.Call)
			if h == nil || stack[h] {
				continue
			}
			if helperPasses(h, ci, spec, "any", 0, true, depth-1, stack) {
				pc.after[b] = in
			}
		}
	}
	if depth <= 0 {
		return pc
	}
	// class-sensitive: branches on a helper's result
	for _, b := range fn.Blocks {
		if len(b.Instrs) == 0 {
			continue
		}
		iff, ok := b.Instrs[len(b.Instrs)-1].(*ssa.If)
		if !ok {
			continue
		}
		call, idx, kind, swapped := helperTest(iff.Cond)
		if call == nil {
			continue
		}
		h := samePkgHelper(fn, &call.Call)
		if h == nil || stack[h] {
			continue
		}
		for succ := 0; succ < 2; succ++ {
			if pc.edge[b][succ] {
				continue
			}
			truthy := succ == 0
			if swapped {
				truthy = !truthy
			}
			if helperPassesIdx(h, call, spec, kind, idx, truthy, depth-1, stack) {
				v := pc.edge[b]
				v[succ] = true
				pc.edge[b] = v
			}
		}
	}
	return pc
}

func helperPasses(h *ssa.Function, call *ssa.Call, spec PassSpec, kind string, idx int, truthy bool, depth int, stack map[*ssa.Function]bool) bool {
	return helperPassesIdx(h, call, spec, kind, idx, truthy, depth, stack)
}

func helperPassesIdx(h *ssa.Function, call *ssa.Call, spec PassSpec, kind string, idx int, truthy bool, depth int, stack map[*ssa.Function]bool) bool {
	var rets []*ssa.BasicBlock
	for _, hb := range h.Blocks {
		r, isR := hb.Instrs[len(hb.Instrs)-1].(*ssa.Return)
		if !isR {
			continue
		}
		if kind != "any" {
			if idx >= len(r.Results) {
				continue
			}
			rv := returnedValue(r, idx)
			switch kind {
			case "bool":
				if k, isK := rv.(*ssa.Const); isK && k.Value != nil {
					if (desc(k) == "true") != truthy {
						continue
					}
				}
			case "err":
				nonNil := definitelyNonNilErr(rv, hb, 0)
				if truthy && nonNil {
					continue
				}
				if !truthy && isNilConst(rv) {
					continue
				}
			}
		}
		rets = append(rets, hb)
	}
	if len(rets) == 0 {
		return false
	}
	hspec := PassSpec{Instr: spec.Instr}
	if spec.Edge != nil {
		args := call.Call.Args
		hspec.Edge = func(fact string) bool { return spec.Edge(substParams(fact, args)) }
	}
	if stack == nil {
		stack = map[*ssa.Function]bool{}
	}
	stack[h] = true
	hpc := computePassCuts(h, hspec, depth, stack)
	delete(stack, h)
	reach, _ := reachAvoiding(h, hpc.cut)
	for _, rb := range rets {
		if reach[rb] {
			// reachable without crossing a cut edge; but the return block itself may hold the event
			if hpc.after[rb] == nil {
				return false
			}
		}
	}
	return true
}

// mustPassEv: every path from fn's entry to each sink passes an event.
func (c *Ctx) mustPassEv(fn *ssa.Function, sinks []ssa.Instruction, spec PassSpec) []SinkVerdict {
	pc := computePassCuts(fn, spec, 2, map[*ssa.Function]bool{})
	reach, parent := reachAvoiding(fn, pc.cut)
	var out []SinkVerdict
	for _, s := range sinks {
		b := s.Block()
		ok := !reach[b]
		if !ok {
			if ev := pc.after[b]; ev != nil && ev != s && precedes(ev, s) {
				ok = true
			}
		}
		if !ok {
			// second look, path-sensitively (flag variables, conditions tested twice)
			if ps := psReach(fn, []*ssa.BasicBlock{fn.Blocks[0]}, pc.cut); !ps[b] {
				ok = true
			}
		}
		if ok {
			out = append(out, SinkVerdict{s, true, ""})
		} else {
			out = append(out, SinkVerdict{s, false, c.witness(fn, parent, b)})
		}
	}
	return out
}

// closureFuncs: fn, its anonymous functions, and the same-package functions it statically calls (depth-limited).
func closureFuncs(fn *ssa.Function, depth int) []*ssa.Function {
	seen := map[*ssa.Function]bool{}
	var out []*ssa.Function
	var walk func(f *ssa.Function, d int)
	walk = func(f *ssa.Function, d int) {
		if f == nil || seen[f] {
			return
		}
		seen[f] = true
		out = append(out, f)
		for _, an := range f.AnonFuncs {
			walk(an, d)
		}
		if d <= 0 {
			return
		}
		for _, ci := range allCalls(f) {
			if h := samePkgHelper(f, ci.Common()); h != nil {
				walk(h, d-1)
			}
		}
	}
	walk(fn, depth)
	return out
}

// callersInPkg: static call sites of h in its own package.
func callersInPkg(h *ssa.Function) []ssa.CallInstruction {
	var out []ssa.CallInstruction
	if h.Pkg == nil {
		return nil
	}
	var fns []*ssa.Function
	for _, m := range h.Pkg.Members {
		if f, ok := m.(*ssa.Function); ok {
			fns = append(fns, f)
		}
	}
	for _, m := range h.Pkg.Members {
		if t, ok := m.(*ssa.Type); ok {
			for _, recv := range []bool{false, true} {
				typ := t.Type()
				if recv {
					typ = typesPointer(typ)
				}
				ms := h.Prog.MethodSets.MethodSet(typ)
				for i := 0; i < ms.Len(); i++ {
					if f := h.Prog.MethodValue(ms.At(i)); f != nil && f.Pkg == h.Pkg {
						fns = append(fns, f)
					}
				}
			}
		}
	}
	seen := map[*ssa.Function]bool{}
	var all []*ssa.Function
	for _, f := range fns {
		for _, g := range withAnon(f) {
			if !seen[g] {
				seen[g] = true
				all = append(all, g)
			}
		}
	}
	for _, f := range all {
		for _, ci := range allCalls(f) {
			if ci.Common().StaticCallee() == h {
				out = append(out, ci)
			}
		}
	}
	return out
}

func typesPointer(t types.Type) types.Type { return types.NewPointer(t) }

// heldAtIP: the mutex is held at instr, either locally or because fn is an unexported helper all of whose call sites
// in the package hold it (recursively).
func heldAtIP(fn *ssa.Function, instr ssa.Instruction, mutexSuffix string, lockNames, unlockNames []string, depth int) bool {
	if heldAt(fn, instr, mutexSuffix, lockNames, unlockNames) {
		return true
	}
	if depth <= 0 || fn.Object() == nil || fn.Object().Exported() {
		return false
	}
	// the helper must not release the lock itself before instr
	for _, ci := range allCalls(fn) {
		if isLockCall(ci, mutexSuffix, unlockNames...) && reachesInstr(ci.(ssa.Instruction), instr) {
			if _, isDefer := ci.(*ssa.Defer); !isDefer {
				return false
			}
		}
	}
	sites := callersInPkg(fn)
	if len(sites) == 0 {
		return false
	}
	for _, s := range sites {
		if !heldAtIP(s.Parent(), s.(ssa.Instruction), mutexSuffix, lockNames, unlockNames, depth-1) {
			return false
		}
	}
	return true
}

// derivesOnlyFromField: every non-nil leaf of v (looking through phis, extracts, map lookups, loads, and the returns of
// same-package helpers) is a read of the named struct field.
func derivesOnlyFromField(v ssa.Value, field string, depth int, seen map[ssa.Value]bool) bool {
	if depth > 10 || v == nil {
		return false
	}
	if seen == nil {
		seen = map[ssa.Value]bool{}
	}
	if seen[v] {
		return true
	}
	seen[v] = true
	switch x := v.(type) {
	case *ssa.Const:
		return x.IsNil()
	case *ssa.Phi:
		for _, e := range x.Edges {
			if !derivesOnlyFromField(e, field, depth+1, seen) {
				return false
			}
		}
		return len(x.Edges) > 0
	case *ssa.Extract:
		return derivesOnlyFromField(x.Tuple, field, depth+1, seen)
	case *ssa.Lookup:
		return derivesOnlyFromField(x.X, field, depth+1, seen)
	case *ssa.Index:
		return derivesOnlyFromField(x.X, field, depth+1, seen)
	case *ssa.IndexAddr:
		return derivesOnlyFromField(x.X, field, depth+1, seen)
	case *ssa.UnOp:
		if fa, ok := x.X.(*ssa.FieldAddr); ok && fieldName(fa.X.Type(), fa.Field) == field {
			return true
		}
		if al, ok := x.X.(*ssa.Alloc); ok {
			n := 0
			for _, r := range *al.Referrers() {
				if st, ok := r.(*ssa.Store); ok && st.Addr == ssa.Value(al) {
					n++
					if !derivesOnlyFromField(st.Val, field, depth+1, seen) {
						return false
					}
				}
			}
			return n > 0
		}
		return derivesOnlyFromField(x.X, field, depth+1, seen)
	case *ssa.Field:
		return fieldName(x.X.Type(), x.Field) == field
	case *ssa.Call:
		h := x.Call.StaticCallee()
		if h == nil || h.Pkg == nil || h.Pkg != x.Parent().Pkg || len(h.Blocks) == 0 {
			return false
		}
		n := 0
		for _, b := range h.Blocks {
			if r, ok := b.Instrs[len(b.Instrs)-1].(*ssa.Return); ok && len(r.Results) > 0 {
				n++
				if !derivesOnlyFromField(returnedValue(r, 0), field, depth+1, seen) {
					return false
				}
			}
		}
		return n > 0
	}
	return false
}

// chanSendSite: a place where a value is sent on a channel, lifted to the caller when the channel is a parameter of
// a same-package helper (signalReady(p.sendReadyChan) counts as a send on p.sendReadyChan at the call).
type chanSendSite struct {
	Fn   *ssa.Function
	At   ssa.Instruction
	Chan ssa.Value
}

func liftedSendSites(fns []*ssa.Function) []chanSendSite {
	var out []chanSendSite
	var lift func(fn *ssa.Function, at ssa.Instruction, ch ssa.Value, depth int)
	lift = func(fn *ssa.Function, at ssa.Instruction, ch ssa.Value, depth int) {
		if p, ok := ch.(*ssa.Parameter); ok && depth > 0 && fn.Parent() == nil {
			idx := -1
			for i, q := range fn.Params {
				if q == p {
					idx = i
				}
			}
			callers := callersInPkg(fn)
			if idx >= 0 && len(callers) > 0 {
				for _, ci := range callers {
					if idx < len(ci.Common().Args) {
						lift(ci.Parent(), ci, ci.Common().Args[idx], depth-1)
					}
				}
				return
			}
		}
		out = append(out, chanSendSite{fn, at, ch})
	}
	for _, fn := range fns {
		for _, in := range fnInstrs(fn) {
			switch x := in.(type) {
			case *ssa.Send:
				lift(fn, in, x.Chan, 3)
			case *ssa.Select:
				for _, st := range x.States {
					if st.Send != nil {
						lift(fn, in, st.Chan, 3)
					}
				}
			}
		}
	}
	return out
}

// variantAllocTable: for the heap-allocated named struct types selected by pick that root or a same-package helper it
// calls constructs, the integer value of the branch atom under which each construction is reachable. An atom is any
// left side of an "atom == k" edge fact; a construction is attributed to value v when, for some atom, v is the only
// value in [-1,maxID+2] that keeps its block feasible.
func variantAllocTable(root *ssa.Function, maxID int64, pick func(t *types.Named) bool) map[int64][]string {
	out := map[int64][]string{}
	for v, ts := range variantAllocTypes(root, maxID, pick) {
		for _, t := range ts {
			out[v] = append(out[v], t.Obj().Name())
		}
	}
	return out
}

// variantAllocTypes is variantAllocTable with the types themselves.
func variantAllocTypes(root *ssa.Function, maxID int64, pick func(t *types.Named) bool) map[int64][]*types.Named {
	out := map[int64][]*types.Named{}
	for _, f := range closureFuncs(root, 2) {
		atoms := map[string]bool{}
		for _, ef := range edgeFacts(f) {
			if i := strings.Index(ef.Fact, " == "); i > 0 {
				if _, err := strconv.ParseInt(ef.Fact[i+4:], 10, 64); err == nil {
					atoms[ef.Fact[:i]] = true
				}
			}
		}
		if len(atoms) == 0 {
			continue
		}
		for _, in := range fnInstrs(f) {
			al, ok := in.(*ssa.Alloc)
			if !ok {
				continue
			}
			pt, ok := al.Type().(*types.Pointer)
			if !ok {
				continue
			}
			nt, ok := pt.Elem().(*types.Named)
			if !ok || !pick(nt) {
				continue
			}
			for atom := range atoms {
				var vs []int64
				for v := int64(-1); v <= maxID+2; v++ {
					if feasibleBlocks(f, map[string]int64{atom: v})[al.Block()] {
						vs = append(vs, v)
					}
				}
				if len(vs) == 1 {
					out[vs[0]] = append(out[vs[0]], nt)
					break
				}
			}
		}
	}
	return out
}

// liftToCaller: the instructions of top that (transitively, through same-package helper calls) execute at: at itself
// when it is in top, else the call sites of its function, lifted in turn.
func liftToCaller(top *ssa.Function, at ssa.Instruction, depth int) []ssa.Instruction {
	if at.Parent() == top {
		return []ssa.Instruction{at}
	}
	if depth <= 0 {
		return nil
	}
	var out []ssa.Instruction
	for _, ci := range callersInPkg(at.Parent()) {
		out = append(out, liftToCaller(top, ci, depth-1)...)
	}
	return out
}

// funcValueUsesInPkg: call instructions in h's package that receive h as a function value (a method value c.cleanup
// or the function itself), e.g. once.Do(c.cleanup). The callee may run h; arguments do not line up with h's parameters.
func funcValueUsesInPkg(h *ssa.Function) []ssa.CallInstruction {
	var out []ssa.CallInstruction
	if h.Pkg == nil {
		return nil
	}
	isH := func(v ssa.Value) bool {
		switch x := v.(type) {
		case *ssa.Function:
			return x == h
		case *ssa.MakeClosure:
			f, _ := x.Fn.(*ssa.Function)
			if f == nil {
				return false
			}
			if f == h {
				return true
			}
			return f.Synthetic != "" && f.Object() != nil && f.Object() == h.Object()
		case *ssa.ChangeType:
			return false
		}
		return false
	}
	for _, c := range callersUniverse(h) {
		for _, ci := range allCalls(c) {
			for _, a := range ci.Common().Args {
				if isH(a) {
					out = append(out, ci)
				}
			}
		}
	}
	return out
}

// callersUniverse: all source functions (with closures) of h's package.
func callersUniverse(h *ssa.Function) []*ssa.Function {
	var fns []*ssa.Function
	for _, m := range h.Pkg.Members {
		if f, ok := m.(*ssa.Function); ok {
			fns = append(fns, f)
		}
	}
	for _, m := range h.Pkg.Members {
		if t, ok := m.(*ssa.Type); ok {
			for _, recv := range []bool{false, true} {
				typ := t.Type()
				if recv {
					typ = typesPointer(typ)
				}
				ms := h.Prog.MethodSets.MethodSet(typ)
				for i := 0; i < ms.Len(); i++ {
					if f := h.Prog.MethodValue(ms.At(i)); f != nil && f.Pkg == h.Pkg {
						fns = append(fns, f)
					}
				}
			}
		}
	}
	seen := map[*ssa.Function]bool{}
	var all []*ssa.Function
	for _, f := range fns {
		for _, g := range withAnon(f) {
			if !seen[g] {
				seen[g] = true
				all = append(all, g)
			}
		}
	}
	return all
}

// dispatchTable: for each same-package call in fn, the single value of a branch atom (among candidates) under which
// the call's block is reachable — "message type k is handled by h" whatever the branching syntax (switch, if chain,
// early returns).
func dispatchTable(fn *ssa.Function, candidates []int64) map[int64][]*ssa.Function {
	out := map[int64][]*ssa.Function{}
	atoms := map[string]bool{}
	for _, ef := range edgeFacts(fn) {
		if l, op, r, ok := splitRel(ef.Fact); ok && (op == "==" || op == "!=") {
			if _, err := strconv.ParseInt(r, 10, 64); err == nil {
				atoms[l] = true
			}
		}
	}
	sentinel := int64(-7)
	for _, ci := range allCalls(fn) {
		h := samePkgHelper(fn, ci.Common())
		if h == nil {
			continue
		}
		for atom := range atoms {
			var vs []int64
			for _, v := range append([]int64{sentinel}, candidates...) {
				if feasibleBlocks(fn, map[string]int64{atom: v})[ci.Block()] {
					vs = append(vs, v)
				}
			}
			if len(vs) == 1 && vs[0] != sentinel {
				out[vs[0]] = append(out[vs[0]], h)
				break
			}
		}
	}
	return out
}

// movedInto: a call accepted by pred that is not in fn itself but in a same-package helper fn calls (depth 2): the
// construct a rule is anchored on was moved out of the analysed function. Rules that are intraprocedural by design
// report this as undecided — they cannot tell a correct extraction from a broken one — never as a violation.
func movedInto(fn *ssa.Function, pred func(ci ssa.CallInstruction) bool) *ssa.Function {
	for _, g := range closureFuncs(fn, 2) {
		if g == fn {
			continue
		}
		for _, ci := range allCalls(g) {
			if pred(ci) {
				return g
			}
		}
	}
	return nil
}

// constResults: the integer constants fn can return at result idx, together with a nil error, under a valuation of
// its atoms; a returned call to a same-package helper is followed with the valuation mapped onto its parameters.
// ok is false when some feasible return yields a value that is neither.
func constResults(fn *ssa.Function, idx int, val map[string]int64, depth int) (vals map[int64]bool, ok bool) {
	vals = map[int64]bool{}
	if depth > 3 {
		return vals, false
	}
	ok = true
	ei := errorResultIndex(fn)
	reach := psReachVal(fn, []*ssa.BasicBlock{fn.Blocks[0]}, nil, val)
	edges := lastPsEdges
	for _, b := range fn.Blocks {
		r, isR := b.Instrs[len(b.Instrs)-1].(*ssa.Return)
		if !isR || !reach[b] || idx >= len(r.Results) {
			continue
		}
		// result variables: a value and an error merged at the return, judged per incoming edge actually taken
		if ph, isPhi := returnedValue(r, idx).(*ssa.Phi); isPhi && ph.Block() == b {
			var eph *ssa.Phi
			if ei >= 0 && ei < len(r.Results) {
				eph, _ = returnedValue(r, ei).(*ssa.Phi)
				if eph != nil && eph.Block() != b {
					eph = nil
				}
			}
			for i, e := range ph.Edges {
				pred := b.Preds[i]
				if !edges[[2]*ssa.BasicBlock{pred, b}] {
					continue
				}
				if eph != nil && definitelyNonNilErr(eph.Edges[i], pred, 0) {
					continue
				}
				if eph == nil && ei >= 0 && ei < len(r.Results) && definitelyNonNilErr(returnedValue(r, ei), b, 0) {
					continue
				}
				if cv, isCv := e.(*ssa.Convert); isCv {
					e = cv.X
				}
				if k, isK := e.(*ssa.Const); isK && k.Value != nil && k.Value.Kind() == constant.Int {
					vals[k.Int64()] = true
				} else {
					ok = false
				}
			}
			continue
		}
		if ei >= 0 && ei < len(r.Results) && definitelyNonNilErr(returnedValue(r, ei), b, 0) {
			continue
		}
		rv := returnedValue(r, idx)
		if cv, isCv := rv.(*ssa.Convert); isCv {
			rv = cv.X
		}
		// a valued atom, possibly negated (return -a.Cmp(b))
		if u, isU := rv.(*ssa.UnOp); isU && u.Op == token.SUB {
			if v, has := val[desc(u.X)]; has {
				vals[-v] = true
				continue
			}
		}
		if v, has := val[desc(rv)]; has {
			if _, isConst := rv.(*ssa.Const); !isConst {
				vals[v] = true
				continue
			}
		}
		if _, isBin := rv.(*ssa.BinOp); isBin {
			if x, known := evalArith(rv, val, 0); known {
				vals[x] = true
				continue
			}
		}
		// a variable merged before the return block: the incoming values of the edges actually taken
		if ph, isPhi := rv.(*ssa.Phi); isPhi && ph.Block() != b {
			allKnown := true
			var expand func(x ssa.Value, d int)
			expand = func(x ssa.Value, d int) {
				if p2, ok2 := x.(*ssa.Phi); ok2 && d < 4 {
					pb := p2.Block()
					for i, e := range p2.Edges {
						if reach[pb.Preds[i]] && edges[[2]*ssa.BasicBlock{pb.Preds[i], pb}] {
							expand(e, d+1)
						}
					}
					return
				}
				if cv, isCv := x.(*ssa.Convert); isCv {
					if y, known := evalArith(cv, val, 0); known {
						vals[y] = true
						return
					}
				}
				if y, known := evalArith(x, val, 0); known {
					vals[y] = true
					return
				}
				allKnown = false
			}
			expand(ph, 0)
			if allKnown {
				continue
			}
			ok = false
			continue
		}
		if cv, isCv := returnedValue(r, idx).(*ssa.Convert); isCv {
			if x, known := evalArith(cv, val, 0); known {
				vals[x] = true
				continue
			}
		}
		switch x := rv.(type) {
		case *ssa.Const:
			if x.Value != nil && x.Value.Kind() == constant.Int {
				vals[x.Int64()] = true
				continue
			}
			ok = false
		case *ssa.Call, *ssa.Extract:
			var call *ssa.Call
			hidx := 0
			if ex, isEx := x.(*ssa.Extract); isEx {
				call, _ = ex.Tuple.(*ssa.Call)
				hidx = ex.Index
			} else {
				call = x.(*ssa.Call)
			}
			var h *ssa.Function
			if call != nil {
				h = samePkgHelper(fn, &call.Call)
			}
			if h == nil {
				ok = false
				continue
			}
			// the helper's valuation: atoms carried over as they are (atoms already in the helper's vocabulary stay
			// valid), the arguments' own values, and atoms built over an argument rewritten over the parameter
			// (len(a.VRFOutput()) in the caller is len(p0) in the helper)
			hval := map[string]int64{}
			for k, v := range val {
				if !paramTokRe.MatchString(k) {
					hval[k] = v
				}
				// "@helper:atom": an atom in that helper's own vocabulary
				if pre := "@" + h.Name() + ":"; strings.HasPrefix(k, pre) {
					hval[k[len(pre):]] = v
				}
			}
			for i, a := range call.Call.Args {
				pi := fmt.Sprintf("p%d", i)
				if k, isK := a.(*ssa.Const); isK && k.Value != nil && k.Value.Kind() == constant.Int {
					hval[pi] = k.Int64()
					continue
				}
				da := desc(a)
				for k, v := range val {
					if k == da {
						hval[pi] = v
					} else if strings.Contains(k, da) {
						hval[strings.ReplaceAll(k, da, pi)] = v
					}
				}
			}
			hv, hok := constResults(h, hidx, hval, depth+1)
			for k := range hv {
				vals[k] = true
			}
			ok = ok && hok
		default:
			ok = false
		}
	}
	return vals, ok
}
