package main

import (
	"fmt"
	"go/ast"
	"go/token"
	"go/types"
	"strings"

	"golang.org/x/tools/go/ssa"
)

func init() {
	register(&Prop{
		ID:        "C17",
		Technique: "AST path-condition extraction + truth-table equivalence (role/diffusion gating), SSA guard dominance (muxer direction checks)",
		Explanation: "(a) In Muxer.readLoop the delivery is dominated by both direction guards (mode Initiator ∧ request → error; mode Responder ∧ response → error). " +
			"(b) In Connection.setupConnection the path condition of every <proto>.Server.EnsureRegistered/Start and <proto>.Client.Start call is extracted from the enclosing if/else chain and compared by exhaustive truth table with the expected gating formula " +
			"((fullDuplex ∧ negotiatedFullDuplex) ∨ server for responders, … ∨ ¬server for initiators, ∧ ¬delayProtocolStart for Start, ∧ sendKeepAlives for the keep-alive client); other atoms (mode flags, nil checks) may only narrow it and must leave it satisfiable. " +
			"(c) keep-alive, peer-sharing, local-state-query and local-tx-monitor are constructed only under the matching Enable* flag of GetProtocolVersion(handshakeVersion). (d) the muxer diffusion mode is Both iff duplex was negotiated, else Responder iff server, else Initiator. " +
			"(e) every protocol field assigned in setupConnection is returned by an exported accessor. The negotiated-duplex variable is set only inside the FinishedFunc callback under DiffusionMode()==InitiatorAndResponder.",
		Assumptions: []string{"Start/EnsureRegistered of the per-protocol Client/Server types register with the muxer under the role their type names (checked structurally in C11/C15 contexts)"},
		Run:         runC17,
	})
}

// checkUnregisterKeepsOtherRole: the muxer keeps one entry per protocol id holding both roles. Unregistering one role
// (every server restarts itself on the peer's Done, Client.Stop unregisters too) must leave the other role reachable:
// the per-id entry of protocolReceivers/protocolSenders is deleted only when its role map was found empty.
func (c *Ctx) checkUnregisterKeepsOtherRole() {
	n := 0
	for _, fn := range c.pkgFuncs("muxer") {
		for _, ci := range allCalls(fn) {
			b, isB := ci.Common().Value.(*ssa.Builtin)
			if !isB || b.Name() != "delete" || len(ci.Common().Args) != 2 {
				continue
			}
			m := ci.Common().Args[0]
			u, ok := m.(*ssa.UnOp)
			if !ok {
				continue
			}
			fa, ok := u.X.(*ssa.FieldAddr)
			if !ok {
				continue
			}
			fname := fieldName(fa.X.Type(), fa.Field)
			if fname != "protocolReceivers" && fname != "protocolSenders" {
				continue
			}
			n++
			key := ssaFuncKey(fn) + ":delete(" + fname + ")"
			v := c.mustPass(fn, []ssa.Instruction{ci.(ssa.Instruction)}, func(f string) bool {
				return strings.HasPrefix(f, "len(") && (strings.HasSuffix(f, " == 0") || strings.HasSuffix(f, " <= 0") || strings.HasSuffix(f, " < 1")) && strings.Contains(f, "."+fname)
			})
			c.Check(v[0].OK, "unregister-keeps-other-role", key, ci.Pos(), "the per-protocol entry is dropped only once its role map is empty", "the whole "+fname+" entry of a protocol id is deleted without its role map having been found empty: unregistering or restarting one role of a mini-protocol removes the still-running opposite role from routing, and its next segment is answered with 'unknown protocol'")
		}
	}
	if n == 0 {
		c.Ok("unregister-keeps-other-role", "muxer:none", 0, "no code deletes a per-protocol entry of the muxer's routing tables (roles are removed one by one)")
	}
}

func runC17(c *Ctx) {
	c.checkUnregisterKeepsOtherRole()
	// ---- (a) muxer direction guards
	rl := c.SSAFunc("muxer", "Muxer.readLoop")
	var sinks []ssa.Instruction
	var sentD string
	for _, b := range rl.Blocks {
		for _, in := range b.Instrs {
			if sel, ok := in.(*ssa.Select); ok {
				for _, st := range sel.States {
					if st.Send != nil && strings.HasSuffix(desc(st.Chan), ".ch") {
						sinks = append(sinks, sel)
						sentD = desc(st.Send)
					}
				}
			}
			if snd, ok := in.(*ssa.Send); ok && strings.HasSuffix(desc(snd.Chan), ".ch") {
				sinks = append(sinks, snd)
				sentD = desc(snd.X)
			}
		}
	}
	if len(sinks) != 1 {
		c.Undecided("readLoop: expected one delivery send, found %d", len(sinks))
	}
	ini := c.ConstInt("muxer", "DiffusionModeInitiator")
	rsp := c.ConstInt("muxer", "DiffusionModeResponder")
	isResp := "call:muxer.(*SegmentHeader).IsResponse(" + sentD + ".SegmentHeader)"
	isReq := "call:muxer.(*SegmentHeader).IsRequest(" + sentD + ".SegmentHeader)"
	modeNe := func(f string, v int64) bool {
		return strings.HasPrefix(f, "call:sync/atomic.(*Int64).Load(") && strings.Contains(f, ".diffusionMode)") && strings.HasSuffix(f, fmt.Sprintf(" != %d", v))
	}
	v1 := c.mustPass(rl, sinks, func(f string) bool { return modeNe(f, ini) || f == "T:"+isResp || f == "F:"+isReq })
	c.Check(v1[0].OK, "direction-guard", "muxer.(*Muxer).readLoop:initiator-only", sinks[0].Pos(), "delivery only if mode != Initiator or the segment is a response",
		"a request can be delivered on an initiator-only connection ("+v1[0].Witness+")")
	v2 := c.mustPass(rl, sinks, func(f string) bool { return modeNe(f, rsp) || f == "F:"+isResp || f == "T:"+isReq })
	c.Check(v2[0].OK, "direction-guard", "muxer.(*Muxer).readLoop:responder-only", sinks[0].Pos(), "delivery only if mode != Responder or the segment is a request",
		"a response can be delivered on a responder-only connection ("+v2[0].Witness+")")

	// ---- (b) setupConnection gating
	p, fd := c.FuncDecl(".", "Connection.setupConnection")
	env := newCondEnv(p, fd)
	type startCall struct {
		call  *ast.CallExpr
		proto string // package name of the protocol
		side  string // Server|Client
		meth  string
		cond  *Formula
	}
	var calls []startCall
	ast.Inspect(fd.Body, func(n ast.Node) bool {
		ce, ok := n.(*ast.CallExpr)
		if !ok {
			return true
		}
		sel, ok := ce.Fun.(*ast.SelectorExpr)
		if !ok || (sel.Sel.Name != "Start" && sel.Sel.Name != "EnsureRegistered") {
			return true
		}
		t := p.TypesInfo.TypeOf(sel.X)
		if t == nil {
			return true
		}
		if pt, ok := t.(*types.Pointer); ok {
			t = pt.Elem()
		}
		nt, ok := types.Unalias(t).(*types.Named)
		if !ok || nt.Obj().Pkg() == nil || !strings.HasPrefix(relPkg(nt.Obj().Pkg().Path()), "protocol/") {
			return true
		}
		if nt.Obj().Name() != "Server" && nt.Obj().Name() != "Client" {
			return true
		}
		calls = append(calls, startCall{ce, nt.Obj().Pkg().Name(), nt.Obj().Name(), sel.Sel.Name, env.pathCondition(ce)})
		return true
	})
	if len(calls) < 40 {
		c.Undecided("setupConnection: only %d protocol Start/EnsureRegistered calls found (46 confirmed by hand)", len(calls))
	}
	// discover the negotiated-duplex atom: the unique local atom in these conditions
	locals := map[string]bool{}
	for _, sc := range calls {
		m := map[string]bool{}
		sc.cond.Atoms(m)
		for a := range m {
			if strings.HasPrefix(a, "local:") {
				locals[a] = true
			}
		}
	}
	if len(locals) != 1 {
		for _, sc := range calls {
			if sc.proto == "handshake" {
				continue
			}
			c.Bad("start-gating", fmt.Sprintf("%s.%s.%s", sc.proto, sc.side, sc.meth), sc.call.Pos(),
				"cannot identify a single negotiated-duplex variable in the start conditions (local atoms: %v); condition is %s", sortedKeys(locals), sc.cond)
		}
		return
	}
	HS := sortedKeys(locals)[0]
	const FD, SRV, DELAY, SKA = "recv.fullDuplex", "recv.server", "recv.delayProtocolStart", "recv.sendKeepAlives"
	relevant := []string{FD, HS, SRV, DELAY, SKA}
	isRel := map[string]bool{}
	for _, a := range relevant {
		isRel[a] = true
	}
	seenKey := map[string]int{}
	for _, sc := range calls {
		key := fmt.Sprintf("%s.%s.%s", sc.proto, sc.side, sc.meth)
		seenKey[key]++
		if seenKey[key] > 1 {
			key = fmt.Sprintf("%s#%d", key, seenKey[key])
		}
		var exp *Formula
		duplex := fAnd(fAtom(FD), fAtom(HS))
		switch {
		case sc.proto == "handshake" && sc.side == "Server":
			exp = fAtom(SRV)
		case sc.proto == "handshake" && sc.side == "Client":
			exp = fNot(fAtom(SRV))
		case sc.side == "Server":
			exp = fOr(duplex, fAtom(SRV))
		default:
			exp = fOr(duplex, fNot(fAtom(SRV)))
		}
		if sc.meth == "Start" && sc.proto != "handshake" {
			exp = fAnd(exp, fNot(fAtom(DELAY)))
		}
		if sc.proto == "keepalive" && sc.side == "Client" {
			exp = fAnd(exp, fAtom(SKA))
		}
		atoms := sortedAtoms(sc.cond, exp)
		if len(atoms) > 14 {
			c.Bad("start-gating", key, sc.call.Pos(), "condition has %d atoms, too many to decide: %s", len(atoms), sc.cond)
			continue
		}
		// soundness: actual => expected for all assignments; completeness: for each relevant assignment with expected true some other-assignment makes actual true
		sound := true
		satisfied := map[string]bool{}
		wanted := map[string]bool{}
		var cex string
		truthTable(atoms, func(e map[string]bool) {
			rk := ""
			for _, a := range relevant {
				if e[a] {
					rk += "1"
				} else {
					rk += "0"
				}
			}
			ex := exp.Eval(e)
			ac := sc.cond.Eval(e)
			if ac && !ex {
				sound = false
				if cex == "" {
					cex = envString(e, atoms)
				}
			}
			if ex {
				wanted[rk] = true
				if ac {
					satisfied[rk] = true
				}
			}
		})
		complete := true
		for rk := range wanted {
			if !satisfied[rk] {
				complete = false
				if cex == "" {
					cex = "never started when [" + strings.Join(relevant, ",") + "]=" + rk
				}
			}
		}
		c.Check(sound && complete, "start-gating", key, sc.call.Pos(), "path condition ≡ "+exp.String()+" (narrowed only by mode/nil atoms)",
			"path condition "+sc.cond.String()+" is not equivalent to the role/diffusion gating "+exp.String()+"; counterexample: "+cex)
	}
	c.Floor("start-gating", 40)

	// the negotiated-duplex variable is only set in the FinishedFunc closure under DiffusionMode()==InitiatorAndResponder
	hsName := strings.TrimPrefix(HS, "local:")
	nAssign := 0
	ast.Inspect(fd.Body, func(n ast.Node) bool {
		as, ok := n.(*ast.AssignStmt)
		if !ok {
			return true
		}
		for i, l := range as.Lhs {
			id, ok := l.(*ast.Ident)
			if !ok || id.Name != hsName {
				continue
			}
			if _, isDef := p.TypesInfo.Defs[id]; isDef && as.Tok == token.DEFINE {
				continue
			}
			nAssign++
			pc := env.pathCondition(as)
			m := map[string]bool{}
			pc.Atoms(m)
			guarded := false
			for a := range m {
				if strings.Contains(a, "DiffusionMode()") && strings.Contains(a, "protocol.DiffusionModeInitiatorAndResponder") && strings.Contains(a, "==") {
					// atom must be required positively: pc false when atom false
					guarded = true
					at := sortedAtoms(pc)
					truthTable(at, func(e map[string]bool) {
						if pc.Eval(e) && !e[a] {
							guarded = false
						}
					})
				}
			}
			val := ""
			if i < len(as.Rhs) {
				val = types.ExprString(as.Rhs[i])
			}
			c.Check(guarded && val == "true", "negotiated-duplex-source", "Connection.setupConnection:"+fmt.Sprint(nAssign), as.Pos(),
				"set to true only when the accepted version data says InitiatorAndResponder", "negotiated-duplex flag assigned ("+val+") under "+pc.String()+", not under DiffusionMode()==InitiatorAndResponder")
		}
		return true
	})
	if nAssign == 0 {
		c.Bad("negotiated-duplex-source", "Connection.setupConnection", fd.Pos(), "negotiated-duplex variable %s is never assigned", hsName)
	}

	// ---- (c) version gating of optional protocols
	gated := map[string]string{"keepAlive": "EnableKeepAliveProtocol", "peerSharing": "EnablePeerSharingProtocol", "localStateQuery": "EnableLocalQueryProtocol", "localTxMonitor": "EnableLocalTxMonitorProtocol"}
	assigned := map[string][]*Formula{}
	assignedPos := map[string]token.Pos{}
	protoFields := map[string]bool{}
	ast.Inspect(fd.Body, func(n ast.Node) bool {
		as, ok := n.(*ast.AssignStmt)
		if !ok || len(as.Lhs) != 1 || len(as.Rhs) != 1 {
			return true
		}
		sel, ok := as.Lhs[0].(*ast.SelectorExpr)
		if !ok {
			return true
		}
		call, ok := unparen(as.Rhs[0]).(*ast.CallExpr)
		if !ok {
			return true
		}
		fn := calleeOf(p.TypesInfo, call)
		if fn == nil || fn.Name() != "New" || fn.Pkg() == nil || !strings.HasPrefix(relPkg(fn.Pkg().Path()), "protocol/") {
			return true
		}
		if id, ok := sel.X.(*ast.Ident); !ok || p.TypesInfo.Uses[id] != env.sigRecv() {
			return true
		}
		protoFields[sel.Sel.Name] = true
		assigned[sel.Sel.Name] = append(assigned[sel.Sel.Name], env.pathCondition(as))
		assignedPos[sel.Sel.Name] = as.Pos()
		return true
	})
	for field, flag := range gated {
		conds := assigned[field]
		if len(conds) == 0 {
			c.Bad("version-gating", field, fd.Pos(), "optional protocol field %s is never constructed in setupConnection", field)
			continue
		}
		atom := "protocol.GetProtocolVersion(recv.handshakeVersion)." + flag
		ok := true
		sat := false
		for _, pc := range conds {
			at := sortedAtoms(pc, fAtom(atom))
			truthTable(at, func(e map[string]bool) {
				if pc.Eval(e) {
					if !e[atom] {
						ok = false
					} else {
						sat = true
					}
				}
			})
		}
		c.Check(ok && sat, "version-gating", field, assignedPos[field], "constructed only (and whenever mode permits) under "+atom,
			fmt.Sprintf("%s is constructed without requiring %s of the negotiated version (conditions: %v)", field, flag, conds))
	}

	// ---- (d) muxer diffusion mode
	c.checkMuxerMode(env, fd, HS, SRV)

	// ---- (e) accessors
	conn := c.Pkg(".").Types.Scope().Lookup("Connection")
	if conn == nil {
		c.Undecided("type Connection not found")
	}
	named := conn.Type().(*types.Named)
	retField := map[string]string{}
	for i := 0; i < named.NumMethods(); i++ {
		m := named.Method(i)
		if !m.Exported() {
			continue
		}
		fn := c.SSAOf(m)
		if fn == nil || len(fn.Blocks) == 0 {
			continue
		}
		for _, b := range fn.Blocks {
			if r, ok := b.Instrs[len(b.Instrs)-1].(*ssa.Return); ok && len(r.Results) == 1 {
				d := desc(r.Results[0])
				if strings.HasPrefix(d, "p0.") {
					retField[strings.TrimPrefix(d, "p0.")] = m.Name()
				}
			}
		}
	}
	for f := range protoFields {
		_, ok := retField[f]
		c.Check(ok, "protocol-accessor", f, assignedPos[f], "exported accessor "+retField[f]+"() returns the field", "protocol field "+f+" is constructed but no exported Connection method returns it: an enabled protocol is unreachable")
	}
	c.Floor("protocol-accessor", 14)
}

func envString(e map[string]bool, atoms []string) string {
	var parts []string
	for _, a := range atoms {
		parts = append(parts, fmt.Sprintf("%s=%v", a, e[a]))
	}
	return strings.Join(parts, " ")
}

// checkMuxerMode evaluates the SetDiffusionMode argument as a decision tree over the if/else chain assigning it.
func (c *Ctx) checkMuxerMode(env *condEnv, fd *ast.FuncDecl, HS, SRV string) {
	p := env.p
	var call *ast.CallExpr
	ast.Inspect(fd.Body, func(n ast.Node) bool {
		ce, ok := n.(*ast.CallExpr)
		if ok {
			if fn := calleeOf(p.TypesInfo, ce); fn != nil && funcKey(fn) == "muxer.(*Muxer).SetDiffusionMode" {
				call = ce
			}
		}
		return true
	})
	if call == nil {
		c.Bad("muxer-mode", "Connection.setupConnection", fd.Pos(), "SetDiffusionMode is never called")
		return
	}
	both := c.ConstInt("muxer", "DiffusionModeInitiatorAndResponder")
	ini := c.ConstInt("muxer", "DiffusionModeInitiator")
	rsp := c.ConstInt("muxer", "DiffusionModeResponder")
	if hc, isCall := unparen(call.Args[0]).(*ast.CallExpr); isCall {
		// the mode is computed by a same-package helper over boolean arguments: interpret the helper for every
		// valuation of the caller's atoms
		hf := calleeOf(p.TypesInfo, hc)
		var hd *ast.FuncDecl
		if hf != nil && hf.Pkg() == p.Types {
			hd = c.DeclOpt(hf)
		}
		if hd == nil || hd.Body == nil {
			c.Undecided("setupConnection: the SetDiffusionMode argument %s is not a helper of this package", types.ExprString(call.Args[0]))
		}
		henv := newCondEnv(p, hd)
		sig := hf.Type().(*types.Signature)
		base := env.pathCondition(call)
		var fs []*Formula
		for _, a := range hc.Args {
			fs = append(fs, env.formula(a, 0))
		}
		atoms := sortedAtoms(append(fs, base, fAtom(HS), fAtom(SRV))...)
		okAll, cex := true, ""
		truthTable(atoms, func(e map[string]bool) {
			if !base.Eval(e) {
				return
			}
			pe := map[string]bool{}
			for i := range hc.Args {
				if i < sig.Params().Len() {
					pe["local:"+sig.Params().At(i).Name()] = fs[i].Eval(e)
				}
			}
			val, known := evalConstBody(henv, hd.Body.List, pe)
			if !known {
				c.Undecided("setupConnection: helper %s is not a decision over its boolean parameters", hf.Name())
			}
			want := ini
			if e[HS] {
				want = both
			} else if e[SRV] {
				want = rsp
			}
			if val != want {
				okAll = false
				if cex == "" {
					cex = fmt.Sprintf("%s gives mode %d, expected %d", envString(e, atoms), val, want)
				}
			}
		})
		c.Check(okAll, "muxer-mode", "Connection.setupConnection", call.Pos(), "mode = Both iff duplex negotiated, else Responder iff server, else Initiator", "muxer diffusion mode table is wrong: "+cex)
		return
	}
	id, ok := unparen(call.Args[0]).(*ast.Ident)
	if !ok {
		c.Undecided("setupConnection: SetDiffusionMode argument %s is neither a mode variable assigned by an if/else chain nor a helper call", types.ExprString(call.Args[0]))
		return
	}
	v, _ := p.TypesInfo.Uses[id].(*types.Var)
	// collect (pathCondition, constant) for each assignment; later assignments override earlier ones when their condition holds
	type asg struct {
		cond *Formula
		val  int64
		pos  token.Pos
	}
	var asgs []asg
	bad := ""
	ast.Inspect(fd.Body, func(n ast.Node) bool {
		as, ok := n.(*ast.AssignStmt)
		if !ok {
			return true
		}
		for i, l := range as.Lhs {
			li, ok := l.(*ast.Ident)
			if !ok || (p.TypesInfo.Defs[li] != v && p.TypesInfo.Uses[li] != v) || i >= len(as.Rhs) {
				continue
			}
			k, ok := constInt(p.TypesInfo, as.Rhs[i])
			if !ok {
				bad = "non-constant mode " + types.ExprString(as.Rhs[i])
				continue
			}
			asgs = append(asgs, asg{env.pathCondition(as), k, as.Pos()})
		}
		return true
	})
	if bad != "" || len(asgs) == 0 {
		c.Bad("muxer-mode", "Connection.setupConnection", call.Pos(), "cannot evaluate the diffusion mode: %s", bad)
		return
	}
	base := env.pathCondition(call)
	var fs []*Formula
	for _, a := range asgs {
		fs = append(fs, a.cond)
	}
	atoms := sortedAtoms(append(fs, base, fAtom(HS), fAtom(SRV))...)
	okAll := true
	cex := ""
	truthTable(atoms, func(e map[string]bool) {
		if !base.Eval(e) {
			return
		}
		val := int64(-1)
		for _, a := range asgs { // source order = execution order for straight-line if/else chains
			if a.cond.Eval(e) {
				val = a.val
			}
		}
		want := ini
		if e[HS] {
			want = both
		} else if e[SRV] {
			want = rsp
		}
		if val != want {
			okAll = false
			if cex == "" {
				cex = fmt.Sprintf("%s gives mode %d, expected %d", envString(e, atoms), val, want)
			}
		}
	})
	c.Check(okAll, "muxer-mode", "Connection.setupConnection", call.Pos(), "mode = Both iff duplex negotiated, else Responder iff server, else Initiator", "muxer diffusion mode table is wrong: "+cex)
}

// evalConstBody interprets a statement list made of if/else, tagless switch and "return <constant>" under a
// valuation of its boolean atoms; known=false for anything else or when an atom is not valued.
func evalConstBody(env *condEnv, stmts []ast.Stmt, val map[string]bool) (res int64, known bool) {
	evalCond := func(x ast.Expr) (bool, bool) {
		f := env.formula(x, 0)
		as := map[string]bool{}
		f.Atoms(as)
		for a := range as {
			if _, ok := val[a]; !ok {
				return false, false
			}
		}
		return f.Eval(val), true
	}
	var run func(stmts []ast.Stmt) (int64, bool, bool) // value, returned, ok
	run = func(stmts []ast.Stmt) (int64, bool, bool) {
		for _, s := range stmts {
			switch st := s.(type) {
			case *ast.ReturnStmt:
				if len(st.Results) != 1 {
					return 0, false, false
				}
				k, ok := constInt(env.p.TypesInfo, st.Results[0])
				return k, true, ok
			case *ast.BlockStmt:
				if v, r, ok := run(st.List); !ok || r {
					return v, r, ok
				}
			case *ast.IfStmt:
				if st.Init != nil {
					return 0, false, false
				}
				cv, ok := evalCond(st.Cond)
				if !ok {
					return 0, false, false
				}
				var body []ast.Stmt
				if cv {
					body = st.Body.List
				} else if st.Else != nil {
					body = []ast.Stmt{st.Else}
				}
				if v, r, ok := run(body); !ok || r {
					return v, r, ok
				}
			case *ast.SwitchStmt:
				if st.Tag != nil || st.Init != nil {
					return 0, false, false
				}
				var chosen, dflt *ast.CaseClause
			clauses:
				for _, cl := range st.Body.List {
					cc := cl.(*ast.CaseClause)
					if cc.List == nil {
						dflt = cc
						continue
					}
					for _, x := range cc.List {
						cv, ok := evalCond(x)
						if !ok {
							return 0, false, false
						}
						if cv {
							chosen = cc
							break clauses
						}
					}
				}
				if chosen == nil {
					chosen = dflt
				}
				if chosen != nil {
					for _, b := range chosen.Body {
						if _, isFT := b.(*ast.BranchStmt); isFT {
							return 0, false, false
						}
					}
					if v, r, ok := run(chosen.Body); !ok || r {
						return v, r, ok
					}
				}
			default:
				return 0, false, false
			}
		}
		return 0, false, true
	}
	v, returned, ok := run(stmts)
	return v, ok && returned
}
