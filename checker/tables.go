package main

// E3: literal/table extraction. Reads protocol.StateMap composite literals into plain data.

import (
	"fmt"
	"go/ast"
	"go/constant"
	"go/token"
	"go/types"
	"sort"
	"strings"

	"golang.org/x/tools/go/packages"
)

type SMTrans struct {
	MsgType int64
	MsgName string
	To      int64 // state id
	ToName  string
	Match   string // "", "+Field", "-Field", "fn:<name>", "opaque"
	Pos     token.Pos
}

type SMEntry struct {
	StateID     int64
	StateName   string
	StateVar    string
	Agency      int64
	Trans       []SMTrans
	TimeoutNs   int64 // constant Timeout value (0 if none or non-constant)
	TimeoutExpr string
	TimeoutFunc string
	ByteLimit   string
	Pos         token.Pos
}

type StateMachine struct {
	Pkg     string // module-relative
	Var     string
	Entries map[int64]*SMEntry
	Pos     token.Pos
	Obj     *types.Var
}

func (sm *StateMachine) Key() string { return sm.Pkg + "." + sm.Var }

func (sm *StateMachine) sortedIDs() []int64 {
	ids := make([]int64, 0, len(sm.Entries))
	for id := range sm.Entries {
		ids = append(ids, id)
	}
	sort.Slice(ids, func(i, j int) bool { return ids[i] < ids[j] })
	return ids
}

func isNamed(t types.Type, pkgSuffix, name string) bool {
	if p, ok := t.(*types.Pointer); ok {
		t = p.Elem()
	}
	n, ok := types.Unalias(t).(*types.Named)
	if !ok || n.Obj().Pkg() == nil {
		return false
	}
	return n.Obj().Name() == name && (n.Obj().Pkg().Path() == pkgSuffix || strings.HasSuffix(n.Obj().Pkg().Path(), "/"+pkgSuffix))
}

// pkgVarInit finds the initialiser expression of a package-level variable.
func (c *Ctx) pkgVarInit(v *types.Var) (ast.Expr, *packages.Package) {
	if v.Pkg() == nil {
		return nil, nil
	}
	p := c.W.ByPth[v.Pkg().Path()]
	if p == nil {
		return nil, nil
	}
	for _, f := range p.Syntax {
		for _, d := range f.Decls {
			gd, ok := d.(*ast.GenDecl)
			if !ok || gd.Tok != token.VAR {
				continue
			}
			for _, s := range gd.Specs {
				vs := s.(*ast.ValueSpec)
				for i, n := range vs.Names {
					if p.TypesInfo.Defs[n] == v {
						if len(vs.Values) == len(vs.Names) {
							return vs.Values[i], p
						}
						return nil, p
					}
				}
			}
		}
	}
	return nil, p
}

func constInt(info *types.Info, e ast.Expr) (int64, bool) {
	tv, ok := info.Types[e]
	if !ok || tv.Value == nil {
		return 0, false
	}
	v := constant.ToInt(tv.Value)
	if v.Kind() != constant.Int {
		return 0, false
	}
	return constant.Int64Val(v)
}

func unparen(e ast.Expr) ast.Expr {
	for {
		p, ok := e.(*ast.ParenExpr)
		if !ok {
			return e
		}
		e = p.X
	}
}

// evalState resolves an expression to a protocol.State value (id, name).
func (c *Ctx) evalState(p *packages.Package, e ast.Expr, depth int) (id int64, name, varName string, ok bool) {
	if depth > 4 {
		return
	}
	e = unparen(e)
	switch x := e.(type) {
	case *ast.Ident:
		v, isVar := p.TypesInfo.Uses[x].(*types.Var)
		if !isVar {
			return
		}
		init, ip := c.pkgVarInit(v)
		if init == nil {
			return
		}
		id, name, _, ok = c.evalState(ip, init, depth+1)
		return id, name, x.Name, ok
	case *ast.SelectorExpr:
		v, isVar := p.TypesInfo.Uses[x.Sel].(*types.Var)
		if !isVar {
			return
		}
		init, ip := c.pkgVarInit(v)
		if init == nil {
			return
		}
		id, name, _, ok = c.evalState(ip, init, depth+1)
		return id, name, x.Sel.Name, ok
	case *ast.CallExpr:
		fn := calleeOf(p.TypesInfo, x)
		if fn == nil || fn.Name() != "NewState" || fn.Pkg() == nil || !strings.HasSuffix(fn.Pkg().Path(), "/protocol") || len(x.Args) != 2 {
			return
		}
		idv, ok1 := constInt(p.TypesInfo, x.Args[0])
		tv := p.TypesInfo.Types[x.Args[1]]
		if !ok1 || tv.Value == nil || tv.Value.Kind() != constant.String {
			return
		}
		return idv, constant.StringVal(tv.Value), "", true
	case *ast.CompositeLit:
		if !isNamed(p.TypesInfo.TypeOf(x), "protocol", "State") {
			return
		}
		var idv int64
		var nm string
		for i, el := range x.Elts {
			var k string
			var val ast.Expr
			if kv, isKV := el.(*ast.KeyValueExpr); isKV {
				k = kv.Key.(*ast.Ident).Name
				val = kv.Value
			} else {
				k = []string{"Id", "Name"}[i]
				val = el
			}
			switch k {
			case "Id":
				v, ok1 := constInt(p.TypesInfo, val)
				if !ok1 {
					return
				}
				idv = v
			case "Name":
				tv := p.TypesInfo.Types[val]
				if tv.Value == nil {
					return
				}
				nm = constant.StringVal(tv.Value)
			}
		}
		return idv, nm, "", true
	}
	return
}

func calleeOf(info *types.Info, call *ast.CallExpr) *types.Func {
	var id *ast.Ident
	switch f := unparen(call.Fun).(type) {
	case *ast.Ident:
		id = f
	case *ast.SelectorExpr:
		id = f.Sel
	case *ast.IndexExpr:
		switch g := unparen(f.X).(type) {
		case *ast.Ident:
			id = g
		case *ast.SelectorExpr:
			id = g.Sel
		}
	}
	if id == nil {
		return nil
	}
	fn, _ := info.Uses[id].(*types.Func)
	return fn
}

// matchLabel reduces a MatchFunc expression to a label.
func (c *Ctx) matchLabel(p *packages.Package, e ast.Expr) string {
	e = unparen(e)
	var body *ast.BlockStmt
	name := ""
	switch x := e.(type) {
	case *ast.FuncLit:
		body = x.Body
	case *ast.Ident:
		if fn, ok := p.TypesInfo.Uses[x].(*types.Func); ok {
			name = fn.Name()
			if d := c.DeclOpt(fn); d != nil {
				body = d.Body
			}
		}
	}
	if body != nil {
		// find the single return statement returning a (negated) field of a type-asserted message
		var rets []*ast.ReturnStmt
		ast.Inspect(body, func(n ast.Node) bool {
			if _, isLit := n.(*ast.FuncLit); isLit {
				return false
			}
			if r, ok := n.(*ast.ReturnStmt); ok {
				rets = append(rets, r)
			}
			return true
		})
		if len(rets) == 1 && len(rets[0].Results) == 1 {
			r := unparen(rets[0].Results[0])
			neg := false
			if u, ok := r.(*ast.UnaryExpr); ok && u.Op == token.NOT {
				neg = true
				r = unparen(u.X)
			}
			if sel, ok := r.(*ast.SelectorExpr); ok {
				if _, isField := p.TypesInfo.Uses[sel.Sel].(*types.Var); isField {
					if neg {
						return "-" + sel.Sel.Name
					}
					return "+" + sel.Sel.Name
				}
			}
			// the predicate delegates to another same-package predicate over the message (possibly negated)
			if call, ok := r.(*ast.CallExpr); ok {
				if id, ok := unparen(call.Fun).(*ast.Ident); ok {
					if fn, ok := p.TypesInfo.Uses[id].(*types.Func); ok && fn.Pkg() == p.Types && fn.Name() != name {
						inner := c.matchLabel(p, id)
						switch {
						case strings.HasPrefix(inner, "+") && neg:
							return "-" + inner[1:]
						case strings.HasPrefix(inner, "-") && neg:
							return "+" + inner[1:]
						case strings.HasPrefix(inner, "+") || strings.HasPrefix(inner, "-"):
							return inner
						}
					}
				}
			}
		}
	}
	if name != "" {
		return "fn:" + name
	}
	return "opaque"
}

func (c *Ctx) evalTransitions(p *packages.Package, e ast.Expr, depth int) ([]SMTrans, bool) {
	if depth > 4 {
		return nil, false
	}
	e = unparen(e)
	switch x := e.(type) {
	case *ast.Ident, *ast.SelectorExpr:
		var id *ast.Ident
		if i, ok := x.(*ast.Ident); ok {
			id = i
			if id.Name == "nil" {
				return nil, true
			}
		} else {
			id = x.(*ast.SelectorExpr).Sel
		}
		v, ok := p.TypesInfo.Uses[id].(*types.Var)
		if !ok {
			return nil, false
		}
		init, ip := c.pkgVarInit(v)
		if init == nil {
			return nil, false
		}
		return c.evalTransitions(ip, init, depth+1)
	case *ast.CompositeLit:
		var out []SMTrans
		for _, el := range x.Elts {
			cl, ok := unparen(el).(*ast.CompositeLit)
			if !ok {
				return nil, false
			}
			t := SMTrans{Pos: cl.Pos(), MsgType: -1}
			for i, fe := range cl.Elts {
				var k string
				var val ast.Expr
				if kv, isKV := fe.(*ast.KeyValueExpr); isKV {
					k = kv.Key.(*ast.Ident).Name
					val = kv.Value
				} else {
					if i > 2 {
						return nil, false
					}
					k = []string{"MsgType", "NewState", "MatchFunc"}[i]
					val = fe
				}
				switch k {
				case "MsgType":
					v, ok := constInt(p.TypesInfo, val)
					if !ok {
						return nil, false
					}
					t.MsgType = v
					t.MsgName = types.ExprString(val)
				case "NewState":
					id, nm, _, ok := c.evalState(p, val, 0)
					if !ok {
						return nil, false
					}
					t.To, t.ToName = id, nm
				case "MatchFunc":
					if id, ok := unparen(val).(*ast.Ident); ok && id.Name == "nil" {
						break
					}
					t.Match = c.matchLabel(p, val)
				default:
					return nil, false
				}
			}
			if t.MsgType < 0 {
				return nil, false
			}
			out = append(out, t)
		}
		return out, true
	}
	return nil, false
}

// extractStateMachines finds every package-level protocol.StateMap composite literal.
func (c *Ctx) extractStateMachines() []*StateMachine {
	var out []*StateMachine
	for _, p := range c.W.Pkgs {
		rel := relPkg(p.PkgPath)
		if !strings.HasPrefix(rel, "protocol/") {
			continue
		}
		for _, f := range p.Syntax {
			for _, d := range f.Decls {
				gd, ok := d.(*ast.GenDecl)
				if !ok || gd.Tok != token.VAR {
					continue
				}
				for _, s := range gd.Specs {
					vs := s.(*ast.ValueSpec)
					for i, n := range vs.Names {
						obj, _ := p.TypesInfo.Defs[n].(*types.Var)
						if obj == nil || !isNamed(obj.Type(), "protocol", "StateMap") {
							continue
						}
						if len(vs.Values) != len(vs.Names) {
							c.Undecided("state map %s.%s has no readable initialiser", rel, n.Name)
						}
						init := unparen(vs.Values[i])
						cl, ok := init.(*ast.CompositeLit)
						if !ok {
							// alias/copy of another map, e.g. StateMapNtN.Copy(): recorded as note, structure is the source map's
							c.Note("state map %s.%s is derived: %s", rel, n.Name, types.ExprString(init))
							continue
						}
						sm := &StateMachine{Pkg: rel, Var: n.Name, Entries: map[int64]*SMEntry{}, Pos: n.Pos(), Obj: obj}
						for _, el := range cl.Elts {
							kv, ok := el.(*ast.KeyValueExpr)
							if !ok {
								c.Undecided("state map %s: element is not key:value", sm.Key())
							}
							id, nm, vn, ok := c.evalState(p, kv.Key, 0)
							if !ok {
								c.Undecided("state map %s: cannot evaluate state key %s", sm.Key(), types.ExprString(kv.Key))
							}
							ent := &SMEntry{StateID: id, StateName: nm, StateVar: vn, Pos: kv.Pos()}
							vcl, ok := unparen(kv.Value).(*ast.CompositeLit)
							if !ok {
								c.Undecided("state map %s[%s]: entry is not a literal", sm.Key(), nm)
							}
							for _, fe := range vcl.Elts {
								fkv, ok := fe.(*ast.KeyValueExpr)
								if !ok {
									c.Undecided("state map %s[%s]: positional entry fields", sm.Key(), nm)
								}
								switch fkv.Key.(*ast.Ident).Name {
								case "Agency":
									v, ok := constInt(p.TypesInfo, fkv.Value)
									if !ok {
										c.Undecided("state map %s[%s]: non-constant agency", sm.Key(), nm)
									}
									ent.Agency = v
								case "Transitions":
									tr, ok := c.evalTransitions(p, fkv.Value, 0)
									if !ok {
										c.Undecided("state map %s[%s]: unreadable transitions", sm.Key(), nm)
									}
									ent.Trans = tr
								case "Timeout":
									ent.TimeoutExpr = types.ExprString(fkv.Value)
									if v, ok := constInt(p.TypesInfo, fkv.Value); ok {
										ent.TimeoutNs = v
									} else {
										ent.TimeoutNs = -1
									}
								case "TimeoutFunc":
									ent.TimeoutFunc = types.ExprString(fkv.Value)
								case "PendingMessageByteLimit":
									ent.ByteLimit = types.ExprString(fkv.Value)
								default:
									c.Undecided("state map %s[%s]: unknown field %s", sm.Key(), nm, fkv.Key.(*ast.Ident).Name)
								}
							}
							if _, dup := sm.Entries[id]; dup {
								c.Bad("sm-unique-state-id", fmt.Sprintf("%s:%d", sm.Key(), id), kv.Pos(), "two states share id %d", id)
							}
							sm.Entries[id] = ent
						}
						out = append(out, sm)
					}
				}
			}
		}
	}
	sort.Slice(out, func(i, j int) bool { return out[i].Key() < out[j].Key() })
	return out
}

// messageTypeConsts returns MessageType* constants of a protocol package: name -> value
func (c *Ctx) messageTypeConsts(rel string) map[string]int64 {
	p := c.Pkg(rel)
	out := map[string]int64{}
	sc := p.Types.Scope()
	for _, n := range sc.Names() {
		if !strings.HasPrefix(n, "MessageType") {
			continue
		}
		if k, ok := sc.Lookup(n).(*types.Const); ok {
			if v, ok := constant.Int64Val(constant.ToInt(k.Val())); ok {
				out[n] = v
			}
		}
	}
	return out
}

// switchCaseConsts collects the constant case values of the switch statements on expression matching pred inside fd.
func switchCaseConsts(info *types.Info, body ast.Node, tagPred func(ast.Expr) bool) (vals map[int64]token.Pos, hasDefault bool, defaultBody []ast.Stmt, found bool) {
	vals = map[int64]token.Pos{}
	ast.Inspect(body, func(n ast.Node) bool {
		sw, ok := n.(*ast.SwitchStmt)
		if !ok || sw.Tag == nil || !tagPred(sw.Tag) {
			return true
		}
		found = true
		for _, s := range sw.Body.List {
			cc := s.(*ast.CaseClause)
			if cc.List == nil {
				hasDefault = true
				defaultBody = cc.Body
			}
			for _, e := range cc.List {
				if v, ok := constInt(info, e); ok {
					vals[v] = e.Pos()
				}
			}
		}
		return false
	})
	return
}

// tagSwitchOwner locates the function body holding the switch over the message-type variable: fd itself, or a
// same-package helper the variable is passed to unchanged (newMsgForType(msgType)). It returns the body, the
// variable the switch is keyed by there, and the helper's object (nil when the switch is in fd).
func (c *Ctx) tagSwitchOwner(p *packages.Package, fd *ast.FuncDecl, tag *types.Var, depth int) (*ast.BlockStmt, *types.Var, *types.Func) {
	has := false
	ast.Inspect(fd.Body, func(n ast.Node) bool {
		if sw, ok := n.(*ast.SwitchStmt); ok && sw.Tag != nil {
			if id, ok := unparen(sw.Tag).(*ast.Ident); ok && p.TypesInfo.Uses[id] == tag {
				has = true
			}
		}
		return !has
	})
	if has || depth <= 0 {
		return fd.Body, tag, nil
	}
	var rb *ast.BlockStmt
	var rv *types.Var
	var rf *types.Func
	ast.Inspect(fd.Body, func(n ast.Node) bool {
		call, ok := n.(*ast.CallExpr)
		if !ok || rb != nil {
			return rb == nil
		}
		var fo *types.Func
		switch f := unparen(call.Fun).(type) {
		case *ast.Ident:
			fo, _ = p.TypesInfo.Uses[f].(*types.Func)
		case *ast.SelectorExpr:
			fo, _ = p.TypesInfo.Uses[f.Sel].(*types.Func)
		}
		if fo == nil || fo.Pkg() != p.Types {
			return true
		}
		hd := c.DeclOpt(fo)
		if hd == nil || hd.Body == nil {
			return true
		}
		sig := fo.Type().(*types.Signature)
		for i, a := range call.Args {
			id, ok := unparen(a).(*ast.Ident)
			if !ok || p.TypesInfo.Uses[id] != tag || i >= sig.Params().Len() || sig.Variadic() {
				continue
			}
			b, v, f2 := c.tagSwitchOwner(p, hd, sig.Params().At(i), depth-1)
			if b != nil && (f2 != nil || b == hd.Body) {
				// accept only if a switch was really found there
				found := false
				ast.Inspect(b, func(m ast.Node) bool {
					if sw, ok := m.(*ast.SwitchStmt); ok && sw.Tag != nil {
						if id, ok := unparen(sw.Tag).(*ast.Ident); ok && p.TypesInfo.Uses[id] == v {
							found = true
						}
					}
					return !found
				})
				if found {
					rb, rv, rf = b, v, fo
					if f2 != nil {
						rf = f2
					}
				}
			}
		}
		return rb == nil
	})
	if rb != nil {
		return rb, rv, rf
	}
	return fd.Body, tag, nil
}
