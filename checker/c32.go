package main

import (
	"fmt"
	"go/types"
	"strings"

	"golang.org/x/tools/go/ssa"
)

func init() {
	register(&Prop{
		ID:        "C32",
		Technique: "mutation-aware def-use analysis of *big.Int objects (alias classes + operations that can precede the deciding comparison) on each era's collateral rule",
		Explanation: "For Alonzo, Babbage, Conway and Dijkstra the rule list must contain the collateral rules (InsufficientCollateral, NoCollateralInputs, CollateralContainsNonAda, TooManyCollateralInputs). In InsufficientCollateral the comparison that decides acceptance is located (the Cmp whose >= 0 edge dominates the success return after the redeemer check); both operands' objects are followed through every big.Int operation that can execute before that comparison: none may be a division/shift/modulo (rounding before the decision), one side must be built from the collateral balance (Amount() of the collateral UTxOs, or the total-collateral field) times 100 and the other from Fee() times CollateralPercentage, and acceptance is on balance·100 ≥ fee·pct. A division performed after the comparison (for the error message) is not counted.",
		Assumptions: []string{"math/big arithmetic", "collateral return / total_collateral handling beyond the balance side's provenance is not decided"},
		Run:         runC32,
	})
}

func runC32(c *Ctx) {
	c.W.buildSSA()
	lists := c.eraRuleLists()
	for _, era := range []string{"alonzo", "babbage", "conway", "dijkstra"} {
		er := lists[era]
		has := map[string]*ssa.Function{}
		for _, rf := range er.Rules {
			for _, want := range []string{"InsufficientCollateral", "NoCollateralInputs", "CollateralContainsNonAda", "TooManyCollateralInputs"} {
				if strings.HasSuffix(rf.Name(), want) {
					has[want] = c.resolveDelegation(c.SSAOf(rf))
				}
			}
		}
		for _, want := range []string{"InsufficientCollateral", "NoCollateralInputs", "CollateralContainsNonAda", "TooManyCollateralInputs"} {
			c.Check(has[want] != nil, "collateral-rule-listed", "ledger/"+era+":"+want, er.Pos, "rule is part of the era's list", "the "+era+" rule list has no "+want+" rule")
		}
		// "runs scripts" guards: a redeemer container that has its own Len() (because it keeps more than one
		// representation) must be measured through it, never by len() of one of its fields
		for _, want := range []string{"InsufficientCollateral", "NoCollateralInputs", "CollateralContainsNonAda", "TooManyCollateralInputs"} {
			if has[want] == nil {
				continue
			}
			nGuards := 0
			for f := range c.staticClosure(has[want], 3) {
				if f.Pkg == nil || !strings.Contains(f.Pkg.Pkg.Path(), "/ledger/") {
					continue
				}
				for _, g := range withAnon(f) {
					for _, ci := range allCalls(g) {
						cc := ci.Common()
						if b, ok := cc.Value.(*ssa.Builtin); ok && b.Name() == "len" {
							owner, field := fieldOwner(cc.Args[0])
							if owner == nil || !strings.HasSuffix(owner.Obj().Name(), "Redeemers") {
								continue
							}
							nGuards++
							hasLen := types.NewMethodSet(types.NewPointer(owner)).Lookup(owner.Obj().Pkg(), "Len") != nil
							inOwn := recvTypeName(g) == owner.Obj().Name()
							c.Check(!hasLen || inOwn, "redeemer-count-complete", "ledger/"+era+":"+ssaFuncKey(g)+":len("+owner.Obj().Name()+"."+field+")", ci.Pos(),
								"the redeemer container has a single representation, so len of its field counts every redeemer",
								"the rule measures len("+owner.Obj().Name()+"."+field+") although the type keeps several representations behind Len(): redeemers held in the other representation are not seen, so a script-running transaction skips the collateral rule")
							continue
						}
						if cc.IsInvoke() && (cc.Method.Name() == "Iter" || cc.Method.Name() == "Len") && strings.HasSuffix(typeStr(cc.Value.Type()), "TransactionWitnessRedeemers") {
							nGuards++
							c.Ok("redeemer-count-complete", "ledger/"+era+":"+ssaFuncKey(g)+":TransactionWitnessRedeemers."+cc.Method.Name()+"()", ci.Pos(), "the redeemers are enumerated through the container's interface")
							continue
						}
						if cal := cc.StaticCallee(); cal != nil && cal.Name() == "Len" && strings.HasSuffix(recvTypeName(cal), "Redeemers") {
							nGuards++
							c.Ok("redeemer-count-complete", "ledger/"+era+":"+ssaFuncKey(g)+":"+recvTypeName(cal)+".Len()", ci.Pos(), "the redeemer container is measured through its own Len()")
						}
					}
				}
			}
			if want != "TooManyCollateralInputs" {
				c.Check(nGuards > 0, "redeemer-guard-present", "ledger/"+era+":"+want, has[want].Pos(), "the rule looks at the redeemer count to decide whether scripts run", "the rule never looks at the redeemers: it cannot tell a script-running transaction from a plain one")
			}
		}
		fn := has["InsufficientCollateral"]
		if fn == nil {
			continue
		}
		key := "ledger/" + era + ":" + ssaFuncKey(fn)
		// deciding comparison: Cmp call whose result is compared with 0 and whose pass edge dominates a success return
		objs := newBigObjs(fn)
		var decided bool
		for _, b := range fn.Blocks {
			iff, ok := b.Instrs[len(b.Instrs)-1].(*ssa.If)
			if !ok {
				continue
			}
			bo, ok := iff.Cond.(*ssa.BinOp)
			if !ok {
				continue
			}
			call, ok := bo.X.(*ssa.Call)
			if !ok || bigMethod(&call.Call) != "Cmp" {
				continue
			}
			k, ok := bo.Y.(*ssa.Const)
			if !ok || k.Int64() != 0 {
				continue
			}
			// which edge returns success directly?
			passIdx := -1
			for i, s := range b.Succs {
				if r, ok := s.Instrs[len(s.Instrs)-1].(*ssa.Return); ok && len(s.Instrs) <= 2 {
					if idx := errorResultIndex(fn); idx >= 0 {
						rv := r.Results[idx]
						// a result variable: what it holds when the return is entered from this branch
						if ph, isPhi := rv.(*ssa.Phi); isPhi && ph.Block() == s {
							for pi, p := range s.Preds {
								if p == b && pi < len(ph.Edges) {
									rv = ph.Edges[pi]
								}
							}
						}
						if isNilConst(rv) {
							passIdx = i
						}
					}
				}
			}
			if passIdx < 0 {
				continue
			}
			decided = true
			op := bo.Op.String()
			if passIdx == 1 {
				op = negOp(bo.Op).String()
			}
			A, B := call.Call.Args[0], call.Call.Args[1]
			la, da := objs.leavesBefore(A, call)
			lb, db := objs.leavesBefore(B, call)
			c.Check(da == "" && db == "", "collateral-no-division", key, call.Pos(), "no division/shift/modulo can execute on either operand before the deciding comparison",
				fmt.Sprintf("the collateral comparison is made on a value that was divided first (%s%s): rounding down lets a balance that is short by less than one unit pass", da, db))
			sa, sb := strings.Join(sortedKeys(la), " "), strings.Join(sortedKeys(lb), " ")
			isBal := func(s string) bool {
				return (strings.Contains(s, ".Amount(") || strings.Contains(s, "TotalCollateral") || strings.Contains(s, "Collateral")) && strings.Contains(s, "100")
			}
			isFee := func(s string) bool { return strings.Contains(s, ".Fee(") && strings.Contains(s, "CollateralPercentage") }
			var okShape bool
			switch {
			case isBal(sa) && isFee(sb):
				okShape = op == ">="
			case isFee(sa) && isBal(sb):
				okShape = op == "<="
			}
			c.Check(okShape, "collateral-formula", key, call.Pos(), "accepts iff balance·100 ≥ fee·collateralPercentage", fmt.Sprintf("deciding comparison is {%s} %s {%s}: not balance·100 ≥ fee·collateralPercentage", shortArg(sa), op, shortArg(sb)))
		}
		c.Check(decided, "collateral-decision", key, fn.Pos(), "deciding comparison located", "no big.Int comparison decides acceptance in the collateral rule")
	}
}

// fieldOwner returns the named struct type and field name when v is (a load of) a field selection.
func fieldOwner(v ssa.Value) (*types.Named, string) {
	if u, ok := v.(*ssa.UnOp); ok {
		v = u.X
	}
	var base types.Type
	var idx int
	switch x := v.(type) {
	case *ssa.FieldAddr:
		base, idx = x.X.Type(), x.Field
	case *ssa.Field:
		base, idx = x.X.Type(), x.Field
	default:
		return nil, ""
	}
	if p, ok := base.Underlying().(*types.Pointer); ok {
		base = p.Elem()
	}
	n, ok := base.(*types.Named)
	if !ok {
		return nil, ""
	}
	st, ok := n.Underlying().(*types.Struct)
	if !ok {
		return nil, ""
	}
	return n, st.Field(idx).Name()
}
