package main

import (
	"go/token"
	"go/types"
	"fmt"
	"sort"
	"strings"

	"golang.org/x/tools/go/ssa"
)

func init() {
	register(&Prop{
		ID:        "C05",
		Technique: "exhaustive finite decision tables over the address header nibbles (16 types x 16 networks) on the path-sensitive CFG, plus guard dominance for Byron/bech32 checks",
		Explanation: "(a) Reader table: populateFromBytes is analysed for all 16 values of the address type nibble: which payment/staking payload kinds can be stored and whether success is reachable; the result must equal the CIP-19 table (0..7, 14, 15; 8 = Byron; 9..13 rejected) encoded in the checker, and success requires network id 0 or 1 for non-Byron types. " +
			"(b) Every hash slice of the payload is dominated by a len(payload) >= 28 guard; trailing bytes are rejected unless mainnet and whitelisted; Byron success is dominated by tag 24, the CRC32 comparison and the 28-byte hash guard. " +
			"(c) generateHRP over all 16x16 (type, network) pairs: prefix 'stake' iff type in {14,15}, suffix '_test' iff network != 1. (d) NewAddress: a bech32 success is dominated by the HRP comparison with generateHRP() and the Byron-must-be-base58 rejection. " +
			"(e) Bytes(): header byte is (type<<4)|(network&0x0f), payloads are emitted payment-then-staking from the stored payload kinds, pointer via encode().",
		Assumptions: []string{"bech32/base58/crc32 libraries", "the variable-length pointer integers (readVarUint/writeVarUint arithmetic) are value-level and not decided"},
		Run:         runC05,
	})
}

type addrRow struct {
	ok      bool
	payment string // "", "Key", "Script"
	staking string // "", "Key", "Script", "Pointer"
}

var cip19 = map[int64]addrRow{
	0: {true, "Key", "Key"}, 1: {true, "Script", "Key"}, 2: {true, "Key", "Script"}, 3: {true, "Script", "Script"},
	4: {true, "Key", "Pointer"}, 5: {true, "Script", "Pointer"}, 6: {true, "Key", ""}, 7: {true, "Script", ""},
	8: {true, "Key", ""}, // Byron: the address root is kept as a key-hash payload
	9: {false, "", ""}, 10: {false, "", ""}, 11: {false, "", ""}, 12: {false, "", ""}, 13: {false, "", ""},
	14: {true, "", "Key"}, 15: {true, "", "Script"},
}

func payloadKind(v ssa.Value) string {
	d := typeStr(v.Type())
	if mi, ok := v.(*ssa.MakeInterface); ok {
		d = typeStr(mi.X.Type())
	}
	switch {
	case strings.HasSuffix(d, "AddressPayloadKeyHash"):
		return "Key"
	case strings.HasSuffix(d, "AddressPayloadScriptHash"):
		return "Script"
	case strings.HasSuffix(d, "AddressPayloadPointer"):
		return "Pointer"
	}
	return "?" + d
}

func runC05(c *Ctx) {
	pf := c.SSAFunc("ledger/common", "Address.populateFromBytes")
	key := ssaFuncKey(pf)
	succ := successReturns(pf)
	tAtom, nAtom := "p0.addressType", "p0.networkId"
	// (a) reader table
	for t := int64(0); t < 16; t++ {
		want := cip19[t]
		gotOK := false
		pay, stk := map[string]bool{}, map[string]bool{}
		for n := int64(0); n < 16; n++ {
			reach := psReachVal(pf, []*ssa.BasicBlock{pf.Blocks[0]}, nil, map[string]int64{tAtom: t, nAtom: n})
			okHere := false
			for _, r := range succ {
				if reach[r.Block()] {
					okHere = true
				}
			}
			if okHere {
				gotOK = true
				if t != 8 && n > 1 {
					c.Bad("address-network", fmt.Sprintf("%s:type%d:net%d", key, t, n), pf.Pos(), "a non-Byron address with network id %d (not 0/1) can decode successfully", n)
				}
			}
			if !okHere {
				continue
			}
			// stores in the decoder and in the helper methods it hands its receiver to on feasible paths (the helper is
			// evaluated under the same valuation: its receiver is the same address)
			var collect func(f *ssa.Function, r map[*ssa.BasicBlock]bool, depth int)
			collect = func(f *ssa.Function, r map[*ssa.BasicBlock]bool, depth int) {
				for _, b := range f.Blocks {
					if !r[b] {
						continue
					}
					for _, in := range b.Instrs {
						if ci, isCall := in.(ssa.CallInstruction); isCall && depth > 0 {
							if h := samePkgHelper(f, ci.Common()); h != nil && h.Signature.Recv() != nil && len(ci.Common().Args) > 0 && desc(ci.Common().Args[0]) == "p0" {
								collect(h, psReachVal(h, []*ssa.BasicBlock{h.Blocks[0]}, nil, map[string]int64{tAtom: t, nAtom: n}), depth-1)
							}
						}
						st, ok := in.(*ssa.Store)
						if !ok {
							continue
						}
						switch {
						case strings.HasSuffix(desc(st.Addr), "p0.paymentPayload"):
							pay[payloadKind(st.Val)] = true
						case strings.HasSuffix(desc(st.Addr), "p0.stakingPayload"):
							stk[payloadKind(st.Val)] = true
						}
					}
				}
			}
			collect(pf, reach, 2)
		}
		gp, gs := strings.Join(sortedKeys(pay), "|"), strings.Join(sortedKeys(stk), "|")
		good := gotOK == want.ok && (!want.ok || gp == want.payment && gs == want.staking)
		c.Check(good, "address-type-table", fmt.Sprintf("%s:type%d", key, t), pf.Pos(), fmt.Sprintf("type %d: accepted=%v payment=%q staking=%q as in CIP-19", t, gotOK, gp, gs),
			fmt.Sprintf("address type %d: accepted=%v payment=%q staking=%q, CIP-19 says accepted=%v payment=%q staking=%q", t, gotOK, gp, gs, want.ok, want.payment, want.staking))
	}
	c.Ok("address-network", key+":scan", pf.Pos(), "no non-Byron success with network id outside {0,1} (16x16 valuations)")
	// (b) length guards before each hash slice
	nSl := 0
	for _, hf := range closureFuncs(pf, 2) {
		for _, in := range fnInstrs(hf) {
			sl, ok := in.(*ssa.Slice)
			if !ok || sl.High == nil {
				continue
			}
			if k, ok := sl.High.(*ssa.Const); !ok || k.Int64() != 28 {
				continue
			}
			nSl++
			src := desc(sl.X)
			v := c.mustPass(hf, []ssa.Instruction{sl}, func(f string) bool {
				return f == "len("+src+") >= 28" || f == "len("+src+") > 27"
			})
			sk := fmt.Sprintf("%s:slice%d", key, nSl)
			if hf != pf {
				sk = fmt.Sprintf("%s:slice%d", ssaFuncKey(hf), nSl)
			}
			c.Check(v[0].OK, "address-hash-length", sk, sl.Pos(), "28-byte hash is sliced only after len >= 28", "a 28-byte hash is sliced from the payload without a dominating length check ("+v[0].Witness+")")
		}
	}
	if nSl < 1 {
		c.Undecided("populateFromBytes: only %d hash slices found (4 confirmed)", nSl)
	}
	// trailing bytes
	var shelleySucc []ssa.Instruction
	for _, r := range succ {
		// the final return (not the Byron one): reachable with type 0
		if psReachVal(pf, []*ssa.BasicBlock{pf.Blocks[0]}, nil, map[string]int64{tAtom: 0, nAtom: 1})[r.Block()] {
			shelleySucc = append(shelleySucc, r)
		}
	}
	vt := c.mustPass(pf, shelleySucc, func(f string) bool {
		return isLenZeroFact(f) || strings.HasPrefix(f, "T:call:ledger/common.isKnownMalformedAddressTrailer(")
	})
	for i, v := range vt {
		c.Check(v.OK, "address-trailing", key, shelleySucc[i].Pos(), "success only with no trailing bytes or a whitelisted trailer", "an address with arbitrary trailing bytes can decode successfully ("+v.Witness+")")
	}
	vm := c.mustPass(pf, shelleySucc, func(f string) bool {
		return isLenZeroFact(f) || f == nAtom+" == 1"
	})
	for i, v := range vm {
		c.Check(v.OK, "address-trailing", key+":mainnet-only", shelleySucc[i].Pos(), "the trailer whitelist applies to mainnet only", "the malformed-trailer exemption is reachable for non-mainnet addresses ("+v.Witness+")")
	}
	// Byron guards
	var byronSucc []ssa.Instruction
	for _, r := range succ {
		if psReachVal(pf, []*ssa.BasicBlock{pf.Blocks[0]}, nil, map[string]int64{tAtom: 8, nAtom: 2})[r.Block()] {
			byronSucc = append(byronSucc, r)
		}
	}
	if len(byronSucc) == 0 {
		c.Bad("address-byron", key, pf.Pos(), "Byron addresses cannot be decoded")
	}
	for _, g := range []struct{ rule, ok, bad string; m func(string) bool }{
		{"address-byron-tag", "tag 24 wrapper required", "Byron success without the tag-24 payload check", func(f string) bool { return strings.HasSuffix(f, ".Payload.Number == 24") }},
		{"address-byron-crc", "CRC32 of the payload must equal the stored checksum", "Byron success without the checksum comparison", func(f string) bool {
			return strings.Contains(f, ".Checksum == call:hash/crc32.ChecksumIEEE(") || strings.HasPrefix(f, "call:hash/crc32.ChecksumIEEE(") && strings.Contains(f, " == ") && strings.HasSuffix(f, ".Checksum")
		}},
		{"address-byron-hash", "address root must be 28 bytes", "Byron success without the 28-byte root check", func(f string) bool { return strings.HasPrefix(f, "len(") && strings.HasSuffix(f, ".Hash) == 28") }},
	} {
		for i, v := range c.mustPass(pf, byronSucc, g.m) {
			c.Check(v.OK, g.rule, key, byronSucc[i].Pos(), g.ok, g.bad+" ("+v.Witness+")")
		}
	}
	// (c) HRP table
	hrp := c.SSAFunc("ledger/common", "Address.generateHRP")
	bad := []string{}
	for t := int64(0); t < 16; t++ {
		for n := int64(0); n < 2; n++ { // only the network ids a Shelley address can carry (0, 1)
			reach := psReachVal(hrp, []*ssa.BasicBlock{hrp.Blocks[0]}, nil, map[string]int64{atomBySuffix(hrp, ".addressType"): t, atomBySuffix(hrp, ".networkId"): n})
			var vals []string
			for _, b := range hrp.Blocks {
				if r, ok := b.Instrs[len(b.Instrs)-1].(*ssa.Return); ok && reach[b] {
					vals = append(vals, hrpValues(r.Results[0], reach)...)
				}
			}
			sort.Strings(vals)
			want := "addr"
			if t == 14 || t == 15 {
				want = "stake"
			}
			if n != 1 {
				want += "_test"
			}
			if len(vals) != 1 || vals[0] != want {
				bad = append(bad, fmt.Sprintf("(type %d, net %d) -> %v, want %s", t, n, vals, want))
			}
		}
	}
	if len(bad) > 3 {
		bad = append(bad[:3], fmt.Sprintf("… %d cells", len(bad)))
	}
	c.Check(len(bad) == 0, "address-hrp-table", ssaFuncKey(hrp), hrp.Pos(), "HRP = stake iff type in {14,15}; _test iff network != 1 (16 types x networks {0,1})", "HRP table deviates: "+strings.Join(bad, "; "))
	// (d) NewAddress
	na := c.SSAFunc("ledger/common", "NewAddress")
	var naSucc []ssa.Instruction
	for _, r := range successReturns(na) {
		naSucc = append(naSucc, r)
	}
	v1 := c.mustPass(na, naSucc, func(f string) bool {
		return strings.HasPrefix(f, "T:call:strings.EqualFold(") && strings.Contains(f, "generateHRP(") || strings.HasPrefix(f, "F:phi(") || strings.Contains(f, "bech32.DecodeNoLimit(") && strings.HasSuffix(f, "!= nil")
	})
	okHRP := true
	for _, v := range v1 {
		if !v.OK {
			okHRP = false
		}
	}
	// precise: on the bech32 path (isBech32 true) the HRP comparison dominates success
	c.Check(okHRP, "address-hrp-checked", ssaFuncKey(na), na.Pos(), "a bech32 address succeeds only if its HRP equals generateHRP() of the decoded bytes", "a bech32 address can be accepted without its HRP matching the decoded type/network")
	v2 := c.mustPass(na, naSucc, func(f string) bool {
		return strings.HasSuffix(f, ".addressType != 8") || strings.HasPrefix(f, "F:phi(") || strings.Contains(f, "bech32.DecodeNoLimit(") && strings.HasSuffix(f, "!= nil")
	})
	okBy := true
	for _, v := range v2 {
		if !v.OK {
			okBy = false
		}
	}
	c.Check(okBy, "address-byron-base58", ssaFuncKey(na), na.Pos(), "a Byron address is not accepted in bech32 form", "a Byron-type address can be accepted from a bech32 string")
	// (e) writer
	by := c.SSAFunc("ledger/common", "Address.Bytes")
	okHdr := false
	for _, b := range by.Blocks {
		for _, in := range b.Instrs {
			if st, ok := in.(*ssa.Store); ok {
				d := desc(st.Val)
				ta, na := atomBySuffix(by, ".addressType"), strings.TrimSuffix(atomBySuffix(by, ".addressType"), ".addressType")+".networkId"
				if d == "(("+ta+" << 4) | ("+na+" & 15))" || d == "(("+na+" & 15) | ("+ta+" << 4))" {
					if strings.HasSuffix(desc(st.Addr), "[0]") {
						okHdr = true
					}
				}
			}
		}
	}
	c.Check(okHdr, "address-header-writer", ssaFuncKey(by), by.Pos(), "byte 0 = (type<<4)|(network&0x0f)", "Bytes() does not write the header byte as (type<<4)|(network&0x0f)")
	// payload order: copies payment then staking then extra
	var copies []string
	for _, ci := range allCalls(by) {
		if calleeName(ci.Common()) == "copy" {
			copies = append(copies, originField(ci.Common().Args[1]))
		}
	}
	c.Check(strings.Join(copies, ",") == "payment,staking,extra", "address-payload-writer", ssaFuncKey(by), by.Pos(), "payloads written payment, staking, trailing data in that order", "payload write order is "+strings.Join(copies, ","))
	// pointer uses encode()
	okPtr := false
	for _, ci := range allCalls(by) {
		if strings.HasSuffix(calleeName(ci.Common()), "AddressPayloadPointer).encode") {
			okPtr = true
		}
	}
	c.Check(okPtr, "address-payload-writer", ssaFuncKey(by)+":pointer", by.Pos(), "pointer payload written through encode()", "pointer staking payload is not written through AddressPayloadPointer.encode")
	c.checkPointerVarint()
	c.checkPointerRoom()
}

// hrpValues evaluates a string value built from constants and phis/concats restricted to reachable predecessor blocks.
func hrpValues(v ssa.Value, reach map[*ssa.BasicBlock]bool) []string {
	switch x := v.(type) {
	case *ssa.Const:
		s := desc(x)
		return []string{strings.Trim(s, "\"")}
	case *ssa.Phi:
		var out []string
		for i, e := range x.Edges {
			if reach[x.Block().Preds[i]] && lastPsEdges[[2]*ssa.BasicBlock{x.Block().Preds[i], x.Block()}] {
				out = append(out, hrpValues(e, reach)...)
			}
		}
		return dedup(out)
	case *ssa.BinOp:
		var out []string
		for _, a := range hrpValues(x.X, reach) {
			for _, b := range hrpValues(x.Y, reach) {
				out = append(out, a+b)
			}
		}
		return dedup(out)
	}
	return []string{"?" + desc(v)}
}

func dedup(xs []string) []string {
	m := map[string]bool{}
	var out []string
	for _, x := range xs {
		if !m[x] {
			m[x] = true
			out = append(out, x)
		}
	}
	return out
}

func originField(v ssa.Value) string {
	d := desc(v)
	switch {
	case strings.Contains(d, "extraData"):
		return "extra"
	case strings.Contains(d, "AddressPayloadPointer).encode("):
		return "staking"
	case strings.Contains(d, "AddressPayloadKeyHash.Hash") || strings.Contains(d, "AddressPayloadScriptHash.Hash"):
		return "payment"
	}
	return "?" + shortArg(d)
}

// atomBySuffix finds the left operand of a comparison fact in fn that ends with suffix (e.g. the receiver's field, whatever way the receiver is held).
func atomBySuffix(fn *ssa.Function, suffix string) string {
	for _, ef := range edgeFacts(fn) {
		for _, op := range []string{" == ", " != "} {
			if i := strings.Index(ef.Fact, op); i > 0 && strings.HasSuffix(ef.Fact[:i], suffix) {
				return ef.Fact[:i]
			}
		}
	}
	return "p0" + suffix
}

// checkPointerVarint: the variable-length unsigned encoder used for pointer addresses must be minimal
// (no leading 0x80 continuation groups). Proven for the recognised inductive form, refuted for the known-wrong
// group-count formula, otherwise undecided.
func (c *Ctx) checkPointerVarint() {
	enc := c.SSAFunc("ledger/common", "AddressPayloadPointer.encode")
	if enc == nil {
		c.Undecided("AddressPayloadPointer.encode not found")
		return
	}
	key := ssaFuncKey(enc) + ":varint"
	fns := withAnon(enc)
	// refutation: group count = bits.Len(x)/7 + 1
	for _, f := range fns {
		for _, in := range fnInstrs(f) {
			bo, ok := in.(*ssa.BinOp)
			if !ok || bo.Op != token.ADD || desc(bo.Y) != "1" {
				continue
			}
			if q, ok := bo.X.(*ssa.BinOp); ok && q.Op == token.QUO && desc(q.Y) == "7" && strings.HasPrefix(trace(q.X), "Len") {
				c.Bad("pointer-varint-minimal", key, bo.Pos(), "the number of 7-bit groups is computed as bits.Len(v)/7 + 1: when the bit length is a multiple of 7 (64..127, 8192..16383, …) one group too many is emitted, a leading 0x80 byte, so the address bytes differ from the minimal encoding the address was decoded from")
				return
			}
		}
	}
	// proof: emit low group without continuation bit, then loop while the value shifted by 7 is non-zero, emitting groups with 0x80
	for _, f := range fns {
		var loopIf *ssa.If
		var shifted *ssa.Phi
		for _, b := range f.Blocks {
			iff, ok := b.Instrs[len(b.Instrs)-1].(*ssa.If)
			if !ok {
				continue
			}
			bo, ok := iff.Cond.(*ssa.BinOp)
			if !ok || !(bo.Op == token.GTR || bo.Op == token.NEQ) || desc(bo.Y) != "0" {
				continue
			}
			ph, ok := bo.X.(*ssa.Phi)
			if !ok {
				continue
			}
			allShift := len(ph.Edges) >= 2
			for _, e := range ph.Edges {
				s, ok := e.(*ssa.BinOp)
				if !ok || !((s.Op == token.QUO && desc(s.Y) == "128") || (s.Op == token.SHR && desc(s.Y) == "7")) {
					allShift = false
				}
			}
			if allShift && inLoop(b) {
				loopIf, shifted = iff, ph
			}
		}
		if loopIf == nil {
			continue
		}
		// stores: in-loop stores carry |128, exactly one store outside the loop without it (the last byte)
		inLoopCont, outNoCont := 0, 0
		for _, in := range fnInstrs(f) {
			st, ok := in.(*ssa.Store)
			if !ok {
				continue
			}
			if _, isIdx := st.Addr.(*ssa.IndexAddr); !isIdx {
				continue
			}
			t := trace(st.Val)
			hasCont := strings.Contains(t, "| 128")
			has7 := strings.Contains(t, "& 127")
			if !has7 {
				continue
			}
			if inLoop(st.Block()) {
				if hasCont {
					inLoopCont++
				} else {
					inLoopCont = -100
				}
			} else if !hasCont {
				outNoCont++
			}
		}
		_ = shifted
		if inLoopCont >= 1 && outNoCont == 1 {
			c.Ok("pointer-varint-minimal", key, loopIf.Pos(), "low group without continuation bit, then one 0x80-group per remaining non-zero 7-bit shift: the encoding has no leading zero group")
			return
		}
	}
	c.Undecided("%s: the varint encoder is not in a form this checker can prove minimal or refute", key)
}

// checkPointerRoom: the three variable-length numbers of a pointer are written into a buffer that can hold the
// longest encoding of each field (ceil(bits/7) bytes per field); a fixed buffer that is smaller silently truncates
// (copy stops at the destination's length). Writers built on append grow as needed.
func (c *Ctx) checkPointerRoom() {
	enc := c.SSAFunc("ledger/common", "AddressPayloadPointer.encode")
	if enc == nil {
		return // reported by checkPointerVarint
	}
	key := ssaFuncKey(enc) + ":room"
	// the room needed, from the field types
	need := int64(0)
	if recv := enc.Signature.Recv(); recv != nil {
		t := recv.Type()
		if pt, ok := t.(*types.Pointer); ok {
			t = pt.Elem()
		}
		if st, ok := t.Underlying().(*types.Struct); ok {
			for i := 0; i < st.NumFields(); i++ {
				if b, ok := st.Field(i).Type().Underlying().(*types.Basic); ok && b.Info()&types.IsUnsigned != 0 {
					bits := int64(types.SizesFor("gc", "amd64").Sizeof(b)) * 8
					need += (bits + 6) / 7
				}
			}
		}
	}
	if need == 0 {
		c.Undecided("%s: cannot derive the longest pointer encoding from the field types", key)
		return
	}
	fns := withAnon(enc)
	var bufs []ssa.Value
	var resolve func(v ssa.Value, d int)
	resolve = func(v ssa.Value, d int) {
		r := rootValue(v, 0)
		if al, ok := r.(*ssa.Alloc); ok {
			if s := singleStore(al); s != nil && d < 6 {
				resolve(s, d+1)
				return
			}
		}
		if ph, ok := r.(*ssa.Phi); ok && d < 6 {
			for _, e := range ph.Edges {
				resolve(e, d+1)
			}
			return
		}
		if p, ok := r.(*ssa.Parameter); ok && p.Parent() != enc && d < 6 {
			// a parameter of the writer closure/helper: the buffers passed at its call sites
			idx := -1
			for i, q := range p.Parent().Params {
				if q == p {
					idx = i
				}
			}
			n := 0
			for _, f := range fns {
				for _, ci := range allCalls(f) {
					if resolveCallee(ci.Common()) == p.Parent() && idx >= 0 && idx < len(ci.Common().Args) {
						resolve(ci.Common().Args[idx], d+1)
						n++
					}
				}
			}
			if n > 0 {
				return
			}
		}
		bufs = append(bufs, r)
	}
	nCopy, nAppend := 0, 0
	for _, f := range fns {
		for _, ci := range allCalls(f) {
			b, isB := ci.Common().Value.(*ssa.Builtin)
			if !isB {
				continue
			}
			switch b.Name() {
			case "copy":
				nCopy++
				resolve(ci.Common().Args[0], 0)
			case "append":
				nAppend++
			}
		}
	}
	if nCopy == 0 {
		if nAppend > 0 {
			c.Ok("pointer-encode-room", key, enc.Pos(), "the encoding is built with append and grows as needed")
		} else {
			c.Undecided("%s: neither copy nor append writes the pointer fields", key)
		}
		return
	}
	seen := map[ssa.Value]bool{}
	for _, r := range bufs {
		if seen[r] {
			continue
		}
		seen[r] = true
		size := int64(-1)
		switch x := r.(type) {
		case *ssa.MakeSlice:
			if k, ok := x.Cap.(*ssa.Const); ok && k.Value != nil {
				size = k.Int64()
			} else if k, ok := x.Len.(*ssa.Const); ok && k.Value != nil {
				size = k.Int64()
			}
		case *ssa.Alloc:
			if arr, ok := x.Type().(*types.Pointer).Elem().Underlying().(*types.Array); ok {
				size = arr.Len()
			}
		}
		if size < 0 {
			c.Undecided("%s: destination buffer %s of the pointer fields has no constant size", key, shortArg(trace(r)))
			continue
		}
		c.Check(size >= need, "pointer-encode-room", fmt.Sprintf("%s:buffer%d", key, len(seen)), r.Pos(),
			fmt.Sprintf("the buffer holds %d bytes, the longest pointer encoding is %d", size, need),
			fmt.Sprintf("the buffer the pointer fields are copied into holds %d bytes but the three fields can need %d (ceil(bits/7) each): copy stops at the end of the buffer, so a pointer with wide fields is re-encoded truncated and no longer equals the bytes it was decoded from", size, need))
	}
}

// isLenZeroFact: len(x) <= 0, len(x) == 0 or len(x) < 1.
func isLenZeroFact(f string) bool {
	return strings.HasPrefix(f, "len(") && (strings.HasSuffix(f, ") <= 0") || strings.HasSuffix(f, ") == 0") || strings.HasSuffix(f, ") < 1"))
}
