package main

import (
	"fmt"
	"strings"

	"golang.org/x/tools/go/ssa"
)

func init() {
	register(&Prop{
		ID:        "C10",
		Technique: "SSA value-identity (same-length prefix/suffix) + channel-ownership rules on the segmentation and reassembly code",
		Explanation: "Structural necessary conditions for byte-exact hand-off: (a) sendLoop cuts segments only with muxer.NewSegment over buffer.Bytes()[:L] and rebuilds the buffer from Bytes()[L:] with the *same* SSA value L = min(Len(), SegmentMaxPayloadLength) over the same buffer value, leaves the loop only when nothing remains, and hands exactly the NewSegment result to the muxer; " +
			"(b) readLoop appends each received segment's Payload to one read buffer, decodes from that buffer's bytes, hands Bytes()[:n] (n = decoder's consumed count) to the message constructor and keeps Bytes()[n:] iff n < Len(), else resets; " +
			"(c) every hop channel has a single producer and consumer (sendQueueChan, muxerSendChan, muxerRecvChan, recvQueueChan) and no goroutine is spawned per message; (d) every NewMsgFromCbor stores a copy (SetCbor, never SetCborReference) because the read buffer is reused, and DecodeStoreCbor.SetCbor really copies.",
		Assumptions: []string{"C12 (each dequeued message's bytes are written once, in dequeue order)", "C09 (muxer moves payloads unmodified)", "the arithmetic of the split loop is not executed: prefix/suffix identity is by SSA value"},
		Run:         runC10,
	})
}

func runC10(c *Ctx) {
	sl := c.SSAFunc("protocol", "Protocol.sendLoop")
	key := "protocol.(*Protocol).sendLoop"
	maxSeg := c.ConstInt("muxer", "SegmentMaxPayloadLength")
	var nsCall ssa.CallInstruction
	top := sl
	for _, f := range closureFuncs(top, 2) {
		for _, ci := range allCalls(f) {
			if calleeName(ci.Common()) == "muxer.NewSegment" {
				if nsCall != nil {
					c.Bad("segment-cut", key+":multiple", ci.Pos(), "more than one NewSegment call in sendLoop")
				}
				nsCall = ci
			}
		}
	}
	if nsCall == nil {
		c.Undecided("sendLoop: no muxer.NewSegment call")
	}
	// the segmentation loop may live in a helper of sendLoop: the rules below are about the function holding it
	sl = nsCall.Parent()
	var bufArgs []ssa.Value // what sendLoop passes for the helper's buffer parameter
	// the other way to cut: payload = buffer.Next(max). The buffer advances by itself; what is left to get right is the
	// loop: another segment exactly while bytes remain (an exit on "the last piece was short" sends an empty segment
	// after a batch that is an exact multiple of the segment size). The remaining rules were not derived for this form.
	if nx, isCall := nsCall.Common().Args[1].(*ssa.Call); isCall && calleeName(&nx.Call) == "bytes.(*Buffer).Next" {
		nbuf := nx.Call.Args[0]
		var head *ssa.BasicBlock // innermost loop around the cut
		for h := nsCall.Block(); h != nil && head == nil; h = h.Idom() {
			for _, pb := range h.Preds {
				if h.Dominates(pb) && (pb == nsCall.Block() || reachesBlock(nsCall.Block(), pb)) {
					head = h
				}
			}
		}
		okExit, wrongExit := false, false
		exitPos := nsCall.Pos()
		if head != nil {
			// the body of the segment loop: blocks the head dominates that get back to it without going round an enclosing loop
			avoid := map[*ssa.BasicBlock]bool{}
			for d := head.Idom(); d != nil; d = d.Idom() {
				if reachesBlock(head, d) && reachesBlock(d, head) {
					avoid[d] = true
					break
				}
			}
			inBody := func(x *ssa.BasicBlock) bool {
				return x == head || (head.Dominates(x) && reachAvoidBlocks(x, avoid)[head])
			}
			for _, ef := range edgeFacts(sl) {
				if !inBody(ef.From) {
					continue
				}
				tgt := ef.From.Succs[ef.Succ]
				leaves := !inBody(tgt)

				lenD := "call:bytes.(*Buffer).Len(" + desc(nbuf) + ")"
				switch {
				case leaves && (ef.Fact == lenD+" == 0" || ef.Fact == lenD+" <= 0" || ef.Fact == lenD+" < 1"):
					okExit = true
				case leaves && !strings.HasPrefix(ef.Fact, lenD) && nsCall.Block().Dominates(ef.From) && strings.Contains(ef.Fact, "len("):
					if p := ef.From.Instrs[len(ef.From.Instrs)-1].Pos(); p.IsValid() {
						exitPos = p
					}
					wrongExit = true
				}
			}
		}
		if !okExit && wrongExit {
			c.Bad("segment-loop-exit", key, exitPos, "the segment loop ends on the length of the piece just cut instead of on 'no bytes remain in the buffer': a batch that is an exact multiple of the segment size is followed by an empty segment, which the peer's muxer rejects")
			return
		}
		c.Undecided("sendLoop: segments are cut with bytes.Buffer.Next; the cut/remainder rules were derived for the Bytes()[:L] form and not for this one")
	}
	prefix, ok := nsCall.Common().Args[1].(*ssa.Slice)
	if !ok || prefix.Low != nil || prefix.High == nil {
		c.Bad("segment-cut", key+":prefix", nsCall.Pos(), "segment payload is %s, not a prefix buffer.Bytes()[:L]", desc(nsCall.Common().Args[1]))
		return
	}
	L := prefix.High
	bufOf := func(v ssa.Value) ssa.Value { // v = call bytes.(*Buffer).Bytes(buf)
		call, ok := v.(*ssa.Call)
		if !ok || calleeName(&call.Call) != "bytes.(*Buffer).Bytes" {
			return nil
		}
		return call.Call.Args[0]
	}
	buf := bufOf(prefix.X)
	if sl != top {
		cands := []ssa.Value{buf}
		if phi, ok := buf.(*ssa.Phi); ok {
			cands = append(cands, phi.Edges...)
		}
		for _, cv := range cands {
			bp, ok := cv.(*ssa.Parameter)
			if !ok {
				continue
			}
			for i, q := range sl.Params {
				if q == bp {
					for _, ci := range callersInPkg(sl) {
						bufArgs = append(bufArgs, ci.Common().Args[i])
					}
				}
			}
		}
		if len(bufArgs) == 0 {
			c.Undecided("sendLoop: the segmentation helper's buffer is not traced to an argument of its caller")
		}
	}
	c.Check(buf != nil, "segment-cut", key+":prefix", nsCall.Pos(), "segment payload = payloadBuf.Bytes()[:L]", "segment payload is not a prefix of the payload buffer: "+desc(prefix.X))
	// L = min(Len(buf), max)
	okL := false
	if lc, ok := L.(*ssa.Call); ok && calleeName(&lc.Call) == "min" && len(lc.Call.Args) == 2 {
		a, b := lc.Call.Args[0], lc.Call.Args[1]
		isLen := func(v ssa.Value) bool {
			cl, ok := v.(*ssa.Call)
			return ok && calleeName(&cl.Call) == "bytes.(*Buffer).Len" && cl.Call.Args[0] == buf
		}
		isMax := func(v ssa.Value) bool { k, ok := v.(*ssa.Const); return ok && k.Int64() == maxSeg }
		okL = isLen(a) && isMax(b) || isLen(b) && isMax(a)
	}
	c.Check(okL, "segment-cut", key+":length", nsCall.Pos(), fmt.Sprintf("L = min(payloadBuf.Len(), %d)", maxSeg), "segment length is "+desc(L)+", not min(buffer length, SegmentMaxPayloadLength)")
	// remainder
	var rem *ssa.Slice
	for _, ci := range allCalls(sl) {
		if calleeName(ci.Common()) == "bytes.NewBuffer" {
			if s, ok := ci.Common().Args[0].(*ssa.Slice); ok && s.Low != nil {
				rem = s
			}
		}
	}
	// alternative idiom: advance the same buffer by exactly L (bytes.Buffer.Next)
	var nextCall ssa.CallInstruction
	for _, ci := range allCalls(sl) {
		if calleeName(ci.Common()) == "bytes.(*Buffer).Next" {
			nextCall = ci
		}
	}
	// the segments alias the buffer's backing array after hand-off: the buffer must be fresh per batch and never rewound
	isBuf := func(v ssa.Value) bool {
		if v == buf || samePhiFamily(v, buf) {
			return true
		}
		for _, a := range bufArgs {
			if v == a || samePhiFamily(v, a) {
				return true
			}
		}
		return false
	}
	var slCalls []ssa.CallInstruction
	for _, f := range closureFuncs(top, 2) {
		slCalls = append(slCalls, allCalls(f)...)
	}
	for _, ci := range slCalls {
		cn := calleeName(ci.Common())
		if (cn == "bytes.(*Buffer).Reset" || cn == "bytes.(*Buffer).Truncate") && buf != nil && isBuf(ci.Common().Args[0]) {
			c.Bad("segment-buffer-fresh", key+":"+cn, ci.Pos(), "the payload buffer is rewound and reused although segments handed to the muxer still alias its bytes: a queued segment is overwritten by the next batch")
		}
	}
	freshOK := false
	var walkFresh func(v ssa.Value, d int)
	walkFresh = func(v ssa.Value, d int) {
		if d > 6 || v == nil {
			return
		}
		switch x := v.(type) {
		case *ssa.Phi:
			for _, e := range x.Edges {
				walkFresh(e, d+1)
			}
		case *ssa.Call:
			if calleeName(&x.Call) == "bytes.NewBuffer" && isNilConst(x.Call.Args[0]) && inLoop(x.Block()) {
				freshOK = true
			}
		case *ssa.Alloc:
			if inLoop(x.Block()) {
				freshOK = true
			}
		}
	}
	if len(bufArgs) > 0 {
		freshOK = true
		for _, a := range bufArgs {
			all := freshOK
			freshOK = false
			walkFresh(a, 0)
			freshOK = freshOK && all
		}
	} else {
		walkFresh(buf, 0)
	}
	c.Check(freshOK, "segment-buffer-fresh", key, nsCall.Pos(), "each batch is assembled in a buffer allocated inside the send loop", "the payload buffer outlives a batch: segments still queued in the muxer alias bytes that the next batch overwrites")
	if rem == nil && nextCall != nil {
		okNext := nextCall.Common().Args[1] == L && (nextCall.Common().Args[0] == buf || samePhiFamily(nextCall.Common().Args[0], buf))
		c.Check(okNext, "segment-remainder", key, nextCall.Pos(), "the buffer is advanced by exactly the sent length L", "the buffer is advanced by "+desc(nextCall.Common().Args[1])+", not by the length of the prefix just sent")
	} else if rem == nil {
		c.Bad("segment-remainder", key, nsCall.Pos(), "the unsent remainder is not re-buffered as Bytes()[L:]")
	} else {
		c.Check(rem.Low == L && rem.High == nil && bufOf(rem.X) == buf, "segment-remainder", key, rem.Pos(), "remainder = same buffer's Bytes()[L:] with the same L as the prefix",
			"remainder is "+desc(rem)+": it does not start exactly where the sent prefix ended (bytes lost or duplicated across segments)")
		// the buffer at the loop head is phi(initial, NewBuffer(remainder))
		if phi, ok := buf.(*ssa.Phi); ok {
			okPhi := false
			for _, e := range phi.Edges {
				if cl, ok := e.(*ssa.Call); ok && calleeName(&cl.Call) == "bytes.NewBuffer" && cl.Call.Args[0] == rem {
					okPhi = true
				}
			}
			c.Check(okPhi, "segment-remainder", key+":loop", phi.Pos(), "the next round works on the re-buffered remainder", "the re-buffered remainder is not what the next segment is cut from")
		} else {
			c.Bad("segment-remainder", key+":loop", nsCall.Pos(), "payload buffer is not carried round the segment loop")
		}
	}
	// loop continues iff Len(buf) > L
	okCont := false
	for _, ef := range edgeFacts(sl) {
		isLen := func(x string) bool { return strings.HasPrefix(x, "call:bytes.(*Buffer).Len(") }
		isL := func(x string) bool { return x == desc(L) }
		// L = min(Len, max) ≤ Len (checked above), so Len ≠ L says the same as Len > L
		if okL && (relIs(ef.Fact, isLen, ">", isL) || relIs(ef.Fact, isLen, "!=", isL)) {
			// true edge must lead to the remainder block
			if rem != nil && (ef.From.Succs[ef.Succ] == rem.Block() || ef.From.Succs[ef.Succ].Dominates(rem.Block())) {
				okCont = true
			}
			if rem == nil && nextCall != nil && (ef.From.Succs[ef.Succ] == nextCall.Block() || ef.From.Succs[ef.Succ].Dominates(nextCall.Block())) {
				okCont = true
			}
		}
	}
	c.Check(okCont, "segment-loop-exit", key, nsCall.Pos(), "another segment is cut exactly while buffer.Len() > L", "the segment loop does not continue exactly while bytes remain beyond the sent prefix")
	// hand-off value is the NewSegment result
	okHand := false
	for _, b := range sl.Blocks {
		for _, in := range b.Instrs {
			if sel, ok := in.(*ssa.Select); ok {
				for _, st := range sel.States {
					if st.Send != nil && strings.HasSuffix(desc(st.Chan), ".muxerSendChan") {
						okHand = st.Send == nsCall.Value()
					}
				}
			}
			if snd, ok := in.(*ssa.Send); ok && strings.HasSuffix(desc(snd.Chan), ".muxerSendChan") {
				okHand = snd.X == nsCall.Value()
			}
		}
	}
	c.Check(okHand, "segment-handoff", key, nsCall.Pos(), "the segment handed to the muxer is the NewSegment result", "the value sent on muxerSendChan is not the segment just cut")
	// protocol id and direction
	a0, a2 := desc(nsCall.Common().Args[0]), desc(nsCall.Common().Args[2])
	c.Check(strings.HasSuffix(a0, ".config.ProtocolId"), "segment-header", key+":id", nsCall.Pos(), "segment carries config.ProtocolId", "segment protocol id is "+a0)
	srv := c.ConstInt("protocol", "ProtocolRoleServer")
	c.Check(strings.Contains(a2, "call:protocol.(*Protocol).Role(") && strings.HasSuffix(a2, fmt.Sprintf(" == %d)", srv)) || strings.Contains(a2, ".config.Role == "+fmt.Sprint(srv)), "segment-header", key+":direction", nsCall.Pos(), "response flag = (role == Server)", "response flag is "+a2+", not role==Server")

	// ---- (b) readLoop reassembly
	rl := c.SSAFunc("protocol", "Protocol.readLoop")
	rkey := "protocol.(*Protocol).readLoop"
	var wr, dec, mk ssa.CallInstruction
	var remR *ssa.Slice
	var reset ssa.CallInstruction
	for _, ci := range allCalls(rl) {
		switch calleeName(ci.Common()) {
		case "bytes.(*Buffer).Write":
			wr = ci
		case "cbor.Decode":
			if dec == nil {
				dec = ci
			}
		case "bytes.NewBuffer":
			if s, ok := ci.Common().Args[0].(*ssa.Slice); ok && s.Low != nil {
				remR = s
			}
		case "bytes.(*Buffer).Reset":
			reset = ci
		}
		if strings.HasSuffix(desc(ci.Common().Value), ".config.MessageFromCborFunc") {
			mk = ci
		}
	}
	if wr == nil || dec == nil || mk == nil {
		c.Undecided("readLoop: Write/Decode/MessageFromCborFunc anchors missing")
	}
	rbuf := wr.Common().Args[0]
	wd := desc(wr.Common().Args[1])
	c.Check(strings.HasPrefix(wd, "<-") && strings.HasSuffix(wd, ".muxerRecvChan.Payload"), "reassembly-append", rkey, wr.Pos(), "each received segment's Payload is appended to the read buffer", "bytes appended to the read buffer are "+wd+", not the received segment's Payload")
	sameBuf := func(v ssa.Value) bool { return v == rbuf || samePhiFamily(v, rbuf) }
	c.Check(bufOf(dec.Common().Args[0]) != nil && sameBuf(bufOf(dec.Common().Args[0])), "reassembly-decode", rkey, dec.Pos(), "message boundaries are found by decoding the read buffer's bytes", "the framing decode does not read the reassembly buffer")
	// after a segment was appended, the only way back to waiting for the next segment is through a decode attempt of the
	// buffer (which answered "incomplete"): a message that is complete after this segment is never left sitting
	{
		var waits []*ssa.BasicBlock
		for _, op := range blockingOps(rl) {
			for _, r := range op.recvs {
				if strings.HasSuffix(r, ".muxerRecvChan") {
					waits = append(waits, op.instr.Block())
				}
			}
		}
		decBlock := dec.Block()
		seen := map[*ssa.BasicBlock]bool{}
		var walk func(b *ssa.BasicBlock)
		walk = func(b *ssa.BasicBlock) {
			if seen[b] || b == decBlock {
				return
			}
			seen[b] = true
			for _, sb := range b.Succs {
				walk(sb)
			}
		}
		for _, sb := range wr.Block().Succs {
			walk(sb)
		}
		skipped := false
		for _, w := range waits {
			if seen[w] {
				skipped = true
			}
		}
		if len(waits) == 0 {
			c.Undecided("readLoop: the wait for the next segment was not found")
		} else {
			c.Check(!skipped, "reassembly-decode", rkey+":after-every-segment", wr.Pos(), "every appended segment is followed by a decode attempt before the next segment is awaited", "after appending a segment the loop can go back to waiting for another segment without trying to decode the buffer: a message that ends exactly with this segment is not delivered until more bytes arrive")
		}
	}
	// an incomplete message waits for more bytes: from the "need more data" path (the decode answered unexpected EOF) the
	// next decode attempt is reachable only through the wait for the next segment — otherwise the loop spins on the same
	// bytes and nothing that follows is ever delivered. The leftover flag is followed per path.
	{
		var waitBlocks []*ssa.BasicBlock
		for _, op := range blockingOps(rl) {
			for _, r := range op.recvs {
				if strings.HasSuffix(r, ".muxerRecvChan") {
					waitBlocks = append(waitBlocks, op.instr.Block())
				}
			}
		}
		isWait := func(b *ssa.BasicBlock) bool {
			for _, w := range waitBlocks {
				if w == b {
					return true
				}
			}
			return false
		}
		var starts []*ssa.BasicBlock
		for _, ef := range edgeFacts(rl) {
			if strings.HasPrefix(ef.Fact, "T:call:errors.Is(") && strings.Contains(ef.Fact, "ErrUnexpectedEOF") {
				starts = append(starts, ef.From.Succs[ef.Succ])
			}
		}
		if len(starts) > 0 && len(waitBlocks) > 0 {
			reach := psReach(rl, starts, func(from *ssa.BasicBlock, succ int) bool { return isWait(from.Succs[succ]) })
			c.Check(!reach[dec.Block()], "reassembly-decode", rkey+":incomplete-waits", dec.Pos(), "an incomplete message leads to the wait for the next segment before the buffer is decoded again", "after an incomplete decode the loop can come back to the decode without waiting for another segment (the leftover flag is still set on that path): it spins on the same bytes and the rest of the stream is never delivered")
		}
	}
	// msgData = Bytes()[:n]
	n := ssa.Value(nil)
	for _, u := range referrersOf(dec.Value()) {
		if ex, ok := u.(*ssa.Extract); ok && ex.Index == 0 {
			n = ex
		}
	}
	md, ok := mk.Common().Args[1].(*ssa.Slice)
	c.Check(ok && md.Low == nil && md.High == n && n != nil && bufOf(md.X) != nil && sameBuf(bufOf(md.X)), "reassembly-message", rkey, mk.Pos(), "message bytes = readBuffer.Bytes()[:n] with n the decoder's consumed count", "the bytes given to the message constructor are not exactly the decoded item's bytes")
	if remR == nil || reset == nil {
		c.Bad("reassembly-remainder", rkey, rl.Pos(), "readLoop does not keep the unconsumed suffix / reset the buffer")
	} else {
		c.Check(remR.Low == n && remR.High == nil && bufOf(remR.X) != nil && sameBuf(bufOf(remR.X)), "reassembly-remainder", rkey, remR.Pos(), "the buffer keeps exactly Bytes()[n:]", "the kept remainder is "+desc(remR)+", not the suffix after the consumed message")
		// guard: n < Len() true-edge leads to remainder, false to Reset
		okG := false
		for _, ef := range edgeFacts(rl) {
			isN := func(x string) bool { return strings.HasPrefix(x, "call:cbor.Decode(") && strings.HasSuffix(x, "#0") }
			isLen := func(x string) bool { return strings.HasPrefix(x, "call:bytes.(*Buffer).Len(") }
			if relIs(ef.Fact, isN, "<", isLen) {
				t := ef.From.Succs[ef.Succ]
				f := ef.From.Succs[1-ef.Succ]
				if (t == remR.Block() || t.Dominates(remR.Block())) && (f == reset.Block() || f.Dominates(reset.Block())) {
					okG = true
				}
			}
		}
		c.Check(okG, "reassembly-remainder", rkey+":guard", remR.Pos(), "suffix kept iff n < Len(), otherwise the buffer is reset", "the keep/reset decision is not n < readBuffer.Len()")
	}
	// ---- (c) channel ownership
	c.chanOwners("protocol", ".sendQueueChan", []string{"protocol.(*Protocol).enqueueMessage"}, []string{"protocol.(*Protocol).sendLoop"})
	c.chanOwners("protocol", ".muxerSendChan", []string{"protocol.(*Protocol).sendLoop"}, nil)
	c.chanOwners("protocol", ".recvQueueChan", []string{"protocol.(*Protocol).readLoop"}, []string{"protocol.(*Protocol).recvLoop"})
	c.chanRecvOwners("protocol", ".muxerRecvChan", []string{"protocol.(*Protocol).readLoop"})
	for _, name := range []string{"Protocol.sendLoop", "Protocol.readLoop", "Protocol.recvLoop", "Protocol.enqueueMessage"} {
		fn := c.SSAFunc("protocol", name)
		cnt := 0
		for _, f := range withAnon(fn) {
			for _, b := range f.Blocks {
				for _, in := range b.Instrs {
					if _, ok := in.(*ssa.Go); ok {
						cnt++
					}
				}
			}
		}
		c.Check(cnt == 0, "no-goroutine-per-message", "protocol."+name, fn.Pos(), "no go statement on the message path", "a goroutine is spawned on the message path: FIFO order is lost")
	}
	// ---- (d) messages copy their bytes
	nCodec := 0
	for _, p := range c.W.Pkgs {
		rel := relPkg(p.PkgPath)
		if !strings.HasPrefix(rel, "protocol/") {
			continue
		}
		f := c.FuncObjOpt(rel, "NewMsgFromCbor")
		if f == nil {
			continue
		}
		fn := c.SSAOf(f)
		nCodec++
		okSet := false
		bad := ""
		for _, ci := range allCalls(fn) {
			cn := calleeName(ci.Common())
			if strings.HasSuffix(cn, ".SetCborReference") {
				bad = "SetCborReference"
			}
			if cn == "iface:protocol.Message.SetCbor" || strings.HasSuffix(cn, ").SetCbor") {
				// argument is the data parameter
				for _, a := range ci.Common().Args {
					if pa, ok := a.(*ssa.Parameter); ok && strings.HasPrefix(typeStr(pa.Type()), "[]") {
						okSet = true
					}
				}
			}
		}
		c.Check(okSet && bad == "", "message-copies-bytes", rel+".NewMsgFromCbor", fn.Pos(), "decoded message stores a copy of its bytes (SetCbor(data))", "decoded message does not keep a private copy of its wire bytes ("+bad+"): the reused read buffer would change under it")
	}
	c.Floor("message-copies-bytes", 15)
	sc := c.SSAFunc("cbor", "DecodeStoreCbor.SetCbor")
	okCopy := false
	for _, ci := range allCalls(sc) {
		if calleeName(ci.Common()) == "copy" {
			okCopy = true
		}
	}
	storesParam := false
	for _, b := range sc.Blocks {
		for _, in := range b.Instrs {
			if st, ok := in.(*ssa.Store); ok {
				if _, isParam := st.Val.(*ssa.Parameter); isParam {
					storesParam = true
				}
			}
		}
	}
	c.Check(okCopy && !storesParam, "setcbor-copies", "cbor.(*DecodeStoreCbor).SetCbor", sc.Pos(), "SetCbor allocates and copies", "DecodeStoreCbor.SetCbor keeps a reference to the caller's slice")
}

// samePhiFamily: a and b are connected through phi edges (the loop-carried versions of one variable).
func samePhiFamily(a, b ssa.Value) bool {
	seen := map[ssa.Value]bool{}
	var collect func(v ssa.Value, into map[ssa.Value]bool, d int)
	collect = func(v ssa.Value, into map[ssa.Value]bool, d int) {
		if into[v] || d > 6 {
			return
		}
		into[v] = true
		if p, ok := v.(*ssa.Phi); ok {
			for _, e := range p.Edges {
				collect(e, into, d+1)
			}
		}
	}
	fa, fb := map[ssa.Value]bool{}, map[ssa.Value]bool{}
	collect(a, fa, 0)
	collect(b, fb, 0)
	for v := range fa {
		if fb[v] {
			if _, isPhi := v.(*ssa.Phi); isPhi || v == a || v == b {
				return true
			}
		}
	}
	_ = seen
	return false
}

func (c *Ctx) chanRecvOwners(rel, suffix string, receivers []string) {
	n := 0
	for _, fn := range c.pkgFuncs(rel) {
		fk := ssaFuncKey(fn)
		in := func(string) bool { return ownedBy(fn, receivers, 2) }
		for _, b := range fn.Blocks {
			for _, ins := range b.Instrs {
				switch x := ins.(type) {
				case *ssa.UnOp:
					if x.Op.String() == "<-" && strings.HasSuffix(desc(x.X), suffix) {
						n++
						c.Check(in(fk), "chan-owner", suffix+":recv:"+fk, x.Pos(), "receive by the owning consumer", "unexpected consumer on "+suffix)
					}
				case *ssa.Select:
					for _, st := range x.States {
						if st.Send == nil && strings.HasSuffix(desc(st.Chan), suffix) {
							n++
							c.Check(in(fk), "chan-owner", suffix+":recv:"+fk, x.Pos(), "receive by the owning consumer", "unexpected consumer on "+suffix)
						}
					}
				}
			}
		}
	}
	if n == 0 {
		c.Bad("chan-owner", suffix+":recv", 0, "no receive on %s found", suffix)
	}
}
