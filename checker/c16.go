package main

import (
	"fmt"
	"go/ast"
	"go/token"
	"go/types"
	"sort"
	"strings"

	"golang.org/x/tools/go/packages"
	"golang.org/x/tools/go/ssa"
)

func init() {
	register(&Prop{
		ID: "C16", Level: "proof",
		Technique: "state-map literal extraction (go/ast+go/types) and bisimulation against an independent spec automaton table",
		Explanation: "Every protocol.StateMap literal is read from the type-checked source (states, agency, transitions with constant wire tags, MatchFunc reduced to a polarity label). " +
			"For the nine protocols of the Ouroboros network spec the extracted automaton is decided bisimilar (= language-equivalent, both are deterministic) to the spec automaton encoded in checker/c16.go, " +
			"starting from the InitialState given to protocol.ProtocolConfig; for DMQ/Leios machines only internal clauses (agency/terminal/determinism/reachability/codec coverage) are decided. " +
			"Also: every permitted wire tag has a NewMsgFromCbor case, default returns an error, no code outside the literals writes transition structure.",
		Assumptions: []string{
			"the protocol engine interprets the state map as read (clauses decided under C11/C12)",
			"the spec transcription in checker/c16.go (ouroboros-network spec ch.3; wire tags cross-checked with the repo's MessageType constants)",
			"local-tx-monitor is compared with the spec revision without GetMeasures (the library does not implement that later addition)",
		},
		Trusted: []string{"spec automaton tables in checker/c16.go", "E3 literal extractor (checker/tables.go)"},
		Run:     runC16,
	})
}

type specTrans struct {
	Tag   int64
	Match string // "", "+", "-"
	To    string
}
type specState struct {
	Agency int64 // 1 client 2 server 0 none
	Trans  []specTrans
}
type specMachine struct {
	Initial string
	States  map[string]specState
}

const (
	agNone   = 0
	agClient = 1
	agServer = 2
)

var specHandshake = specMachine{Initial: "Propose", States: map[string]specState{
	"Propose": {agClient, []specTrans{{0, "", "Confirm"}}},
	"Confirm": {agServer, []specTrans{{1, "", "Done"}, {2, "", "Done"}, {3, "", "Done"}}},
	"Done":    {agNone, nil},
}}
var specChainSync = specMachine{Initial: "Idle", States: map[string]specState{
	"Idle":      {agClient, []specTrans{{0, "", "CanAwait"}, {4, "", "Intersect"}, {7, "", "Done"}}},
	"CanAwait":  {agServer, []specTrans{{1, "", "MustReply"}, {2, "", "Idle"}, {3, "", "Idle"}}},
	"MustReply": {agServer, []specTrans{{2, "", "Idle"}, {3, "", "Idle"}}},
	"Intersect": {agServer, []specTrans{{5, "", "Idle"}, {6, "", "Idle"}}},
	"Done":      {agNone, nil},
}}
var specBlockFetch = specMachine{Initial: "Idle", States: map[string]specState{
	"Idle":      {agClient, []specTrans{{0, "", "Busy"}, {1, "", "Done"}}},
	"Busy":      {agServer, []specTrans{{2, "", "Streaming"}, {3, "", "Idle"}}},
	"Streaming": {agServer, []specTrans{{4, "", "Streaming"}, {5, "", "Idle"}}},
	"Done":      {agNone, nil},
}}
var specTxSubmission = specMachine{Initial: "Init", States: map[string]specState{
	"Init":             {agClient, []specTrans{{6, "", "Idle"}}},
	"Idle":             {agServer, []specTrans{{0, "+", "TxIdsBlocking"}, {0, "-", "TxIdsNonBlocking"}, {2, "", "Txs"}}},
	"TxIdsBlocking":    {agClient, []specTrans{{1, "", "Idle"}, {4, "", "Done"}}},
	"TxIdsNonBlocking": {agClient, []specTrans{{1, "", "Idle"}}},
	"Txs":              {agClient, []specTrans{{3, "", "Idle"}}},
	"Done":             {agNone, nil},
}}
var specKeepAlive = specMachine{Initial: "Client", States: map[string]specState{
	"Client": {agClient, []specTrans{{0, "", "Server"}, {2, "", "Done"}}},
	"Server": {agServer, []specTrans{{1, "", "Client"}}},
	"Done":   {agNone, nil},
}}
var specPeerSharing = specMachine{Initial: "Idle", States: map[string]specState{
	"Idle": {agClient, []specTrans{{0, "", "Busy"}, {2, "", "Done"}}},
	"Busy": {agServer, []specTrans{{1, "", "Idle"}}},
	"Done": {agNone, nil},
}}
var specLocalTxSubmission = specMachine{Initial: "Idle", States: map[string]specState{
	"Idle": {agClient, []specTrans{{0, "", "Busy"}, {3, "", "Done"}}},
	"Busy": {agServer, []specTrans{{1, "", "Idle"}, {2, "", "Idle"}}},
	"Done": {agNone, nil},
}}
var specLocalTxMonitor = specMachine{Initial: "Idle", States: map[string]specState{
	"Idle":         {agClient, []specTrans{{1, "", "Acquiring"}, {0, "", "Done"}}},
	"Acquiring":    {agServer, []specTrans{{2, "", "Acquired"}}},
	"Acquired":     {agClient, []specTrans{{1, "", "Acquiring"}, {3, "", "Idle"}, {5, "", "BusyNextTx"}, {7, "", "BusyHasTx"}, {9, "", "BusyGetSizes"}}},
	"BusyNextTx":   {agServer, []specTrans{{6, "", "Acquired"}}},
	"BusyHasTx":    {agServer, []specTrans{{8, "", "Acquired"}}},
	"BusyGetSizes": {agServer, []specTrans{{10, "", "Acquired"}}},
	"Done":         {agNone, nil},
}}
var specLocalStateQuery = specMachine{Initial: "Idle", States: map[string]specState{
	"Idle":      {agClient, []specTrans{{0, "", "Acquiring"}, {8, "", "Acquiring"}, {10, "", "Acquiring"}, {7, "", "Done"}}},
	"Acquiring": {agServer, []specTrans{{1, "", "Acquired"}, {2, "", "Idle"}}},
	"Acquired":  {agClient, []specTrans{{3, "", "Querying"}, {6, "", "Acquiring"}, {9, "", "Acquiring"}, {11, "", "Acquiring"}, {5, "", "Idle"}}},
	"Querying":  {agServer, []specTrans{{4, "", "Acquired"}}},
	"Done":      {agNone, nil},
}}

// specFor maps an extracted machine (pkg.var) to its spec automaton.
var specFor = map[string]*specMachine{
	"protocol/handshake.StateMapNtN":      &specHandshake,
	"protocol/handshake.StateMapNtC":      &specHandshake,
	"protocol/chainsync.StateMapNtN":      &specChainSync,
	"protocol/chainsync.StateMapNtC":      &specChainSync,
	"protocol/blockfetch.StateMap":        &specBlockFetch,
	"protocol/txsubmission.StateMap":      &specTxSubmission,
	"protocol/keepalive.StateMap":         &specKeepAlive,
	"protocol/peersharing.StateMap":       &specPeerSharing,
	"protocol/localtxsubmission.StateMap": &specLocalTxSubmission,
	"protocol/localtxmonitor.StateMap":    &specLocalTxMonitor,
	"protocol/localstatequery.StateMap":   &specLocalStateQuery,
}

func normMatch(m string) string {
	switch {
	case m == "":
		return ""
	case strings.HasPrefix(m, "+"):
		return "+"
	case strings.HasPrefix(m, "-"):
		return "-"
	}
	return m
}

type initialUse struct {
	pkg     string
	fn      string
	stateID int64
	name    string
	maps    []string // package-level state-map vars mentioned by the constructor
	pos     token.Pos
}

// findProtocolConfigs locates protocol.ProtocolConfig literals and reads InitialState and the state-map source vars.
func (c *Ctx) findProtocolConfigs() []initialUse {
	var out []initialUse
	c.eachFuncDecl(func(rel string) bool { return strings.HasPrefix(rel, "protocol/") }, func(p *packages.Package, fd *ast.FuncDecl, obj *types.Func) {
		ast.Inspect(fd.Body, func(n ast.Node) bool {
			cl, ok := n.(*ast.CompositeLit)
			if !ok || !isNamed(p.TypesInfo.TypeOf(cl), "protocol", "ProtocolConfig") {
				return true
			}
			u := initialUse{pkg: relPkg(p.PkgPath), fn: funcKey(obj), pos: cl.Pos(), stateID: -1}
			for _, el := range cl.Elts {
				kv, ok := el.(*ast.KeyValueExpr)
				if !ok {
					continue
				}
				if kv.Key.(*ast.Ident).Name == "InitialState" {
					if id, nm, _, ok := c.evalState(p, kv.Value, 0); ok {
						u.stateID, u.name = id, nm
					} else if vid, ok := unparen(kv.Value).(*ast.Ident); ok {
						// local variable: collect all states assigned to it in this function
						if lv, ok := p.TypesInfo.Uses[vid].(*types.Var); ok {
							ids := map[int64]string{}
							ast.Inspect(fd.Body, func(m ast.Node) bool {
								as, ok := m.(*ast.AssignStmt)
								if !ok {
									return true
								}
								for i, l := range as.Lhs {
									if li, ok := l.(*ast.Ident); ok && i < len(as.Rhs) && (p.TypesInfo.Defs[li] == lv || p.TypesInfo.Uses[li] == lv) {
										if id, nm, _, ok := c.evalState(p, as.Rhs[i], 0); ok {
											ids[id] = nm
										}
									}
								}
								return true
							})
							if len(ids) >= 1 {
								// report the smallest; all alternatives recorded in name
								var ks []int64
								for k := range ids {
									ks = append(ks, k)
								}
								sort.Slice(ks, func(i, j int) bool { return ks[i] < ks[j] })
								u.stateID = ks[0]
								var nms []string
								for _, k := range ks {
									nms = append(nms, fmt.Sprintf("%d:%s", k, ids[k]))
								}
								u.name = strings.Join(nms, "|")
							}
						}
					}
				}
			}
			// package-level state maps mentioned anywhere in the constructor
			seen := map[string]bool{}
			ast.Inspect(fd.Body, func(m ast.Node) bool {
				id, ok := m.(*ast.Ident)
				if !ok {
					return true
				}
				if v, ok := p.TypesInfo.Uses[id].(*types.Var); ok && v.Parent() == p.Types.Scope() && isNamed(v.Type(), "protocol", "StateMap") {
					if !seen[v.Name()] {
						seen[v.Name()] = true
						u.maps = append(u.maps, v.Name())
					}
				}
				return true
			})
			out = append(out, u)
			return true
		})
	})
	return out
}

func runC16(c *Ctx) {
	sms := c.extractStateMachines()
	byKey := map[string]*StateMachine{}
	for _, sm := range sms {
		byKey[sm.Key()] = sm
	}
	c.Note("extracted %d state-map literals", len(sms))
	if len(sms) < 17 {
		c.Undecided("only %d state-map literals extracted; 19 confirmed by hand", len(sms))
	}
	cfgs := c.findProtocolConfigs()
	c.Note("found %d ProtocolConfig literals", len(cfgs))

	// initial states per machine
	initialOf := map[string]map[int64]bool{}
	for _, u := range cfgs {
		key := u.pkg + ":" + u.fn
		if u.stateID < 0 {
			c.Bad("sm-initial", key, u.pos, "InitialState of ProtocolConfig is not a readable state")
			continue
		}
		if len(u.maps) == 0 {
			c.Bad("sm-config-map", key, u.pos, "ProtocolConfig.StateMap does not trace to a package-level state map")
			continue
		}
		c.Ok("sm-config-map", key, u.pos, "state map derives from %v", u.maps)
		for _, mv := range u.maps {
			k := u.pkg + "." + mv
			sm := byKey[k]
			if sm == nil {
				// derived var (e.g. chainsync.StateMap = StateMapNtN.Copy()): ignore
				continue
			}
			if initialOf[k] == nil {
				initialOf[k] = map[int64]bool{}
			}
			// local-variable initial states list several alternatives "id:name|id:name"
			if strings.Contains(u.name, "|") || strings.Contains(u.name, ":") {
				for _, part := range strings.Split(u.name, "|") {
					var id int64
					fmt.Sscanf(part, "%d:", &id)
					if _, ok := sm.Entries[id]; ok {
						initialOf[k][id] = true
					}
				}
				c.Ok("sm-initial", key+"->"+mv, u.pos, "initial state alternatives %s", u.name)
				continue
			}
			if _, ok := sm.Entries[u.stateID]; !ok {
				c.Bad("sm-initial", key+"->"+mv, u.pos, "initial state %d(%s) is not a state of %s", u.stateID, u.name, k)
				continue
			}
			initialOf[k][u.stateID] = true
			c.Ok("sm-initial", key+"->"+mv, u.pos, "initial state %d(%s)", u.stateID, u.name)
		}
	}
	c.Floor("sm-initial", 28)

	for _, sm := range sms {
		c.checkSMInternal(sm, initialOf[sm.Key()])
		c.checkSMCodec(sm)
		if spec := specFor[sm.Key()]; spec != nil {
			inits := initialOf[sm.Key()]
			if len(inits) == 0 {
				c.Bad("sm-bisim", sm.Key(), sm.Pos, "no ProtocolConfig uses this machine; cannot fix the initial state")
				continue
			}
			for init := range inits {
				c.bisim(sm, init, spec)
			}
		} else {
			c.Note("%s: no spec automaton encoded (DMQ/Leios) - internal clauses only", sm.Key())
		}
	}
	for k := range specFor {
		if byKey[k] == nil {
			c.Bad("sm-bisim", k, token.NoPos, "spec'd state machine %s not found in the source", k)
		}
	}
	c.Floor("sm-bisim", 40)
	c.checkSMNoWrite()
}

func (c *Ctx) checkSMInternal(sm *StateMachine, inits map[int64]bool) {
	k := sm.Key()
	for _, id := range sm.sortedIDs() {
		e := sm.Entries[id]
		sk := fmt.Sprintf("%s[%s]", k, e.StateName)
		switch {
		case e.Agency < 0 || e.Agency > 2:
			c.Bad("sm-agency", sk, e.Pos, "agency %d is not one of None/Client/Server", e.Agency)
		case e.Agency == agNone && len(e.Trans) > 0:
			c.Bad("sm-agency", sk, e.Pos, "state without agency has %d outgoing transitions", len(e.Trans))
		case e.Agency != agNone && len(e.Trans) == 0:
			c.Bad("sm-agency", sk, e.Pos, "non-terminal agency %d but no transitions (dead state holds agency forever)", e.Agency)
		default:
			c.Ok("sm-agency", sk, e.Pos, "agency=%d transitions=%d", e.Agency, len(e.Trans))
		}
		// determinism
		byTag := map[int64][]SMTrans{}
		for _, t := range e.Trans {
			byTag[t.MsgType] = append(byTag[t.MsgType], t)
			if _, ok := sm.Entries[t.To]; !ok {
				c.Bad("sm-successor", fmt.Sprintf("%s:%d", sk, t.MsgType), t.Pos, "successor state %d(%s) is not in the map", t.To, t.ToName)
			}
		}
		for tag, ts := range byTag {
			dk := fmt.Sprintf("%s:%d", sk, tag)
			if len(ts) == 1 {
				// a conditional single transition only narrows what is accepted (the
				// engine rejects a message no rule matches); spec'd protocols are
				// compared label by label in sm-bisim
				c.Ok("sm-determinism", dk, ts[0].Pos, "unique %s", ts[0].Match)
				continue
			}
			if len(ts) == 2 {
				a, b := ts[0].Match, ts[1].Match
				if len(a) > 1 && len(b) > 1 && a[1:] == b[1:] && a[0] != b[0] && (a[0] == '+' || a[0] == '-') && (b[0] == '+' || b[0] == '-') {
					c.Ok("sm-determinism", dk, ts[0].Pos, "complementary predicates %s / %s", a, b)
					continue
				}
				if strings.HasPrefix(a, "fn:") && strings.HasPrefix(b, "fn:") && a != b {
					c.Ok("sm-determinism", dk, ts[0].Pos, "two named predicates %s / %s (complementarity not decided; non-spec protocol)", a, b)
					continue
				}
			}
			c.Bad("sm-determinism", dk, ts[0].Pos, "%d transitions share tag %d without complementary predicates", len(ts), tag)
		}
	}
	// reachability
	if len(inits) > 0 {
		seen := map[int64]bool{}
		var stack []int64
		for i := range inits {
			stack = append(stack, i)
		}
		for len(stack) > 0 {
			s := stack[len(stack)-1]
			stack = stack[:len(stack)-1]
			if seen[s] {
				continue
			}
			seen[s] = true
			if e := sm.Entries[s]; e != nil {
				for _, t := range e.Trans {
					stack = append(stack, t.To)
				}
			}
		}
		for _, id := range sm.sortedIDs() {
			e := sm.Entries[id]
			c.Check(seen[id], "sm-reachable", fmt.Sprintf("%s[%s]", k, e.StateName), e.Pos, "reachable from the initial state", "state is unreachable from the initial state")
		}
	}
}

func (c *Ctx) checkSMCodec(sm *StateMachine) {
	p := c.Pkg(sm.Pkg)
	fobj := c.FuncObjOpt(sm.Pkg, "NewMsgFromCbor")
	if fobj == nil {
		c.Bad("sm-codec", sm.Key(), sm.Pos, "package has no NewMsgFromCbor")
		return
	}
	fd := c.Decl(fobj)
	sig := fobj.Type().(*types.Signature)
	// the msgType parameter: the uint parameter
	var tagParam *types.Var
	for i := 0; i < sig.Params().Len(); i++ {
		v := sig.Params().At(i)
		if b, ok := v.Type().Underlying().(*types.Basic); ok && b.Info()&types.IsInteger != 0 && b.Kind() != types.Uint8 {
			tagParam = v
		}
	}
	if tagParam == nil {
		c.Undecided("%s.NewMsgFromCbor: cannot identify the message type parameter", sm.Pkg)
	}
	swBody, swTag, helper := c.tagSwitchOwner(p, fd, tagParam, 2)
	vals, hasDefault, defBody, found := switchCaseConsts(p.TypesInfo, swBody, func(e ast.Expr) bool {
		id, ok := unparen(e).(*ast.Ident)
		return ok && p.TypesInfo.Uses[id] == swTag
	})
	if !found {
		// not a switch: the tags for which a message struct is constructed, from block feasibility under the tag
		maxTag := int64(0)
		for _, id := range sm.sortedIDs() {
			for _, t := range sm.Entries[id].Trans {
				if t.MsgType > maxTag {
					maxTag = t.MsgType
				}
			}
		}
		for v := range variantAllocTypes(c.SSAOf(fobj), maxTag+2, func(t *types.Named) bool { return embedsMessageBase(t) }) {
			vals[v] = fd.Pos()
			found = true
		}
	}
	if !found {
		c.Undecided("%s.NewMsgFromCbor: no switch on the message type parameter", sm.Pkg)
	}
	// unknown message types are rejected: with the tag valued outside the table, no return with a nil error is
	// reachable (branches on the tag and on the results of same-package helpers taking the tag are evaluated)
	_, _, _ = hasDefault, defBody, helper
	fnS := c.SSAOf(fobj)
	tagAtom := ""
	for i, q := range fnS.Params {
		if q.Object() == tagParam {
			tagAtom = fmt.Sprintf("p%d", i)
		}
	}
	if tagAtom == "" {
		c.Undecided("%s.NewMsgFromCbor: message type parameter not found in SSA", sm.Pkg)
	}
	maxTag := int64(0)
	for v := range vals {
		if v > maxTag {
			maxTag = v
		}
	}
	defErr := true
	for _, k := range []int64{maxTag + 1, maxTag + 1000, 1 << 20} {
		if _, isCase := vals[k]; isCase {
			continue
		}
		reach := psReachVal(fnS, []*ssa.BasicBlock{fnS.Blocks[0]}, nil, map[string]int64{tagAtom: k})
		for _, r := range successReturns(fnS) {
			if reach[r.Block()] {
				defErr = false
			}
		}
	}
	hasDefault = true
	c.Check(hasDefault && defErr, "sm-codec-default", sm.Pkg, fd.Pos(), "unknown message types return an error", "NewMsgFromCbor can return a nil error for a message type outside its table")
	for _, id := range sm.sortedIDs() {
		for _, t := range sm.Entries[id].Trans {
			_, ok := vals[t.MsgType]
			c.Check(ok, "sm-codec", fmt.Sprintf("%s[%s]:%d", sm.Key(), sm.Entries[id].StateName, t.MsgType), t.Pos,
				"codec has a case for this tag", fmt.Sprintf("state machine permits message type %d (%s) but NewMsgFromCbor has no case for it", t.MsgType, t.MsgName))
		}
	}
}

// bisim decides bisimilarity of the extracted machine (from init) and the spec.
func (c *Ctx) bisim(sm *StateMachine, init int64, spec *specMachine) {
	type pair struct {
		impl int64
		spec string
	}
	rel := map[pair]bool{}
	implTo := map[int64]string{}
	specTo := map[string]int64{}
	work := []pair{{init, spec.Initial}}
	for len(work) > 0 {
		pr := work[len(work)-1]
		work = work[:len(work)-1]
		if rel[pr] {
			continue
		}
		rel[pr] = true
		e := sm.Entries[pr.impl]
		ss, ok := spec.States[pr.spec]
		key := fmt.Sprintf("%s[%s]~%s", sm.Key(), nameOf(e), pr.spec)
		if e == nil || !ok {
			c.Bad("sm-bisim", key, sm.Pos, "state missing")
			continue
		}
		if prev, ok := implTo[pr.impl]; ok && prev != pr.spec {
			c.Bad("sm-bisim", key, e.Pos, "implementation state %s stands for two spec states (%s and %s): states collapsed", e.StateName, prev, pr.spec)
		}
		implTo[pr.impl] = pr.spec
		if prev, ok := specTo[pr.spec]; ok && prev != pr.impl {
			// two impl states for one spec state is fine for language equivalence (bisimilar duplicates)
			_ = prev
		}
		specTo[pr.spec] = pr.impl
		good := true
		if e.Agency != ss.Agency {
			c.Bad("sm-bisim", key, e.Pos, "agency is %d, the specification says %d", e.Agency, ss.Agency)
			good = false
		}
		implLabels := map[string]SMTrans{}
		for _, t := range e.Trans {
			implLabels[fmt.Sprintf("%d%s", t.MsgType, normMatch(t.Match))] = t
		}
		specLabels := map[string]specTrans{}
		for _, t := range ss.Trans {
			specLabels[fmt.Sprintf("%d%s", t.Tag, t.Match)] = t
		}
		for l, t := range implLabels {
			st, ok := specLabels[l]
			if !ok {
				c.Bad("sm-bisim", key+":"+l, t.Pos, "implementation permits message %d%s (%s) in state %s; the specification does not", t.MsgType, normMatch(t.Match), t.MsgName, e.StateName)
				good = false
				continue
			}
			work = append(work, pair{t.To, st.To})
		}
		for l, st := range specLabels {
			if _, ok := implLabels[l]; !ok {
				c.Bad("sm-bisim", key+":"+l, e.Pos, "specification permits message %d%s in state %s (-> %s); the implementation does not", st.Tag, st.Match, pr.spec, st.To)
				good = false
			}
		}
		if good {
			c.Ok("sm-bisim", key, e.Pos, "agency %d and %d outgoing labels agree with the specification", e.Agency, len(implLabels))
		}
	}
	// every spec state must be covered
	for name := range spec.States {
		if _, ok := specTo[name]; !ok {
			c.Bad("sm-bisim", fmt.Sprintf("%s~%s", sm.Key(), name), sm.Pos, "specification state %s has no counterpart reachable in the implementation", name)
		}
	}
}

func nameOf(e *SMEntry) string {
	if e == nil {
		return "?"
	}
	return e.StateName
}

// checkSMNoWrite: transition structure is only ever written by the literals.
func (c *Ctx) checkSMNoWrite() {
	forbiddenEntry := map[string]bool{"Agency": true, "Transitions": true}
	forbiddenTrans := map[string]bool{"MsgType": true, "NewState": true, "MatchFunc": true}
	n := 0
	c.eachFuncDecl(nil, func(p *packages.Package, fd *ast.FuncDecl, obj *types.Func) {
		ast.Inspect(fd.Body, func(nd ast.Node) bool {
			switch s := nd.(type) {
			case *ast.AssignStmt:
				for _, l := range s.Lhs {
					l = unparen(l)
					if sel, ok := l.(*ast.SelectorExpr); ok {
						xt := p.TypesInfo.TypeOf(sel.X)
						if xt == nil {
							continue
						}
						if isNamed(xt, "protocol", "StateMapEntry") && forbiddenEntry[sel.Sel.Name] ||
							isNamed(xt, "protocol", "StateTransition") && forbiddenTrans[sel.Sel.Name] {
							n++
							c.Bad("sm-nowrite", funcKey(obj)+":"+sel.Sel.Name, s.Pos(), "transition structure field %s is modified outside the state-map literal", sel.Sel.Name)
						}
					}
					if ix, ok := l.(*ast.IndexExpr); ok {
						if id := rootIdent(ix.X); id != nil {
							if v, ok := p.TypesInfo.Uses[id].(*types.Var); ok && v.Parent() == v.Pkg().Scope() && isNamed(v.Type(), "protocol", "StateMap") {
								n++
								c.Bad("sm-nowrite", funcKey(obj)+":"+v.Name(), s.Pos(), "shared package-level state map %s is modified in place", v.Name())
							}
						}
					}
				}
			case *ast.CallExpr:
				if id, ok := s.Fun.(*ast.Ident); ok && id.Name == "delete" && len(s.Args) == 2 {
					if isNamed(p.TypesInfo.TypeOf(s.Args[0]), "protocol", "StateMap") {
						n++
						c.Bad("sm-nowrite", funcKey(obj)+":delete", s.Pos(), "state removed from a state map at run time")
					}
				}
			}
			return true
		})
	})
	if n == 0 {
		c.Ok("sm-nowrite", "module", token.NoPos, "no function assigns Agency/Transitions/MsgType/NewState/MatchFunc, indexes a package-level state map for writing, or deletes a state")
	}
}

func rootIdent(e ast.Expr) *ast.Ident {
	for {
		switch x := unparen(e).(type) {
		case *ast.Ident:
			return x
		case *ast.SelectorExpr:
			return x.Sel
		default:
			return nil
		}
	}
}
