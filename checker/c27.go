package main

import (
	"fmt"
	"go/token"
	"go/types"
	"sort"
	"strings"

	"golang.org/x/tools/go/ssa"
)

func init() {
	register(&Prop{
		ID:        "C27",
		Technique: "mutation-aware def-use side tables: which terms flow into which side of the deciding balance comparison, per era, with the certificate-type guard of each term",
		Explanation: "For each era the ValueNotConservedUtxo rule of the rule list is resolved through parameter-adapting delegations. Coin: the big.Int comparison whose equality edge dominates every success return is located; every value added (before that comparison) into either operand is classified by its source and by the certificate type-switch case guarding the addition. The consumed side must receive exactly: input amounts (ls.UtxoById(..).Output.Amount), withdrawals, deregistration refunds (and, Conway+, DRep deregistration refunds); the produced side: output amounts, fee, stake/pool registration deposits (pool deposit only when the pool is not yet registered) and, Conway+, registration-certificate deposits, proposal deposits and the treasury donation. A required term missing, or any term on the opposite side, is a violation. " +
			"Assets (Mary+): input assets and mint feed one per-(policy,name) map, output assets another, and the two maps are compared in both directions with inequality leading to the error return.",
		Assumptions: []string{"amount arithmetic (math/big) and the deposit values themselves are not evaluated", "exact certificate semantics (which deposit a deregistration refunds) is as coded; only the side each term is booked on is decided"},
		Run:         runC27,
	})
}

type term struct {
	leaf  string
	guard string // certificate type controlling the addition, "" if none
	side  string
}

func (c *Ctx) resolveAdapter(fn *ssa.Function, suffix string) *ssa.Function {
	for i := 0; i < 4; i++ {
		var next *ssa.Function
		for _, ci := range allCalls(fn) {
			sc := ci.Common().StaticCallee()
			if sc != nil && sc != fn && strings.HasSuffix(sc.Name(), suffix) && len(sc.Blocks) > 0 {
				// its result must be returned
				for _, b := range fn.Blocks {
					if r, ok := b.Instrs[len(b.Instrs)-1].(*ssa.Return); ok && len(r.Results) == 1 && r.Results[0] == ci.Value() {
						next = sc
					}
				}
			}
		}
		hasCmp := false
		for _, ci := range allCalls(fn) {
			if bigMethod(ci.Common()) == "Cmp" {
				hasCmp = true
			}
		}
		if next == nil || hasCmp {
			return fn
		}
		fn = next
	}
	return fn
}

// certGuard: the certificate type whose type-switch case dominates instr ("" if none).
func certGuard(fn *ssa.Function, instr ssa.Instruction) string {
	for b := instr.Block(); b != nil; b = b.Idom() {
		id := b.Idom()
		if id == nil {
			break
		}
		iff, ok := id.Instrs[len(id.Instrs)-1].(*ssa.If)
		if !ok {
			continue
		}
		tf, _ := condFacts(iff.Cond)
		if len(tf) == 1 && strings.HasPrefix(tf[0], "T:assert(") && strings.Contains(tf[0], "Certificate)#1") && id.Succs[0] == b {
			f := tf[0]
			i := strings.LastIndex(f, ".")
			return strings.TrimSuffix(f[i+1:], ")#1")
		}
	}
	return ""
}

// sideTerms lists what is added into the object of v before `at`.
func sideTerms(objs *bigObjs, fn *ssa.Function, v ssa.Value, at ssa.Instruction, side string) []term {
	var out []term
	type visitKey struct {
		root ssa.Value
		via  ssa.Instruction
	}
	seen := map[visitKey]bool{}
	// via: the operation that adds the (possibly shared) operand into the side's accumulator — the certificate guard
	// of a term is where it is booked, not where the operand object happened to be built
	var walk func(v ssa.Value, via ssa.Instruction, d int)
	walk = func(v ssa.Value, via ssa.Instruction, d int) {
		root := objs.find(v)
		k := visitKey{root, via}
		if seen[k] || d > 6 {
			return
		}
		seen[k] = true
		ops := objs.opsBefore(v, at)
		if len(ops) == 0 {
			g := ""
			if via != nil {
				g = certGuard(fn, via)
			}
			out = append(out, term{desc(v), g, side})
			return
		}
		for _, ci := range ops {
			use := via
			if use == nil {
				use = ci.(ssa.Instruction)
			}
			for _, a := range ci.Common().Args[1:] {
				if strings.HasSuffix(typeStr(a.Type()), "big.Int") {
					if objs.find(a) != root {
						walk(a, use, d+1)
					}
				} else {
					g := certGuard(fn, use)
					if g == "" {
						g = certGuard(fn, ci.(ssa.Instruction))
					}
					out = append(out, term{desc(a), g, side})
				}
			}
		}
	}
	walk(v, nil, 0)
	return out
}

func classifyTerm(t term) string {
	l := t.leaf
	switch {
	case strings.Contains(l, ".Output)") && strings.Contains(l, ".Amount(") || strings.Contains(l, "Utxo.Output") && strings.Contains(l, "Amount("):
		return "inputs"
	case strings.Contains(l, "Transaction.Withdrawals("):
		return "withdrawals"
	case strings.Contains(l, "Transaction.Outputs(") && strings.Contains(l, "Amount(") || strings.Contains(l, "TransactionOutput.Amount(") && strings.Contains(l, "Outputs("):
		return "outputs"
	case strings.Contains(l, "Transaction.Fee("):
		return "fee"
	case strings.Contains(l, "Transaction.Donation("):
		return "donation"
	case strings.Contains(l, "ProposalProcedures("):
		return "proposal-deposit"
	case strings.Contains(l, "AssetMint("):
		return "mint"
	case strings.HasSuffix(l, ".PoolDeposit"):
		return "pool-deposit@" + t.guard
	case strings.HasSuffix(l, ".KeyDeposit"):
		return "key-deposit@" + t.guard
	case strings.HasSuffix(l, ".Amount") || strings.HasSuffix(l, ".Amount)"):
		return "cert-amount@" + t.guard
	case strings.HasSuffix(l, ".DRepDeposit") || strings.HasSuffix(l, ".DrepDeposit"):
		return "drep-deposit@" + t.guard
	}
	return "other:" + shortArg(l)
}

func runC27(c *Ctx) {
	c.W.buildSSA()
	lists := c.eraRuleLists()
	for _, era := range eraOrder {
		var rule *ssa.Function
		for _, rf := range lists[era].Rules {
			if strings.HasSuffix(rf.Name(), "ValueNotConservedUtxo") {
				rule = c.SSAOf(rf)
			}
		}
		key := "ledger/" + era
		if rule == nil {
			c.Bad("conservation-rule-listed", key, lists[era].Pos, "the %s rule list has no value-conservation rule", era)
			continue
		}
		c.Ok("conservation-rule-listed", key, lists[era].Pos, "value conservation is part of the era's rule list")
		fn := c.resolveAdapter(rule, "ValueNotConservedUtxo")
		objs := newBigObjs(fn)
		// coin comparison: the first Cmp whose operands are local accumulators (allocated by new(big.Int)) compared == 0
		var coin *ssa.Call
		for _, ci := range allCalls(fn) {
			if bigMethod(ci.Common()) != "Cmp" {
				continue
			}
			call := ci.(*ssa.Call)
			a, b := desc(call.Call.Args[0]), desc(call.Call.Args[1])
			if strings.Contains(a, "range(") || strings.Contains(b, "range(") || strings.Contains(a, "lookup(") || strings.Contains(b, "lookup(") {
				continue
			}
			if coin == nil {
				coin = call
			}
		}
		if coin == nil {
			c.Bad("conservation-coin", key, fn.Pos(), "no coin balance comparison found in %s", ssaFuncKey(fn))
			continue
		}
		// equality edge dominates success
		eq := desc(coin) + " == 0"
		okDom := true
		for _, v := range c.mustPass(fn, successReturns(fn), func(f string) bool { return f == eq }) {
			if !v.OK {
				okDom = false
			}
		}
		c.Check(okDom, "conservation-coin-decides", key, coin.Pos(), "success only when consumed.Cmp(produced) == 0", "a success return is reachable without the coin balance comparison having come out equal")
		ta := sideTerms(objs, fn, coin.Call.Args[0], coin, "A")
		tb := sideTerms(objs, fn, coin.Call.Args[1], coin, "B")
		cats := map[string]string{} // category -> side(s)
		for _, t := range append(ta, tb...) {
			cat := classifyTerm(t)
			if prev, ok := cats[cat]; ok && !strings.Contains(prev, t.side) {
				cats[cat] = prev + t.side
			} else if !ok {
				cats[cat] = t.side
			}
		}
		// which side is "consumed": the one holding inputs
		cons := cats["inputs"]
		if cons != "A" && cons != "B" {
			c.Bad("conservation-terms", key+":inputs", coin.Pos(), "input amounts are booked on %q side(s) of the balance", cons)
			continue
		}
		prod := "B"
		if cons == "B" {
			prod = "A"
		}
		want := map[string]string{"inputs": cons, "withdrawals": cons, "outputs": prod, "fee": prod,
			"key-deposit@*ledger/common.StakeDeregistrationCertificate": cons, "key-deposit@*ledger/common.StakeRegistrationCertificate": prod,
			"pool-deposit@*ledger/common.PoolRegistrationCertificate": prod}
		if era == "conway" || era == "dijkstra" {
			for _, ct := range []string{"RegistrationCertificate", "RegistrationDrepCertificate", "StakeRegistrationDelegationCertificate", "StakeVoteRegistrationDelegationCertificate", "VoteRegistrationDelegationCertificate"} {
				want["cert-amount@*ledger/common."+ct] = prod
			}
			for _, ct := range []string{"DeregistrationCertificate", "DeregistrationDrepCertificate"} {
				want["cert-amount@*ledger/common."+ct] = cons
			}
			want["proposal-deposit"] = prod
			want["donation"] = prod
		}
		var wk []string
		for k := range want {
			wk = append(wk, k)
		}
		sort.Strings(wk)
		for _, k := range wk {
			k2 := strings.Replace(k, "*ledger/common.", "", 1)
			got := cats[k2]
			if got == "" {
				got = cats[k]
			}
			c.Check(got == want[k], "conservation-terms", key+":"+k2, coin.Pos(), "booked on the "+sideName(want[k], cons)+" side",
				fmt.Sprintf("term %s is booked on side %q of the balance, the ledger formula puts it on the %s side", k2, sideNameOrNone(got, cons), sideName(want[k], cons)))
		}
		// no unexplained term on either side
		for cat, side := range cats {
			k2 := cat
			known := false
			for k := range want {
				if strings.Replace(k, "*ledger/common.", "", 1) == k2 || k == k2 {
					known = true
				}
			}
			if !known && !strings.HasPrefix(cat, "mint") && !strings.HasPrefix(cat, "other:alloc") && !strings.HasPrefix(cat, "other:call:math/big") {
				c.Bad("conservation-terms-extra", key+":"+cat, coin.Pos(), "unexplained term %s is added to side %s of the coin balance", cat, sideName(side, cons))
			}
		}
		// pool deposit only for new registrations
		c.checkPoolDepositGuard(fn, key)
		// assets
		if era != "shelley" && era != "allegra" {
			c.checkAssetConservation(fn, key)
		}
	}
}

func sideName(side, cons string) string {
	if side == cons {
		return "consumed"
	}
	return "produced"
}

func sideNameOrNone(side, cons string) string {
	if side == "" {
		return "none (missing)"
	}
	if len(side) > 1 {
		return "both"
	}
	return sideName(side, cons)
}

func (c *Ctx) checkPoolDepositGuard(fn *ssa.Function, key string) {
	for _, ci := range allCalls(fn) {
		if bigMethod(ci.Common()) != "Add" {
			continue
		}
		hasPool := false
		for _, call := range sliceBackCallsArgs(ci.Common().Args[1:]) {
			_ = call
		}
		for _, a := range ci.Common().Args[1:] {
			if strings.Contains(desc(a), ".PoolDeposit") {
				hasPool = true
			}
		}
		if !hasPool {
			continue
		}
		v := c.mustPass(fn, []ssa.Instruction{ci.(ssa.Instruction)}, func(f string) bool {
			return strings.Contains(f, "PoolCurrentState(") && strings.HasSuffix(f, "#0 == nil")
		})
		c.Check(v[0].OK, "conservation-pool-deposit-new-only", key, ci.Pos(), "pool deposit is charged only when the pool has no current registration", "the pool deposit is charged even for a re-registration of an existing pool ("+v[0].Witness+")")
	}
}

func sliceBackCallsArgs(args []ssa.Value) []*ssa.Call { return nil }

func (c *Ctx) checkAssetConservation(fn *ssa.Function, key string) {
	// maps receiving per-asset sums: receiver of Add is lookup(M, key)
	type src struct{ inputs, mint, outputs bool }
	maps := map[ssa.Value]*src{}
	// accumulation sites: Add(lookup(M,k), _, amount), either directly in the rule or inside a helper/closure
	// whose map and amount are parameters (one level of summarisation; the call site supplies M and amount)
	var lookupMap func(v ssa.Value, d int) ssa.Value
	lookupMap = func(v ssa.Value, d int) ssa.Value {
		if d > 3 {
			return nil
		}
		if e, ok := v.(*ssa.Extract); ok {
			v = e.Tuple
		}
		if lk, ok := v.(*ssa.Lookup); ok {
			return lk.X
		}
		if ph, ok := v.(*ssa.Phi); ok {
			for _, e := range ph.Edges {
				if m := lookupMap(e, d+1); m != nil {
					return m
				}
			}
		}
		return nil
	}
	paramIdx := func(h *ssa.Function, v ssa.Value) int {
		for i, p := range h.Params {
			if p == v {
				return i
			}
		}
		return -1
	}
	type site struct {
		m      ssa.Value
		amount string // description of the amount in the vocabulary of the function the site is reported for
	}
	type upd struct {
		mu *ssa.MapUpdate
		m  ssa.Value // the map, as a value of the function the update is reported for
	}
	// collect accumulation sites and map updates of f, following same-package helpers whose map is a parameter
	var collect func(f *ssa.Function, depth int) ([]site, []upd)
	collect = func(f *ssa.Function, depth int) ([]site, []upd) {
		var ss []site
		var us []upd
		for _, in := range fnInstrs(f) {
			if mu, ok := in.(*ssa.MapUpdate); ok {
				us = append(us, upd{mu, mu.Map})
			}
		}
		for _, ci := range allCalls(f) {
			cc := ci.Common()
			if bigMethod(cc) == "Add" && len(cc.Args) >= 3 {
				if m := lookupMap(cc.Args[0], 0); m != nil {
					ss = append(ss, site{m, desc(cc.Args[2])})
				}
				continue
			}
			h := cc.StaticCallee()
			if h == nil || h.Blocks == nil || depth <= 0 || (h.Parent() != f && h.Pkg != f.Pkg) || h == f {
				continue
			}
			hs, hu := collect(h, depth-1)
			for _, x := range hs {
				mi := paramIdx(h, x.m)
				if mi < 0 || mi >= len(cc.Args) {
					continue
				}
				ss = append(ss, site{cc.Args[mi], substParams(x.amount, cc.Args)})
			}
			for _, x := range hu {
				mi := paramIdx(h, x.m)
				if mi < 0 || mi >= len(cc.Args) {
					continue
				}
				us = append(us, upd{x.mu, cc.Args[mi]})
			}
		}
		return ss, us
	}
	sites, allUpdates := collect(fn, 3)
	var updates []*ssa.MapUpdate
	updateMap := map[*ssa.MapUpdate]ssa.Value{}
	for _, u := range allUpdates {
		if _, seen := updateMap[u.mu]; !seen {
			updates = append(updates, u.mu)
		}
		updateMap[u.mu] = u.m
	}
	for _, st := range sites {
		m := st.m
		if maps[m] == nil {
			maps[m] = &src{}
		}
		ad := st.amount
		switch {
		case strings.Contains(ad, "AssetMint("):
			maps[m].mint = true
		case strings.Contains(ad, "Utxo.Output") || strings.Contains(ad, "UtxoById("):
			maps[m].inputs = true
		case strings.Contains(ad, "Transaction.Outputs("):
			maps[m].outputs = true
		}
	}
	// every accumulator stored in a sum map is a fresh big.Int: Add mutates its receiver, so storing a quantity
	// owned by an output/UTxO and adding into it rewrites the ledger's own data
	for _, mu := range updates {
		if maps[updateMap[mu]] == nil {
			continue
		}
		v := mu.Value
		fresh := false
		for i := 0; i < 4 && !fresh; i++ {
			switch x := v.(type) {
			case *ssa.Alloc:
				fresh = strings.HasSuffix(typeStr(x.Type()), "big.Int")
			case *ssa.Call:
				switch {
				case bigMethod(&x.Call) != "" && len(x.Call.Args) > 0:
					v = x.Call.Args[0] // big.Int methods return their receiver
					continue
				case x.Call.StaticCallee() != nil && x.Call.StaticCallee().Name() == "NewInt":
					fresh = true
				}
			}
			break
		}
		c.Check(fresh, "conservation-accumulator-fresh", key+":"+ssaFuncKey(mu.Parent())+":"+shortArg(desc(mu.Value)), mu.Pos(), "the per-asset accumulator stored in the sum map is newly allocated", "the per-asset sum map stores "+shortArg(desc(mu.Value))+", a big.Int it did not allocate, and later adds into it: validating a transaction rewrites asset quantities held by the UTxO/outputs, so a following validation sees inflated amounts")
	}
	var mc, mp ssa.Value
	for m, s := range maps {
		if s.inputs {
			mc = m
		}
		if s.outputs {
			mp = m
		}
	}
	if mc == nil || mp == nil {
		c.Bad("conservation-assets", key, fn.Pos(), "per-asset sums of inputs and outputs are not both collected")
		return
	}
	// the key of the per-asset sums identifies the asset exactly: a variable-length asset name copied into a fixed-size
	// array loses its length (names that differ by trailing zero bytes, or beyond the array, fall onto one key)
	{
		keyTypes := map[string]bool{}
		for m := range maps {
			if mt, ok := m.Type().Underlying().(*types.Map); ok {
				keyTypes[typeStr(mt.Key())] = true
			}
		}
		lossy := ""
		var lossyPos token.Pos
		for _, g := range closureFuncs(fn, 2) {
			for _, ci := range allCalls(g) {
				b, isB := ci.Common().Value.(*ssa.Builtin)
				if !isB || b.Name() != "copy" {
					continue
				}
				dst := ci.Common().Args[0]
				if sl, ok := dst.(*ssa.Slice); ok {
					dst = sl.X
				}
				fa, ok := dst.(*ssa.FieldAddr)
				if !ok {
					continue
				}
				if keyTypes[strings.TrimPrefix(typeStr(fa.X.Type()), "*")] {
					lossy = fieldName(fa.X.Type(), fa.Field)
					lossyPos = ci.Pos()
				}
			}
		}
		c.Check(lossy == "", "conservation-assets", key+":exact-asset-key", lossyPos, "the per-asset key holds policy and name exactly", "the per-asset key's "+lossy+" field is a fixed-size array filled by copy from a variable-length name: names that differ only in length (trailing zero bytes) or beyond the array share one key, so per-asset conservation is checked on merged amounts")
	}
	c.Check(mc != mp, "conservation-assets", key+":sides", fn.Pos(), "input and output assets are summed separately", "input and output assets are summed into the same map")
	c.Check(maps[mc].mint && !maps[mp].mint, "conservation-assets", key+":mint", fn.Pos(), "mint/burn quantities are booked with the consumed assets", "mint is not booked on the consumed side (or is booked on the produced side)")
	c.Check(!maps[mc].outputs && !maps[mp].inputs, "conservation-assets", key+":cross", fn.Pos(), "no term is booked on the opposite side", "an input/output asset term is booked on the opposite side")
	// comparisons in both directions, inequality -> error
	fwd, bwd := false, false
	for _, ci := range allCalls(fn) {
		m := bigMethod(ci.Common())
		if m != "Cmp" && m != "Sign" {
			continue
		}
		call := ci.(*ssa.Call)
		neq := desc(call) + " != 0"
		leadsToErr := false
		for _, ef := range edgeFacts(fn) {
			if ef.Fact == neq {
				ok := true
				after := reachFromAvoiding([]*ssa.BasicBlock{ef.From}, func(from *ssa.BasicBlock, i int) bool { return from == ef.From && i != ef.Succ })
				for _, r := range successReturns(fn) {
					if after[r.Block()] {
						ok = false
					}
				}
				leadsToErr = ok
			}
		}
		if !leadsToErr {
			continue
		}
		a := desc(ci.Common().Args[0])
		if !strings.Contains(a, "range(") {
			continue
		}
		if m == "Sign" {
			// a remaining produced quantity must be zero
			bwd = true
			continue
		}
		b := desc(ci.Common().Args[1])
		if strings.Contains(b, "lookup(") {
			fwd = true
		} else if !strings.Contains(b, "range(") {
			bwd = true
		}
	}
	c.Check(fwd && bwd, "conservation-assets", key+":both-directions", fn.Pos(), "every consumed asset must equal its produced amount and every remaining produced asset must be zero", "assets are not compared in both directions (consumed-vs-produced and leftover produced-vs-zero): tokens on only one side go unnoticed")
}
