package main

import (
	"go/token"
	"fmt"
	"strings"

	"golang.org/x/tools/go/ssa"
)

func init() {
	register(&Prop{
		ID:        "C21",
		Technique: "who-may-call + CFG must-pass-through/at-most-once rules on the chain-sync client's handlers, and a value-identity check of the pipelining window in syncLoop",
		Explanation: "Decides the structure that makes the callbacks faithful: (1) the user callbacks are invoked only from the two message handlers, on the handler goroutine (never inside a go/closure), at most once on any path, with the tip (and rollback point) read from the very message being handled; " +
			"(2) every success return of a handler signals readiness exactly once (send on readyForNextBlockChan inside the select that also watches DoneChan, or an answer on the first-block channel), so one server message yields one further request; " +
			"(3) with a block pipeline configured, the rollback callback is reachable only after the handler has waited on the channel fed by Pipeline.WaitForDrain (or on protocol shutdown); " +
			"(4) RequestNext is sent only by Sync (once, then the counter is reset), GetAvailableBlockRange and syncLoop, all under the busy lock; in syncLoop the burst is sent only when the outstanding counter is not positive, the burst size and the counter stored afterwards are the same SSA value n=max(PipelineLimit,1) and n-1, and the other branch decrements by exactly one; " +
			"(5) Stop sends Done only when the protocol is not already done and closes the ready channel under the lifecycle lock.",
		Assumptions: []string{"that WaitForDrain really waits is C43", "the protocol layer delivers messages to the handler one at a time in order (C09–C12)", "the window bound itself follows from rule 4 by the induction sketched in DESIGN.md; it is not evaluated over histories"},
		Run:         runC21,
	})
}

func runC21(c *Ctx) {
	rel := "protocol/chainsync"
	c.W.buildSSA()
	hf := c.SSAFunc(rel, "Client.handleRollForward")
	hb := c.SSAFunc(rel, "Client.handleRollBackward")
	sl := c.SSAFunc(rel, "Client.syncLoop")
	stop := c.SSAFunc(rel, "Client.Stop")
	if hf == nil || hb == nil || sl == nil || stop == nil {
		c.Undecided("chain-sync client handlers not found")
		return
	}
	cbNames := []string{".config.RollForwardFunc", ".config.RollForwardRawFunc", ".config.RollBackwardFunc"}
	isCb := func(cc *ssa.CallCommon) string {
		if cc.IsInvoke() || cc.StaticCallee() != nil {
			return ""
		}
		d := desc(cc.Value)
		for _, n := range cbNames {
			if strings.HasSuffix(d, n) {
				return n[len(".config."):]
			}
		}
		return ""
	}
	// (1a) who may call the callbacks
	nCb := 0
	cbSites := map[*ssa.Function][]ssa.CallInstruction{}
	for _, fn := range c.pkgFuncs(rel) {
		if recvTypeName(fn) != "Client" && (fn.Parent() == nil || recvTypeName(fn.Parent()) != "Client") {
			continue
		}
		for _, ci := range allCalls(fn) {
			name := isCb(ci.Common())
			if name == "" {
				continue
			}
			nCb++
			key := ssaFuncKey(fn) + ":" + name
			_, isGo := ci.(*ssa.Go)
			onHandler := (fn == hf || fn == hb) && !isGo
			c.Check(onHandler, "callback-on-handler-goroutine", key, ci.Pos(), "callback invoked synchronously by the message handler", "the callback is invoked from "+ssaFuncKey(fn)+", not synchronously from the message handler: callbacks can overtake each other")
			cbSites[fn] = append(cbSites[fn], ci)
		}
	}
	c.Floor("callback-on-handler-goroutine", 5)
	// (1b) at most once per message, args from the message
	for _, fn := range []*ssa.Function{hf, hb} {
		for _, ci := range cbSites[fn] {
			key := ssaFuncKey(fn) + ":" + isCb(ci.Common()) + "@" + shortArg(desc(ci.Common().Args[len(ci.Common().Args)-1]))
			after := reachFromAvoiding([]*ssa.BasicBlock{ci.Block()}, nil)
			again := inLoop(ci.Block())
			for _, other := range cbSites[fn] {
				if other != ci && after[other.Block()] && other.Block() != ci.Block() {
					again = true
				}
				if other != ci && other.Block() == ci.Block() {
					again = true
				}
			}
			c.Check(!again, "callback-at-most-once", key, ci.Pos(), "no second callback invocation is reachable after this one", "a second callback invocation is reachable after this one for the same message")
			args := ci.Common().Args
			tip := desc(args[len(args)-1])
			okTip := strings.HasPrefix(tip, "assert(p1,") && strings.HasSuffix(tip, ").Tip")
			c.Check(okTip, "callback-tip-from-message", key, ci.Pos(), "the tip passed is the Tip field of the handled message", "the tip passed to the callback is "+shortArg(tip)+", not the Tip of the message being handled")
			if fn == hb {
				pt := desc(args[1])
				c.Check(strings.HasPrefix(pt, "assert(p1,") && strings.HasSuffix(pt, ").Point"), "callback-tip-from-message", key+":point", ci.Pos(), "the rollback point is the Point field of the handled message", "the rollback point passed is "+shortArg(pt))
			}
		}
	}
	// (2) ready signal exactly once on success returns (helper-aware)
	isReadySelect := func(in ssa.Instruction) bool {
		sel, ok := in.(*ssa.Select)
		if !ok {
			return false
		}
		for _, st := range sel.States {
			if st.Dir == 1 /* types.SendOnly */ && strings.HasSuffix(desc(st.Chan), ".readyForNextBlockChan") {
				return true
			}
		}
		return false
	}
	isFirstSend := func(in ssa.Instruction) bool {
		s, ok := in.(*ssa.Send)
		return ok && strings.Contains(typeStr(s.Chan.Type()), "clientPointResult")
	}
	signalSpec := PassSpec{
		Instr: func(in ssa.Instruction) bool { return isReadySelect(in) || isFirstSend(in) },
		Edge:  func(f string) bool { return strings.HasSuffix(f, ".readyForNextBlockChan == nil") },
	}
	// a call is a signal if the callee (same package, depth 2) contains a ready select
	callSignals := func(fn *ssa.Function, in ssa.Instruction) bool {
		ci, ok := in.(*ssa.Call)
		if !ok {
			return false
		}
		h := samePkgHelper(fn, &ci.Call)
		if h == nil {
			return false
		}
		for _, g := range closureFuncs(h, 1) {
			for _, hin := range fnInstrs(g) {
				if isReadySelect(hin) {
					return true
				}
			}
		}
		return false
	}
	for _, fn := range []*ssa.Function{hf, hb} {
		idx := errorResultIndex(fn)
		var rets []ssa.Instruction
		for _, b := range fn.Blocks {
			r, ok := b.Instrs[len(b.Instrs)-1].(*ssa.Return)
			if !ok || idx < 0 || !isNilConst(returnedValue(r, idx)) {
				continue
			}
			rets = append(rets, r)
		}
		if len(rets) == 0 {
			c.Undecided("no success return in %s", ssaFuncKey(fn))
			continue
		}
		for i, v := range c.mustPassEv(fn, rets, signalSpec) {
			r := rets[i]
			key := ssaFuncKey(fn) + ":return@" + c.returnKey(fn, r.Block())
			c.Check(v.OK, "ready-signal-on-success", key, r.Pos(), "every path to this success return signals readiness (or answers the first-block waiter)", "a path reaches this success return without signalling readiness for the next message: the sync stalls after this message ("+v.Witness+")")
		}
		// at most once: after a signal no second signal is reachable
		var sigs []ssa.Instruction
		for _, in := range fnInstrs(fn) {
			if isReadySelect(in) || callSignals(fn, in) {
				sigs = append(sigs, in)
			}
		}
		for n, sgn := range sigs {
			twice := false
			after := reachFromAvoiding([]*ssa.BasicBlock{sgn.Block()}, nil)
			for _, o := range sigs {
				if o == sgn {
					continue
				}
				if o.Block() == sgn.Block() {
					if precedes(sgn, o) {
						twice = true
					}
					continue
				}
				if after[o.Block()] {
					twice = true
				}
			}
			c.Check(!twice, "ready-signal-at-most-once", fmt.Sprintf("%s:ready-signal#%d", ssaFuncKey(fn), n+1), sgn.Pos(), "no second readiness signal is reachable after this one", "a second readiness signal is reachable after this one: two requests would be issued for one message")
		}
		if len(sigs) == 0 {
			c.Bad("ready-signal-on-success", ssaFuncKey(fn)+":no-signal", fn.Pos(), "the handler never signals readiness")
		}
	}
	c.Floor("ready-signal-on-success", 4)
	// (3) rollback callback only after the drain wait
	{
		var drainChans []ssa.Value
		for _, an := range hb.AnonFuncs {
			for _, in := range fnInstrs(an) {
				s, ok := in.(*ssa.Send)
				if !ok {
					continue
				}
				call, ok := s.X.(*ssa.Call)
				if !ok || !strings.HasSuffix(calleeName(&call.Call), ".WaitForDrain") {
					continue
				}
				// which binding of the closure is the channel?
				ch := rootValue(s.Chan, 0)
				for i, fv := range an.FreeVars {
					if fv == ch {
						for _, hin := range fnInstrs(hb) {
							if mc, ok := hin.(*ssa.MakeClosure); ok && mc.Fn == an {
								drainChans = append(drainChans, mc.Bindings[i])
							}
						}
					}
				}
			}
		}
		c.Check(len(drainChans) > 0, "rollback-after-drain", ssaFuncKey(hb)+":drain-source", hb.Pos(), "a goroutine reports Pipeline.WaitForDrain on a channel", "no goroutine reports the result of Pipeline.WaitForDrain to the rollback handler")
		// the drain gets time: the timeout of the context handed to WaitForDrain is positive also when the configured
		// value is the zero value (a Config built as a literal) — an expired context makes the wait return at once
		for _, ci := range allCalls(hb) {
			if calleeName(ci.Common()) != "context.WithTimeout" || len(ci.Common().Args) < 2 {
				continue
			}
			wt, _ := ci.(*ssa.Call)
			if wt == nil {
				continue
			}
			key := ssaFuncKey(hb) + ":drain-timeout"
			atom := ""
			for _, in := range fnInstrs(hb) {
				if u, ok := in.(*ssa.UnOp); ok && strings.HasSuffix(desc(u), ".config.PipelineDrainTimeout") {
					atom = desc(u)
				}
			}
			arg := wt.Call.Args[1]
			val := map[string]int64{}
			if atom != "" {
				val[atom] = 0
			}
			verdict, why := "ok", ""
			for _, v := range valuesUnder(hb, arg, val) {
				for {
					if cv, isCv := v.(*ssa.Convert); isCv {
						v = cv.X
						continue
					}
					break
				}
				switch x := v.(type) {
				case *ssa.Const:
					if x.Value == nil || x.Int64() <= 0 {
						verdict, why = "bad", "the constant "+desc(x)
					}
				case *ssa.Call:
					if h := samePkgHelper(hb, &x.Call); h != nil {
						hval := map[string]int64{}
						for k, kv := range val {
							hval[k] = kv
							for i, a := range x.Call.Args {
								if nk, ok := substToken(k, desc(a), fmt.Sprintf("p%d", i)); ok {
									hval[nk] = kv
								}
							}
						}
						rs, okc := constResults(h, 0, hval, 0)
						if !okc || len(rs) == 0 {
							verdict, why = "undecided", "the result of "+h.Name()
						}
						for r := range rs {
							if r <= 0 {
								verdict, why = "bad", fmt.Sprintf("%d from %s", r, h.Name())
							}
						}
						continue
					}
					verdict, why = "undecided", desc(x)
				default:
					if atom != "" && desc(v) == atom {
						verdict, why = "bad", "the configured value itself"
					} else if verdict == "ok" {
						verdict, why = "undecided", desc(v)
					}
				}
			}
			if verdict == "bad" && why == "the configured value itself" {
				// a constructor of the client may normalise the stored configuration (not NewConfig or an option, which a
				// Config literal bypasses): that shape was not derived for
				for _, g := range c.pkgFuncs(rel) {
					if g.Name() == "NewConfig" || strings.HasPrefix(g.Name(), "WithPipelineDrainTimeout") || (g.Parent() != nil && strings.HasPrefix(g.Parent().Name(), "WithPipelineDrainTimeout")) {
						continue
					}
					for _, in := range fnInstrs(g) {
						if st, ok := in.(*ssa.Store); ok {
							if fa, ok := st.Addr.(*ssa.FieldAddr); ok && fieldName(fa.X.Type(), fa.Field) == "PipelineDrainTimeout" {
								verdict, why = "undecided", "the configured value, which "+g.Name()+" may have normalised"
							}
						}
					}
				}
			}
			switch verdict {
			case "undecided":
				c.Undecided("%s: cannot tell whether the drain timeout (%s) is positive when the configured value is zero", key, why)
			default:
				c.Check(verdict == "ok", "rollback-after-drain", key, wt.Pos(), "the drain context gets a positive timeout also for a zero-valued configuration", "with PipelineDrainTimeout left at its zero value the drain context is created with "+why+": it has expired before WaitForDrain looks at it, so the rollback callback runs while earlier roll-forward blocks are still in the pipeline")
			}
		}
		isDrainSel := func(b *ssa.BasicBlock) bool {
			sel := selectOfIf(b)
			if sel == nil || !sel.Blocking {
				return false
			}
			for _, st := range sel.States {
				for _, dc := range drainChans {
					if rootValue(st.Chan, 0) == rootValue(dc, 0) {
						return true
					}
				}
			}
			return false
		}
		pipeNil := map[*ssa.BasicBlock]int{}
		for _, f := range edgeFacts(hb) {
			if strings.HasSuffix(f.Fact, ".config.Pipeline == nil") {
				pipeNil[f.From] = f.Succ + 1
			}
		}
		reach, parent := reachAvoiding(hb, func(from *ssa.BasicBlock, succ int) bool {
			return (isDrainSel(from) && succ == 0) || pipeNil[from] == succ+1
		})
		for _, ci := range cbSites[hb] {
			bad := reach[ci.Block()]
			w := ""
			if bad {
				w = c.witness(hb, parent, ci.Block())
			}
			c.Check(!bad, "rollback-after-drain", ssaFuncKey(hb)+":RollBackwardFunc", ci.Pos(), "with a pipeline configured every path to the rollback callback first waits for the drain result or shutdown", "with a block pipeline configured a path reaches the rollback callback without waiting for the pipeline to drain: earlier roll-forward blocks are applied after (or while) the rollback runs ("+w+")")
		}
	}
	// (4) RequestNext senders and the window
	allowed := map[string]bool{rel + ".(*Client).Sync": true, rel + ".(*Client).syncLoop": true, rel + ".(*Client).GetAvailableBlockRange": true}
	nSend := 0
	for _, fn := range c.pkgFuncs(rel) {
		for _, ci := range allCalls(fn) {
			if calleeName(ci.Common()) != rel+".NewMsgRequestNext" {
				continue
			}
			if recvTypeName(fn) != "Client" && (fn.Parent() == nil || recvTypeName(fn.Parent()) != "Client") {
				continue
			}
			nSend++
			key := ssaFuncKey(fn)
			okWho := allowed[ssaFuncKey(fn)]
			if !okWho && fn.Object() != nil && !fn.Object().Exported() {
				// an unexported helper is fine when every caller is one of the accounting functions
				sites := callersInPkg(fn)
				okWho = len(sites) > 0
				for _, site := range sites {
					if !allowed[ssaFuncKey(site.Parent())] {
						okWho = false
					}
				}
			}
			c.Check(okWho, "request-next-senders", key, ci.Pos(), "RequestNext is built in one of the three functions that account for it (or a private helper only they call)", "RequestNext is sent from "+key+", outside the functions that maintain the outstanding-request counter")
			held := heldAtIP(fn, ci.(ssa.Instruction), ".busyMutex", []string{"Lock", "TryLock"}, []string{"Unlock"}, 2)
			c.Check(held, "request-next-senders", key+":busy-lock@"+c.returnKey(fn, ci.Block()), ci.Pos(), "sent with the busy lock held", "RequestNext is sent without the busy lock: it can interleave with syncLoop's accounting")
		}
	}
	c.Floor("request-next-senders", 6)
	c.checkSyncLoopWindow(sl)
	// Sync: reset after the initial request
	if syncFn := c.SSAFunc(rel, "Client.Sync"); syncFn != nil {
		var st *ssa.Store
		for _, in := range fnInstrs(syncFn) {
			if s, ok := in.(*ssa.Store); ok && strings.HasSuffix(desc(s.Addr), "syncPipelinedRequestNext") {
				st = s
			}
		}
		c.Check(st != nil && desc(st.Val) == "0", "pipeline-window", ssaFuncKey(syncFn)+":reset", syncFn.Pos(), "Sync starts with an outstanding-burst counter of 0 after its single RequestNext", "Sync does not reset the pipelined-request counter to 0 after its initial RequestNext")
	}
	// (5) Stop
	{
		var done ssa.CallInstruction
		for _, ci := range allCalls(stop) {
			if calleeName(ci.Common()) == rel+".NewMsgDone" {
				done = ci
			}
		}
		if done == nil {
			c.Bad("stop-sends-done", ssaFuncKey(stop), stop.Pos(), "Stop never builds MsgDone: the conversation is not ended cleanly")
		} else {
			v := c.mustPass(stop, []ssa.Instruction{done.(ssa.Instruction)}, func(f string) bool { return strings.HasPrefix(f, "F:call:") && strings.Contains(f, ".IsDone(") })
			c.Check(v[0].OK, "stop-sends-done", ssaFuncKey(stop)+":not-already-done", done.Pos(), "Done is sent only when the protocol is not already done", "Done is sent even when the protocol already finished ("+v[0].Witness+")")
			v2 := c.mustPass(stop, []ssa.Instruction{done.(ssa.Instruction)}, func(f string) bool { return strings.HasSuffix(f, ".lifecycleState == 2") || strings.Contains(f, ".lifecycleState == ") })
			c.Check(v2[0].OK, "stop-sends-done", ssaFuncKey(stop)+":running-only", done.Pos(), "Done is sent only from the running state", "Done can be sent when the client is not running ("+v2[0].Witness+")")
		}
		var closes int
		for _, ci := range allCalls(stop) {
			if b, ok := ci.Common().Value.(*ssa.Builtin); ok && b.Name() == "close" && strings.HasSuffix(desc(ci.Common().Args[0]), ".readyForNextBlockChan") {
				closes++
				held := heldAt(stop, ci.(ssa.Instruction), ".lifecycleMutex", []string{"Lock"}, []string{"Unlock"})
				c.Check(held, "stop-sends-done", ssaFuncKey(stop)+":close-ready-locked", ci.Pos(), "the ready channel is closed under the lifecycle lock (handlers send under the same lock)", "the ready channel is closed without the lifecycle lock: a handler can send on a closed channel")
			}
		}
		c.Check(closes == 1, "stop-sends-done", ssaFuncKey(stop)+":close-ready", stop.Pos(), "Stop closes the ready channel, ending syncLoop", "Stop does not close the ready channel exactly once: syncLoop is not told to end")
	}
	// readiness is signalled under the lifecycle lock, wherever the select lives
	seenSel := map[*ssa.Select]bool{}
	nSel := 0
	for _, root := range []*ssa.Function{hf, hb} {
		for _, fn := range closureFuncs(root, 2) {
			for _, in := range fnInstrs(fn) {
				sel, ok := in.(*ssa.Select)
				if !ok || seenSel[sel] || !isReadySelect(sel) {
					continue
				}
				seenSel[sel] = true
				nSel++
				held := heldAt(fn, sel, ".lifecycleMutex", []string{"Lock"}, []string{"Unlock"})
				c.Check(held, "ready-send-locked", fmt.Sprintf("%s:ready-select#%d", ssaFuncKey(fn), nSel), sel.Pos(), "readiness is signalled under the lifecycle lock, after a nil check", "readiness is signalled without the lifecycle lock: Stop can close the channel concurrently")
				v := c.mustPass(fn, []ssa.Instruction{sel}, func(f string) bool { return strings.HasSuffix(f, ".readyForNextBlockChan != nil") })
				c.Check(v[0].OK, "ready-send-locked", fmt.Sprintf("%s:ready-select#%d:nil-check", ssaFuncKey(fn), nSel), sel.Pos(), "the channel is checked for nil before sending", "readiness is sent without checking that the channel still exists (Stop sets it to nil)")
			}
		}
	}
}

// selectOfIf returns the Select whose chosen index is tested by b's terminating If.
func selectOfIf(b *ssa.BasicBlock) *ssa.Select {
	if len(b.Instrs) == 0 {
		return nil
	}
	iff, ok := b.Instrs[len(b.Instrs)-1].(*ssa.If)
	if !ok {
		return nil
	}
	bo, ok := iff.Cond.(*ssa.BinOp)
	if !ok {
		return nil
	}
	ex, ok := bo.X.(*ssa.Extract)
	if !ok || ex.Index != 0 {
		return nil
	}
	sel, _ := ex.Tuple.(*ssa.Select)
	return sel
}

func isFirstStateTest(b *ssa.BasicBlock) bool {
	iff := b.Instrs[len(b.Instrs)-1].(*ssa.If)
	bo := iff.Cond.(*ssa.BinOp)
	k, ok := bo.Y.(*ssa.Const)
	return ok && k.Int64() == 0
}

// returnKey names a block structurally: the ordinal of the block among those ending the same way is unstable,
// so use the description of the nearest dominating branch fact instead.
func (c *Ctx) returnKey(fn *ssa.Function, b *ssa.BasicBlock) string {
	facts := edgeFacts(fn)
	for d := b; d != nil; d = d.Idom() {
		for _, p := range d.Preds {
			if len(d.Preds) != 1 {
				break
			}
			for _, f := range facts {
				if f.From == p && f.Succ < len(p.Succs) && p.Succs[f.Succ] == d {
					return shortArg(f.Fact)
				}
			}
		}
	}
	return "entry"
}

func (c *Ctx) checkSyncLoopWindow(sl *ssa.Function) {
	key := ssaFuncKey(sl)
	// loop bound of a RequestNext send loop inside fn (the value the loop index is compared with)
	sendLoopBound := func(fn *ssa.Function) (ssa.CallInstruction, ssa.Value) {
		var send ssa.CallInstruction
		n := 0
		for _, ci := range allCalls(fn) {
			if strings.HasSuffix(calleeName(ci.Common()), ".SendMessage") && len(ci.Common().Args) > 1 && strings.HasSuffix(desc(ci.Common().Args[1]), "NewMsgRequestNext()") {
				send = ci
				n++
			}
		}
		if n != 1 {
			return nil, nil
		}
		var bound ssa.Value
		for _, f := range edgeFacts(fn) {
			iff := f.From.Instrs[len(f.From.Instrs)-1].(*ssa.If)
			bo, ok := iff.Cond.(*ssa.BinOp)
			if !ok || f.Succ != 0 {
				continue
			}
			_, isInc := bo.X.(*ssa.BinOp)
			if ph, isPhi := bo.X.(*ssa.Phi); isPhi {
				// for i := 0; i < n; i++ — the counter is a phi fed by its own increment
				for _, e := range ph.Edges {
					if inc, ok := e.(*ssa.BinOp); ok && inc.Op == token.ADD && (inc.X == ssa.Value(ph) || inc.Y == ssa.Value(ph)) {
						isInc = true
					}
				}
			}
			if isInc && bo.Op.String() == "<" && reachesBlock(send.Block(), f.From) && reachesBlock(f.From, send.Block()) {
				bound = bo.Y
			}
		}
		return send, bound
	}
	var burst ssa.Instruction // the instruction in syncLoop that performs the burst
	var bound ssa.Value      // the burst size, as a value of syncLoop
	if send, bnd := sendLoopBound(sl); send != nil {
		burst, bound = send.(ssa.Instruction), bnd
	} else {
		n := 0
		for _, ci := range allCalls(sl) {
			h := samePkgHelper(sl, ci.Common())
			if h == nil {
				continue
			}
			hsend, hb := sendLoopBound(h)
			if hsend == nil {
				continue
			}
			n++
			// the helper's loop bound must be one of its parameters: the burst size is the matching argument
			for i, p := range h.Params {
				if hb == ssa.Value(p) && i < len(ci.Common().Args) {
					burst, bound = ci.(ssa.Instruction), ci.Common().Args[i]
				}
			}
		}
		if n != 1 {
			burst = nil
		}
	}
	if burst == nil {
		c.Undecided("%s: the RequestNext burst (a send loop here or in a helper sized by an argument) was not recognised", key)
		return
	}
	// burst only when counter <= 0
	v := c.mustPass(sl, []ssa.Instruction{burst}, func(f string) bool {
		return strings.HasSuffix(f, ".syncPipelinedRequestNext <= 0") || strings.HasSuffix(f, ".syncPipelinedRequestNext == 0")
	})
	c.Check(v[0].OK, "pipeline-window", key+":burst-when-empty", burst.Pos(), "a new burst is sent only when the outstanding counter is not positive", "a new burst of RequestNext can be sent while earlier pipelined requests are still outstanding ("+v[0].Witness+")")
	okBound := false
	if call, ok := bound.(*ssa.Call); ok {
		if b, ok := call.Call.Value.(*ssa.Builtin); ok && b.Name() == "max" && len(call.Call.Args) == 2 {
			d0, d1 := desc(call.Call.Args[0]), desc(call.Call.Args[1])
			okBound = (strings.HasSuffix(d0, ".config.PipelineLimit") && d1 == "1") || (strings.HasSuffix(d1, ".config.PipelineLimit") && d0 == "1")
		}
	}
	bd := "<none>"
	if bound != nil {
		bd = desc(bound)
	}
	c.Check(okBound, "pipeline-window", key+":burst-size", burst.Pos(), "the burst is max(PipelineLimit,1) requests", "the burst size is "+shortArg(bd)+", not max(PipelineLimit,1)")
	send := burst
	// stores to the counter
	nDec, nSet := 0, 0
	for _, in := range fnInstrs(sl) {
		st, ok := in.(*ssa.Store)
		if !ok || !strings.HasSuffix(desc(st.Addr), ".syncPipelinedRequestNext") {
			continue
		}
		held := heldAt(sl, st, ".busyMutex", []string{"Lock"}, []string{"Unlock"})
		bo, _ := st.Val.(*ssa.BinOp)
		switch {
		case bo != nil && bo.Op.String() == "-" && desc(bo.Y) == "1" && bo.X == bound:
			nSet++
			// after the loop: the store's block must not be able to reach the send again without passing the loop head test... it is after the burst
			c.Check(held && reachesBlock(send.Block(), st.Block()), "pipeline-window", key+":counter-set", st.Pos(), "after the burst the counter is the burst size minus one (same SSA value), under the busy lock", "the counter store after the burst is not under the busy lock or not after the burst")
		case bo != nil && bo.Op.String() == "-" && desc(bo.Y) == "1" && strings.HasSuffix(desc(bo.X), ".syncPipelinedRequestNext"):
			nDec++
			vv := c.mustPass(sl, []ssa.Instruction{st}, func(f string) bool { return strings.HasSuffix(f, ".syncPipelinedRequestNext > 0") })
			c.Check(held && vv[0].OK, "pipeline-window", key+":counter-decrement", st.Pos(), "one reply consumes one outstanding request, only while the counter is positive, under the busy lock", "the counter is decremented without the positive-counter guard or the busy lock")
		default:
			c.Bad("pipeline-window", key+":counter-store:"+shortArg(desc(st.Val)), st.Pos(), "the outstanding counter is set to %s: it must be burst−1 after a burst or counter−1 per reply", desc(st.Val))
		}
	}
	c.Check(nSet == 1 && nDec == 1, "pipeline-window", key+":counter-stores", sl.Pos(), "exactly one set (burst−1) and one decrement", "syncLoop does not have exactly one burst−1 store and one decrement of the outstanding counter")
	// each iteration consumes one readiness token: the lock section is reached only through the receive of readyForNextBlockChan yielding true
	var lock ssa.Instruction
	for _, ci := range allCalls(sl) {
		if isLockCall(ci, ".busyMutex", "Lock") {
			lock = ci.(ssa.Instruction)
		}
	}
	if lock != nil {
		vv := c.mustPass(sl, []ssa.Instruction{lock}, func(f string) bool {
			return f == "T:<-p0.readyForNextBlockChan" || strings.HasPrefix(f, "T:") && strings.HasSuffix(f, "readyForNextBlockChan") || strings.HasPrefix(f, "T:extract") && strings.Contains(f, "readyForNextBlockChan")
		})
		c.Check(vv[0].OK, "pipeline-window", key+":one-token-per-iteration", lock.Pos(), "each accounting step consumes one 'ready' token received as true", "syncLoop can account for a reply without having received a ready token ("+vv[0].Witness+")")
	}
}
