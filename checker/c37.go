package main

import (
	"fmt"
	"go/ast"
	"go/token"
	"go/types"
	"strings"

	"golang.org/x/tools/go/ssa"
)

func init() {
	register(&Prop{
		ID:        "C37",
		Technique: "parameter-threading dataflow rule for the precision argument, must-pass-through on the resolved flag and domain guards, structural traces of the interval endpoints and of the eligibility comparison",
		Explanation: "Narrow structural conditions; the numeric result itself is not decided. (1) Eligibility: IsVRFOutputBelowThresholdWithMode returns int(leaderValue).Cmp(threshold) < 0 (strict), the leader value being VrfLeaderValue(output) for Praos and the raw output for TPraos (the flag is traced to the mode), unknown mode ⇒ error, nil threshold or empty output ⇒ not eligible. " +
			"(2) Threshold entry: upper bound 2^256 for Praos and 2^512 for TPraos (package variables built as 2^const with const 256/512), unknown mode ⇒ error, f > 1 ⇒ error, σ capped by poolStake>totalStake ⇒ poolStake=totalStake, f = 1 ⇒ the upper bound. " +
			"(3) Precision threading: in every function of the package that has a targetBits parameter, each argument passed to a callee's targetBits/precision-determining parameter derives from the caller's own targetBits — a package constant there freezes the series accuracy while the escalation loop shrinks the declared error, which makes the interval unsound. " +
			"(4) Escalation: a threshold is returned only on the resolved edge, targetBits doubles per round, the cap returns an error; resolved means floor(lo·2^k) = floor(hi·2^k) with probLo = 1 − hi and probHi = 1 − lo; the interval is result ∓ |result|·2^−targetBits. (5) Exact path: threshold = ⌊upper·num/den⌋ of 1 − (1−f)^σ computed in rationals.",
		Assumptions: []string{"math/big", "the declared relative error bound of the ln/exp series (numeric analysis) is not verified", "monotonicity is not decided"},
		Run:         runC37,
	})
}

func runC37(c *Ctx) {
	c.W.buildSSA()
	rel := "consensus"
	// (1)
	if fn := c.SSAFunc(rel, "IsVRFOutputBelowThresholdWithMode"); fn != nil {
		key := ssaFuncKey(fn)
		cpraos, _ := c.ConstIntOpt(rel, "ConsensusModeCPraos")
		tpraos, _ := c.ConstIntOpt(rel, "ConsensusModeTPraos")
		var ret *ssa.Return
		for _, b := range fn.Blocks {
			r, ok := b.Instrs[len(b.Instrs)-1].(*ssa.Return)
			if !ok {
				continue
			}
			if _, isBo := r.Results[0].(*ssa.BinOp); isBo {
				ret = r
			}
		}
		if ret == nil {
			c.Bad("eligibility-strict", key, fn.Pos(), "no comparison result is returned")
		} else {
			bo := ret.Results[0].(*ssa.BinOp)
			t := trace(bo.X)
			okCmp := bo.Op == token.LSS && desc(bo.Y) == "0" && strings.HasPrefix(t, "Cmp(VRFOutputToInt(") && strings.HasSuffix(t, ",p1)")
			c.Check(okCmp, "eligibility-strict", key+":comparison", ret.Pos(), "eligible ⇔ int(leader value) < threshold", "eligibility is "+shortArg(t)+" "+bo.Op.String()+" "+desc(bo.Y)+", not int(leader value).Cmp(threshold) < 0")
			// leader value per mode
			for _, m := range []struct {
				name string
				val  int64
				want string
			}{{"CPraos", cpraos, "VrfLeaderValue(p0)"}, {"TPraos", tpraos, "p0"}} {
				reach := psReachVal(fn, []*ssa.BasicBlock{fn.Blocks[0]}, nil, map[string]int64{"p2": m.val})
				got := ""
				if call, ok := bo.X.(*ssa.Call); ok && len(call.Call.Args) > 0 {
					if toInt, ok := call.Call.Args[0].(*ssa.Call); ok && len(toInt.Call.Args) == 1 {
						arg := toInt.Call.Args[0]
						if ph, ok := arg.(*ssa.Phi); ok {
							for i, e := range ph.Edges {
								pred := ph.Block().Preds[i]
								if reach[pred] && lastPsEdges[[2]*ssa.BasicBlock{pred, ph.Block()}] {
									if got != "" && got != trace(e) {
										got += "|" + trace(e)
									} else {
										got = trace(e)
									}
								}
							}
						} else {
							got = trace(arg)
						}
					}
				}
				c.Check(reach[ret.Block()] && got == m.want, "eligibility-strict", key+":leader-value:"+m.name, ret.Pos(), m.name+" compares "+m.want, fmt.Sprintf("in %s mode the value compared is %s, expected %s", m.name, shortArg(got), m.want))
			}
			// unknown mode → error
			reach := psReachVal(fn, []*ssa.BasicBlock{fn.Blocks[0]}, nil, map[string]int64{"p2": 99})
			c.Check(!reach[ret.Block()], "eligibility-strict", key+":unknown-mode", fn.Pos(), "an unknown mode never reaches the comparison", "an unknown consensus mode is compared as if it were a known one")
			for _, g := range []string{"p1 != nil", "len(p0) != 0"} {
				v := c.mustPass(fn, []ssa.Instruction{ret}, func(f string) bool { return f == g })
				c.Check(v[0].OK, "eligibility-strict", key+":guard:"+g, ret.Pos(), "guarded by "+g, "the comparison is reachable without "+g)
			}
		}
	} else {
		c.Undecided("IsVRFOutputBelowThresholdWithMode not found")
	}
	// VrfLeaderValue: "L" prefix
	if fn := c.SSAFunc(rel, "VrfLeaderValue"); fn != nil {
		nL, nOther := 0, 0
		for _, in := range fnInstrs(fn) {
			st, ok := in.(*ssa.Store)
			if !ok {
				continue
			}
			if ia, ok := st.Addr.(*ssa.IndexAddr); ok && desc(ia.Index) == "0" {
				if desc(st.Val) == "76" || desc(st.Val) == "76:byte" {
					nL++
				} else {
					nOther++
				}
			}
		}
		c.Check(nL >= 1 && nOther == 0, "eligibility-strict", ssaFuncKey(fn)+":domain-separator", fn.Pos(), "the hashed buffer starts with 'L' (0x4C)", "VrfLeaderValue does not prefix the output with the 'L' domain separator")
	}
	// (2)
	for name, bits := range map[string]int64{"twoTo256": 256, "twoTo512": 512} {
		v, _ := c.Pkg(rel).Types.Scope().Lookup(name).(*types.Var)
		ok := false
		if v != nil {
			if init, ip := c.pkgVarInit(v); init != nil {
				// new(big.Int).Exp(big.NewInt(2), big.NewInt(<bits>), nil)
				if call, isCall := init.(*ast.CallExpr); isCall && len(call.Args) == 3 {
					base, _ := call.Args[0].(*ast.CallExpr)
					exp, _ := call.Args[1].(*ast.CallExpr)
					if base != nil && exp != nil && len(base.Args) == 1 && len(exp.Args) == 1 {
						b, ok1 := constInt(ip.TypesInfo, base.Args[0])
						e, ok2 := constInt(ip.TypesInfo, exp.Args[0])
						ok = ok1 && ok2 && b == 2 && e == bits && types.ExprString(call.Args[2]) == "nil" && strings.HasSuffix(types.ExprString(call.Fun), ".Exp")
					}
				}
			}
		}
		c.Check(ok, "threshold-upper-bound", rel+"."+name, token.NoPos, fmt.Sprintf("%s = 2^%d", name, bits), fmt.Sprintf("%s is not built as 2^%d", name, bits))
	}
	if fn := c.SSAFunc(rel, "CertifiedNatThresholdWithMode"); fn != nil {
		key := ssaFuncKey(fn)
		cpraos, _ := c.ConstIntOpt(rel, "ConsensusModeCPraos")
		tpraos, _ := c.ConstIntOpt(rel, "ConsensusModeTPraos")
		// the f == 1 return: Set(alloc, phi(upperBound))
		for _, m := range []struct {
			name string
			val  int64
			want string
		}{{"CPraos", cpraos, "global:twoTo256"}, {"TPraos", tpraos, "global:twoTo512"}} {
			reach := psReachVal(fn, []*ssa.BasicBlock{fn.Blocks[0]}, nil, map[string]int64{"p3": m.val})
			got := map[string]bool{}
			n := 0
			for _, ci := range allCalls(fn) {
				for _, a := range ci.Common().Args {
					ph, ok := a.(*ssa.Phi)
					if !ok || !strings.Contains(trace(ph), "twoTo") {
						continue
					}
					if !reach[ci.Block()] {
						continue
					}
					n++
					for i, e := range ph.Edges {
						pred := ph.Block().Preds[i]
						if reach[pred] && lastPsEdges[[2]*ssa.BasicBlock{pred, ph.Block()}] {
							got[trace(e)] = true
						}
					}
				}
			}
			// or the bound comes from a helper over the mode: its feasible non-nil results under this mode
			for _, ci := range allCalls(fn) {
				h := samePkgHelper(fn, ci.Common())
				if h == nil || !reach[ci.Block()] {
					continue
				}
				hval := map[string]int64{}
				for i, a := range ci.Common().Args {
					if desc(a) == "p3" {
						hval[fmt.Sprintf("p%d", i)] = m.val
					}
				}
				if len(hval) == 0 {
					continue
				}
				hreach := psReachVal(h, []*ssa.BasicBlock{h.Blocks[0]}, nil, hval)
				for _, hb := range h.Blocks {
					hr, ok := hb.Instrs[len(hb.Instrs)-1].(*ssa.Return)
					if !ok || !hreach[hb] || len(hr.Results) == 0 {
						continue
					}
					if t := trace(hr.Results[0]); strings.Contains(t, "twoTo") {
						got[t] = true
						n++
					}
				}
			}
			okM := n > 0 && len(got) == 1 && got[m.want]
			c.Check(okM, "threshold-upper-bound", key+":"+m.name, fn.Pos(), m.name+" scales by "+m.want, fmt.Sprintf("in %s mode the threshold is scaled by %v, expected %s", m.name, sortedKeys(got), m.want))
		}
		reach := psReachVal(fn, []*ssa.BasicBlock{fn.Blocks[0]}, nil, map[string]int64{"p3": 99})
		bad := false
		for _, r := range successReturns(fn) {
			if reach[r.Block()] {
				bad = true
			}
		}
		c.Check(!bad, "threshold-upper-bound", key+":unknown-mode", fn.Pos(), "an unknown mode is an error", "an unknown consensus mode yields a threshold instead of an error")
		// f > 1 → error; stake cap
		okF := false
		for _, ef := range edgeFacts(fn) {
			if strings.HasPrefix(ef.Fact, "call:math/big.(*Rat).Cmp(p2,") && strings.HasSuffix(ef.Fact, " > 0") {
				after := reachFromAvoiding([]*ssa.BasicBlock{ef.From}, func(from *ssa.BasicBlock, s int) bool { return from == ef.From && s != ef.Succ })
				okF = true
				for _, r := range successReturns(fn) {
					if after[r.Block()] {
						okF = false
					}
				}
			}
		}
		c.Check(okF, "threshold-domain", key+":f-above-one", fn.Pos(), "f > 1 is an error", "an active-slot coefficient above 1 is not rejected")
		okCap := false
		for _, in := range fnInstrs(fn) {
			ph, ok := in.(*ssa.Phi)
			if !ok {
				continue
			}
			ts := map[string]bool{}
			for _, e := range ph.Edges {
				ts[trace(e)] = true
			}
			if len(ph.Edges) == 2 && ts["p0"] && ts["p1"] {
				// the p1 edge comes from the p0 > p1 branch
				for i, e := range ph.Edges {
					if trace(e) == "p1" {
						pred := ph.Block().Preds[i]
						for _, ef := range edgeFacts(fn) {
							if ef.Fact == "p0 > p1" && (ef.From.Succs[ef.Succ] == pred || ef.From == pred) {
								okCap = true
							}
						}
					}
				}
			}
		}
		// or written as poolStake = min(poolStake, totalStake)
		for _, ci := range allCalls(fn) {
			if b, isB := ci.Common().Value.(*ssa.Builtin); isB && b.Name() == "min" && len(ci.Common().Args) == 2 {
				a0, a1 := trace(ci.Common().Args[0]), trace(ci.Common().Args[1])
				if a0 == "p0" && a1 == "p1" || a0 == "p1" && a1 == "p0" {
					okCap = true
				}
			}
		}
		c.Check(okCap, "threshold-domain", key+":sigma-capped", fn.Pos(), "pool stake above total stake is capped to the total", "σ is not capped at 1 (poolStake > totalStake is not replaced by totalStake)")
	}
	// (3) precision threading
	nThread := 0
	for _, fn := range c.pkgFuncs(rel) {
		if fn.Parent() != nil {
			continue
		}
		var tb *ssa.Parameter
		for _, p := range fn.Params {
			if p.Name() == "targetBits" {
				tb = p
			}
		}
		if tb == nil {
			continue
		}
		for _, ci := range allCalls(fn) {
			cal := ci.Common().StaticCallee()
			if cal == nil || cal.Pkg != fn.Pkg {
				continue
			}
			for i, cp := range cal.Params {
				if cp.Name() != "targetBits" && cp.Name() != "terms" {
					continue
				}
				if i >= len(ci.Common().Args) {
					continue
				}
				nThread++
				arg := ci.Common().Args[i]
				dep := dependsOn(arg, tb, 0)
				c.Check(dep, "precision-threaded", ssaFuncKey(fn)+"→"+cal.Name()+":"+cp.Name(), ci.Pos(), "the callee's "+cp.Name()+" derives from this function's targetBits", "the "+cp.Name()+" passed to "+cal.Name()+" is "+shortArg(trace(arg))+", which does not depend on this function's targetBits: when the escalation loop raises the target, this series keeps its old accuracy while the declared error bound shrinks, so the interval can exclude the true value and resolve to the wrong floor")
			}
		}
	}
	if nThread < 8 {
		c.Undecided("precision-threading rule matched only %d call sites", nThread)
	}
	// (4) escalation
	if fn := c.SSAFunc(rel, "escalateThreshold"); fn != nil {
		key := ssaFuncKey(fn)
		var call *ssa.Call
		for _, ci := range allCalls(fn) {
			if cal := ci.Common().StaticCallee(); cal != nil && cal.Name() == "thresholdFromBoundedProbability" {
				call, _ = ci.(*ssa.Call)
			}
		}
		if call == nil {
			c.Bad("escalation-sound", key, fn.Pos(), "escalateThreshold does not compute a bounded threshold")
		} else {
			rets := successReturns(fn)
			reach, _ := reachAvoiding(fn, func(from *ssa.BasicBlock, succ int) bool {
				iff, isIf := from.Instrs[len(from.Instrs)-1].(*ssa.If)
				if !isIf || succ != 0 {
					return false
				}
				ex, isEx := iff.Cond.(*ssa.Extract)
				return isEx && ex.Tuple == ssa.Value(call) && ex.Index == 1
			})
			ok := len(rets) > 0
			for _, r := range rets {
				if reach[r.Block()] {
					ok = false
				}
			}
			c.Check(ok, "escalation-sound", key+":only-resolved", fn.Pos(), "a threshold is returned only when the interval resolved", "escalateThreshold can return a threshold whose interval did not resolve to a single floor")
			for _, r := range rets {
				t := trace(r.(*ssa.Return).Results[0])
				c.Check(t == "thresholdFromBoundedProbability(p0,p1,p2,p3,phi(p4|(phi(p4|…) * 2)))#0" || strings.HasPrefix(t, "thresholdFromBoundedProbability(p0,p1,p2,p3,") && strings.HasSuffix(t, "#0"), "escalation-sound", key+":returns-lower", r.Pos(), "returns the resolved floor", "escalateThreshold returns "+shortArg(t))
			}
			// doubling
			tbArg := call.Call.Args[4]
			ph, isPhi := tbArg.(*ssa.Phi)
			okD := false
			if isPhi {
				for _, e := range ph.Edges {
					if bo, ok := e.(*ssa.BinOp); ok && bo.Op == token.MUL && bo.X == ssa.Value(ph) && desc(bo.Y) == "2" {
						okD = true
					}
				}
			}
			c.Check(okD, "escalation-sound", key+":doubles", fn.Pos(), "the target doubles each round", "the precision target is not doubled between rounds")
		}
	}
	if fn := c.SSAFunc(rel, "thresholdFromBoundedProbability"); fn != nil {
		key := ssaFuncKey(fn)
		traceOpaque["oneMinusFPowerSigmaBounds"] = true
		defer delete(traceOpaque, "oneMinusFPowerSigmaBounds")
		for _, b := range fn.Blocks {
			r, ok := b.Instrs[len(b.Instrs)-1].(*ssa.Return)
			if !ok {
				continue
			}
			lo := traceIP(fn, returnedValue(r, 0))
			res := returnedValue(r, 1)
			okRes := false
			var resT string
			if bo, isBo := res.(*ssa.BinOp); isBo && bo.Op == token.EQL && desc(bo.Y) == "0" {
				resT = traceIP(fn, bo.X)
				okRes = strings.HasPrefix(resT, "Cmp(Int(") && strings.Contains(resT, ",Int(")
			}
			// lo is floor of (1 - hiPower)*upper ; hi is floor of (1 - loPower)*upper
			okCross := strings.Contains(lo, "oneMinusFPowerSigmaBounds(p0,p1,p2,p4)#1") && !strings.Contains(lo, "oneMinusFPowerSigmaBounds(p0,p1,p2,p4)#0")
			okHi := okRes && strings.Contains(resT, "oneMinusFPowerSigmaBounds(p0,p1,p2,p4)#0")
			c.Check(okRes && okCross && okHi, "escalation-sound", key+":resolved-definition", r.Pos(), "resolved ⇔ ⌊(1−hi)·2^k⌋ = ⌊(1−lo)·2^k⌋, and the value returned is the lower floor", "thresholdFromBoundedProbability does not define 'resolved' as equality of the floors of both interval ends (lower end from the upper power bound): "+shortArg(lo)+" / "+shortArg(resT))
			c.Check(strings.Contains(lo, "Mul(") && strings.Contains(lo, "SetInt(") && strings.Contains(lo, ",p3)"), "escalation-sound", key+":scaled", r.Pos(), "the probability is scaled by the upper bound passed in", "the probability bound is not multiplied by the mode's upper bound")
		}
	}
	if fn := c.SSAFunc(rel, "oneMinusFPowerSigmaBounds"); fn != nil {
		key := ssaFuncKey(fn)
		for _, b := range fn.Blocks {
			r, ok := b.Instrs[len(b.Instrs)-1].(*ssa.Return)
			if !ok {
				continue
			}
			lo, hi := trace(returnedValue(r, 0)), trace(returnedValue(r, 1))
			okI := strings.HasPrefix(lo, "Sub(") && strings.HasPrefix(hi, "Add(") && strings.Contains(lo, "expFloatAtTarget(") && strings.Contains(hi, "expFloatAtTarget(")
			c.Check(okI, "interval-shape", key, r.Pos(), "lo = result − ε, hi = result + ε", "the interval is not result ∓ ε: lo="+shortArg(lo)+" hi="+shortArg(hi))
		}
		// epsilon exponent = -targetBits
		okE := false
		for _, ci := range allCalls(fn) {
			if strings.HasSuffix(calleeName(ci.Common()), "(*Float).SetMantExp") {
				e := trace(ci.Common().Args[2])
				okE = e == "-p3" || e == "(0 - p3)" || strings.HasPrefix(e, "-") && strings.HasSuffix(e, "p3")
			}
		}
		c.Check(okE, "interval-shape", key+":epsilon", fn.Pos(), "ε = |result|·2^−targetBits", "the declared relative error is not 2^−targetBits")
		// power = exp(sigma * ln(1-f))
		okP := false
		for _, ci := range allCalls(fn) {
			if cal := ci.Common().StaticCallee(); cal != nil && cal.Name() == "expFloatAtTarget" {
				t := trace(ci.Common().Args[0])
				okP = strings.HasPrefix(t, "Mul(") && strings.Contains(t, "Quo(") && strings.Contains(t, "SetUint64(") && strings.Contains(t, "lnPositiveFloatAtTarget(SetRat(") && strings.Contains(t, ",p0)")
			}
		}
		c.Check(okP, "interval-shape", key+":formula", fn.Pos(), "(1−f)^σ = exp(σ·ln(1−f)) with σ = poolStake/totalStake", "the power is not computed as exp((poolStake/totalStake)·ln(1−f))")
	}
	// (5) exact path
	{
		// the exact path may be its own function or folded into the caller: it is the one big.Int division whose
		// operands are upper·Num(1 − p) and Denom(1 − p)
		var fns []*ssa.Function
		if o := c.FuncObjOpt(rel, "exactOneMinusFPowerSigmaThreshold"); o != nil {
			fns = append(fns, c.SSAOf(o))
		} else {
			fns = c.pkgFuncs(rel)
		}
		ok := false
		var where *ssa.Function
		for _, fn := range fns {
			for _, ci := range allCalls(fn) {
				if bigMethod(ci.Common()) == "Quo" {
					t := trace(ci.Common().Args[1])
					d := trace(ci.Common().Args[2])
					if strings.HasPrefix(t, "Mul(") && strings.Contains(t, ",Num(Sub(") && strings.HasPrefix(d, "Denom(Sub(") && strings.Contains(d, "bigRatOne") && strings.Contains(t, "bigRatOne") {
						ok, where = true, fn
					}
				}
			}
		}
		key := rel + ".exactOneMinusFPowerSigmaThreshold"
		pos := token.NoPos
		if where != nil {
			pos = where.Pos()
		} else if len(fns) == 1 {
			key, pos = ssaFuncKey(fns[0]), fns[0].Pos()
		}
		if len(fns) == 1 {
			key = ssaFuncKey(fns[0])
		}
		c.Check(ok, "exact-path", key, pos, "threshold = ⌊upper·num/den⌋ of 1 − (1−f)^σ", "the exact path does not compute ⌊upperBound·Num/Denom⌋ of 1 − (1−f)^σ")
	}
}

// dependsOn: v is computed from target (through arithmetic, conversions, calls within the package).
func dependsOn(v ssa.Value, target ssa.Value, d int) bool {
	if v == target {
		return true
	}
	if d > 10 {
		return false
	}
	switch x := v.(type) {
	case *ssa.BinOp:
		return dependsOn(x.X, target, d+1) || dependsOn(x.Y, target, d+1)
	case *ssa.UnOp:
		return dependsOn(x.X, target, d+1)
	case *ssa.Convert:
		return dependsOn(x.X, target, d+1)
	case *ssa.ChangeType:
		return dependsOn(x.X, target, d+1)
	case *ssa.Phi:
		for _, e := range x.Edges {
			if !dependsOn(e, target, d+2) {
				return false
			}
		}
		return len(x.Edges) > 0
	case *ssa.Call:
		for _, a := range x.Call.Args {
			if dependsOn(a, target, d+1) {
				return true
			}
		}
	case *ssa.Extract:
		return dependsOn(x.Tuple, target, d+1)
	case *ssa.Alloc:
		if s := singleStore(x); s != nil {
			return dependsOn(s, target, d+1)
		}
	}
	return false
}
