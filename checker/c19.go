package main

import (
	"fmt"
	"go/token"
	"strings"

	"golang.org/x/tools/go/ssa"
)

func init() {
	register(&Prop{
		ID:        "C19",
		Technique: "SSA guard dominance (must-pass-through) on every FinishedFunc call of the handshake client",
		Explanation: "Every call of config.FinishedFunc in a protocol/handshake (*Client) method that reports a selected version (anything but the query-mode completion with version 0 / nil data) must be dominated, on every CFG path, by " +
			"(a) the hit edge of a comma-ok lookup of that same version value in config.ProtocolVersionMap (the offered set), (b) the nil-error edge of the version's own decoder whose result is the data passed on, and " +
			"(c) the equality edge comparing NetworkMagic() of the decoded data with NetworkMagic() of the offered entry. Decided by deleting those edges and testing reachability of the call.",
		Assumptions: []string{"VersionData.NetworkMagic() implementations return the magic field (decided under C20)", "the client handler is the only path from the wire to FinishedFunc (checked: call sites enumerated)"},
		Run:         runC19,
	})
}

func runC19(c *Ctx) {
	n := 0
	for _, fn := range c.pkgFuncs("protocol/handshake") {
		if recvTypeName(fn) != "Client" {
			continue
		}
		for _, ci := range allCalls(fn) {
			cc := ci.Common()
			if cc.IsInvoke() || !strings.HasSuffix(desc(cc.Value), ".config.FinishedFunc") {
				continue
			}
			if len(cc.Args) != 3 {
				c.Undecided("FinishedFunc call with %d args", len(cc.Args))
			}
			key := ssaFuncKey(fn)
			if isZeroConst(cc.Args[1]) && isNilConst(cc.Args[2]) {
				c.Ok("finished-no-version", key, ci.Pos(), "completion without a selected version (query mode)")
				continue
			}
			n++
			ver := desc(cc.Args[1])
			data := desc(cc.Args[2])
			sink := []ssa.Instruction{ci.(ssa.Instruction)}
			// the checks may live in a helper that returns the decoded data together with its verdict: then the
			// call must lie behind the helper's nil error, and the three conditions are required of every success
			// return of the helper (in its own vocabulary)
			if ex, ok := cc.Args[2].(*ssa.Extract); ok {
				if call, ok := ex.Tuple.(*ssa.Call); ok {
					if h := samePkgHelper(fn, &call.Call); h != nil && errorResultIndex(h) >= 0 {
						ei := errorResultIndex(h)
						errFact := fmt.Sprintf("%s#%d == nil", desc(call), ei)
						v := c.mustPass(fn, sink, func(f string) bool { return f == errFact })
						c.Check(v[0].OK, "accept-decoded", key+":via:"+h.Name(), ci.Pos(), "the helper's verdict is checked before its data is passed on", "FinishedFunc is reachable although "+h.Name()+" reported an error ("+v[0].Witness+")")
						hver := ""
						for i, a := range call.Call.Args {
							if desc(a) == ver {
								hver = fmt.Sprintf("p%d", i)
							}
						}
						if hver == "" {
							c.Undecided("%s: the accepted version is not passed to %s", key, h.Name())
						}
						for _, r := range successReturns(h) {
							ret := r.(*ssa.Return)
							c.acceptChecks(h, ssaFuncKey(h), []ssa.Instruction{r}, r.Pos(), hver, desc(returnedValue(ret, ex.Index)))
						}
						continue
					}
				}
			}
			c.acceptChecks(fn, key, sink, ci.Pos(), ver, data)
		}
	}
	if n == 0 {
		c.Undecided("no version-selecting FinishedFunc call found in the handshake client")
	}
}

// acceptChecks: the three conditions under which version data may be passed on (offered, decoded by the version's own
// decoder with its error checked, network magic equal to the offered entry's), required at sinks of fn.
func (c *Ctx) acceptChecks(fn *ssa.Function, key string, sink []ssa.Instruction, pos token.Pos, ver, data string) {
	// (a) offered
	offeredEntry := ""
	va := c.mustPass(fn, sink, func(f string) bool {
		pre := "T:lookup(p0.config.ProtocolVersionMap," + ver + ")#1"
		if f == pre {
			offeredEntry = "lookup(p0.config.ProtocolVersionMap," + ver + ")#0"
			return true
		}
		return false
	})
	c.Check(va[0].OK, "accept-offered", key, pos, "dominated by a hit in the proposed version map for "+ver,
		"FinishedFunc is reachable without the accepted version having been found in config.ProtocolVersionMap ("+va[0].Witness+")")
	// (b) decoded by the version's decoder, and the decoded value is what is passed on
	dataCall := strings.TrimSuffix(data, "#0")
	vb := c.mustPass(fn, sink, func(f string) bool { return f == dataCall+"#1 == nil" })
	okb := vb[0].OK && strings.HasSuffix(data, "#0") && strings.Contains(dataCall, "NewVersionDataFromCborFunc(")
	c.Check(okb, "accept-decoded", key, pos, "version data passed on is the result of the version's decoder and its error was checked",
		"version data handed to FinishedFunc is not the checked result of NewVersionDataFromCborFunc ("+vb[0].Witness+")")
	// (c) magic equality with the offered entry
	// the comparison is recognised on the SSA values (nested descriptions are truncated at different depths in
	// different positions): NetworkMagic(<the data passed on>) == NetworkMagic(<the offered entry>)
	magicFacts := map[string]bool{}
	for _, b := range fn.Blocks {
		iff, ok := b.Instrs[len(b.Instrs)-1].(*ssa.If)
		if !ok {
			continue
		}
		bo, ok := iff.Cond.(*ssa.BinOp)
		if !ok || bo.Op.String() != "==" && bo.Op.String() != "!=" {
			continue
		}
		recvOf := func(v ssa.Value) ssa.Value {
			if cl, ok := v.(*ssa.Call); ok && cl.Call.IsInvoke() && cl.Call.Method.Name() == "NetworkMagic" {
				return cl.Call.Value
			}
			return nil
		}
		rx, ry := recvOf(bo.X), recvOf(bo.Y)
		if rx == nil || ry == nil {
			continue
		}
		isData := func(v ssa.Value) bool { return desc(v) == data }
		isOffered := func(v ssa.Value) bool { return offeredEntry != "" && desc(v) == offeredEntry }
		if isData(rx) && isOffered(ry) || isData(ry) && isOffered(rx) {
			tf, ff := condFacts(iff.Cond)
			if bo.Op.String() == "==" {
				for _, f := range tf {
					magicFacts[f] = true
				}
			} else {
				for _, f := range ff {
					magicFacts[f] = true
				}
			}
		}
	}
	vc := c.mustPass(fn, sink, func(f string) bool {
		if offeredEntry == "" {
			return false
		}
		a := "call:protocol.VersionData.NetworkMagic(" + data + ")"
		b := "call:protocol.VersionData.NetworkMagic(" + offeredEntry + ")"
		return f == a+" == "+b || f == b+" == "+a || magicFacts[f]
	})
	c.Check(vc[0].OK, "accept-magic", key, pos, "dominated by NetworkMagic(decoded) == NetworkMagic(offered entry)",
		"FinishedFunc is reachable without the accepted network magic having been compared with the offered one ("+vc[0].Witness+")")
}
