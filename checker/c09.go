package main

import (
	"fmt"
	"go/ast"
	"go/token"
	"go/types"
	"strings"

	"golang.org/x/tools/go/packages"
	"golang.org/x/tools/go/ssa"
)

func init() {
	register(&Prop{
		ID:        "C09",
		Technique: "who-may-call + lock-region + guard dominance on the muxer's SSA form",
		Explanation: "Structural necessary conditions of intact, correctly routed delivery: (a) the connection is written only by Muxer.Send, once per call, with header and payload assembled in one buffer, inside the sendMutex region; " +
			"(b) the connection is read only through binary.Read / io.ReadFull (whole-header, whole-payload reads that are immune to fragmentation), never by a bare conn.Read, and the delivery is dominated by both reads having succeeded; " +
			"(c) delivery is dominated by PayloadLength != 0 and by a successful receiver lookup (non-nil receiver); (d) the receiver map is indexed by GetProtocolId() of the received header and by role Initiator iff IsResponse(); the three header accessors have one of the accepted bit-flag forms; " +
			"(e) NewSegment returns nil above 65535 bytes, the constant is 65535, Segment values are built only by NewSegment and readLoop; (f) each protocol's sender goroutine forwards synchronously (no go statement) and is the only caller of Muxer.Send.",
		Assumptions: []string{"encoding/binary.Read and io.ReadFull read exactly the requested bytes or fail (stdlib contract)", "data-race freedom beyond the named lock region is not decided"},
		Run:         runC09,
	})
}

func runC09(c *Ctx) {
	funcs := c.pkgFuncs("muxer")
	// ---- (a)+(b): every use of the conn field
	writes := 0
	for _, fn := range funcs {
		for _, b := range fn.Blocks {
			for _, in := range b.Instrs {
				fa, ok := in.(*ssa.FieldAddr)
				if !ok || fieldName(fa.X.Type(), fa.Field) != "conn" || !isNamed(fa.X.Type(), "muxer", "Muxer") {
					continue
				}
				for _, ld := range referrersOf(fa) {
					load, ok := ld.(*ssa.UnOp)
					if !ok {
						if _, isStore := ld.(*ssa.Store); isStore && ld.(*ssa.Store).Addr == fa {
							c.Check(strings.HasSuffix(ssaFuncKey(fn), "muxer.New"), "conn-use", ssaFuncKey(fn)+":store", ld.Pos(), "conn assigned in constructor", "the muxer's conn is reassigned outside New")
							continue
						}
						c.Bad("conn-use", ssaFuncKey(fn)+":addr", ld.Pos(), "address of Muxer.conn escapes (%T)", ld)
						continue
					}
					for _, use := range referrersOf(load) {
						c.classifyConnUse(fn, load, use, &writes)
					}
				}
			}
		}
	}
	c.Floor("conn-use", 5)

	// (a) Send: one Write, in lock region, buffer assembled header-then-payload
	send := c.SSAFunc("muxer", "Muxer.Send")
	var connWrite, binWrite, bufWrite ssa.CallInstruction
	nWrite := 0
	for _, ci := range allCalls(send) {
		switch calleeName(ci.Common()) {
		case "iface:net.Conn.Write":
			connWrite = ci
			nWrite++
		case "encoding/binary.Write":
			binWrite = ci
		case "bytes.(*Buffer).Write":
			bufWrite = ci
		}
	}
	if connWrite == nil {
		c.Bad("send-single-write", "muxer.(*Muxer).Send", send.Pos(), "Send does not write to the connection")
	} else {
		c.Check(nWrite == 1 && !inLoop(connWrite.Block()), "send-single-write", "muxer.(*Muxer).Send", connWrite.Pos(), "exactly one conn.Write per Send, not in a loop",
			fmt.Sprintf("Send performs %d conn.Write calls (or writes in a loop): a segment may be interleaved with another sender's bytes", nWrite))
		held := heldAt(send, connWrite.(ssa.Instruction), ".sendMutex", []string{"Lock"}, []string{"Unlock"})
		c.Check(held, "send-locked", "muxer.(*Muxer).Send", connWrite.Pos(), "conn.Write happens with sendMutex held", "conn.Write is reachable without sendMutex held")
		okBuf := false
		if binWrite != nil && bufWrite != nil {
			arg := connWrite.Common().Args[0]
			bytesCall, _ := arg.(*ssa.Call)
			if bytesCall != nil && calleeName(&bytesCall.Call) == "bytes.(*Buffer).Bytes" {
				buf := bytesCall.Call.Args[0]
				sameBuf := binWrite.Common().Args[0] == nil
				// binary.Write takes io.Writer: MakeInterface(buf)
				if mi, ok := binWrite.Common().Args[0].(*ssa.MakeInterface); ok && mi.X == buf {
					sameBuf = true
				}
				hdr := strings.HasSuffix(desc(binWrite.Common().Args[2]), ".SegmentHeader")
				pl := bufWrite.Common().Args[0] == buf && strings.HasSuffix(desc(bufWrite.Common().Args[1]), ".Payload")
				order := precedes(binWrite.(ssa.Instruction), bufWrite.(ssa.Instruction)) && precedes(bufWrite.(ssa.Instruction), connWrite.(ssa.Instruction))
				okBuf = sameBuf && hdr && pl && order
			}
		}
		c.Check(okBuf, "send-buffer", "muxer.(*Muxer).Send", connWrite.Pos(), "written bytes = one buffer holding SegmentHeader then Payload of the segment", "the bytes written are not header-then-payload of the argument segment assembled in one buffer")
	}

	// (b)+(c)+(d) readLoop
	rl := c.SSAFunc("muxer", "Muxer.readLoop")
	var sinks []ssa.Instruction
	var sentVal ssa.Value
	for _, b := range rl.Blocks {
		for _, in := range b.Instrs {
			if sel, ok := in.(*ssa.Select); ok {
				for _, st := range sel.States {
					if st.Send != nil && strings.HasSuffix(desc(st.Chan), ".ch") {
						sinks = append(sinks, sel)
						sentVal = st.Send
					}
				}
			}
			if snd, ok := in.(*ssa.Send); ok && strings.HasSuffix(desc(snd.Chan), ".ch") {
				sinks = append(sinks, snd)
				sentVal = snd.X
			}
		}
	}
	if len(sinks) != 1 {
		c.Undecided("readLoop: expected exactly one delivery send on a receiver channel, found %d", len(sinks))
	}
	sink := sinks[0]
	key := "muxer.(*Muxer).readLoop"
	guard := func(rule, okMsg, badMsg string, match func(string) bool) {
		v := c.mustPass(rl, sinks, match)
		c.Check(v[0].OK, rule, key, sink.Pos(), okMsg+" "+fmt.Sprint(factsMatching(rl, match)), badMsg+" ("+v[0].Witness+")")
	}
	guard("read-header-ok", "delivery dominated by a successful whole-header read", "a segment can be delivered although the header read failed or was not a full binary.Read of SegmentHeader",
		func(f string) bool {
			if strings.HasPrefix(f, "call:encoding/binary.Read(") && strings.Contains(f, ".conn,") && strings.HasSuffix(f, ") == nil") {
				return true
			}
			// equally good: io.ReadFull into a header buffer (anything but the payload)
			return strings.HasPrefix(f, "call:io.ReadFull(") && strings.Contains(f, ".conn,") && strings.HasSuffix(f, ")#1 == nil") && !strings.HasSuffix(f, ".Payload)#1 == nil")
		})
	guard("read-payload-ok", "delivery dominated by a successful io.ReadFull of the payload", "a segment can be delivered although the payload was not read completely with io.ReadFull",
		func(f string) bool {
			return strings.HasPrefix(f, "call:io.ReadFull(") && strings.Contains(f, ".conn,") && strings.HasSuffix(f, ".Payload)#1 == nil")
		})
	guard("zero-length-rejected", "delivery dominated by PayloadLength != 0", "a zero-length segment can reach a receiver",
		func(f string) bool {
			return strings.HasSuffix(f, ".PayloadLength != 0") || strings.HasSuffix(f, ".PayloadLength > 0")
		})
	// the receiver whose channel is used: non-nil on every path to the delivery, and taken from the registered receivers
	{
		var recv ssa.Value
		switch x := sink.(type) {
		case *ssa.Send:
			recv = receiverOfChan(x.Chan)
		case *ssa.Select:
			for _, st := range x.States {
				if st.Send != nil && st.Send == sentVal {
					recv = receiverOfChan(st.Chan)
				}
			}
		}
		if recv == nil {
			c.Undecided("readLoop: the receiver owning the delivery channel was not identified")
		} else {
			want := desc(recv) + " != nil"
			v := c.mustPass(rl, sinks, func(f string) bool {
				return f == want || (strings.HasPrefix(f, "lookup(") && strings.HasSuffix(f, " != nil") && strings.Contains(f, ".protocolReceivers,"))
			})
			c.Check(v[0].OK, "receiver-found", key, sink.Pos(), "delivery dominated by receiver != nil", "delivery is reachable without a registered receiver having been found ("+v[0].Witness+")")
			// the receiver is looked up for this very segment: a receiver remembered from an earlier segment is right only
			// if both the protocol id and the direction of this segment were compared with the remembered ones
			{
				var carried *ssa.Phi
				seenV := map[ssa.Value]bool{}
				var walkV func(v ssa.Value, d int)
				walkV = func(v ssa.Value, d int) {
					if v == nil || seenV[v] || d > 10 || carried != nil {
						return
					}
					seenV[v] = true
					switch x := v.(type) {
					case *ssa.Phi:
						for i, e := range x.Edges {
							if reachesBlock(x.Block(), x.Block().Preds[i]) && x.Block().Dominates(x.Block().Preds[i]) {
								carried = x // an incoming value arrives over a back edge
								return
							}
							walkV(e, d+1)
						}
					case *ssa.Extract:
						walkV(x.Tuple, d+1)
					case *ssa.Lookup:
						walkV(x.X, d+1)
					case *ssa.UnOp:
						walkV(x.X, d+1)
					case *ssa.FieldAddr:
						walkV(x.X, d+1)
					}
				}
				walkV(recv, 0)
				if carried == nil {
					c.Ok("receiver-per-segment", key, sink.Pos(), "the receiver is looked up for each segment")
				} else {
					roleCompared := false
					for _, in := range fnInstrs(rl) {
						bo, ok := in.(*ssa.BinOp)
						if !ok || (bo.Op != token.EQL && bo.Op != token.NEQ) {
							continue
						}
						tx, ty := trace(bo.X), trace(bo.Y)
						isRole := func(t string) bool { return strings.Contains(t, "IsResponse(") }
						_, px := bo.X.(*ssa.Phi)
						_, py := bo.Y.(*ssa.Phi)
						if (isRole(tx) && py) || (isRole(ty) && px) || (px && py && strings.Contains(typeStr(bo.X.Type()), "ProtocolRole")) {
							roleCompared = true
						}
					}
					if roleCompared {
						c.Undecided("%s: the receiver is remembered across segments and re-used under a comparison this checker did not derive rules for", key)
					} else {
						c.Bad("receiver-per-segment", key, carried.Pos(), "the receiver of a segment can be the one remembered from an earlier segment, and the direction (response bit) of the new segment is never compared with the remembered one: on a connection where both roles of a protocol are registered, a response following a request of the same protocol is delivered to the wrong endpoint")
					}
				}
			}
			c.Check(derivesOnlyFromField(recv, "protocolReceivers", 0, nil), "receiver-found", key+":registered", sink.Pos(), "the receiver is read from the registered receivers", "the receiver delivered to is "+shortArg(trace(recv))+", not one read from protocolReceivers")
		}
	}
	// payload buffer is make([]byte, header.PayloadLength)
	okMake := false
	for _, b := range rl.Blocks {
		for _, in := range b.Instrs {
			if ms, ok := in.(*ssa.MakeSlice); ok && strings.HasSuffix(desc(ms.Len), ".PayloadLength") {
				okMake = true
			}
		}
	}
	c.Check(okMake, "payload-size", key, rl.Pos(), "payload buffer is allocated with the header's PayloadLength", "payload buffer size does not come from the received header's PayloadLength")
	// zero-length and unknown-protocol edges call sendError
	c.checkRejectCallsSendError(rl)

	// (d) routing key and role
	c.checkRouting(rl, sink, sentVal)
	c.checkHeaderAccessors()

	// (e) NewSegment
	ns := c.SSAFunc("muxer", "NewSegment")
	if v := c.ConstInt("muxer", "SegmentMaxPayloadLength"); v != 65535 {
		c.Bad("segment-max", "muxer.SegmentMaxPayloadLength", ns.Pos(), "SegmentMaxPayloadLength is %d, the wire format allows 65535", v)
	} else {
		c.Ok("segment-max", "muxer.SegmentMaxPayloadLength", ns.Pos(), "65535")
	}
	var nonNilRets []ssa.Instruction
	for _, b := range ns.Blocks {
		if r, ok := b.Instrs[len(b.Instrs)-1].(*ssa.Return); ok && !isNilConst(r.Results[0]) {
			nonNilRets = append(nonNilRets, r)
		}
	}
	if len(nonNilRets) == 0 {
		c.Undecided("NewSegment never returns a segment")
	}
	vs := c.mustPass(ns, nonNilRets, func(f string) bool {
		return f == "len(p1) <= 65535" || f == "len(p1) < 65536"
	})
	for _, v := range vs {
		c.Check(v.OK, "segment-length-guard", "muxer.NewSegment", v.Sink.Pos(), "a segment is returned only when len(payload) <= 65535", "NewSegment can return a segment whose payload exceeds 65535 bytes ("+v.Witness+")")
	}
	// who constructs Segment literals
	c.eachFuncDecl(func(rel string) bool { return true }, func(p *packages.Package, fd *ast.FuncDecl, obj *types.Func) {
		ast.Inspect(fd.Body, func(n ast.Node) bool {
			cl, ok := n.(*ast.CompositeLit)
			if !ok || !isNamed(p.TypesInfo.TypeOf(cl), "muxer", "Segment") {
				return true
			}
			k := funcKey(obj)
			c.Check(k == "muxer.NewSegment" || k == "muxer.(*Muxer).readLoop", "segment-constructor", k, cl.Pos(), "Segment built by the length-checked constructor / the reader",
				"a Segment literal is built outside NewSegment/readLoop, bypassing the 65535-byte guard")
			return true
		})
	})
	c.Floor("segment-constructor", 2)

	// (f) sender goroutine
	c.checkSenderGoroutine()
}

func inLoop(b *ssa.BasicBlock) bool {
	// b is in a loop iff b reaches itself
	seen := map[*ssa.BasicBlock]bool{}
	st := append([]*ssa.BasicBlock{}, b.Succs...)
	for len(st) > 0 {
		x := st[len(st)-1]
		st = st[:len(st)-1]
		if x == b {
			return true
		}
		if seen[x] {
			continue
		}
		seen[x] = true
		st = append(st, x.Succs...)
	}
	return false
}

func (c *Ctx) classifyConnUse(fn *ssa.Function, load *ssa.UnOp, use ssa.Instruction, writes *int) {
	fk := ssaFuncKey(fn)
	switch u := use.(type) {
	case ssa.CallInstruction:
		cc := u.Common()
		if cc.IsInvoke() && cc.Value == load {
			m := cc.Method.Name()
			switch m {
			case "Write":
				*writes++
				c.Check(fk == "muxer.(*Muxer).Send", "conn-use", fk+":Write", use.Pos(), "conn.Write in Send", "conn.Write outside Muxer.Send bypasses the send mutex and segment framing")
			case "Close", "SetReadDeadline", "SetDeadline", "SetWriteDeadline", "LocalAddr", "RemoteAddr":
				c.Ok("conn-use", fk+":"+m, use.Pos(), "benign conn method")
			case "Read":
				c.Bad("conn-use", fk+":Read", use.Pos(), "bare conn.Read may return a partial header or payload; only binary.Read/io.ReadFull may read the connection")
			default:
				c.Bad("conn-use", fk+":"+m, use.Pos(), "unrecognised method %s on the muxer connection", m)
			}
			return
		}
		c.Bad("conn-use", fk+":arg", use.Pos(), "muxer connection passed directly to %s", calleeName(cc))
	case *ssa.MakeInterface, *ssa.ChangeInterface:
		for _, u2 := range referrersOf(use.(ssa.Value)) {
			if ci, ok := u2.(ssa.CallInstruction); ok {
				cn := calleeName(ci.Common())
				c.Check(cn == "encoding/binary.Read" || cn == "io.ReadFull", "conn-use", fk+":"+cn, u2.Pos(), "conn read through a full-read helper",
					"muxer connection handed to "+cn+": reads must go through binary.Read/io.ReadFull")
			} else {
				c.Bad("conn-use", fk+":iface", u2.Pos(), "muxer connection flows to %T", u2)
			}
		}
	case *ssa.Store:
		c.Bad("conn-use", fk+":store", use.Pos(), "muxer connection stored elsewhere")
	case *ssa.DebugRef:
	default:
		c.Bad("conn-use", fk+":other", use.Pos(), "unrecognised use of the muxer connection (%T)", use)
	}
}

// checkRejectCallsSendError: the blocks entered on PayloadLength == 0 and on a failed/nil receiver lookup call sendError before returning.
func (c *Ctx) checkRejectCallsSendError(rl *ssa.Function) {
	for _, f := range edgeFacts(rl) {
		var what string
		switch {
		case strings.HasSuffix(f.Fact, ".PayloadLength == 0"):
			what = "zero-length"
		case strings.HasPrefix(f.Fact, "F:lookup(") && strings.Contains(f.Fact, ".protocolReceivers,43981)#1"):
			what = "unknown-protocol"
		case strings.HasPrefix(f.Fact, "lookup(") && strings.HasSuffix(f.Fact, ") == nil") && strings.Contains(f.Fact, ".protocolReceivers,"):
			what = "unregistered-role"
		default:
			continue
		}
		// every path from this edge to a Return passes a sendError call, and cannot reach the loop head again
		start := f.From.Succs[f.Succ]
		ok := true
		seen := map[*ssa.BasicBlock]bool{}
		var walk func(b *ssa.BasicBlock)
		walk = func(b *ssa.BasicBlock) {
			if seen[b] || !ok {
				return
			}
			seen[b] = true
			for _, in := range b.Instrs {
				if ci, isCall := in.(ssa.CallInstruction); isCall && calleeName(ci.Common()) == "muxer.(*Muxer).sendError" {
					return
				}
			}
			if _, isRet := b.Instrs[len(b.Instrs)-1].(*ssa.Return); isRet {
				ok = false
				return
			}
			if len(b.Succs) == 0 {
				return
			}
			for _, s := range b.Succs {
				if s == f.From || s.Dominates(f.From) && s != b {
					// back to the loop: continuing without an error
					ok = false
					return
				}
				walk(s)
			}
		}
		walk(start)
		c.Check(ok, "reject-reports-error", "muxer.(*Muxer).readLoop:"+what, start.Instrs[0].Pos(), "rejection path calls sendError before leaving", "rejection path for "+what+" returns or continues without reporting an error")
	}
	c.Floor("reject-reports-error", 3)
}

func (c *Ctx) checkRouting(rl *ssa.Function, sink ssa.Instruction, sent ssa.Value) {
	key := "muxer.(*Muxer).readLoop"
	// the receiver channel derives from lookup(lookup(protocolReceivers, K), R); the lookups may live in a private helper
	// called from readLoop, in which case the helper's parameters stand for the call's arguments
	toCaller := func(fn *ssa.Function, v ssa.Value) ssa.Value {
		if fn == rl {
			return v
		}
		p, ok := v.(*ssa.Parameter)
		if !ok {
			return v
		}
		idx := -1
		for i, q := range fn.Params {
			if q == p {
				idx = i
			}
		}
		var site ssa.CallInstruction
		n := 0
		for _, ci := range allCalls(rl) {
			if ci.Common().StaticCallee() == fn {
				site = ci
				n++
			}
		}
		if n != 1 || idx < 0 || idx >= len(site.Common().Args) {
			return v
		}
		return site.Common().Args[idx]
	}
	var outer *ssa.Lookup
	var outerFn *ssa.Function
	type innerLk struct {
		lk *ssa.Lookup
		fn *ssa.Function
	}
	var inners []innerLk
	for _, fn := range closureFuncs(rl, 1) {
		for _, in := range fnInstrs(fn) {
			lk, ok := in.(*ssa.Lookup)
			if !ok {
				continue
			}
			if !lk.CommaOk && strings.Contains(desc(lk.X), ".protocolReceivers,") {
				outer, outerFn = lk, fn
			}
			if strings.HasSuffix(desc(lk.X), ".protocolReceivers") {
				inners = append(inners, innerLk{lk, fn})
			}
		}
	}
	if outer == nil {
		c.Undecided("readLoop: receiver lookup by role not found")
		return
	}
	// key of inner lookups: GetProtocolId(<sent>.SegmentHeader) or the ProtocolUnknown constant
	unknown := c.ConstInt("muxer", "ProtocolUnknown")
	sentD := desc(sent)
	wantKey := "call:muxer.(*SegmentHeader).GetProtocolId(" + sentD + ".SegmentHeader)"
	okKeys := true
	nInner := 0
	for _, il := range inners {
		nInner++
		k := desc(toCaller(il.fn, il.lk.Index))
		if k != wantKey && k != fmt.Sprint(unknown) {
			okKeys = false
			c.Bad("route-by-protocol-id", key, il.lk.Pos(), "receiver map indexed by %s, not by the received segment's GetProtocolId()", k)
		}
	}
	if okKeys && nInner > 0 {
		c.Ok("route-by-protocol-id", key, outer.Pos(), "receiver map indexed by GetProtocolId() of the delivered segment (fallback ProtocolUnknown)")
	} else if nInner == 0 {
		c.Undecided("readLoop: no lookup in protocolReceivers")
	}
	roleIdx := toCaller(outerFn, outer.Index)
	// role index: phi with Initiator on the IsResponse()-true edge
	ini := c.ConstInt("muxer", "ProtocolRoleInitiator")
	rsp := c.ConstInt("muxer", "ProtocolRoleResponder")
	phi, ok := roleIdx.(*ssa.Phi)
	good := false
	detail := "role index is " + desc(roleIdx)
	if ok && len(phi.Edges) == 2 {
		good = true
		for i, e := range phi.Edges {
			k, isC := e.(*ssa.Const)
			if !isC {
				good = false
				break
			}
			pred := phi.Block().Preds[i]
			onTrue := edgeImplies(pred, phi.Block(), "T:call:muxer.(*SegmentHeader).IsResponse("+sentD+".SegmentHeader)")
			onFalse := edgeImplies(pred, phi.Block(), "F:call:muxer.(*SegmentHeader).IsResponse("+sentD+".SegmentHeader)")
			switch {
			case onTrue && k.Int64() == ini:
			case onFalse && k.Int64() == rsp:
			default:
				good = false
				detail = fmt.Sprintf("role %d chosen on edge where IsResponse is true=%v false=%v", k.Int64(), onTrue, onFalse)
			}
		}
	}
	c.Check(good, "route-by-direction", key, outer.Pos(), "role = Initiator iff IsResponse() of the delivered segment", "a response is not routed to the initiator side / a request not to the responder side: "+detail)
}

// edgeImplies: the CFG edge pred->succ is only taken when fact holds, i.e. pred (or its unique chain of single-pred ancestors) ends in an If
// whose corresponding successor leads here.
func edgeImplies(pred, succ *ssa.BasicBlock, fact string) bool {
	// case 1: pred itself ends with the If
	check := func(ifb *ssa.BasicBlock, via *ssa.BasicBlock) bool {
		iff, ok := ifb.Instrs[len(ifb.Instrs)-1].(*ssa.If)
		if !ok {
			return false
		}
		tf, ff := condFacts(iff.Cond)
		for i, fs := range [][]string{tf, ff} {
			if ifb.Succs[i] != via {
				continue
			}
			// the other successor must not also be via
			if ifb.Succs[1-i] == via {
				continue
			}
			for _, f := range fs {
				if f == fact {
					return true
				}
			}
		}
		return false
	}
	if check(pred, succ) {
		return true
	}
	// case 2: pred is a straight-line block with a single predecessor that ends with the If
	b := pred
	for i := 0; i < 4 && len(b.Preds) == 1; i++ {
		if check(b.Preds[0], b) {
			return true
		}
		b = b.Preds[0]
	}
	return false
}

func (c *Ctx) checkHeaderAccessors() {
	flag := c.ConstInt("muxer", "segmentProtocolIdResponseFlag")
	c.Check(flag == 0x8000, "response-flag", "muxer.segmentProtocolIdResponseFlag", token.NoPos, "0x8000", fmt.Sprintf("response flag is %#x, the wire format uses bit 15 (0x8000)", flag))
	retDescs := func(name string) []string {
		fn := c.SSAFunc("muxer", name)
		var out []string
		for _, b := range fn.Blocks {
			if r, ok := b.Instrs[len(b.Instrs)-1].(*ssa.Return); ok {
				cond := ""
				// path condition: facts of the idom chain edges leading here (single level is enough for these functions)
				for _, f := range edgeFacts(fn) {
					if f.From.Succs[f.Succ] == b && len(b.Preds) == 1 {
						cond = f.Fact + " => "
					}
				}
				out = append(out, cond+desc(r.Results[0]))
			}
		}
		return out
	}
	accept := map[string][][]string{
		"SegmentHeader.IsResponse": {
			{"((p0.ProtocolId & 32768) > 0)"}, {"((p0.ProtocolId & 32768) != 0)"}, {"(p0.ProtocolId >= 32768)"}, {"((p0.ProtocolId & 32768) == 32768)"},
		},
		"SegmentHeader.IsRequest": {
			{"((p0.ProtocolId & 32768) == 0)"}, {"(p0.ProtocolId < 32768)"}, {"!call:muxer.(*SegmentHeader).IsResponse(p0)"},
		},
		"SegmentHeader.GetProtocolId": {
			{"p0.ProtocolId >= 32768 => (p0.ProtocolId - 32768)", "p0.ProtocolId < 32768 => p0.ProtocolId"},
			{"(p0.ProtocolId & 32767)"}, {"(p0.ProtocolId &^ 32768)"},
		},
	}
	for name, forms := range accept {
		got := retDescs(name)
		ok := false
		for _, form := range forms {
			if sameSet(got, form) {
				ok = true
			}
		}
		fn := c.SSAFunc("muxer", name)
		c.Check(ok, "header-accessor", "muxer."+name, fn.Pos(), "bit-15 form "+strings.Join(got, " ; "), "accessor does not have one of the accepted bit-15 forms: "+strings.Join(got, " ; "))
	}
	// NewSegment adds the flag iff isResponse
	ns := c.SSAFunc("muxer", "NewSegment")
	okFlag := false
	for _, b := range ns.Blocks {
		for _, in := range b.Instrs {
			st, ok := in.(*ssa.Store)
			if !ok || !strings.HasSuffix(desc(st.Addr), ".ProtocolId") {
				continue
			}
			d := desc(st.Val)
			if d == "(p0 + 32768)" || d == "(p0 | 32768)" || strings.HasSuffix(d, ".ProtocolId + 32768)") || strings.HasSuffix(d, ".ProtocolId | 32768)") {
				// must be on the T:p2 edge
				for _, f := range edgeFacts(ns) {
					if f.Fact == "T:p2" && f.From.Succs[f.Succ] == b {
						okFlag = true
					}
				}
			}
		}
	}
	if !okFlag {
		// equivalent form: the id is chosen first (phi of plain id and id+flag, the flagged edge coming from the
		// isResponse-true block) and stored once
		isFlagged := func(d string) bool {
			return d == "(p0 + 32768)" || d == "(p0 | 32768)" || d == "(32768 + p0)" || d == "(32768 | p0)"
		}
		for _, in := range fnInstrs(ns) {
			st, ok := in.(*ssa.Store)
			if !ok || !strings.HasSuffix(desc(st.Addr), ".ProtocolId") {
				continue
			}
			ph, ok := st.Val.(*ssa.Phi)
			if !ok || len(ph.Edges) != 2 {
				continue
			}
			good := true
			for i, e := range ph.Edges {
				pred := ph.Block().Preds[i]
				onTrue := edgeImplies(pred, ph.Block(), "T:p2")
				onFalse := edgeImplies(pred, ph.Block(), "F:p2")
				d := desc(e)
				switch {
				case isFlagged(d) && onTrue:
				case d == "p0" && onFalse:
				default:
					good = false
				}
			}
			if good {
				okFlag = true
			}
		}
	}
	c.Check(okFlag, "header-writer", "muxer.NewSegment", ns.Pos(), "response flag set iff isResponse", "NewSegment does not set the response bit exactly when isResponse is true")
}

func sameSet(a, b []string) bool {
	if len(a) != len(b) {
		return false
	}
	m := map[string]int{}
	for _, x := range a {
		m[x]++
	}
	for _, x := range b {
		m[x]--
	}
	for _, v := range m {
		if v != 0 {
			return false
		}
	}
	return true
}

func (c *Ctx) checkSenderGoroutine() {
	c.W.buildSSA()
	sendFn := c.SSAFunc("muxer", "Muxer.Send")
	// who calls Send (static callees across the module)
	callers := 0
	for _, p := range c.W.Pkgs {
		for _, fn := range c.pkgFuncs(relPkg(p.PkgPath)) {
			for _, ci := range allCalls(fn) {
				if ci.Common().StaticCallee() != sendFn {
					continue
				}
				callers++
				fk := ssaFuncKey(fn)
				isSender := strings.HasPrefix(fk, "muxer.(*Muxer).RegisterProtocol$")
				_, isGo := ci.(*ssa.Go)
				c.Check(isSender && !isGo, "send-caller", fk, ci.Pos(), "Send called synchronously by the per-protocol sender goroutine",
					"Muxer.Send is called from "+fk+" (or in a new goroutine): per-protocol send order is no longer fixed by the sender channel")
				if isSender {
					// the segment sent is the one received from the sender channel in the same loop iteration
					arg := desc(ci.Common().Args[1])
					c.Check(strings.Contains(arg, "select") || strings.HasPrefix(arg, "<-"), "send-forward", fk, ci.Pos(), "forwards the segment just received from the sender channel ("+arg+")",
						"sender goroutine does not forward the segment it received ("+arg+")")
					for _, b := range fn.Blocks {
						for _, in := range b.Instrs {
							if g, ok := in.(*ssa.Go); ok {
								c.Bad("send-caller", fk+":go", g.Pos(), "sender goroutine spawns a goroutine per segment: order is lost")
							}
						}
					}
				}
			}
		}
	}
	if callers == 0 {
		c.Undecided("no caller of Muxer.Send found")
	}
}

// receiverOfChan: for a channel value loaded from a field of a receiver record (recv.ch), the record value; otherwise the channel itself.
func receiverOfChan(ch ssa.Value) ssa.Value {
	if u, ok := ch.(*ssa.UnOp); ok {
		if fa, ok := u.X.(*ssa.FieldAddr); ok {
			return fa.X
		}
	}
	if f, ok := ch.(*ssa.Field); ok {
		return f.X
	}
	return ch
}
