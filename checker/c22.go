package main

import (
	"go/ast"
	"go/types"
	"strings"

	"golang.org/x/tools/go/ssa"
)

func init() {
	register(&Prop{
		ID:        "C22",
		Technique: "byte provenance (def-use) through the chain-sync wrappers + inverse-map table check",
		Explanation: "(1) NewWrappedHeader stores as header bytes element 0 of the raw (RawMessage) decoding of the block bytes it is given - provenance analysis rejects any encoder result; WrappedHeader.MarshalCBOR embeds exactly those bytes in the tag-24 wrapper and UnmarshalCBOR takes them back out of the decoded tag content. " +
			"(2) NewMsgRollForwardNtC wraps the argument bytes: WrappedBlock.BlockCbor is a RawMessage (embedded verbatim by the encoder) built from the parameter, the type from the parameter; the client side returns the decoded WrappedBlock's type and bytes. " +
			"(3) The server maps block type → header era through ledger.BlockToBlockHeaderTypeMap (comma-ok, unknown → error) and the client maps back through BlockHeaderToBlockTypeMap; the two literals are mutually inverse. (4) The client decodes/hashes the header through NewBlockHeaderFromCbor(blockType, HeaderCbor()).Hash() (C01 hash roots).",
		Assumptions: []string{"RawMessage values are written verbatim by the CBOR encoder and tag 24 content round-trips (library)", "C01 for header hashing"},
		Run:         runC22,
	})
}

func runC22(c *Ctx) {
	rel := "protocol/chainsync"
	c.W.buildSSA()
	// (1) NewWrappedHeader
	nw := c.SSAFunc(rel, "NewWrappedHeader")
	found := false
	for _, b := range nw.Blocks {
		for _, in := range b.Instrs {
			st, ok := in.(*ssa.Store)
			if !ok {
				continue
			}
			fa, ok := st.Addr.(*ssa.FieldAddr)
			if !ok || fieldName(fa.X.Type(), fa.Field) != "headerCbor" {
				continue
			}
			found = true
			o := origins(st.Val)
			ok2 := len(o) > 0
			for k := range o {
				if !strings.HasPrefix(k, "raw:") {
					ok2 = false
				}
			}
			// raw element 0 of a decode of the block parameter
			d := desc(st.Val)
			c.Check(ok2 && strings.HasSuffix(d, "[0]"), "header-bytes-raw", ssaFuncKey(nw), st.Pos(), "header bytes are element 0 of the raw decoding of the block ("+originList(o)+")",
				"the wrapped header's bytes derive from "+originList(o)+" ("+shortArg(d)+"): not the header's original bytes inside the block, so a non-canonically encoded header changes on the wire and its hash no longer equals the block hash")
		}
	}
	if !found {
		c.Bad("header-bytes-raw", ssaFuncKey(nw), nw.Pos(), "NewWrappedHeader never sets the header bytes")
	}
	okDec := false
	for _, ci := range allCalls(nw) {
		if calleeName(ci.Common()) == "cbor.Decode" && desc(ci.Common().Args[0]) == "p2" {
			okDec = true
		}
	}
	c.Check(okDec, "header-bytes-raw", ssaFuncKey(nw)+":source", nw.Pos(), "the raw decoding is of the blockCbor argument", "the block bytes argument is not what gets decoded")
	// MarshalCBOR embeds headerCbor in tag 24; UnmarshalCBOR takes tag content
	wm := c.SSAFunc(rel, "WrappedHeader.MarshalCBOR")
	nTag, okTag := 0, true
	for _, b := range wm.Blocks {
		for _, in := range b.Instrs {
			st, ok := in.(*ssa.Store)
			if !ok {
				continue
			}
			fa, ok := st.Addr.(*ssa.FieldAddr)
			if !ok || !strings.HasSuffix(typeStr(fa.X.Type()), "cbor.Tag") {
				continue
			}
			switch fieldName(fa.X.Type(), fa.Field) {
			case "Content":
				nTag++
				if !strings.HasSuffix(desc(st.Val), "p0.headerCbor") {
					okTag = false
				}
			case "Number":
				if desc(st.Val) != "24" {
					okTag = false
				}
			}
		}
	}
	c.Check(nTag >= 1 && okTag, "header-wrapper-writer", ssaFuncKey(wm), wm.Pos(), "tag 24 wrapper carries the stored header bytes (Byron and Shelley+ forms)", "the wire wrapper does not carry the stored header bytes in a tag-24 byte string")
	wu := c.SSAFunc(rel, "WrappedHeader.UnmarshalCBOR")
	nU, okU := 0, true
	for _, b := range wu.Blocks {
		for _, in := range b.Instrs {
			st, ok := in.(*ssa.Store)
			if !ok {
				continue
			}
			fa, ok := st.Addr.(*ssa.FieldAddr)
			if !ok || fieldName(fa.X.Type(), fa.Field) != "headerCbor" {
				continue
			}
			nU++
			d := desc(st.Val)
			t := traceIP(wu, st.Val)
			if !(strings.Contains(d, ".Content") && strings.Contains(d, "assert(")) && !(strings.HasPrefix(t, "assert<Content<")) {
				okU = false
			}
		}
	}
	c.Check(nU >= 1 && okU, "header-wrapper-reader", ssaFuncKey(wu), wu.Pos(), "decoded header bytes are the tag content as received", "the decoder does not take the header bytes from the received tag content")
	// (2) NtC
	nc := c.SSAFunc(rel, "NewMsgRollForwardNtC")
	okWB := false
	for _, ci := range allCalls(nc) {
		if calleeName(ci.Common()) == rel+".NewWrappedBlock" {
			okWB = desc(ci.Common().Args[0]) == "p0" && desc(ci.Common().Args[1]) == "p1"
		}
	}
	if !okWB {
		// the wrapper literal built in place: WrappedBlock{BlockType: blockType, BlockCbor: blockCbor}
		fields := map[string]string{}
		for _, in := range fnInstrs(nc) {
			if st, ok := in.(*ssa.Store); ok {
				if fa, ok := st.Addr.(*ssa.FieldAddr); ok && strings.HasSuffix(strings.TrimPrefix(typeStr(fa.X.Type()), "*"), ".WrappedBlock") {
					fields[fieldName(fa.X.Type(), fa.Field)] = trace(st.Val)
				}
			}
		}
		okWB = fields["BlockType"] == "p0" && fields["BlockCbor"] == "p1"
	}
	c.Check(okWB, "ntc-wrap-args", ssaFuncKey(nc), nc.Pos(), "wraps (blockType, blockCbor) as given", "the NtC roll-forward does not wrap the given type and bytes")
	// WrappedBlock.BlockCbor is RawMessage
	okRaw := false
	if tn, ok := c.Pkg(rel).Types.Scope().Lookup("WrappedBlock").(*types.TypeName); ok {
		if st, ok := tn.Type().Underlying().(*types.Struct); ok {
			for i := 0; i < st.NumFields(); i++ {
				if st.Field(i).Name() == "BlockCbor" && strings.HasSuffix(typeStr(st.Field(i).Type()), "cbor.RawMessage") {
					okRaw = true
				}
			}
		}
	}
	c.Check(okRaw, "ntc-raw-embedding", rel+".WrappedBlock.BlockCbor", nc.Pos(), "block bytes are a RawMessage field (embedded verbatim)", "WrappedBlock.BlockCbor is not a RawMessage: the block would be re-encoded (as a byte string or canonicalised)")
	nwb := c.SSAFunc(rel, "NewWrappedBlock")
	okCtor := false
	for _, b := range nwb.Blocks {
		for _, in := range b.Instrs {
			if st, ok := in.(*ssa.Store); ok {
				if fa, ok := st.Addr.(*ssa.FieldAddr); ok && fieldName(fa.X.Type(), fa.Field) == "BlockCbor" && desc(st.Val) == "p1" {
					okCtor = true
				}
			}
		}
	}
	c.Check(okCtor, "ntc-wrap-args", ssaFuncKey(nwb), nwb.Pos(), "constructor stores the given bytes", "NewWrappedBlock does not store the bytes it is given")
	um := c.SSAFunc(rel, "MsgRollForwardNtC.UnmarshalCBOR")
	okB, okT := false, false
	for _, b := range um.Blocks {
		for _, in := range b.Instrs {
			if st, ok := in.(*ssa.Store); ok {
				if fa, ok := st.Addr.(*ssa.FieldAddr); ok {
					switch fieldName(fa.X.Type(), fa.Field) {
					case "blockCbor":
						okB = strings.HasSuffix(desc(st.Val), "WrappedBlock.BlockCbor") || isFieldOfNamed(st.Val, "WrappedBlock", "BlockCbor")
					case "blockType":
						okT = strings.HasSuffix(desc(st.Val), "WrappedBlock.BlockType") || isFieldOfNamed(st.Val, "WrappedBlock", "BlockType")
					}
				}
			}
		}
	}
	c.Check(okB && okT, "ntc-unwrap", ssaFuncKey(um), um.Pos(), "client reports the decoded wrapper's type and bytes", "the NtC decoder does not report the wrapped block's own type/bytes")
	for _, acc := range [][2]string{{"MsgRollForwardNtC.BlockCbor", ".blockCbor"}, {"MsgRollForwardNtC.BlockType", ".blockType"}, {"WrappedHeader.HeaderCbor", ".headerCbor"}} {
		fn := c.SSAFunc(rel, acc[0])
		ok := false
		for _, b := range fn.Blocks {
			if r, isR := b.Instrs[len(b.Instrs)-1].(*ssa.Return); isR && strings.HasSuffix(desc(r.Results[0]), acc[1]) {
				ok = true
			}
		}
		c.Check(ok, "accessor-returns-field", ssaFuncKey(fn), fn.Pos(), "returns the stored field", "accessor does not return the stored field "+acc[1])
	}
	// (3) maps
	c.checkInverseMaps("ledger", "BlockToBlockHeaderTypeMap", "BlockHeaderToBlockTypeMap")
	srv := c.SSAFunc(rel, "Server.RollForward")
	okSrv := false
	for _, ci := range allCalls(srv) {
		if calleeName(ci.Common()) == rel+".NewMsgRollForwardNtN" {
			a := ci.Common().Args
			okSrv = strings.Contains(desc(a[0]), "lookup(global:ledger.BlockToBlockHeaderTypeMap,p1)#0") && desc(a[2]) == "p2"
		}
	}
	c.Check(okSrv, "server-era-mapping", ssaFuncKey(srv), srv.Pos(), "NtN roll-forward uses era = BlockToBlockHeaderTypeMap[blockType] and the block bytes as given", "the server does not derive the header era from BlockToBlockHeaderTypeMap[blockType] / pass the block bytes through")
	vs := c.mustPass(srv, instrsOf(callsTo(srv, func(n string) bool { return n == rel+".NewMsgRollForwardNtN" })), func(f string) bool {
		return f == "T:lookup(global:ledger.BlockToBlockHeaderTypeMap,p1)#1"
	})
	for _, v := range vs {
		c.Check(v.OK, "server-era-mapping", ssaFuncKey(srv)+":known", srv.Pos(), "unknown block types are refused", "a block type missing from the map is still sent (era 0)")
	}
	// (4) client
	hr := c.SSAFunc(rel, "Client.handleRollForward")
	okCl, okHash := false, false
	for _, f := range withAnon(hr) {
		for _, ci := range allCalls(f) {
			if calleeName(ci.Common()) == "ledger.NewBlockHeaderFromCbor" {
				a := ci.Common().Args
				okCl = strings.Contains(desc(a[0]), "lookup(global:ledger.BlockHeaderToBlockTypeMap,") && strings.Contains(desc(a[1]), "HeaderCbor(")
			}
			if calleeName(ci.Common()) == "iface:ledger/common.BlockHeader.Hash" || strings.HasSuffix(calleeName(ci.Common()), "BlockHeader.Hash") {
				okHash = true
			}
		}
	}
	c.Check(okCl, "client-era-mapping", ssaFuncKey(hr), hr.Pos(), "header decoded with blockType = BlockHeaderToBlockTypeMap[era] from the received header bytes", "the client does not decode the received header bytes with the block type mapped from the header era")
	c.Check(okHash, "client-hash", ssaFuncKey(hr), hr.Pos(), "points are built from the decoded header's Hash()", "the client does not take the block hash from the decoded header")
}

func instrsOf(cis []ssa.CallInstruction) []ssa.Instruction {
	var out []ssa.Instruction
	for _, ci := range cis {
		out = append(out, ci.(ssa.Instruction))
	}
	return out
}

// checkInverseMaps reads two package-level map[uint]uint literals and checks they are mutually inverse.
func (c *Ctx) checkInverseMaps(rel, a, b string) {
	read := func(name string) (map[int64]int64, bool) {
		p := c.Pkg(rel)
		v, ok := p.Types.Scope().Lookup(name).(*types.Var)
		if !ok {
			return nil, false
		}
		init, ip := c.pkgVarInit(v)
		cl, ok := unparen(init).(*ast.CompositeLit)
		if !ok {
			return nil, false
		}
		m := map[int64]int64{}
		for _, el := range cl.Elts {
			kv, ok := el.(*ast.KeyValueExpr)
			if !ok {
				return nil, false
			}
			k, ok1 := constInt(ip.TypesInfo, kv.Key)
			x, ok2 := constInt(ip.TypesInfo, kv.Value)
			if !ok1 || !ok2 {
				return nil, false
			}
			if _, dup := m[k]; dup {
				return nil, false
			}
			m[k] = x
		}
		return m, true
	}
	ma, oka := read(a)
	mb, okb := read(b)
	if !oka || !okb {
		c.Bad("era-maps-inverse", rel+"."+a, 0, "map literals %s / %s are not readable constant tables (or contain duplicate keys)", a, b)
		return
	}
	ok := len(ma) == len(mb) && len(ma) > 0
	for k, v := range ma {
		if mb[v] != k {
			ok = false
		}
		if _, in := mb[v]; !in {
			ok = false
		}
	}
	c.Check(ok, "era-maps-inverse", rel+"."+a+"~"+b, 0, "the two tables are mutually inverse bijections", "BlockToBlockHeaderTypeMap and BlockHeaderToBlockTypeMap are not mutually inverse: a block type does not map back to itself through its header era")
}

// isFieldOfNamed: v reads field `field` of a value whose (pointer-stripped) named type is typeName.
func isFieldOfNamed(v ssa.Value, typeName, field string) bool {
	for i := 0; i < 4; i++ {
		switch x := v.(type) {
		case *ssa.UnOp:
			v = x.X
			continue
		case *ssa.ChangeType:
			v = x.X
			continue
		case *ssa.Convert:
			v = x.X
			continue
		case *ssa.FieldAddr:
			return fieldName(x.X.Type(), x.Field) == field && strings.HasSuffix(strings.TrimPrefix(typeStr(x.X.Type()), "*"), "."+typeName)
		case *ssa.Field:
			return fieldName(x.X.Type(), x.Field) == field && strings.HasSuffix(typeStr(x.X.Type()), "."+typeName)
		}
		break
	}
	return false
}
