package main

import (
	"fmt"
	"go/token"
	"sort"
	"strings"

	"golang.org/x/tools/go/ssa"
)

func init() {
	register(&Prop{
		ID:        "C07",
		Technique: "def-use taint (assumed header size must not reach an offset), header/array correspondence in accumulation loops, bound-guard dominance",
		Explanation: "(1) Taint: no value stored into a ByteRange.Offset (nor a bound of a slice of block bytes) in ledger/common derives from a count→size function (cborArrayHeaderSize / cbor.ArrayHeaderSize / MapHeaderSize), i.e. from a header size assumed from an element count; sizes must be read from the bytes. " +
			"(2) Correspondence: every position accumulator pos = init; pos += len(item) over the raw items of an array L must start from a header size read from the very bytes L was decoded from (or the literal 1 of an indefinite header), never from a sibling array's header. " +
			"(3) The public Extract*Cbor slicers return a sub-slice only on the pass edge of offset+length <= len(block), computed in 64 bits.",
		Assumptions: []string{"cbor.StreamDecoder positions and RawMessage lengths are exact (library contract)", "completeness of what is reported (e.g. no ranges for blocks the streaming decoder does not understand) is not decided", "map/array element order as decoded is the wire order"},
		Run:         runC07,
	})
}

// headerReaders: functions that read a container header size from the bytes (allowed sources).
func isHeaderReader(cn string) bool {
	for _, s := range []string{".cborArrayHeaderSizeOf", ".cborArrayInfo", ".cborMapInfo", "cbor.ArrayInfo", "cbor.MapInfo", ".cborArrayHeaderSizeFromBytes", ".cborMapHeaderSizeOf"} {
		if strings.HasSuffix(cn, s) {
			return true
		}
	}
	return false
}

// sliceBack collects calls reachable in the backward slice of v (through arithmetic, conversions, phis, extracts, loads of local allocs).
func sliceBackCalls(v ssa.Value) []*ssa.Call {
	var out []*ssa.Call
	seen := map[ssa.Value]bool{}
	var walk func(v ssa.Value, d int)
	walk = func(v ssa.Value, d int) {
		if v == nil || seen[v] || d > 14 {
			return
		}
		seen[v] = true
		switch x := v.(type) {
		case *ssa.Call:
			out = append(out, x)
			// do not descend into arguments of header readers (their argument is bytes, not a position)
			cn := calleeName(&x.Call)
			if cn == "len" || cn == "min" || cn == "max" {
				for _, a := range x.Call.Args {
					walk(a, d+1)
				}
			}
		case *ssa.BinOp:
			walk(x.X, d+1)
			walk(x.Y, d+1)
		case *ssa.Convert:
			walk(x.X, d+1)
		case *ssa.ChangeType:
			walk(x.X, d+1)
		case *ssa.Phi:
			for _, e := range x.Edges {
				walk(e, d+1)
			}
		case *ssa.Extract:
			walk(x.Tuple, d+1)
		case *ssa.UnOp:
			if al, ok := x.X.(*ssa.Alloc); ok {
				for _, u := range referrersOf(al) {
					if st, ok := u.(*ssa.Store); ok && st.Addr == al {
						walk(st.Val, d+1)
					}
				}
			}
		}
	}
	walk(v, 0)
	return out
}

// checkHeaderReaders: the functions the offset code trusts to read a container header's size from the bytes do
// return the RFC 8949 width for every initial byte: 1 for a count in the initial byte or an indefinite header,
// 2/3/5/9 for a 1/2/4/8-byte count, and 0 (not such a container) otherwise. All 256 initial bytes are evaluated.
func (c *Ctx) checkHeaderReaders() {
	n := 0
	for _, hr := range []struct {
		rel, name string
		idx       int
		major     int64
	}{
		{"ledger/common", "cborArrayInfo", 1, 4}, {"ledger/common", "cborMapInfo", 1, 5},
		{"ledger/common", "cborArrayHeaderSizeOf", 0, 4}, {"ledger/common", "cborMapHeaderSizeOf", 0, 5},
		{"cbor", "ArrayInfo", 1, 4}, {"cbor", "MapInfo", 1, 5},
	} {
		var fn *ssa.Function
		if fo := c.FuncObjOpt(hr.rel, hr.name); fo != nil {
			fn = c.SSAOf(fo)
		}
		if fn == nil || len(fn.Params) != 1 || len(fn.Blocks) == 0 {
			continue
		}
		n++
		key := ssaFuncKey(fn)
		wrong, undec := headerWidthVerdict(fn, hr.idx, hr.major)
		if undec != "" {
			c.Undecided("%s: the header width for initial byte %s is not a constant this checker can evaluate", key, undec)
			continue
		}
		if len(wrong) > 6 {
			wrong = append(wrong[:6], fmt.Sprintf("… %d initial bytes", len(wrong)))
		}
		c.Check(len(wrong) == 0, "header-width-table", key, fn.Pos(), "header width 1/2/3/5/9 by additional info for all 256 initial bytes", "the header width read from the bytes is wrong for initial byte "+strings.Join(wrong, ", ")+": every offset computed behind such a header is shifted")
		// (count, width, indefinite) readers: when an indefinite header can come back with a negative count, every caller
		// that gives up on "count < 0" must also look at the indefinite flag — otherwise indefinite containers, which the
		// decoders accept, get no offsets
		if hr.idx == 1 && fn.Signature.Results().Len() == 3 {
			indef := int64(hr.major<<5 | 31)
			rs, ok := constResults(fn, 0, map[string]int64{"p0[0]": indef, "len(p0)": 16}, 0)
			neg := false
			for r := range rs {
				if r < 0 {
					neg = true
				}
			}
			if ok && neg {
				for _, g := range c.pkgFuncs(hr.rel) {
					for _, ci := range allCalls(g) {
						if ci.Common().StaticCallee() != fn || ci.Value() == nil {
							continue
						}
						var cnt, flag ssa.Value
						for _, u := range referrersOf(ci.Value()) {
							if ex, isEx := u.(*ssa.Extract); isEx {
								switch ex.Index {
								case 0:
									cnt = ex
								case 2:
									flag = ex
								}
							}
						}
						if cnt == nil {
							continue
						}
						for _, u := range referrersOf(cnt) {
							bo, isBo := u.(*ssa.BinOp)
							if !isBo || bo.Op != token.LSS || bo.X != cnt || desc(bo.Y) != "0" {
								continue
							}
							for _, w := range referrersOf(bo) {
								iff, isIf := w.(*ssa.If)
								if !isIf {
									continue
								}
								// the true successor must test the indefinite flag before giving up
								tb := iff.Block().Succs[0]
								consults := false
								if i2, ok2 := tb.Instrs[len(tb.Instrs)-1].(*ssa.If); ok2 && flag != nil && usesValue(i2.Cond, flag) {
									consults = true
								}
								c.Check(consults, "header-width-table", ssaFuncKey(g)+":"+fn.Name()+":count<0", bo.Pos(), "a negative count is a failure only when the header is not indefinite", fn.Name()+" now reports a negative count for an indefinite header, and "+ssaFuncKey(g)+" gives up on count < 0 without looking at the indefinite flag: containers written with indefinite length, which the decoders accept, get no offsets")
							}
						}
					}
				}
			}
		}
	}
	c.Floor("header-width-table", n)
}

// headerWidthVerdict evaluates fn's result idx for all 256 initial bytes of its []byte parameter (first parameter) and
// compares with the RFC 8949 header width of a container of the given major type; 0 (and negative) results mean "not
// such a container / rejected" and are always acceptable next to the right width.
func headerWidthVerdict(fn *ssa.Function, idx int, major int64) (wrong []string, undec string) {
	for v := int64(0); v < 256; v++ {
		want := int64(0)
		if v>>5 == major {
			switch ai := v & 31; {
			case ai <= 23 || ai == 31:
				want = 1
			case ai == 24:
				want = 2
			case ai == 25:
				want = 3
			case ai == 26:
				want = 5
			case ai == 27:
				want = 9
			}
		}
		rs, ok := constResults(fn, idx, map[string]int64{"p0[0]": v, "len(p0)": 16}, 0)
		if !ok {
			return nil, fmt.Sprintf("%#x", v)
		}
		if len(rs) == 0 {
			continue // every feasible return is an error
		}
		good := rs[want] || want == 0
		for r := range rs {
			if r != want && r > 0 {
				good = false
			}
		}
		if !good {
			var got []string
			for r := range rs {
				got = append(got, fmt.Sprint(r))
			}
			sort.Strings(got)
			wrong = append(wrong, fmt.Sprintf("%#x→%s (RFC 8949: %d)", v, strings.Join(got, "/"), want))
		}
	}
	return wrong, ""
}

func runC07(c *Ctx) {
	c.W.buildSSA()
	c.checkHeaderReaders()
	nOff := 0
	nAcc := 0
	for _, fn := range c.pkgFuncs("ledger/common") {
		fk := ssaFuncKey(fn)
		// (1) taint on Offset stores
		for _, b := range fn.Blocks {
			for _, in := range b.Instrs {
				st, ok := in.(*ssa.Store)
				if !ok {
					continue
				}
				fa, ok := st.Addr.(*ssa.FieldAddr)
				if !ok {
					continue
				}
				fname := fieldName(fa.X.Type(), fa.Field)
				if !(fname == "Offset" && strings.HasSuffix(typeStr(fa.X.Type()), "ByteRange") || fname == "offset") {
					continue
				}
				nOff++
				bad := ""
				for _, call := range sliceBackCalls(st.Val) {
					cn := calleeName(&call.Call)
					if strings.HasSuffix(cn, ".cborArrayHeaderSize") || strings.HasSuffix(cn, ".ArrayHeaderSize") || strings.HasSuffix(cn, ".MapHeaderSize") || strings.HasSuffix(cn, ".cborMapHeaderSize") {
						bad = cn
					}
				}
				c.Check(bad == "", "offset-not-assumed", fmt.Sprintf("%s#%d", fk, countKey(fk)), st.Pos(), "offset is built from sizes read from the bytes and lengths of raw items", "a reported offset derives from "+bad+", a header size assumed from an element count: wrong for non-minimally encoded containers")
			}
		}
		// (2) accumulators
		for _, b := range fn.Blocks {
			for _, in := range b.Instrs {
				phi, ok := in.(*ssa.Phi)
				if !ok || len(phi.Edges) != 2 {
					continue
				}
				// back edge: phi + conv(len(item)) where item = L[i] (RawMessage element)
				var initV ssa.Value
				var list ssa.Value
				for i, e := range phi.Edges {
					if bo, ok := e.(*ssa.BinOp); ok && bo.Op == token.ADD && (bo.X == phi || bo.Y == phi) {
						other := bo.Y
						if bo.Y == phi {
							other = bo.X
						}
						if l := lenOfRawElem(other); l != nil {
							list = l
							initV = phi.Edges[1-i]
						}
					}
				}
				if list == nil || initV == nil {
					continue
				}
				// does this accumulator feed an Offset? (else it is not a position)
				if !feedsOffset(phi) {
					continue
				}
				nAcc++
				src := decodeSourceOf(fn, list)
				key := fmt.Sprintf("%s:acc(%s)", fk, shortArg(desc(list)))
				var hdr []string
				okHdr := false
				hasReader := false
				for _, call := range sliceBackCalls(initV) {
					cn := calleeName(&call.Call)
					if isHeaderReader(cn) {
						hasReader = true
						a := desc(call.Call.Args[0])
						hdr = append(hdr, a)
						if src != "" && sameContainer(a, src) {
							okHdr = true
						}
					}
				}
				if src == "" {
					c.Ok("accumulator-header", key, phi.Pos(), "items come from a stream decoder over the container (positions are the decoder's)")
					continue
				}
				if !hasReader {
					// header may be the stream decoder's own position bookkeeping: accept when no header reader is involved at all
					c.Ok("accumulator-header", key, phi.Pos(), "start position does not involve a header-size read (taken from decoder positions)")
					continue
				}
				c.Check(okHdr, "accumulator-header", key, phi.Pos(), "positions inside the array start after that array's own header ("+src+")",
					fmt.Sprintf("items of %s are positioned with the header size of %v: another container's header is used, so every item is shifted when the two headers differ in width", src, hdr))
			}
		}
	}
	if nOff < 12 {
		c.Undecided("only %d ByteRange.Offset stores found in ledger/common (20+ confirmed)", nOff)
	}
	if nAcc < 6 {
		c.Undecided("only %d position accumulators found (8 confirmed)", nAcc)
	}
	// (3) slicers
	for _, name := range []string{"ExtractOutputCbor", "ExtractTransactionBodyCbor", "ExtractWitnessCbor"} {
		fn := c.SSAFunc("ledger/common", name)
		var rets []ssa.Instruction
		for _, b := range fn.Blocks {
			if r, ok := b.Instrs[len(b.Instrs)-1].(*ssa.Return); ok && !isNilConst(r.Results[0]) {
				rets = append(rets, r)
				if sl, ok := r.Results[0].(*ssa.Slice); !ok || sl.X != fn.Params[0] {
					c.Bad("slice-bounded", "ledger/common."+name+":value", r.Pos(), "does not return a sub-slice of the block data")
				}
			}
		}
		vs := c.mustPass(fn, rets, func(f string) bool {
			return strings.HasSuffix(f, " <= len(p0)") && strings.Contains(f, ".Offset + ") && strings.Contains(f, ".Length")
		})
		for i, v := range vs {
			c.Check(v.OK, "slice-bounded", "ledger/common."+name, rets[i].Pos(), "slice returned only when offset+length <= len(block)", "a range can be sliced without offset+length <= len(block) having been checked ("+v.Witness+")")
		}
		if len(rets) == 0 {
			c.Bad("slice-bounded", "ledger/common."+name, fn.Pos(), "never returns data")
		}
	}
}

var keyCounts = map[string]int{}

func countKey(k string) int { keyCounts[k]++; return keyCounts[k] }

// lenOfRawElem: v is (a conversion of) len(L[i]) where L's elements are RawMessage; returns L (the slice value).
func lenOfRawElem(v ssa.Value) ssa.Value {
	for {
		switch x := v.(type) {
		case *ssa.Convert:
			v = x.X
			continue
		case *ssa.Call:
			if calleeName(&x.Call) != "len" {
				return nil
			}
			a := x.Call.Args[0]
			for {
				switch y := a.(type) {
				case *ssa.Convert:
					a = y.X
					continue
				case *ssa.ChangeType:
					a = y.X
					continue
				case *ssa.UnOp:
					if ia, ok := y.X.(*ssa.IndexAddr); ok && strings.Contains(typeStr(ia.X.Type()), "RawMessage") {
						return ia.X
					}
					return nil
				case *ssa.Index:
					if strings.Contains(typeStr(y.X.Type()), "RawMessage") {
						return y.X
					}
					return nil
				}
				return nil
			}
		}
		return nil
	}
}

func feedsOffset(phi *ssa.Phi) bool {
	seen := map[ssa.Value]bool{}
	var walk func(v ssa.Value, d int) bool
	walk = func(v ssa.Value, d int) bool {
		if seen[v] || d > 8 {
			return false
		}
		seen[v] = true
		for _, u := range referrersOf(v) {
			switch x := u.(type) {
			case *ssa.Store:
				if fa, ok := x.Addr.(*ssa.FieldAddr); ok {
					n := fieldName(fa.X.Type(), fa.Field)
					if n == "Offset" || n == "offset" {
						return true
					}
				}
				if al, ok := x.Addr.(*ssa.Alloc); ok {
					for _, u2 := range referrersOf(al) {
						if ld, ok := u2.(*ssa.UnOp); ok && walk(ld, d+1) {
							return true
						}
					}
				}
			case *ssa.BinOp:
				if walk(x, d+1) {
					return true
				}
			case *ssa.Convert:
				if walk(x, d+1) {
					return true
				}
			case *ssa.Phi:
				if walk(x, d+1) {
					return true
				}
			case ssa.CallInstruction:
				// passed as base offset to a helper that records ranges
				if sc := x.Common().StaticCallee(); sc != nil && strings.Contains(strings.ToLower(sc.Name()), "offset") {
					return true
				}
			}
		}
		return false
	}
	return walk(phi, 0)
}

// decodeSourceOf: list is a load of an Alloc filled by cbor.Decode(S, &list): returns desc(S).
func decodeSourceOf(fn *ssa.Function, list ssa.Value) string {
	ld, ok := list.(*ssa.UnOp)
	if !ok {
		return ""
	}
	al, ok := ld.X.(*ssa.Alloc)
	if !ok {
		return ""
	}
	for _, ci := range allCalls(fn) {
		if calleeName(ci.Common()) == "cbor.Decode" && len(ci.Common().Args) == 2 && rootValue(ci.Common().Args[1], 0) == al {
			return desc(ci.Common().Args[0])
		}
	}
	return ""
}

// sameContainer: a header-reader argument denotes the same bytes as the decode source (allowing a re-slice from its start, e.g. data[pos:] vs data[pos:end]).
func sameContainer(a, src string) bool {
	if a == src {
		return true
	}
	strip := func(s string) string {
		if i := strings.LastIndex(s, "["); i > 0 && strings.HasSuffix(s, "]") && strings.Contains(s[i:], ":") {
			lo := s[i+1 : strings.Index(s[i:], ":")+i]
			return s[:i] + "@" + lo
		}
		return s
	}
	return strip(a) == strip(src)
}
