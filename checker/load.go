package main

import (
	"encoding/json"
	"fmt"
	"go/ast"
	"go/constant"
	"go/token"
	"go/types"
	"os"
	"os/exec"
	"path/filepath"
	"sort"
	"strings"
	"sync"

	"golang.org/x/tools/go/callgraph"
	"golang.org/x/tools/go/callgraph/cha"
	"golang.org/x/tools/go/callgraph/vta"
	"golang.org/x/tools/go/packages"
	"golang.org/x/tools/go/ssa"
	"golang.org/x/tools/go/ssa/ssautil"
)

const modPath = "github.com/blinklabs-io/gouroboros"

type World struct {
	Repo  string
	Pkgs  []*packages.Package
	ByPth map[string]*packages.Package
	Fset  *token.FileSet

	ssaOnce sync.Once
	Prog    *ssa.Program
	SSAPkgs map[string]*ssa.Package

	cgOnce sync.Once
	CG     *callgraph.Graph
	thorough bool

	declOnce sync.Once
	decls    map[*types.Func]*ast.FuncDecl
	declPkg  map[*types.Func]*packages.Package
}

func goEnv() []string {
	env := []string{}
	for _, kv := range os.Environ() {
		k := strings.SplitN(kv, "=", 2)[0]
		switch k {
		case "GOFLAGS", "GOPROXY", "GOSUMDB", "GOTOOLCHAIN", "GOWORK", "PATH", "GOARCH", "GOOS":
			continue
		}
		env = append(env, kv)
	}
	env = append(env,
		"PATH=/opt/veriftools/go1.26.8/bin:"+os.Getenv("PATH"),
		"GOTOOLCHAIN=local", "GOFLAGS=-mod=mod", "GOPROXY=off", "GOSUMDB=off", "GOWORK=off",
	)
	return env
}

func loadWorld(repo string, thorough bool) (*World, error) {
	abs, err := filepath.Abs(repo)
	if err != nil {
		return nil, err
	}
	fset := token.NewFileSet()
	cfg := &packages.Config{
		Mode: packages.NeedName | packages.NeedFiles | packages.NeedCompiledGoFiles | packages.NeedImports |
			packages.NeedTypes | packages.NeedSyntax | packages.NeedTypesInfo |
			packages.NeedTypesSizes | packages.NeedModule,
		Dir:   abs,
		Fset:  fset,
		Env:   goEnv(),
		Tests: false,
	}
	// LoadSyntax: module packages are type-checked from source, everything
	// outside the module comes from export data.
	pkgs, err := packages.Load(cfg, "./...")
	if err != nil {
		return nil, err
	}
	if len(pkgs) == 0 {
		return nil, fmt.Errorf("zero packages loaded from %s", abs)
	}
	w := &World{Repo: abs, Fset: fset, ByPth: map[string]*packages.Package{}, thorough: thorough}
	var errs []string
	for _, p := range pkgs {
		if !strings.HasPrefix(p.PkgPath, modPath) {
			continue
		}
		if len(p.GoFiles) == 0 && len(p.CompiledGoFiles) == 0 {
			continue // test-only package (no library code)
		}
		for _, e := range p.Errors {
			errs = append(errs, p.PkgPath+": "+e.Error())
		}
		if p.Types == nil || p.TypesInfo == nil || len(p.Syntax) == 0 {
			errs = append(errs, p.PkgPath+": no type information / syntax")
		}
		w.Pkgs = append(w.Pkgs, p)
		w.ByPth[p.PkgPath] = p
	}
	if len(errs) > 0 {
		return nil, fmt.Errorf("package errors:\n  %s", strings.Join(errs, "\n  "))
	}
	if len(w.Pkgs) < 30 {
		return nil, fmt.Errorf("only %d module packages loaded (expected about 41)", len(w.Pkgs))
	}
	sort.Slice(w.Pkgs, func(i, j int) bool { return w.Pkgs[i].PkgPath < w.Pkgs[j].PkgPath })
	return w, nil
}

func (w *World) head() string {
	out, err := exec.Command("git", "-C", w.Repo, "rev-parse", "--short", "HEAD").Output()
	if err != nil {
		return "unknown"
	}
	dirty, _ := exec.Command("git", "-C", w.Repo, "status", "--porcelain", "--untracked-files=no").Output()
	s := strings.TrimSpace(string(out))
	if len(strings.TrimSpace(string(dirty))) > 0 {
		s += "+dirty"
	}
	return s
}

func (w *World) buildSSA() {
	w.ssaOnce.Do(func() {
		prog, spkgs := ssautil.Packages(w.Pkgs, ssa.InstantiateGenerics)
		prog.Build()
		w.Prog = prog
		w.SSAPkgs = map[string]*ssa.Package{}
		for _, sp := range spkgs {
			if sp != nil {
				w.SSAPkgs[sp.Pkg.Path()] = sp
			}
		}
		for _, p := range w.Pkgs {
			if sp := prog.Package(p.Types); sp != nil {
				w.SSAPkgs[p.PkgPath] = sp
			}
		}
	})
}

func (w *World) numFuncs() int {
	if w.Prog == nil {
		n := 0
		for _, p := range w.Pkgs {
			for _, f := range p.Syntax {
				for _, d := range f.Decls {
					if _, ok := d.(*ast.FuncDecl); ok {
						n++
					}
				}
			}
		}
		return n
	}
	return len(ssautil.AllFunctions(w.Prog))
}

// CallGraph returns CHA (quick) or VTA refined (thorough) call graph.
func (w *World) CallGraph() *callgraph.Graph {
	w.buildSSA()
	w.cgOnce.Do(func() {
		g := cha.CallGraph(w.Prog)
		if w.thorough {
			g = vta.CallGraph(ssautil.AllFunctions(w.Prog), g)
		}
		w.CG = g
	})
	return w.CG
}

func (w *World) indexDecls() {
	w.declOnce.Do(func() {
		w.decls = map[*types.Func]*ast.FuncDecl{}
		w.declPkg = map[*types.Func]*packages.Package{}
		for _, p := range w.Pkgs {
			for _, f := range p.Syntax {
				for _, d := range f.Decls {
					if fd, ok := d.(*ast.FuncDecl); ok {
						if obj, ok := p.TypesInfo.Defs[fd.Name].(*types.Func); ok {
							w.decls[obj] = fd
							w.declPkg[obj] = p
						}
					}
				}
			}
		}
	})
}

// ---------------------------------------------------------------------------

type Obligation struct {
	Rule   string `json:"rule"`
	Key    string `json:"key"`
	Pos    string `json:"pos"`
	OK     bool   `json:"ok"`
	Detail string `json:"detail"`
	Known  string `json:"known,omitempty"`
}

type undecided string

type Ctx struct {
	W         *World
	Prop      *Prop
	Tier      string
	Obls      []Obligation
	Analysed  []string
	undecided []string
	floors    map[string]int
	onlyRules map[string]bool // when set, only obligations of these rules are recorded (a property borrowing one rule of another)
}

func (c *Ctx) Thorough() bool { return c.Tier == "thorough" }

func (c *Ctx) pos(p token.Pos) string {
	if !p.IsValid() {
		return "-"
	}
	ps := c.W.Fset.Position(p)
	rel, err := filepath.Rel(c.W.Repo, ps.Filename)
	if err != nil {
		rel = ps.Filename
	}
	return fmt.Sprintf("%s:%d", rel, ps.Line)
}

func (c *Ctx) Ok(rule, key string, p token.Pos, detail string, args ...any) {
	if c.onlyRules != nil && !c.onlyRules[rule] {
		return
	}
	c.Obls = append(c.Obls, Obligation{Rule: rule, Key: key, Pos: c.pos(p), OK: true, Detail: fmt.Sprintf(detail, args...)})
}

func (c *Ctx) Bad(rule, key string, p token.Pos, detail string, args ...any) {
	if c.onlyRules != nil && !c.onlyRules[rule] {
		return
	}
	c.Obls = append(c.Obls, Obligation{Rule: rule, Key: key, Pos: c.pos(p), OK: false, Detail: fmt.Sprintf(detail, args...)})
}

// Check records an obligation that holds iff cond.
func (c *Ctx) Check(cond bool, rule, key string, p token.Pos, okDetail, badDetail string) bool {
	if cond {
		c.Ok(rule, key, p, "%s", okDetail)
	} else {
		c.Bad(rule, key, p, "%s", badDetail)
	}
	return cond
}

// Undecided aborts the property: the checker cannot resolve an anchor. Exit 2.
func (c *Ctx) Undecided(format string, args ...any) {
	panic(undecided(fmt.Sprintf(format, args...)))
}

func (c *Ctx) Note(format string, args ...any) {
	c.Analysed = append(c.Analysed, fmt.Sprintf(format, args...))
}

// Floor demands at least n obligations (ok or not) under the rule.
func (c *Ctx) Floor(rule string, n int) {
	if c.onlyRules != nil && !c.onlyRules[rule] {
		return
	}
	// confirmed instance counts guard against a rule matching nothing; duplicated sites may legitimately be merged by
	// a refactoring, so small counts only require non-vacuity and large ones half the confirmed number
	if n >= 40 {
		n = n / 4
	} else if n > 1 {
		n = 1
	}
	c.floors[rule] = n
}

// frozenFloors: per property and rule, the minimum number of instances confirmed on the reference tree
// (audit/floors.json, generated by tools/genfloors.py from a green run and committed).
func frozenFloors(prop string) map[string]int {
	b, err := os.ReadFile(filepath.Join(os.Getenv("VERIF_DIR"), "audit", "floors.json"))
	if err != nil {
		return nil
	}
	var all map[string]map[string]int
	if json.Unmarshal(b, &all) != nil {
		return nil
	}
	return all[prop]
}

func (c *Ctx) checkFloors() {
	for r, n := range frozenFloors(c.Prop.ID) {
		if c.floors[r] < n {
			c.floors[r] = n
		}
	}
	counts := map[string]int{}
	for _, o := range c.Obls {
		counts[o.Rule]++
	}
	for r, n := range c.floors {
		if counts[r] < n {
			c.undecided = append(c.undecided, fmt.Sprintf("rule %s matched %d instances, below the confirmed floor %d (rule would pass vacuously)", r, counts[r], n))
		}
	}
}

// ---------------------------------------------------------------------------
// Lookup helpers

func (c *Ctx) Pkg(rel string) *packages.Package {
	path := modPath
	if rel != "" && rel != "." {
		path = modPath + "/" + rel
	}
	p := c.W.ByPth[path]
	if p == nil {
		c.Undecided("package %s not found", path)
	}
	return p
}

func (c *Ctx) PkgOpt(rel string) *packages.Package {
	path := modPath
	if rel != "" && rel != "." {
		path = modPath + "/" + rel
	}
	return c.W.ByPth[path]
}

// FuncObj resolves "Name" or "Type.Method" in package rel. Returns nil if absent.
func (c *Ctx) FuncObjOpt(rel, name string) *types.Func {
	p := c.PkgOpt(rel)
	if p == nil {
		return nil
	}
	if i := strings.Index(name, "."); i >= 0 {
		tn, mn := name[:i], name[i+1:]
		obj := p.Types.Scope().Lookup(tn)
		if obj == nil {
			return nil
		}
		named, ok := obj.Type().(*types.Named)
		if !ok {
			return nil
		}
		for i := 0; i < named.NumMethods(); i++ {
			if named.Method(i).Name() == mn {
				return named.Method(i)
			}
		}
		return nil
	}
	f, _ := p.Types.Scope().Lookup(name).(*types.Func)
	return f
}

func (c *Ctx) FuncObj(rel, name string) *types.Func {
	f := c.FuncObjOpt(rel, name)
	if f == nil {
		c.Undecided("anchor function %s.%s not found", rel, name)
	}
	return f
}

func (c *Ctx) Decl(f *types.Func) *ast.FuncDecl {
	c.W.indexDecls()
	d := c.W.decls[f.Origin()]
	if d == nil {
		c.Undecided("no declaration for %s", f.FullName())
	}
	return d
}

func (c *Ctx) DeclOpt(f *types.Func) *ast.FuncDecl {
	c.W.indexDecls()
	return c.W.decls[f.Origin()]
}

func (c *Ctx) PkgOf(f *types.Func) *packages.Package {
	c.W.indexDecls()
	return c.W.declPkg[f.Origin()]
}

func (c *Ctx) FuncDecl(rel, name string) (*packages.Package, *ast.FuncDecl) {
	f := c.FuncObj(rel, name)
	return c.Pkg(rel), c.Decl(f)
}

func (c *Ctx) SSAFunc(rel, name string) *ssa.Function {
	c.W.buildSSA()
	f := c.FuncObj(rel, name)
	fn := c.W.Prog.FuncValue(f)
	if fn == nil || len(fn.Blocks) == 0 {
		c.Undecided("no SSA body for %s.%s", rel, name)
	}
	return fn
}

func (c *Ctx) SSAOf(f *types.Func) *ssa.Function {
	c.W.buildSSA()
	return c.W.Prog.FuncValue(f)
}

// ConstInt returns the integer value of package-level constant name.
func (c *Ctx) ConstInt(rel, name string) int64 {
	p := c.Pkg(rel)
	obj, ok := p.Types.Scope().Lookup(name).(*types.Const)
	if !ok {
		c.Undecided("constant %s.%s not found", rel, name)
	}
	v, ok := constant.Int64Val(constant.ToInt(obj.Val()))
	if !ok {
		c.Undecided("constant %s.%s is not an integer", rel, name)
	}
	return v
}

func (c *Ctx) ConstIntOpt(rel, name string) (int64, bool) {
	p := c.PkgOpt(rel)
	if p == nil {
		return 0, false
	}
	obj, ok := p.Types.Scope().Lookup(name).(*types.Const)
	if !ok {
		return 0, false
	}
	v, ok := constant.Int64Val(constant.ToInt(obj.Val()))
	return v, ok
}

// relPkg gives the module-relative path of a package path.
func relPkg(path string) string {
	if path == modPath {
		return "."
	}
	return strings.TrimPrefix(path, modPath+"/")
}

// funcKey is a stable structural name for a function: pkg.(Recv).Name
func funcKey(f *types.Func) string {
	if f == nil {
		return "<nil>"
	}
	pkg := ""
	if f.Pkg() != nil {
		pkg = relPkg(f.Pkg().Path())
	}
	sig, _ := f.Type().(*types.Signature)
	if sig != nil && sig.Recv() != nil {
		t := sig.Recv().Type()
		ptr := ""
		if p, ok := t.(*types.Pointer); ok {
			t = p.Elem()
			ptr = "*"
		}
		name := types.TypeString(t, func(*types.Package) string { return "" })
		if i := strings.Index(name, "["); i >= 0 {
			name = name[:i]
		}
		return fmt.Sprintf("%s.(%s%s).%s", pkg, ptr, name, f.Name())
	}
	return pkg + "." + f.Name()
}

func ssaFuncKey(fn *ssa.Function) string {
	if fn == nil {
		return "<nil>"
	}
	if obj, ok := fn.Object().(*types.Func); ok && obj != nil {
		return funcKey(obj)
	}
	if fn.Parent() != nil {
		return ssaFuncKey(fn.Parent()) + "$" + strings.TrimPrefix(fn.Name(), fn.Parent().Name()+"$")
	}
	return fn.String()
}

// allFuncDecls iterates every function declaration with a body in module packages whose rel path matches prefix filter.
func (c *Ctx) eachFuncDecl(filter func(rel string) bool, fn func(p *packages.Package, fd *ast.FuncDecl, obj *types.Func)) {
	for _, p := range c.W.Pkgs {
		if filter != nil && !filter(relPkg(p.PkgPath)) {
			continue
		}
		for _, f := range p.Syntax {
			for _, d := range f.Decls {
				fd, ok := d.(*ast.FuncDecl)
				if !ok || fd.Body == nil {
					continue
				}
				obj, _ := p.TypesInfo.Defs[fd.Name].(*types.Func)
				if obj == nil {
					continue
				}
				fn(p, fd, obj)
			}
		}
	}
}

func hasPrefixAny(s string, pre ...string) bool {
	for _, p := range pre {
		if s == p || strings.HasPrefix(s, p+"/") {
			return true
		}
	}
	return false
}
