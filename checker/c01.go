package main

import (
	"fmt"
	"go/types"
	"strings"

	"golang.org/x/tools/go/ssa"
)

func init() {
	register(&Prop{
		ID:        "C01",
		Technique: "def-use provenance of SetCbor arguments and hash inputs over SSA; ordering of whole-struct stores vs SetCbor; classification of every Hash/Id implementation",
		Explanation: "(a) store-what-you-were-given: every UnmarshalCBOR on a type that keeps its wire bytes (embeds cbor.DecodeStoreCbor) stores, on every success path, exactly the byte slice it was handed (provenance of the SetCbor argument: the data parameter or a raw item cut from it, never an encoder result) and no whole-object assignment follows that would wipe it; " +
			"(b) hash-what-you-stored: every Hash()/Id() returning Blake2b256 is either a root hashing the stored bytes (Byron: constant prefix ++ stored bytes; Dijkstra body: via a MarshalCBOR that returns the stored bytes first) or a pure delegation to such a method; " +
			"(c) every MarshalCBOR on those types returns the stored bytes whenever present and re-encodes only when absent; (d) block decoders cut component bytes out of the block's own stored bytes with offsets read from the bytes (never from an element-count-derived header size).",
		Run:         runC01,
	})
}

func embedsDecodeStoreCbor(t types.Type) bool {
	if p, ok := t.(*types.Pointer); ok {
		t = p.Elem()
	}
	ms := types.NewMethodSet(types.NewPointer(t))
	sel := ms.Lookup(nil, "SetCbor")
	if sel == nil {
		return false
	}
	f := sel.Obj().(*types.Func)
	return f.Pkg() != nil && relPkg(f.Pkg().Path()) == "cbor"
}

func runC01(c *Ctx) {
	c.W.buildSSA()
	c.checkStoreWhatYouWereGiven()
	c.checkHashWhatYouStored()
	c.checkRemarshalStored()
	c.checkBlockComponentBytes()
	c.checkHashCacheReset()
	c.checkSetCborFresh()
}

// checkSetCborFresh: the bytes an object reports are its own — SetCbor stores a slice it has just allocated (or nil),
// never its previous backing array (objects that were handed sub-slices of it by SetCborReference would see their
// bytes rewritten by the next decode into the same value) and never the caller's slice.
func (c *Ctx) checkSetCborFresh() {
	fo := c.FuncObjOpt("cbor", "DecodeStoreCbor.SetCbor")
	if fo == nil {
		c.Undecided("cbor.DecodeStoreCbor.SetCbor not found")
		return
	}
	fn := c.SSAOf(fo)
	key := ssaFuncKey(fn)
	n := 0
	var fresh func(v ssa.Value, d int) (bool, string)
	fresh = func(v ssa.Value, d int) (bool, string) {
		if d > 6 {
			return false, "a value this checker cannot trace"
		}
		switch x := v.(type) {
		case *ssa.Const:
			return isNilConst(x), "a constant"
		case *ssa.MakeSlice:
			return true, ""
		case *ssa.Slice:
			return fresh(x.X, d+1)
		case *ssa.Phi:
			for _, e := range x.Edges {
				if ok, why := fresh(e, d+1); !ok {
					return false, why
				}
			}
			return true, ""
		case *ssa.Call:
			if b, isB := x.Call.Value.(*ssa.Builtin); isB && b.Name() == "append" {
				// append([]byte(nil), data...) / append(make(...), data...) allocate; appending onto the old slice does not
				return fresh(x.Call.Args[0], d+1)
			}
			if cn := calleeName(&x.Call); cn == "bytes.Clone" || cn == "slices.Clone" || strings.HasPrefix(cn, "slices.Clone[") {
				return true, ""
			}
			return false, "the result of " + calleeName(&x.Call)
		case *ssa.Parameter:
			return false, "the caller's slice"
		case *ssa.UnOp:
			return false, "the slice already stored in " + shortArg(trace(x))
		}
		return false, shortArg(trace(v))
	}
	for _, in := range fnInstrs(fn) {
		st, ok := in.(*ssa.Store)
		if !ok {
			continue
		}
		fa, ok := st.Addr.(*ssa.FieldAddr)
		if !ok || fieldName(fa.X.Type(), fa.Field) != "cborData" {
			continue
		}
		n++
		ok2, why := fresh(st.Val, 0)
		c.Check(ok2, "setcbor-fresh", fmt.Sprintf("%s:store%d", key, n), st.Pos(), "stores nil or a slice allocated here", "SetCbor stores "+why+": the bytes an earlier-decoded object reports (sub-slices handed out by SetCborReference, or a previous Cbor() result) are overwritten when the same value is decoded into again")
	}
	if n == 0 {
		c.Undecided("%s: no store to cborData found", key)
	}
}

// checkHashCacheReset: a type that caches its hash (a pointer field named hash, possibly inside an embedded struct)
// and decodes itself must drop the cached value whenever it takes new bytes: every successful UnmarshalCBOR either
// assigns the whole receiver (*h = T(tmp)) or clears the hash field. Otherwise decoding into a value that was already
// hashed leaves Hash() answering for the previous bytes while Cbor() returns the new ones.
func (c *Ctx) checkHashCacheReset() {
	// the caches in scope: hash fields that an identifier method (Hash, Id) of the declaring type answers from
	idCache := map[string]bool{}
	for _, p := range c.W.Pkgs {
		rel := relPkg(p.PkgPath)
		if !strings.HasPrefix(rel, "ledger") {
			continue
		}
		for _, fn := range c.pkgFuncs(rel) {
			if fn.Parent() != nil || fn.Signature.Recv() == nil || (fn.Name() != "Hash" && fn.Name() != "Id") {
				continue
			}
			for _, in := range fnInstrs(fn) {
				if fa, ok := in.(*ssa.FieldAddr); ok && fieldName(fa.X.Type(), fa.Field) == "hash" {
					idCache[strings.TrimPrefix(typeStr(fa.X.Type()), "*")] = true
				}
			}
		}
	}
	var hasCache func(t types.Type, d int) bool
	hasCache = func(t types.Type, d int) bool {
		st, ok := t.Underlying().(*types.Struct)
		if !ok || d > 3 {
			return false
		}
		for i := 0; i < st.NumFields(); i++ {
			f := st.Field(i)
			if f.Name() == "hash" && idCache[strings.TrimPrefix(typeStr(t), "*")] {
				if _, isPtr := f.Type().(*types.Pointer); isPtr {
					return true
				}
			}
			if f.Embedded() && hasCache(f.Type(), d+1) {
				return true
			}
		}
		return false
	}
	n := 0
	for _, p := range c.W.Pkgs {
		rel := relPkg(p.PkgPath)
		if !strings.HasPrefix(rel, "ledger") {
			continue
		}
		for _, fn := range c.pkgFuncs(rel) {
			if fn.Parent() != nil || fn.Name() != "UnmarshalCBOR" || fn.Signature.Recv() == nil || len(fn.Params) == 0 || len(fn.Blocks) == 0 {
				continue
			}
			pt, isPtr := fn.Signature.Recv().Type().(*types.Pointer)
			if !isPtr || !hasCache(pt.Elem(), 0) {
				continue
			}
			n++
			key := ssaFuncKey(fn)
			recv := fn.Params[0]
			isRecv := func(v ssa.Value) bool {
				for d := 0; d < 4; d++ {
					switch x := v.(type) {
					case *ssa.ChangeType:
						v = x.X
						continue
					case *ssa.UnOp:
						if al, ok := x.X.(*ssa.Alloc); ok && singleStore(al) == ssa.Value(recv) {
							return true
						}
					}
					break
				}
				return v == ssa.Value(recv)
			}
			// blocks that reset the cache: a store of a whole struct through the receiver, a store of nil into the hash
			// field, or a delegated decode of an embedded part that itself resets (not followed here)
			reset := map[*ssa.BasicBlock]bool{}
			for _, g := range withAnon(fn) {
				if g != fn {
					continue
				}
				// a method of the same receiver that clears the cache (h.resetHash())
				for _, ci := range allCalls(g) {
					h := ci.Common().StaticCallee()
					if h == nil || len(h.Blocks) == 0 || len(ci.Common().Args) == 0 || !isRecv(ci.Common().Args[0]) || h == fn {
						continue
					}
					for _, hi := range fnInstrs(h) {
						if hs, isHS := hi.(*ssa.Store); isHS && isNilConst(hs.Val) {
							if hfa, isFA := hs.Addr.(*ssa.FieldAddr); isFA && fieldName(hfa.X.Type(), hfa.Field) == "hash" && len(h.Params) > 0 && trace(hfa.X) == "p0" {
								reset[ci.Block()] = true
							}
						}
					}
				}
				for _, in := range fnInstrs(g) {
					st, ok := in.(*ssa.Store)
					if !ok {
						continue
					}
					if isRecv(st.Addr) {
						reset[st.Block()] = true
						continue
					}
					// h.hash = nil, or h.<embedded>.hash = nil / h.<embedded> = …
					addr := st.Addr
					path := []string{}
					for {
						fa, ok := addr.(*ssa.FieldAddr)
						if !ok {
							break
						}
						path = append(path, fieldName(fa.X.Type(), fa.Field))
						addr = fa.X
					}
					if len(path) > 0 && isRecv(addr) {
						if path[0] == "hash" && isNilConst(st.Val) {
							reset[st.Block()] = true
						} else if ft := st.Val.Type(); path[0] != "hash" && hasCache(ft, 0) {
							reset[st.Block()] = true // the embedded struct holding the cache is assigned whole
						}
					}
				}
			}
			// every success return is reached only through a reset
			bad := c.successBypass(fn, reset)
			c.Check(bad == "", "hash-cache-reset", key, fn.Pos(), "a successful decode replaces the whole value or clears the cached hash", "a successful decode (return at "+bad+") neither assigns the whole receiver nor clears the cached hash: decoding new bytes into a value whose Hash() was already taken leaves Hash() answering for the old bytes while Cbor() returns the new ones")
		}
	}
	c.Floor("hash-cache-reset", n)
}

func isSetCbor(cn string) bool {
	return strings.HasSuffix(cn, "DecodeStoreCbor).SetCbor") || strings.HasSuffix(cn, "DecodeStoreCbor).SetCborReference")
}

// goodWireOrigins: the value is the data parameter (or a slice of it) or a raw item cut out of it.
func goodWireOrigins(o map[string]bool, param string) (bool, string) {
	if len(o) == 0 {
		return false, "no origin"
	}
	for k := range o {
		switch {
		case k == param:
		case strings.HasPrefix(k, "raw:"):
		default:
			return false, k
		}
	}
	return true, ""
}

// (a) store-what-you-were-given
func (c *Ctx) checkStoreWhatYouWereGiven() {
	n := 0
	for _, p := range c.W.Pkgs {
		rel := relPkg(p.PkgPath)
		if !strings.HasPrefix(rel, "ledger") {
			continue
		}
		for _, fn := range c.pkgFuncs(rel) {
			if fn.Parent() != nil || fn.Name() != "UnmarshalCBOR" || fn.Signature.Recv() == nil || len(fn.Params) != 2 {
				continue
			}
			if !embedsDecodeStoreCbor(fn.Signature.Recv().Type()) {
				continue
			}
			n++
			key := ssaFuncKey(fn)
			// SetCbor calls on the receiver itself (in this function, not closures)
			var own []ssa.CallInstruction
			for _, ci := range allCalls(fn) {
				if !isSetCbor(calleeName(ci.Common())) {
					continue
				}
				root := rootValue(ci.Common().Args[0], 0)
				spill := false
				if al, isAl := root.(*ssa.Alloc); isAl && singleStore(al) == ssa.Value(fn.Params[0]) {
					spill = true
				}
				if root == fn.Params[0] || spill || strings.HasPrefix(desc(ci.Common().Args[0]), "alloc:**") {
					own = append(own, ci)
				}
			}
			// delegation: *recv = <object built by another decoder from the same data>
			delegated := false
			for _, b := range fn.Blocks {
				for _, in := range b.Instrs {
					st, ok := in.(*ssa.Store)
					if !ok || st.Addr != fn.Params[0] {
						continue
					}
					for o := range origins(st.Val) {
						if strings.HasPrefix(o, "call:") && strings.Contains(o, "FromCbor") {
							delegated = c.decoderStoresItsArgument(strings.TrimPrefix(o, "call:"), key)
						}
					}
				}
			}
			if len(own) == 0 {
				c.Check(delegated, "store-wire-bytes", key, fn.Pos(), "delegates to a decoder that stores the bytes it is given", "decoder never stores the wire bytes of the object (no SetCbor on the receiver and no delegation to a storing decoder)")
				continue
			}
			okAll := true
			why := ""
			for _, ci := range own {
				if ok, bad := goodWireOrigins(origins(ci.Common().Args[1]), "param:1"); !ok {
					okAll = false
					why = bad
				}
			}
			c.Check(okAll, "store-wire-bytes", key, own[0].Pos(), "SetCbor receives exactly the bytes handed to UnmarshalCBOR", "the bytes stored as the object's encoding derive from "+why+", not from the input handed to the decoder")
			// every success return is dominated by a SetCbor on the receiver
			succ := successReturns(fn)
			okDom := true
			for _, r := range succ {
				dom := false
				for _, ci := range own {
					if precedes(ci.(ssa.Instruction), r) {
						dom = true
					}
				}
				if !dom {
					okDom = false
				}
			}
			c.Check(okDom, "store-on-every-success", key, fn.Pos(), "every success path stores the bytes", "a success return is reachable without the wire bytes having been stored")
			// no whole-struct store after the SetCbor
			bad := ""
			for _, b := range fn.Blocks {
				for _, in := range b.Instrs {
					st, ok := in.(*ssa.Store)
					if !ok || st.Addr != fn.Params[0] {
						continue
					}
					for _, ci := range own {
						if reachesInstr(ci.(ssa.Instruction), st) {
							bad = fmt.Sprintf("line %d", c.W.Fset.Position(st.Pos()).Line)
						}
					}
				}
			}
			c.Check(bad == "", "store-not-overwritten", key, fn.Pos(), "no whole-object assignment follows the SetCbor", "the object is overwritten as a whole ("+bad+") after its bytes were stored: the stored encoding is wiped and later re-derived by re-encoding")
		}
	}
	if n < 85 {
		c.Undecided("only %d byte-preserving UnmarshalCBOR methods found (94 confirmed by hand)", n)
	}
}

// decoderStoresItsArgument: function (by key) contains a SetCbor whose argument is its data parameter.
func (c *Ctx) decoderStoresItsArgument(calleeKey, from string) bool {
	return c.decoderStoresItsArgumentD(calleeKey, 0)
}

func (c *Ctx) decoderStoresItsArgumentD(calleeKey string, depth int) bool {
	if depth > 3 {
		return false
	}
	for _, p := range c.W.Pkgs {
		for _, fn := range c.pkgFuncs(relPkg(p.PkgPath)) {
			if ssaFuncKey(fn) != calleeKey {
				continue
			}
			for _, f := range withAnon(fn) {
				for _, ci := range allCalls(f) {
					// delegation further down with the data parameter handed on
					if sc := ci.Common().StaticCallee(); sc != nil && sc != fn && len(ci.Common().Args) > 0 && strings.Contains(sc.Name(), "FromCbor") {
						if _, isP := ci.Common().Args[0].(*ssa.Parameter); isP && c.decoderStoresItsArgumentD(ssaFuncKey(sc), depth+1) {
							return true
						}
					}
					if isSetCbor(calleeName(ci.Common())) {
						o := origins(ci.Common().Args[1])
						for k := range o {
							if strings.HasPrefix(k, "param:") || strings.HasPrefix(k, "free:") {
								return true
							}
						}
					}
				}
			}
		}
	}
	return false
}

// (b) hash-what-you-stored
func (c *Ctx) checkHashWhatYouStored() {
	roots, dels := 0, 0
	for _, p := range c.W.Pkgs {
		rel := relPkg(p.PkgPath)
		if !strings.HasPrefix(rel, "ledger") {
			continue
		}
		for _, fn := range c.pkgFuncs(rel) {
			if fn.Parent() != nil || fn.Signature.Recv() == nil || (fn.Name() != "Hash" && fn.Name() != "Id") {
				continue
			}
			res := fn.Signature.Results()
			if res.Len() != 1 || !strings.HasSuffix(typeStr(res.At(0).Type()), "Blake2b256") {
				continue
			}
			key := ssaFuncKey(fn)
			var hashCalls []ssa.CallInstruction
			for _, ci := range allCalls(fn) {
				if strings.HasSuffix(calleeName(ci.Common()), "common.Blake2b256Hash") {
					hashCalls = append(hashCalls, ci)
				}
			}
			var rets []*ssa.Return
			for _, b := range fn.Blocks {
				if r, ok := b.Instrs[len(b.Instrs)-1].(*ssa.Return); ok {
					rets = append(rets, r)
				}
			}
			if len(hashCalls) == 0 {
				// delegation or field accessor
				okDel := true
				isField := false
				for _, r := range rets {
					d := desc(r.Results[0])
					switch {
					case strings.HasPrefix(d, "call:") && (strings.Contains(d, ").Hash(") || strings.Contains(d, ").Id(")):
					case strings.HasSuffix(d, ".TxId"):
						isField = true
					default:
						okDel = false
					}
				}
				if isField {
					continue // an input's reference to another transaction, not a hash of this object
				}
				dels++
				c.Check(okDel, "hash-delegates", key, fn.Pos(), "pure delegation to a component's Hash/Id", "identifier is neither a hash of stored bytes nor a delegation to one")
				continue
			}
			roots++
			for _, hc := range hashCalls {
				o := origins(hc.Common().Args[0])
				ok := true
				why := ""
				hasStored := false
				for k := range o {
					switch {
					case strings.HasPrefix(k, "stored:") && strings.HasSuffix(k, ".Cbor"):
						hasStored = true
					case k == "encoded:append" || k == "encoded:slices.Concat":
						// prefix ++ Cbor(): check the appended operands
						if !appendOfConstAndStored(hc.Common().Args[0]) {
							ok = false
							why = "concatenation of something other than a constant prefix and Cbor()"
						} else {
							hasStored = true
						}
					case strings.HasPrefix(k, "encoded:") && strings.HasSuffix(k, ".MarshalCBOR"):
						// acceptable only if that MarshalCBOR returns the stored bytes first (rule c) - recorded for cross-check
						hasStored = c.marshalReturnsStoredFirst(strings.TrimPrefix(k, "encoded:"))
						if !hasStored {
							ok = false
							why = "MarshalCBOR that re-encodes"
						}
					case k == "const" || k == "nil":
					default:
						ok = false
						why = k
					}
				}
				c.Check(ok && hasStored, "hash-input-stored", key, hc.Pos(), "Blake2b-256 over the stored wire bytes ("+originList(o)+")", "identifier hashes "+why+" instead of the object's stored wire bytes")
			}
		}
	}
	if roots < 7 || dels < 20 {
		c.Undecided("hash roots=%d delegations=%d, below the confirmed 8/25", roots, dels)
	}
}

func appendOfConstAndStored(v ssa.Value) bool {
	call, ok := v.(*ssa.Call)
	if !ok {
		return false
	}
	stored := false
	for _, a := range call.Call.Args {
		for k := range origins(a) {
			switch {
			case strings.HasPrefix(k, "stored:"):
				stored = true
			case k == "const" || k == "nil" || k == "alloc" || k == "make":
			case strings.HasPrefix(k, "encoded:append"):
			default:
				return false
			}
		}
	}
	return stored
}

func (c *Ctx) marshalReturnsStoredFirst(key string) bool {
	for _, p := range c.W.Pkgs {
		for _, fn := range c.pkgFuncs(relPkg(p.PkgPath)) {
			if ssaFuncKey(fn) == key {
				return storedFirst(fn)
			}
		}
	}
	return false
}

// storedFirst: some return yields the stored bytes and every re-encoding return is dominated by the edge "stored bytes are absent".
func storedFirst(fn *ssa.Function) bool {
	hasStored := false
	var encRets []ssa.Instruction
	for _, b := range fn.Blocks {
		r, ok := b.Instrs[len(b.Instrs)-1].(*ssa.Return)
		if !ok || len(r.Results) == 0 {
			continue
		}
		o := origins(r.Results[0])
		st, other := false, false
		for k := range o {
			if strings.HasPrefix(k, "stored:") {
				st = true
			} else if k != "nil" {
				other = true
			}
		}
		if st && !other {
			hasStored = true
		}
		if other {
			encRets = append(encRets, r)
		}
	}
	if !hasStored {
		return false
	}
	// all re-encoding returns only when Cbor() == nil (or len == 0)
	reach, _ := reachAvoiding(fn, cutByFacts(fn, func(f string) bool {
		return strings.Contains(f, ".Cbor(") && (strings.HasSuffix(f, " == nil") || strings.HasSuffix(f, ") == 0") || strings.HasSuffix(f, ") <= 0"))
	}))
	for _, r := range encRets {
		if reach[r.Block()] {
			return false
		}
	}
	return true
}

// (c) re-marshal returns the stored bytes
func (c *Ctx) checkRemarshalStored() {
	n := 0
	for _, p := range c.W.Pkgs {
		rel := relPkg(p.PkgPath)
		if !strings.HasPrefix(rel, "ledger") {
			continue
		}
		for _, fn := range c.pkgFuncs(rel) {
			if fn.Parent() != nil || fn.Name() != "MarshalCBOR" || fn.Signature.Recv() == nil || !embedsDecodeStoreCbor(fn.Signature.Recv().Type()) {
				continue
			}
			n++
			c.Check(storedFirst(fn), "remarshal-stored", ssaFuncKey(fn), fn.Pos(), "returns the stored bytes whenever they exist; re-encodes only when absent", "MarshalCBOR re-encodes even when the object still carries its decoded bytes: an unmodified decoded object does not round-trip byte for byte")
		}
	}
	if n < 40 {
		c.Undecided("only %d MarshalCBOR methods on byte-preserving types found (48 confirmed)", n)
	}
}

// (d) block decoders re-point component bytes at slices of the block's own stored bytes
func (c *Ctx) checkBlockComponentBytes() {
	ext := c.SSAFunc("ledger/common", "ExtractAndSetTransactionCbor")
	// every setter invocation receives a value whose origin is the first parameter or a raw item of it
	nSet := 0
	var check func(fn *ssa.Function, dataParam string)
	check = func(fn *ssa.Function, dataParam string) {
		for _, ci := range allCalls(fn) {
			cc := ci.Common()
			if cc.IsInvoke() {
				continue
			}
			if pa, ok := cc.Value.(*ssa.Parameter); ok && strings.HasPrefix(typeStr(pa.Type()), "func(") {
				nSet++
				arg := cc.Args[len(cc.Args)-1]
				ok2, bad := goodWireOrigins(origins(arg), dataParam)
				if !ok2 {
					// the bytes may come out of a private helper: look through it
					if ok3, _ := goodWireOrigins(originsIP(arg), dataParam); ok3 {
						ok2 = true
					}
				}
				c.Check(ok2, "component-bytes-slice", ssaFuncKey(fn)+":"+desc(cc.Value), ci.Pos(), "component bytes handed to the setter are a slice of the block bytes", "component bytes handed to the setter derive from "+bad+", not from the block's own bytes")
				// a slice [a:b] of the data: its bounds must not come from an assumed (count->size) header
				if sl, ok := arg.(*ssa.Slice); ok {
					for _, bnd := range []ssa.Value{sl.Low, sl.High} {
						if src := countToSizeCall(bnd, 0); src != "" {
							c.Bad("component-bytes-offset", ssaFuncKey(fn)+":"+desc(cc.Value), ci.Pos(), "component slice bounds use %s, a header size assumed from an element count: with a non-minimal array header every component's bytes are shifted", src)
						}
					}
				}
			}
		}
	}
	check(ext, "param:0")
	sa := c.SSAFunc("ledger/common", "setArrayItemCbor")
	check(sa, "param:0")
	// header size used to locate items comes from the bytes (cborArrayInfo), not from a count
	for _, fn := range []*ssa.Function{ext, sa} {
		for _, b := range fn.Blocks {
			for _, in := range b.Instrs {
				if sl, ok := in.(*ssa.Slice); ok && rootValue(sl.X, 0) == fn.Params[0] {
					for _, bnd := range []ssa.Value{sl.Low, sl.High} {
						if src := countToSizeCall(bnd, 0); src != "" {
							c.Bad("component-bytes-offset", ssaFuncKey(fn), sl.Pos(), "the block bytes are sliced at an offset from %s (assumed header size)", src)
						}
					}
				}
			}
		}
	}
	c.Ok("component-bytes-offset", "scan", ext.Pos(), "no slice of block bytes is positioned by a count-derived header size")
	if nSet < 2 {
		c.Undecided("ExtractAndSetTransactionCbor/setArrayItemCbor: %d setter invocations found (2 expected)", nSet)
	}
	// block decoders call it with their own stored bytes and reference-setters on their components
	nBlk := 0
	for _, p := range c.W.Pkgs {
		rel := relPkg(p.PkgPath)
		if !strings.HasPrefix(rel, "ledger/") {
			continue
		}
		for _, fn := range c.pkgFuncs(rel) {
			for _, ci := range allCalls(fn) {
				if ci.Common().StaticCallee() != ext {
					continue
				}
				nBlk++
				o := origins(ci.Common().Args[0])
				ok := true
				for k := range o {
					if !(strings.HasPrefix(k, "stored:") || k == "param:1") {
						ok = false
					}
				}
				c.Check(ok, "block-component-source", ssaFuncKey(fn), ci.Pos(), "components are cut from the block's own stored bytes", "components are cut from "+originList(o)+" rather than the block's stored bytes")
			}
		}
	}
	if nBlk < 6 {
		c.Undecided("only %d block decoders call ExtractAndSetTransactionCbor (6 confirmed)", nBlk)
	}
}

