package main

import (
	"fmt"
	"go/token"
	"strings"

	"golang.org/x/tools/go/ssa"
)

func init() {
	register(&Prop{
		ID:        "C46",
		Technique: "must-pass-through on every acceptance path of the authenticator and of each step, argument traces of the cryptographic checks, single-critical-section rule (exclusive lock held from the counter read to the counter write with no release in between), who-may-write on the bypass flags",
		Explanation: "(1) verifyMessageInternal accepts only on the disableValidation branch (a field written only by NewNoOpAuthenticator) or after nil results of verifyMessageID, verifyOperationalCertificate(&msg.opcert, msg.coldKey), verifyKESSignature, a true lookup of the pool id computed from the message's cold key in spoPoolIDs (read under the lock), and verifyKESPeriodRotation for that pool id and certificate; the counter update step comes after all the others. " +
			"(2) verifyMessageID accepts only when bytes.Equal(msg.ID(), ComputeDmqMessageID(msg.Payload)); (3) verifyOperationalCertificate accepts only when ed25519.Verify(cold key, Encode([kes key, issue number, kes period]), cold signature); (4) verifyKESSignature accepts only when the injected verifier returned (true, nil) for (bstr-wrapped payload, signature, certificate KES key, payload KES period, slot, slots per period) or allowInsecureKES.Load() is true, a flag written only by SetAllowInsecureKES with its argument and false by default; " +
			"(5) verifyKESPeriodRotation reads and writes the per-pool counter inside one exclusive critical section (Lock, not RLock, held at both and never released in between), rejects when a previous counter exists and the new one is lower, and only then stores the new one; every access to the pool and counter maps anywhere in the type is under the mutex.",
		Assumptions: []string{"Ed25519, Blake2b, the injected KES verifier (ledger.VerifyKesComponents, C39/C40)", "the message fields are those decoded from the wire (C04)"},
		Run:         runC46,
	})
}

func runC46(c *Ctx) {
	c.W.buildSSA()
	rel := "protocol/common"
	fn := c.SSAFunc(rel, "MessageAuthenticator.verifyMessageInternal")
	if fn == nil {
		c.Undecided("verifyMessageInternal not found")
		return
	}
	key := ssaFuncKey(fn)
	// acceptance paths
	var rets []ssa.Instruction
	for _, b := range fn.Blocks {
		if r, ok := b.Instrs[len(b.Instrs)-1].(*ssa.Return); ok && isNilConst(returnedValue(r, 0)) {
			rets = append(rets, r)
		}
	}
	steps := []struct{ name, fact string }{
		{"message-id", "call:protocol/common.(*MessageAuthenticator).verifyMessageID(p0,p1) == nil"},
		{"operational-certificate", "call:protocol/common.(*MessageAuthenticator).verifyOperationalCertificate(p0,p1.OperationalCertificate,p1.ColdVerificationKey) == nil"},
		{"kes-signature", "call:protocol/common.(*MessageAuthenticator).verifyKESSignature(p0,p1,p2) == nil"},
		{"pool-registered", "T:lookup(p0.spoPoolIDs,call:protocol/common.(*MessageAuthenticator).computePoolID(p0,p1.ColdVerificationKey))"},
		{"counter-not-regressed", "call:protocol/common.(*MessageAuthenticator).verifyKESPeriodRotation(p0,call:protocol/common.(*MessageAuthenticator).computePoolID(p0,p1.ColdVerificationKey),p1.OperationalCertificate) == nil"},
	}
	for _, st := range steps {
		v := c.mustPass(fn, rets, func(f string) bool { return f == st.fact || f == "T:p0.disableValidation" })
		ok, w := len(rets) > 0, ""
		for _, x := range v {
			if !x.OK {
				ok, w = false, x.Witness
			}
		}
		c.Check(ok, "accept-requires-all-steps", key+":"+st.name, fn.Pos(), "acceptance requires the "+st.name+" step (or the explicit no-op authenticator)", "a message can be accepted without the "+st.name+" check having passed ("+w+")")
	}
	// the counter update is last: the call is dominated by every other step's pass edge
	for _, ci := range allCalls(fn) {
		if cal := ci.Common().StaticCallee(); cal != nil && cal.Name() == "verifyKESPeriodRotation" {
			for _, st := range steps[:4] {
				v := c.mustPass(fn, []ssa.Instruction{ci.(ssa.Instruction)}, func(f string) bool { return f == st.fact })
				c.Check(v[0].OK, "accept-requires-all-steps", key+":counter-updated-last:"+st.name, ci.Pos(), "the counter cache is touched only after "+st.name+" passed", "the certificate counter cache is updated before the "+st.name+" check passed: an unauthenticated message can raise the counter and lock the real pool out")
			}
		}
	}
	// registration lookup under lock
	for _, in := range fnInstrs(fn) {
		if lk, ok := in.(*ssa.Lookup); ok && strings.HasSuffix(trace(lk.X), "spoPoolIDs<p0") {
			c.Check(heldAt(fn, lk, ".mu", []string{"RLock", "Lock"}, []string{"RUnlock", "Unlock"}), "maps-under-mutex", key+":spoPoolIDs", lk.Pos(), "registration is read under the mutex", "the pool registry is read without the mutex")
		}
	}
	// who writes disableValidation / allowInsecureKES
	nDV := 0
	for _, f := range c.pkgFuncs(rel) {
		for _, in := range fnInstrs(f) {
			if st, ok := in.(*ssa.Store); ok {
				if fa, ok := st.Addr.(*ssa.FieldAddr); ok && fieldName(fa.X.Type(), fa.Field) == "disableValidation" {
					nDV++
					c.Check(f.Name() == "NewNoOpAuthenticator" && desc(st.Val) == "true", "bypass-flags", ssaFuncKey(f)+":disableValidation", st.Pos(), "validation is disabled only by the explicit no-op constructor", "disableValidation is written in "+ssaFuncKey(f))
				}
			}
		}
		for _, ci := range allCalls(f) {
			cc := ci.Common()
			cal := cc.StaticCallee()
			if cal == nil || len(cc.Args) == 0 || !strings.HasSuffix(trace(cc.Args[0]), "allowInsecureKES<p0") {
				continue
			}
			if cal.Name() == "Load" {
				continue
			}
			ok := f.Name() == "SetAllowInsecureKES" && cal.Name() == "Store" && trace(cc.Args[1]) == "p1"
			c.Check(ok, "bypass-flags", ssaFuncKey(f)+":allowInsecureKES."+cal.Name(), ci.Pos(), "insecure mode is set only by SetAllowInsecureKES with the caller's value", "allowInsecureKES is modified in "+ssaFuncKey(f)+" by "+cal.Name()+"("+shortArg(trace(cc.Args[len(cc.Args)-1]))+"): insecure mode can be on without having been explicitly enabled")
		}
	}
	c.Check(nDV == 1, "bypass-flags", rel+":disableValidation-writers", fn.Pos(), "one writer of disableValidation", fmt.Sprintf("%d writers of disableValidation", nDV))
	// constructor defaults: NewMessageAuthenticator does not touch the flags (zero values = false)
	// (2) message id
	if f := c.SSAFunc(rel, "MessageAuthenticator.verifyMessageID"); f != nil {
		c.stepRequires(f, "message-id-is-payload-hash", func(fact string) bool {
			return fact == "T:call:bytes.Equal(call:protocol/common.(DmqMessage).ID(p1),call:protocol/common.ComputeDmqMessageID(p1.Payload)#0)" || fact == "T:call:bytes.Equal(call:protocol/common.(*DmqMessage).ID(p1),call:protocol/common.ComputeDmqMessageID(p1.Payload)#0)"
		}, "accepts only when the id equals ComputeDmqMessageID(payload)", "verifyMessageID can succeed without bytes.Equal(msg.ID(), ComputeDmqMessageID(msg.Payload))")
	}
	// (3) opcert
	if f := c.SSAFunc(rel, "MessageAuthenticator.verifyOperationalCertificate"); f != nil {
		var vcall *ssa.Call
		for _, ci := range allCalls(f) {
			if calleeName(ci.Common()) == "crypto/ed25519.Verify" {
				vcall, _ = ci.(*ssa.Call)
			}
		}
		fk := ssaFuncKey(f)
		if vcall == nil {
			c.Bad("opcert-cold-signature", fk, f.Pos(), "the operational certificate's cold signature is never verified")
		} else {
			a0, a2 := trace(vcall.Call.Args[0]), trace(vcall.Call.Args[2])
			// message: Encode of a 3-element []any {KESVerificationKey, IssueNumber, KESPeriod}
			okMsg := false
			if ex, ok := vcall.Call.Args[1].(*ssa.Extract); ok {
				if enc, ok := ex.Tuple.(*ssa.Call); ok && calleeName(&enc.Call) == "cbor.Encode" {
					arg := enc.Call.Args[0]
					if mi, ok := arg.(*ssa.MakeInterface); ok {
						arg = mi.X
					}
					e0 := firstSliceElem(f, arg, 0)
					e1 := firstSliceElem(f, arg, 1)
					e2 := firstSliceElem(f, arg, 2)
					okMsg = e0 == "KESVerificationKey<p1" && e1 == "IssueNumber<p1" && e2 == "KESPeriod<p1"
				}
			}
			c.Check(a0 == "p2" && a2 == "ColdSignature<p1" && okMsg, "opcert-cold-signature", fk+":args", vcall.Pos(), "ed25519.Verify(cold key, Encode([kes key, issue number, kes period]), cold signature)", "the cold signature is not verified over [kes key, issue number, kes period] under the message's cold key: Verify("+a0+", …, "+a2+")")
			c.stepRequires(f, "opcert-cold-signature", func(fact string) bool { return fact == "T:"+desc(vcall) }, "accepts only when the cold signature verifies", "verifyOperationalCertificate can succeed although ed25519.Verify returned false")
		}
	}
	// (4) KES
	if f := c.SSAFunc(rel, "MessageAuthenticator.verifyKESSignature"); f != nil {
		fk := ssaFuncKey(f)
		var vcall *ssa.Call
		top := f
		for _, g := range closureFuncs(top, 2) {
			for _, ci := range allCalls(g) {
				cc := ci.Common()
				if !cc.IsInvoke() && cc.StaticCallee() == nil && strings.HasPrefix(traceIP(top, cc.Value), "assert<Load(kesVerifier<p0)") {
					vcall, _ = ci.(*ssa.Call)
				}
			}
		}
		if vcall != nil && vcall.Parent() != top {
			// the verifier runs in a helper: verifyKESSignature must hand the helper's verdict back unchanged, and
			// may itself accept only in explicit insecure mode; the acceptance rules below then apply to the helper
			g := vcall.Parent()
			delegated := false
			for _, ci := range allCalls(top) {
				if ci.Common().StaticCallee() != g || ci.Value() == nil {
					continue
				}
				for _, in := range fnInstrs(top) {
					if r, ok := in.(*ssa.Return); ok && returnedValue(r, 0) == ssa.Value(ci.Value()) {
						delegated = true
					}
				}
			}
			if !delegated {
				c.Undecided("%s: the helper running the KES verifier is not returned directly", fk)
			}
			var own []ssa.Instruction
			for _, b := range top.Blocks {
				if r, ok := b.Instrs[len(b.Instrs)-1].(*ssa.Return); ok && isNilConst(returnedValue(r, 0)) {
					own = append(own, r)
				}
			}
			okOwn := true
			for _, v := range c.mustPass(top, own, func(fact string) bool {
				return strings.HasPrefix(fact, "T:call:sync/atomic.(*Bool).Load(") && strings.HasSuffix(fact, ".allowInsecureKES)")
			}) {
				okOwn = okOwn && v.OK
			}
			c.Check(okOwn, "kes-verified-or-explicit-bypass", fk+":accepts-own", top.Pos(), "outside the verifier helper, acceptance needs explicit insecure mode", "verifyKESSignature can accept without the verifier having run and without insecure mode being enabled")
			f = g
		}
		if vcall == nil {
			c.Bad("kes-verified-or-explicit-bypass", fk, f.Pos(), "the injected KES verifier is never called")
		} else {
			var as []string
			for _, a := range vcall.Call.Args {
				as = append(as, traceIP(top, a))
			}
			okArgs := len(as) == 6 && as[0] == "Encode(Encode(Payload<p1)#0)#0" && as[1] == "KESSignature<p1" && as[2] == "KESVerificationKey<OperationalCertificate<p1" && as[3] == "KESPeriod<Payload<p1" && as[5] == "slotsPerKesPeriod<p0"
			c.Check(okArgs, "kes-verified-or-explicit-bypass", fk+":args", vcall.Pos(), "verifier(bstr(payload cbor), signature, certificate KES key, payload KES period, slot, slots per period)", "the KES verifier is called with "+shortArg(strings.Join(as, ", ")))
			// acceptance: verifier true & nil error, or allowInsecureKES
			var rets2 []ssa.Instruction
			for _, b := range f.Blocks {
				if r, ok := b.Instrs[len(b.Instrs)-1].(*ssa.Return); ok && isNilConst(returnedValue(r, 0)) {
					rets2 = append(rets2, r)
				}
			}
			reach, _ := reachAvoiding(f, func(from *ssa.BasicBlock, succ int) bool {
				iff, ok := from.Instrs[len(from.Instrs)-1].(*ssa.If)
				if !ok {
					return false
				}
				// verifier #0 true edge
				if ex, ok := iff.Cond.(*ssa.Extract); ok && ex.Tuple == ssa.Value(vcall) && ex.Index == 0 && succ == 0 {
					return true
				}
				if u, ok := iff.Cond.(*ssa.UnOp); ok && u.Op == token.NOT {
					if ex, ok := u.X.(*ssa.Extract); ok && ex.Tuple == ssa.Value(vcall) && ex.Index == 0 && succ == 1 {
						return true
					}
				}
				// allowInsecureKES.Load() true edge
				if call, ok := iff.Cond.(*ssa.Call); ok && strings.HasSuffix(calleeName(&call.Call), "atomic.(*Bool).Load") && strings.HasSuffix(trace(call.Call.Args[0]), "allowInsecureKES<p0") && succ == 0 {
					return true
				}
				return false
			})
			bad := len(rets2) == 0
			for _, r := range rets2 {
				if reach[r.Block()] {
					bad = true
				}
			}
			c.Check(!bad, "kes-verified-or-explicit-bypass", fk+":accepts", f.Pos(), "accepts only after the verifier returned true or insecure mode was explicitly enabled", "verifyKESSignature can accept without the verifier having returned true and without insecure mode being enabled (e.g. when no verifier is installed)")
			// verifier error → reject
			reachE, _ := reachAvoiding(f, func(from *ssa.BasicBlock, succ int) bool {
				iff, ok := from.Instrs[len(from.Instrs)-1].(*ssa.If)
				if !ok {
					return false
				}
				bo, ok := iff.Cond.(*ssa.BinOp)
				if !ok || !isNilConst(bo.Y) {
					return false
				}
				ex, ok := bo.X.(*ssa.Extract)
				if !ok || ex.Tuple != ssa.Value(vcall) || ex.Index != 1 {
					return false
				}
				return (bo.Op == token.EQL && succ == 0) || (bo.Op == token.NEQ && succ == 1)
			})
			// returns reached after the verifier call without passing the nil-error edge, other than via the insecure path
			badE := false
			for _, r := range rets2 {
				if reachE[r.Block()] && reachesBlock(vcall.Block(), r.Block()) {
					// reachable from the verifier call avoiding the nil-error edge?
					after := reachFromAvoiding([]*ssa.BasicBlock{vcall.Block()}, func(from *ssa.BasicBlock, succ int) bool {
						iff, ok := from.Instrs[len(from.Instrs)-1].(*ssa.If)
						if !ok {
							return false
						}
						bo, ok := iff.Cond.(*ssa.BinOp)
						if !ok || !isNilConst(bo.Y) {
							return false
						}
						ex, ok := bo.X.(*ssa.Extract)
						if !ok || ex.Tuple != ssa.Value(vcall) || ex.Index != 1 {
							return false
						}
						return (bo.Op == token.EQL && succ == 0) || (bo.Op == token.NEQ && succ == 1)
					})
					if after[r.Block()] {
						badE = true
					}
				}
			}
			c.Check(!badE, "kes-verified-or-explicit-bypass", fk+":verifier-error-rejects", vcall.Pos(), "a verifier error is a rejection", "a verifier error does not prevent acceptance")
		}
	}
	// (5) rotation
	if f := c.SSAFunc(rel, "MessageAuthenticator.verifyKESPeriodRotation"); f != nil {
		fk := ssaFuncKey(f)
		var lk *ssa.Lookup
		var mu *ssa.MapUpdate
		for _, in := range fnInstrs(f) {
			if l, ok := in.(*ssa.Lookup); ok && strings.HasSuffix(trace(l.X), "kesOpCertCache<p0") {
				lk = l
			}
			if m, ok := in.(*ssa.MapUpdate); ok && strings.HasSuffix(trace(m.Map), "kesOpCertCache<p0") {
				mu = m
			}
		}
		if lk == nil || mu == nil {
			c.Bad("counter-check-and-update-atomic", fk, f.Pos(), "the per-pool counter is not both read and written here")
		} else {
			exR := heldAt(f, lk, ".mu", []string{"Lock"}, []string{"Unlock"})
			exW := heldAt(f, mu, ".mu", []string{"Lock"}, []string{"Unlock"})
			// no release between read and write
			released := false
			for _, ci := range allCalls(f) {
				if _, isDefer := ci.(*ssa.Defer); isDefer {
					continue
				}
				if isLockCall(ci, ".mu", "Unlock", "RUnlock") {
					if reachesInstr(lk, ci.(ssa.Instruction)) && reachesInstr(ci.(ssa.Instruction), mu) {
						released = true
					}
				}
			}
			c.Check(exR && exW && !released, "counter-check-and-update-atomic", fk, lk.Pos(), "the counter is read and written under one exclusive lock region", fmt.Sprintf("the counter check and its update are not one critical section (exclusive lock at read: %v, at write: %v, released in between: %v): two verifications can interleave so that a lower, stale counter overwrites a higher accepted one, after which a replayed old certificate is accepted", exR, exW, released))
			c.Check(trace(mu.Key) == "p1" && trace(lk.Index) == "p1" && trace(mu.Value) == "IssueNumber<p2", "counter-check-and-update-atomic", fk+":same-pool", mu.Pos(), "the certificate's counter is stored under the pool it was checked for", "the counter is stored under "+shortArg(trace(mu.Key))+" = "+shortArg(trace(mu.Value)))
			// update only when not (exists && lower)
			var lowerFrom *ssa.BasicBlock
			lowerSucc := 0
			for _, b := range f.Blocks {
				iff, ok := b.Instrs[len(b.Instrs)-1].(*ssa.If)
				if !ok {
					continue
				}
				bo, ok := iff.Cond.(*ssa.BinOp)
				if !ok {
					continue
				}
				isIssue := func(v ssa.Value) bool { return trace(v) == "IssueNumber<p2" }
				isStored := func(v ssa.Value) bool { return strings.HasPrefix(trace(v), "lookup(kesOpCertCache<p0,p1)#0") }
				// the edge on which issue < stored holds, whichever way the comparison is written
				switch {
				case isIssue(bo.X) && isStored(bo.Y) && bo.Op == token.LSS, isStored(bo.X) && isIssue(bo.Y) && bo.Op == token.GTR:
					lowerFrom, lowerSucc = b, 0
				case isIssue(bo.X) && isStored(bo.Y) && bo.Op == token.GEQ, isStored(bo.X) && isIssue(bo.Y) && bo.Op == token.LEQ:
					lowerFrom, lowerSucc = b, 1
				}
			}
			okRej := false
			if lowerFrom != nil {
				// the "lower" edge cannot reach the update nor success
				after := reachFromAvoiding([]*ssa.BasicBlock{lowerFrom}, func(from *ssa.BasicBlock, s int) bool { return from == lowerFrom && s != lowerSucc })
				okRej = !after[mu.Block()]
				for _, r := range successReturns(f) {
					if after[r.Block()] {
						okRej = false
					}
				}
			}
			c.Check(okRej, "counter-check-and-update-atomic", fk+":lower-rejected", f.Pos(), "a counter below the stored one is rejected and not stored", "a certificate counter lower than the one previously accepted for the pool is not rejected")
		}
	}
	// all map accesses under mutex
	for _, f := range c.pkgFuncs(rel) {
		if recvTypeName(f) != "MessageAuthenticator" {
			continue
		}
		for _, in := range fnInstrs(f) {
			var m ssa.Value
			switch x := in.(type) {
			case *ssa.MapUpdate:
				m = x.Map
			case *ssa.Lookup:
				m = x.X
			case ssa.CallInstruction:
				if b, ok := x.Common().Value.(*ssa.Builtin); ok && b.Name() == "delete" {
					m = x.Common().Args[0]
				}
			}
			if m == nil {
				continue
			}
			t := trace(m)
			if !strings.HasSuffix(t, "kesOpCertCache<p0") && !strings.HasSuffix(t, "spoPoolIDs<p0") {
				continue
			}
			held := heldAt(f, in, ".mu", []string{"Lock", "RLock"}, []string{"Unlock", "RUnlock"})
			c.Check(held, "maps-under-mutex", ssaFuncKey(f)+":"+t[:strings.Index(t, "<")]+":"+fmt.Sprintf("%T", in)[5:], in.Pos(), "accessed under the mutex", "the map "+t+" is accessed without the mutex")
		}
	}
}

// stepRequires: every nil-returning path of f passes an edge accepted by match.
func (c *Ctx) stepRequires(f *ssa.Function, rule string, match func(string) bool, okD, badD string) {
	var rets []ssa.Instruction
	for _, b := range f.Blocks {
		if r, ok := b.Instrs[len(b.Instrs)-1].(*ssa.Return); ok && isNilConst(returnedValue(r, 0)) {
			rets = append(rets, r)
		}
	}
	v := c.mustPass(f, rets, match)
	ok, w := len(rets) > 0, ""
	for _, x := range v {
		if !x.OK {
			ok, w = false, x.Witness
		}
	}
	c.Check(ok, rule, ssaFuncKey(f)+":decides", f.Pos(), okD, badD+" ("+w+")")
}
