package main

import (
	"fmt"
	"go/token"
	"strings"

	"golang.org/x/tools/go/ssa"
)

func init() {
	register(&Prop{
		ID:        "C40",
		Technique: "accumulate-and-flag must-pass rule on the header validator, relational normalisation of the KES window guards, argument traces of the signature verifications",
		Explanation: "Decides the rejecting half structurally. (1) ValidateHeader: result.Valid is stored true only at construction and false elsewhere; each required check (slot order, block number, previous hash, VRF proof, leadership when a VRF output exists, TPraos nonce proof, KES period, KES signature, op-cert signature, VRF key registration) is called on every path to the return, and from each check's error edge every path to the return passes a store of false into Valid. " +
			"(2) KES window (consensus.validateKESPeriod and ledger.ValidateKesPeriod): success implies current ≥ certificate period and (current − certificate period) < max evolutions, strictly. (3) KES signature: VerifySignedKES(hot key, current − certificate period, header-body bytes, signature) must be true for success, in consensus.validateKESSignature and ledger.VerifyKesComponents; ledger.VerifyKes takes the body bytes from extractOriginalBodyCbor (stored bytes). " +
			"(4) Op-cert: ed25519.Verify(cold key, OpCertSignableBytes(hot key, counter, period), cold signature) must be true for success in consensus.validateOpCertSignature and ledger.VerifyOpCertSignature.",
		Assumptions: []string{"that a header produced by the builder passes (round-trip through real keys) is NOT decided", "KES/VRF/Ed25519 primitives (C38, C39)", "the caller supplies HeaderBodyCbor as the stored header body bytes (C01)"},
		Run:         runC40,
	})
}

func runC40(c *Ctx) {
	c.W.buildSSA()
	// (1)
	if fn := c.SSAFunc("consensus", "HeaderValidator.ValidateHeader"); fn != nil {
		key := ssaFuncKey(fn)
		// stores to Valid
		var falseStores []*ssa.Store
		nTrue := 0
		validFromErrors := false
		for _, in := range fnInstrs(fn) {
			st, ok := in.(*ssa.Store)
			if !ok {
				continue
			}
			fa, ok := st.Addr.(*ssa.FieldAddr)
			if !ok || fieldName(fa.X.Type(), fa.Field) != "Valid" {
				continue
			}
			switch desc(st.Val) {
			case "false":
				falseStores = append(falseStores, st)
			case "true":
				nTrue++
				c.Check(st.Block() == fn.Blocks[0], "header-valid-flag", key+":true-only-at-start", st.Pos(), "Valid=true only at construction", "Valid is set back to true after checks have run")
			default:
				// Valid = len(result.Errors) == 0, once, on the way to every return: then recording an error is what
				// makes the result invalid, provided the error list only ever grows
				derived := false
				if bo, isBo := st.Val.(*ssa.BinOp); isBo && bo.Op == token.EQL && desc(bo.Y) == "0" && strings.HasPrefix(trace(bo.X), "len(Errors<") {
					derived = true
					for _, b := range fn.Blocks {
						if _, isR := b.Instrs[len(b.Instrs)-1].(*ssa.Return); isR && b != st.Block() && !st.Block().Dominates(b) {
							derived = false
						}
					}
				}
				if derived {
					validFromErrors = true
					c.Ok("header-valid-flag", key+":derived-from-errors", st.Pos(), "Valid = (no error was recorded), computed before every return")
				} else {
					c.Bad("header-valid-flag", key+":store:"+shortArg(desc(st.Val)), st.Pos(), "Valid is assigned %s", desc(st.Val))
				}
			}
		}
		if validFromErrors {
			// the error list only grows: every store to Errors is the initial empty list or append(Errors, …)
			for _, in := range fnInstrs(fn) {
				st, ok := in.(*ssa.Store)
				if !ok {
					continue
				}
				fa, ok := st.Addr.(*ssa.FieldAddr)
				if !ok || fieldName(fa.X.Type(), fa.Field) != "Errors" {
					continue
				}
				t := trace(st.Val)
				switch {
				case strings.HasPrefix(t, "makeslice("), strings.HasPrefix(t, "alloc:*[") && st.Block() == fn.Blocks[0], t == "nil" && st.Block() == fn.Blocks[0]:
				case strings.HasPrefix(t, "append(Errors<"):
					falseStores = append(falseStores, st)
				default:
					c.Bad("header-valid-flag", key+":errors-store:"+shortArg(t), st.Pos(), "the error list is replaced by %s: recorded failures can be lost before Valid is computed", shortArg(t))
				}
			}
			nTrue = 1
		}
		c.Check(nTrue == 1, "header-valid-flag", key+":initialised", fn.Pos(), "starts valid", fmt.Sprintf("Valid is set to true %d times", nTrue))
		var rets []*ssa.BasicBlock
		for _, b := range fn.Blocks {
			if _, ok := b.Instrs[len(b.Instrs)-1].(*ssa.Return); ok {
				rets = append(rets, b)
			}
		}
		// recorder helpers: methods on the result that set Valid=false whenever their error argument is non-nil
		recorderArg := func(ci ssa.CallInstruction) (errArg ssa.Value, ok bool) {
			h := samePkgHelper(fn, ci.Common())
			if h == nil || h.Parent() != nil {
				return nil, false
			}
			for i, q := range h.Params {
				if !isErrorType(q.Type()) || i >= len(ci.Common().Args) {
					continue
				}
				nonNil := fmt.Sprintf("p%d != nil", i)
				good := false
				for _, ef := range edgeFacts(h) {
					if ef.Fact != nonNil {
						continue
					}
					start := ef.From.Succs[ef.Succ]
					hasFalse := func(b *ssa.BasicBlock) bool {
						for _, in := range b.Instrs {
							if st, isSt := in.(*ssa.Store); isSt {
								if fa, isFA := st.Addr.(*ssa.FieldAddr); isFA && fieldName(fa.X.Type(), fa.Field) == "Valid" && desc(st.Val) == "false" && trace(fa.X) == "p0" {
									return true
								}
							}
						}
						return false
					}
					good = true
					if !hasFalse(start) {
						reach := reachFromAvoiding([]*ssa.BasicBlock{start}, func(from *ssa.BasicBlock, succ int) bool { return hasFalse(from) })
						for b := range reach {
							if _, isR := b.Instrs[len(b.Instrs)-1].(*ssa.Return); isR && !hasFalse(b) {
								good = false
							}
						}
					}
				}
				if good {
					return ci.Common().Args[i], true
				}
			}
			return nil, false
		}
		recorderBlocks := map[*ssa.BasicBlock][]ssa.Value{}
		for _, ci := range allCalls(fn) {
			if _, isGo := ci.(*ssa.Go); isGo {
				continue
			}
			if _, isDefer := ci.(*ssa.Defer); isDefer {
				continue
			}
			if a, ok := recorderArg(ci); ok {
				recorderBlocks[ci.Block()] = append(recorderBlocks[ci.Block()], a)
			}
		}
		isFalseBlock := func(b *ssa.BasicBlock) bool {
			for _, s := range falseStores {
				if s.Block() == b {
					return true
				}
			}
			return false
		}
		checks := []string{"validateSlotOrdering", "validateBlockNumber", "validatePrevHash", "validateVRFProof", "validateLeadership", "validateNonceVRFProof", "validateKESPeriod", "validateKESSignature", "validateOpCertSignature", "validateVRFKeyRegistration"}
		for _, name := range checks {
			var call *ssa.Call
			for _, ci := range allCalls(fn) {
				if cal := ci.Common().StaticCallee(); cal != nil && cal.Name() == name {
					call, _ = ci.(*ssa.Call)
				}
			}
			ck := key + ":" + name
			if call == nil {
				c.Bad("header-checks-complete", ck, fn.Pos(), "ValidateHeader never calls %s", name)
				continue
			}
			// called on every path to the return (leadership: on every path where the VRF proof produced an output)
			cut := func(from *ssa.BasicBlock, succ int) bool { return false }
			reachNo := reachFromAvoiding([]*ssa.BasicBlock{fn.Blocks[0]}, func(from *ssa.BasicBlock, succ int) bool {
				return from.Succs[succ] == call.Block()
			})
			_ = cut
			skipped := false
			for _, r := range rets {
				if reachNo[r] && call.Block() != fn.Blocks[0] {
					skipped = true
				}
			}
			if name == "validateLeadership" && skipped {
				// allowed only through the "no VRF output" edge
				reach2 := reachFromAvoiding([]*ssa.BasicBlock{fn.Blocks[0]}, func(from *ssa.BasicBlock, succ int) bool {
					if from.Succs[succ] == call.Block() {
						return true
					}
					iff, ok := from.Instrs[len(from.Instrs)-1].(*ssa.If)
					if !ok {
						return false
					}
					t := trace(iff.Cond)
					// the edge on which the VRF output is nil
					return strings.Contains(t, "validateVRFProof(p0,p1)#0") && ((strings.Contains(t, "!= nil") && succ == 1) || (strings.Contains(t, "== nil") && succ == 0))
				})
				skipped = false
				for _, r := range rets {
					if reach2[r] {
						skipped = true
					}
				}
			}
			c.Check(!skipped, "header-checks-complete", ck+":always-run", call.Pos(), name+" runs on every path", "ValidateHeader can return without having run "+name)
			// error edge → Valid=false on every path to the return
			var errFrom *ssa.BasicBlock
			errSucc := -1
			for _, b := range fn.Blocks {
				iff, ok := b.Instrs[len(b.Instrs)-1].(*ssa.If)
				if !ok {
					continue
				}
				bo, ok := iff.Cond.(*ssa.BinOp)
				if !ok || !isNilConst(bo.Y) {
					continue
				}
				v := bo.X
				if ex, ok := v.(*ssa.Extract); ok {
					if ex.Tuple != ssa.Value(call) || !isErrorType(ex.Type()) {
						continue
					}
				} else if v != ssa.Value(call) {
					continue
				}
				errFrom = b
				if bo.Op == token.NEQ {
					errSucc = 0
				} else {
					errSucc = 1
				}
			}
			// the check's error value, as the call itself or its error component
			isErrOfCall := func(v ssa.Value) bool {
				if ex, ok := v.(*ssa.Extract); ok {
					return ex.Tuple == ssa.Value(call) && isErrorType(ex.Type())
				}
				return v == ssa.Value(call)
			}
			recordedIn := func(b *ssa.BasicBlock) bool {
				for _, a := range recorderBlocks[b] {
					if isErrOfCall(a) {
						return true
					}
				}
				return false
			}
			if errFrom == nil {
				// result.recordFailure(v.validateX(input)): handed to a recorder unconditionally, right where it is made
				if recordedIn(call.Block()) {
					c.Ok("header-checks-complete", ck+":error-flags-invalid", call.Pos(), "the result of "+name+" is handed to a recorder that marks the result invalid on a non-nil error")
					continue
				}
				c.Bad("header-checks-complete", ck+":error-flags-invalid", call.Pos(), "the result of %s is not tested", name)
				continue
			}
			start := errFrom.Succs[errSucc]
			setsFalse := func(b *ssa.BasicBlock) bool { return isFalseBlock(b) || recordedIn(b) }
			reach := reachFromAvoiding([]*ssa.BasicBlock{start}, func(from *ssa.BasicBlock, succ int) bool { return setsFalse(from) })
			bad := !setsFalse(start)
			if bad {
				bad = false
				for _, r := range rets {
					if reach[r] {
						bad = true
					}
				}
			}
			c.Check(!bad, "header-checks-complete", ck+":error-flags-invalid", call.Pos(), "a failing "+name+" makes the result invalid", "a failure of "+name+" does not set Valid=false on every path: a tampered header is reported valid")
		}
	} else {
		c.Undecided("consensus.HeaderValidator.ValidateHeader not found")
	}
	// (2) KES windows
	c.checkKesWindow(c.SSAFunc("consensus", "HeaderValidator.validateKESPeriod"), "(Slot<p1 / slotsPerKESPeriod<p0)", "OpCertKesPeriod<p1", "maxKESEvolutions<p0")
	c.checkKesWindow(c.SSAFunc("ledger", "ValidateKesPeriod"), "(p1 / p2)", "p0", "p3")
	// (3) KES signature
	c.checkVerifyCall(c.SSAFunc("consensus", "HeaderValidator.validateKESSignature"), "VerifySignedKES", func(a []string) bool {
		return a[0] == "OpCertHotVkey<p1" && a[1] == "((Slot<p1 / slotsPerKESPeriod<p0) - OpCertKesPeriod<p1)" && a[2] == "HeaderBodyCbor<p1" && a[3] == "KesSignature<p1"
	}, "VerifySignedKES(hot key, current − certificate period, header body bytes, signature)")
	c.checkVerifyCall(c.SSAFunc("ledger", "VerifyKesComponents"), "VerifySignedKES", func(a []string) bool {
		return a[0] == "p2" && a[1] == "((p4 / p5) - p3)" && a[2] == "p0" && a[3] == "p1"
	}, "VerifySignedKES(hot key, current − certificate period, body bytes, signature)")
	if fn := c.SSAFunc("ledger", "VerifyKes"); fn != nil {
		ok := false
		for _, ci := range allCalls(fn) {
			if cal := ci.Common().StaticCallee(); cal != nil && cal.Name() == "VerifyKesComponents" {
				t := trace(ci.Common().Args[0])
				ok = t == "extractOriginalBodyCbor(p0)#0"
				c.Check(ok, "kes-signature", ssaFuncKey(fn)+":stored-body", ci.Pos(), "the signed bytes are the header body's stored bytes", "VerifyKes verifies the signature over "+shortArg(t)+", not the stored header body bytes")
			}
		}
		if !ok {
			c.Check(false, "kes-signature", ssaFuncKey(fn)+":stored-body", fn.Pos(), "", "VerifyKes does not verify over extractOriginalBodyCbor(header)")
		}
	}
	// (4) op-cert
	c.checkVerifyCall(c.SSAFunc("consensus", "HeaderValidator.validateOpCertSignature"), "ed25519.Verify", func(a []string) bool {
		return a[0] == "IssuerVkey<p1" && a[1] == "OpCertSignableBytes(OpCertHotVkey<p1,OpCertSequenceNumber<p1,OpCertKesPeriod<p1)" && a[2] == "OpCertSignature<p1"
	}, "ed25519.Verify(cold key, OpCertSignableBytes(hot key, counter, period), cold signature)")
	c.checkVerifyCall(c.SSAFunc("ledger", "VerifyOpCertSignature"), "ed25519.Verify", func(a []string) bool {
		return a[0] == "p1" && strings.HasPrefix(a[1], "OpCertSignableBytes(KesVkey<p0,") && strings.Contains(a[1], "IssueNumber<p0") && strings.Contains(a[1], "KesPeriod<p0") && a[2] == "ColdSignature<p0"
	}, "ed25519.Verify(cold key, OpCertSignableBytes(KES key, issue number, period), cold signature)")
	// OpCertSignableBytes: key ‖ counter ‖ period
	if fn := c.SSAFunc("ledger/common", "OpCertSignableBytes"); fn != nil {
		// three parts written in order: p0 bytes, p1 as big-endian uint64, p2 as big-endian uint64
		var order []string
		for _, ci := range allCalls(fn) {
			n := calleeName(ci.Common())
			switch {
			case n == "copy":
				order = append(order, "copy:"+trace(ci.Common().Args[1]))
			case strings.HasSuffix(n, "PutUint64"):
				order = append(order, "be64:"+trace(ci.Common().Args[len(ci.Common().Args)-1]))
			case strings.HasSuffix(n, "AppendUint64"):
				order = append(order, "be64:"+trace(ci.Common().Args[len(ci.Common().Args)-1]))
			case n == "append":
				order = append(order, "append:"+trace(ci.Common().Args[1]))
			}
		}
		s := strings.Join(order, " ")
		i0, i1, i2 := strings.Index(s, "p0"), strings.Index(s, "p1"), strings.Index(s, "p2")
		c.Check(i0 >= 0 && i1 > i0 && i2 > i1 && strings.Contains(s, "be64:"), "opcert-signature", ssaFuncKey(fn), fn.Pos(), "signable = key ‖ be64(counter) ‖ be64(period)", "OpCertSignableBytes is not key ‖ counter ‖ period in that order: "+shortArg(s))
	}
}

func (c *Ctx) checkKesWindow(fn *ssa.Function, cur, op, max string) {
	if fn == nil {
		c.Undecided("KES window function not found")
		return
	}
	key := ssaFuncKey(fn)
	type edge struct {
		b *ssa.BasicBlock
		s int
	}
	var lower, upper, looseUpper []edge
	for _, b := range fn.Blocks {
		iff, ok := b.Instrs[len(b.Instrs)-1].(*ssa.If)
		if !ok {
			continue
		}
		bo, ok := iff.Cond.(*ssa.BinOp)
		if !ok {
			continue
		}
		for s := 0; s < 2; s++ {
			o := bo.Op
			if s == 1 {
				o = negOp(o)
			}
			l, r, ops := traceIP(fn, bo.X), traceIP(fn, bo.Y), o.String()
			// normalise so that the "current"-side expression is on the left
			if strings.Contains(r, cur) && !strings.Contains(l, cur) {
				l, r, ops = r, l, swapOpStr(ops)
			}
			diff := "(" + cur + " - " + op + ")"
			sum := "(" + op + " + " + max + ")"
			sum2 := "(" + max + " + " + op + ")"
			switch {
			case l == cur && r == op && ops == ">=":
				lower = append(lower, edge{b, s})
			case (l == diff && r == max && ops == "<") || (l == cur && (r == sum || r == sum2) && ops == "<"):
				upper = append(upper, edge{b, s})
			case (l == diff && r == max && ops == "<=") || (l == cur && (r == sum || r == sum2) && ops == "<="):
				looseUpper = append(looseUpper, edge{b, s})
			}
		}
	}
	// the lower bound may be established in a helper that computes current − certificate period and fails when the
	// certificate is from the future: then the helper's nil-error edge in fn stands for it
	for _, ci := range allCalls(fn) {
		h := samePkgHelper(fn, ci.Common())
		if h == nil || errorResultIndex(h) < 0 || ci.Value() == nil {
			continue
		}
		var hl []edge
		for _, b := range h.Blocks {
			iff, ok := b.Instrs[len(b.Instrs)-1].(*ssa.If)
			if !ok {
				continue
			}
			bo, ok := iff.Cond.(*ssa.BinOp)
			if !ok {
				continue
			}
			for s2 := 0; s2 < 2; s2++ {
				o := bo.Op
				if s2 == 1 {
					o = negOp(o)
				}
				l, r, ops := trace(bo.X), trace(bo.Y), o.String()
				if strings.Contains(r, cur) && !strings.Contains(l, cur) {
					l, r, ops = r, l, swapOpStr(ops)
				}
				if l == cur && r == op && ops == ">=" {
					hl = append(hl, edge{b, s2})
				}
			}
		}
		if len(hl) == 0 {
			continue
		}
		hreach, _ := reachAvoiding(h, func(from *ssa.BasicBlock, succ int) bool {
			for _, e := range hl {
				if e.b == from && e.s == succ {
					return true
				}
			}
			return false
		})
		all := true
		for _, r := range successReturns(h) {
			if hreach[r.Block()] {
				all = false
			}
		}
		if !all {
			continue
		}
		ev := ssa.Value(ci.Value())
		for _, b := range fn.Blocks {
			iff, ok := b.Instrs[len(b.Instrs)-1].(*ssa.If)
			if !ok {
				continue
			}
			bo, ok := iff.Cond.(*ssa.BinOp)
			if !ok || !isNilConst(bo.Y) {
				continue
			}
			x := bo.X
			if ex, isEx := x.(*ssa.Extract); isEx {
				x = ex.Tuple
			}
			if x != ev {
				continue
			}
			if bo.Op == token.EQL {
				lower = append(lower, edge{b, 0})
			} else if bo.Op == token.NEQ {
				lower = append(lower, edge{b, 1})
			}
		}
	}
	rets := successReturns(fn)
	through := func(es []edge) bool {
		reach, _ := reachAvoiding(fn, func(from *ssa.BasicBlock, succ int) bool {
			for _, e := range es {
				if e.b == from && e.s == succ {
					return true
				}
			}
			return false
		})
		for _, r := range rets {
			if reach[r.Block()] {
				return false
			}
		}
		return len(es) > 0 && len(rets) > 0
	}
	c.Check(through(lower), "kes-window", key+":not-before-start", fn.Pos(), "success requires current period ≥ certificate period", "a header is accepted at a KES period before its certificate's start period")
	okUp := through(upper)
	why := "a header can be accepted without (current − certificate period) < max evolutions having been established"
	if !okUp && len(looseUpper) > 0 {
		why = "the expiry test is not strict: a header presented exactly max-evolutions periods after the certificate's start (one period past the window) is accepted"
	}
	c.Check(okUp, "kes-window", key+":before-expiry", fn.Pos(), "success requires current − certificate period < max evolutions (strict)", why)
}

func (c *Ctx) checkVerifyCall(fn *ssa.Function, calleeSuffix string, argsOK func([]string) bool, wantDesc string) {
	if fn == nil {
		c.Undecided("verification function for %s not found", calleeSuffix)
		return
	}
	key := ssaFuncKey(fn)
	rule := "kes-signature"
	if strings.Contains(calleeSuffix, "ed25519") {
		rule = "opcert-signature"
	}
	var call *ssa.Call
	for _, ci := range allCalls(fn) {
		if strings.HasSuffix(calleeName(ci.Common()), calleeSuffix) {
			call, _ = ci.(*ssa.Call)
		}
	}
	if call == nil {
		c.Bad(rule, key, fn.Pos(), "%s never calls %s", key, calleeSuffix)
		return
	}
	var args []string
	for _, a := range call.Call.Args {
		args = append(args, traceIP(fn, a))
	}
	c.Check(argsOK(args), rule, key+":args", call.Pos(), wantDesc, "the verification is "+calleeSuffix+"("+shortArg(strings.Join(args, ", "))+"), expected "+wantDesc)
	// success requires the call to be true: either returned directly, or its false edge never reaches a success return
	direct := false
	for _, b := range fn.Blocks {
		if r, ok := b.Instrs[len(b.Instrs)-1].(*ssa.Return); ok && len(r.Results) > 0 && r.Results[0] == ssa.Value(call) {
			direct = true
		}
	}
	if direct {
		c.Ok(rule, key+":decides", call.Pos(), "the verification result is the function's result")
		return
	}
	var from *ssa.BasicBlock
	tSucc := -1
	for _, b := range fn.Blocks {
		iff, ok := b.Instrs[len(b.Instrs)-1].(*ssa.If)
		if !ok {
			continue
		}
		if iff.Cond == ssa.Value(call) {
			from, tSucc = b, 0
		} else if u, ok := iff.Cond.(*ssa.UnOp); ok && u.Op == token.NOT && u.X == ssa.Value(call) {
			from, tSucc = b, 1
		}
	}
	if from == nil {
		c.Bad(rule, key+":decides", call.Pos(), "the result of %s is not tested", calleeSuffix)
		return
	}
	reach, _ := reachAvoiding(fn, func(f *ssa.BasicBlock, s int) bool { return f == from && s == tSucc })
	bad := false
	for _, r := range successReturns(fn) {
		if reach[r.Block()] {
			bad = true
		}
	}
	c.Check(!bad, rule, key+":decides", call.Pos(), "success requires the verification to be true", "the function can succeed although "+calleeSuffix+" returned false")
}
