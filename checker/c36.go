package main

import (
	"strconv"
	"os"
	"golang.org/x/tools/go/ssa"
	"golang.org/x/tools/go/packages"
	"fmt"
	"go/ast"
	"go/constant"
	"go/token"
	"go/types"
	"sort"
	"strings"
)

func init() {
	register(&Prop{
		ID:        "C36",
		Level:     "proof",
		Technique: "table extraction over the type-checked AST (constants, map literals, switch cases) with exhaustive evaluation of the finite version domain 0..64 and type-level resolution of constructor result types",
		Explanation: "(1) BlockHeaderToBlockTypeMap and BlockToBlockHeaderTypeMap are mutually inverse. (2) Each era's Min/MaxProtocolVersion constants satisfy Min ≤ Max and the ranges are pairwise disjoint. (3) inProtocolRange is min ≤ v ≤ max; in DetermineBlockType every case tests the range with the Min and Max constants of one era and returns that same era's block type; evaluating both layout switches for every major version 0..64 with the declared constants yields at most one type per version within a layout, never different eras for one version across layouts, and only versions inside the returned era's declared range. " +
			"(4) In NewBlockFromCbor and NewBlockHeaderFromCbor every case for block-type constant T calls (through the package-level function aliases) a constructor whose declared result type has Type() returning a constant equal to T (blocks) and Era() returning the era variable declared in the package that declares T, whose Id equals BlockToBlockHeaderTypeMap[T] for the post-Byron eras; every block type constant has a case.",
		Assumptions: []string{"Go's static typing: a constructor returns a value of its declared result type", "header-layout field positions (body[13], body[9][0]) are as in the CDDL"},
		Run:         runC36,
	})
}

type c36Era struct {
	name     string
	min, max int64
}

func runC36(c *Ctx) {
	c.checkInverseMaps("ledger", "BlockToBlockHeaderTypeMap", "BlockHeaderToBlockTypeMap")
	eras := []string{"shelley", "allegra", "mary", "alonzo", "babbage", "conway", "dijkstra"}
	var ranges []c36Era
	for _, e := range eras {
		E := strings.ToUpper(e[:1]) + e[1:]
		mn, ok1 := c.ConstIntOpt("ledger/"+e, "MinProtocolVersion"+E)
		mx, ok2 := c.ConstIntOpt("ledger/"+e, "MaxProtocolVersion"+E)
		if !ok1 || !ok2 {
			c.Undecided("ledger/%s: Min/MaxProtocolVersion%s not found", e, E)
			continue
		}
		c.Check(mn <= mx, "era-version-ranges", "ledger/"+e+":ordered", token.NoPos, fmt.Sprintf("[%d,%d]", mn, mx), fmt.Sprintf("%s declares the empty range [%d,%d]", E, mn, mx))
		ranges = append(ranges, c36Era{E, mn, mx})
	}
	for i := range ranges {
		for j := i + 1; j < len(ranges); j++ {
			a, b := ranges[i], ranges[j]
			c.Check(a.max < b.min || b.max < a.min, "era-version-ranges", "ledger:"+a.name+"/"+b.name+":disjoint", token.NoPos, "ranges are disjoint", fmt.Sprintf("%s [%d,%d] and %s [%d,%d] overlap: a major version in both belongs to two eras", a.name, a.min, a.max, b.name, b.min, b.max))
		}
	}
	rangeOf := map[string]c36Era{}
	for _, r := range ranges {
		rangeOf[r.name] = r
	}
	// inProtocolRange
	{
		var p *packages.Package
		var fd *ast.FuncDecl
		if o := c.FuncObjOpt("ledger", "inProtocolRange"); o != nil {
			p, fd = c.Pkg("ledger"), c.Decl(o)
		}
		ok := fd == nil // written inline at its uses: the dispatch table below evaluates the comparisons themselves
		if fd == nil {
			_, fd = c.FuncDecl("ledger", "DetermineBlockType")
		}
		if p != nil && fd != nil && len(fd.Body.List) == 1 {
			if rs, isR := fd.Body.List[0].(*ast.ReturnStmt); isR && len(rs.Results) == 1 {
				s := types.ExprString(rs.Results[0])
				params := []string{}
				for _, f := range fd.Type.Params.List {
					for _, n := range f.Names {
						params = append(params, n.Name)
					}
				}
				if len(params) == 3 {
					v, mn, mx := params[0], params[1], params[2]
					for _, w := range []string{
						v + " >= " + mn + " && " + v + " <= " + mx,
						v + " <= " + mx + " && " + v + " >= " + mn,
						mn + " <= " + v + " && " + v + " <= " + mx,
					} {
						if s == w {
							ok = true
						}
					}
				}
				_ = p
			}
		}
		c.Check(ok, "dispatch-range-test", "ledger.inProtocolRange", fd.Pos(), "min ≤ v ≤ max", "inProtocolRange is not the inclusive test min ≤ v ≤ max")
	}
	// DetermineBlockType
	p, fd := c.FuncDecl("ledger", "DetermineBlockType")
	type arm struct {
		minEra, maxEra, retEra string
		min, max               int64
		pos                    token.Pos
	}
	layouts := map[string][]arm{}
	semantic := false
	if fd == nil {
		c.Undecided("DetermineBlockType not found")
		return
	}
	var outer *ast.SwitchStmt
	ast.Inspect(fd.Body, func(n ast.Node) bool {
		if sw, ok := n.(*ast.SwitchStmt); ok && sw.Tag != nil && outer == nil {
			outer = sw
			return false
		}
		return true
	})
	if outer == nil {
		// no layout switch (a guard chain instead): everything is derived from the type-checked program
		c.determineBlockTypeSemantic(p, fd, nil, rangeOf)
		c.checkConstructorSwitch("NewBlockFromCbor", true)
		c.checkConstructorSwitch("NewBlockHeaderFromCbor", false)
		return
	}
	eraOfConst := func(e ast.Expr, prefix string) (string, int64, bool) {
		var id *ast.Ident
		switch x := e.(type) {
		case *ast.SelectorExpr:
			id = x.Sel
		case *ast.Ident:
			id = x
		default:
			return "", 0, false
		}
		if !strings.HasPrefix(id.Name, prefix) {
			return "", 0, false
		}
		v, ok := constInt(p.TypesInfo, e)
		return strings.TrimPrefix(id.Name, prefix), v, ok
	}
	for _, cl := range outer.Body.List {
		cc := cl.(*ast.CaseClause)
		if len(cc.List) != 1 {
			continue
		}
		layout := types.ExprString(cc.List[0])
		var inner *ast.SwitchStmt
		for _, st := range cc.Body {
			if sw, ok := st.(*ast.SwitchStmt); ok && sw.Tag == nil {
				inner = sw
			}
		}
		if inner == nil {
			// the per-layout classification is not an inline version switch (helper, if-chain): the table is derived
			// below by evaluating the function for every (layout, version) instead
			semantic = true
			continue
		}
		for _, icl := range inner.Body.List {
			icc := icl.(*ast.CaseClause)
			if icc.List == nil {
				// default must be an error return
				ok := false
				for _, st := range icc.Body {
					if rs, isR := st.(*ast.ReturnStmt); isR && len(rs.Results) == 2 && types.ExprString(rs.Results[1]) != "nil" {
						ok = true
					}
				}
				c.Check(ok, "dispatch-case-era", "ledger.DetermineBlockType:"+layout+":default", icc.Pos(), "a version outside every declared range is an error", "the default case of the "+layout+" version switch does not return an error")
				continue
			}
			if len(icc.List) != 1 {
				c.Undecided("DetermineBlockType: multi-expression case in %s", layout)
				continue
			}
			call, ok := icc.List[0].(*ast.CallExpr)
			if !ok || len(call.Args) != 3 || types.ExprString(call.Fun) != "inProtocolRange" {
				c.Undecided("DetermineBlockType: unrecognised case %s in %s", types.ExprString(icc.List[0]), layout)
				continue
			}
			var a arm
			a.pos = icc.Pos()
			var ok1, ok2 bool
			a.minEra, a.min, ok1 = eraOfConst(call.Args[1], "MinProtocolVersion")
			a.maxEra, a.max, ok2 = eraOfConst(call.Args[2], "MaxProtocolVersion")
			if v, okc := constInt(p.TypesInfo, call.Args[1]); okc {
				a.min = v
			}
			if v, okc := constInt(p.TypesInfo, call.Args[2]); okc {
				a.max = v
			} else {
				c.Undecided("DetermineBlockType: non-constant bound %s", types.ExprString(call.Args[2]))
			}
			for _, st := range icc.Body {
				if rs, isR := st.(*ast.ReturnStmt); isR && len(rs.Results) == 2 {
					if id, isId := rs.Results[0].(*ast.Ident); isId && strings.HasPrefix(id.Name, "BlockType") {
						a.retEra = strings.TrimPrefix(id.Name, "BlockType")
					}
				}
			}
			key := "ledger.DetermineBlockType:" + layout + ":" + a.retEra
			c.Check(ok1 && ok2 && a.minEra == a.maxEra && a.minEra == a.retEra && a.retEra != "", "dispatch-case-era", key, a.pos,
				"the case tests "+a.retEra+"'s own [Min,Max] and returns its block type",
				fmt.Sprintf("the case returning BlockType%s tests the range [%s, %s]: its bounds are not the Min and Max constants of %s, so versions outside %s's declared range are classified as %s", a.retEra, types.ExprString(call.Args[1]), types.ExprString(call.Args[2]), a.retEra, a.retEra, a.retEra))
			layouts[layout] = append(layouts[layout], a)
		}
	}
	if semantic || os.Getenv("C36_SEMANTIC") != "" {
		c.determineBlockTypeSemantic(p, fd, outer, rangeOf)
		c.checkConstructorSwitch("NewBlockFromCbor", true)
		c.checkConstructorSwitch("NewBlockHeaderFromCbor", false)
		return
	}
	c.Check(len(layouts) == 2, "dispatch-case-era", "ledger.DetermineBlockType:layouts", fd.Pos(), "two header layouts", fmt.Sprintf("%d header layouts recognised, expected 2", len(layouts)))
	// exhaustive evaluation 0..64
	var lnames []string
	for l := range layouts {
		lnames = append(lnames, l)
	}
	sort.Strings(lnames)
	for v := int64(0); v <= 64; v++ {
		got := map[string]string{}
		for _, l := range lnames {
			for _, a := range layouts[l] {
				if a.min <= v && v <= a.max {
					got[l] = a.retEra
					break
				}
			}
		}
		okV := true
		detail := ""
		var seen string
		for _, l := range lnames {
			e := got[l]
			if e == "" {
				continue
			}
			r, known := rangeOf[e]
			if !known || v < r.min || v > r.max {
				okV = false
				detail += fmt.Sprintf(" layout %s classifies it as %s whose declared range is [%d,%d];", l, e, r.min, r.max)
			}
			if seen != "" && seen != e {
				okV = false
				detail += fmt.Sprintf(" it maps to %s and %s depending on the layout;", seen, e)
			}
			seen = e
		}
		// must be classified where a declared range contains it and the layout has an arm for that era
		c.Check(okV, "dispatch-version-unique", fmt.Sprintf("ledger.DetermineBlockType:major=%d", v), fd.Pos(), "maps to at most one era, inside that era's declared range", fmt.Sprintf("protocol major %d:%s", v, detail))
	}
	// (4) constructors
	c.checkConstructorSwitch("NewBlockFromCbor", true)
	c.checkConstructorSwitch("NewBlockHeaderFromCbor", false)
}

func (c *Ctx) checkConstructorSwitch(fname string, isBlock bool) {
	p, fd := c.FuncDecl("ledger", fname)
	if fd == nil {
		c.Undecided("ledger.%s not found", fname)
		return
	}
	var sw *ast.SwitchStmt
	ast.Inspect(fd.Body, func(n ast.Node) bool {
		if s, ok := n.(*ast.SwitchStmt); ok && s.Tag != nil && sw == nil {
			sw = s
		}
		return true
	})
	if sw == nil {
		c.Undecided("ledger.%s: switch not found", fname)
		return
	}
	// header-type map for era ids
	b2h := map[int64]int64{}
	if v := c.Pkg("ledger").Types.Scope().Lookup("BlockToBlockHeaderTypeMap"); v != nil {
		if init, ip := c.pkgVarInit(v.(*types.Var)); init != nil {
			if cl, ok := init.(*ast.CompositeLit); ok {
				for _, el := range cl.Elts {
					kv := el.(*ast.KeyValueExpr)
					k, _ := constInt(ip.TypesInfo, kv.Key)
					val, _ := constInt(ip.TypesInfo, kv.Value)
					b2h[k] = val
				}
			}
		}
	}
	covered := map[int64]bool{}
	for _, cl := range sw.Body.List {
		cc := cl.(*ast.CaseClause)
		for _, ce := range cc.List {
			T, ok := constInt(p.TypesInfo, ce)
			if !ok {
				c.Undecided("ledger.%s: non-constant case", fname)
				continue
			}
			covered[T] = true
			key := fmt.Sprintf("ledger.%s:%s", fname, types.ExprString(ce))
			// the package that declares the constant (follow the alias const to its defining package by name)
			var call *ast.CallExpr
			for _, st := range cc.Body {
				if rs, ok := st.(*ast.ReturnStmt); ok && len(rs.Results) == 1 {
					call, _ = rs.Results[0].(*ast.CallExpr)
				}
				// result-variable form: block, err = NewXBlockFromCbor(…) with one return at the end
				if as, ok := st.(*ast.AssignStmt); ok && len(as.Rhs) == 1 && len(as.Lhs) == 2 && call == nil {
					call, _ = as.Rhs[0].(*ast.CallExpr)
				}
			}
			if call == nil {
				c.Bad("constructor-dispatch", key, cc.Pos(), "the case does not return a constructor call")
				continue
			}
			fnObj := c.resolveFuncValue(p.TypesInfo, call.Fun)
			if fnObj == nil {
				c.Undecided("%s: cannot resolve constructor %s", key, types.ExprString(call.Fun))
				continue
			}
			sig := fnObj.Type().(*types.Signature)
			rt := sig.Results().At(0).Type()
			// Type()
			if isBlock {
				tv, ok := c.constMethodResult(rt, "Type")
				c.Check(ok && tv == T, "constructor-dispatch", key+":Type()", cc.Pos(), fmt.Sprintf("%s.Type() = %d", typeStr(rt), T), fmt.Sprintf("decoding as block type %d yields a %s whose Type() returns %d", T, typeStr(rt), tv))
			}
			eraPkg, eraId, ok := c.eraMethodResult(rt)
			declPkg := fnObj.Pkg().Path()
			c.Check(ok && eraPkg == declPkg, "constructor-dispatch", key+":Era()", cc.Pos(), typeStr(rt)+".Era() is the era declared beside it", fmt.Sprintf("%s.Era() returns an era of package %s, the constructor belongs to %s", typeStr(rt), eraPkg, declPkg))
			if h, has := b2h[T]; has {
				c.Check(ok && eraId == h, "constructor-dispatch", key+":era-id", cc.Pos(), fmt.Sprintf("era id %d = header type of block type %d", h, T), fmt.Sprintf("block type %d maps to header/era id %d but %s.Era().Id is %d", T, h, typeStr(rt), eraId))
			}
			// the constructor's package declares the block type constant with this value
			ok2 := false
			for _, n := range fnObj.Pkg().Scope().Names() {
				if cst, isC := fnObj.Pkg().Scope().Lookup(n).(*types.Const); isC && strings.HasPrefix(n, "BlockType") {
					if v, exact := constant.Int64Val(cst.Val()); exact && v == T {
						ok2 = true
					}
				}
			}
			c.Check(ok2, "constructor-dispatch", key+":same-era-package", cc.Pos(), "the constructor's package declares this block type", fmt.Sprintf("block type %d is decoded by a constructor of %s, which declares no block type with that value", T, declPkg))
		}
	}
	// every block type constant of package ledger has a case
	for _, n := range c.Pkg("ledger").Types.Scope().Names() {
		cst, ok := c.Pkg("ledger").Types.Scope().Lookup(n).(*types.Const)
		if !ok || !strings.HasPrefix(n, "BlockType") {
			continue
		}
		v, _ := constant.Int64Val(cst.Val())
		c.Check(covered[v], "constructor-dispatch", fmt.Sprintf("ledger.%s:covers:%s", fname, n), fd.Pos(), "has a case", fmt.Sprintf("%s has no case in %s", n, fname))
	}
}

// resolveFuncValue resolves an identifier/selector that names a function or a package-level variable initialised with a function.
func (c *Ctx) resolveFuncValue(info *types.Info, e ast.Expr) *types.Func {
	for i := 0; i < 4; i++ {
		var id *ast.Ident
		switch x := unparen(e).(type) {
		case *ast.Ident:
			id = x
		case *ast.SelectorExpr:
			id = x.Sel
		default:
			return nil
		}
		switch o := info.Uses[id].(type) {
		case *types.Func:
			return o
		case *types.Var:
			init, ip := c.pkgVarInit(o)
			if init == nil {
				return nil
			}
			e, info = init, ip.TypesInfo
		default:
			return nil
		}
	}
	return nil
}

// constMethodResult: the method's body is a single `return <constant>`.
func (c *Ctx) constMethodResult(t types.Type, name string) (int64, bool) {
	m := c.methodOf(t, name)
	if m == nil {
		return 0, false
	}
	fd := c.DeclOpt(m)
	if fd == nil || fd.Body == nil || len(fd.Body.List) != 1 {
		return 0, false
	}
	rs, ok := fd.Body.List[0].(*ast.ReturnStmt)
	if !ok || len(rs.Results) != 1 {
		return 0, false
	}
	return constInt(c.PkgOf(m).TypesInfo, rs.Results[0])
}

func (c *Ctx) methodOf(t types.Type, name string) *types.Func {
	ms := types.NewMethodSet(t)
	for i := 0; i < ms.Len(); i++ {
		if f, ok := ms.At(i).Obj().(*types.Func); ok && f.Name() == name {
			return f
		}
	}
	return nil
}

// eraMethodResult: Era() returns a package-level variable whose composite literal has a constant Id.
func (c *Ctx) eraMethodResult(t types.Type) (pkg string, id int64, ok bool) {
	m := c.methodOf(t, "Era")
	if m == nil {
		return
	}
	fd := c.DeclOpt(m)
	if fd == nil || fd.Body == nil || len(fd.Body.List) != 1 {
		return
	}
	rs, isR := fd.Body.List[0].(*ast.ReturnStmt)
	if !isR || len(rs.Results) != 1 {
		return
	}
	var ident *ast.Ident
	switch x := rs.Results[0].(type) {
	case *ast.CallExpr:
		// delegation: return b.BlockHeader.Era()
		if sel, isSel := x.Fun.(*ast.SelectorExpr); isSel && sel.Sel.Name == "Era" && len(x.Args) == 0 {
			if rt := c.PkgOf(m).TypesInfo.TypeOf(sel.X); rt != nil && !types.Identical(rt, t) {
				return c.eraMethodResult(rt)
			}
		}
		return
	case *ast.Ident:
		ident = x
	case *ast.SelectorExpr:
		ident = x.Sel
	default:
		return
	}
	v, isV := c.PkgOf(m).TypesInfo.Uses[ident].(*types.Var)
	if !isV {
		return
	}
	init, ip := c.pkgVarInit(v)
	cl, isCl := init.(*ast.CompositeLit)
	if !isCl {
		return
	}
	for _, el := range cl.Elts {
		kv, isKV := el.(*ast.KeyValueExpr)
		if !isKV {
			continue
		}
		if k, isId := kv.Key.(*ast.Ident); isId && k.Name == "Id" {
			if val, okc := constInt(ip.TypesInfo, kv.Value); okc {
				return v.Pkg().Path(), val, true
			}
		}
	}
	return
}

// determineBlockTypeSemantic decides the same table as the arm-by-arm reading, from the type-checked program: for each
// header layout (case of the layout switch) and each protocol major 0..64 the block type returned with a nil error is
// computed by evaluating branch conditions (including inProtocolRange and classification helpers) under that
// valuation; the era so named must contain the version in its declared range, and be the same for both layouts.
func (c *Ctx) determineBlockTypeSemantic(p *packages.Package, fd *ast.FuncDecl, outer *ast.SwitchStmt, rangeOf map[string]c36Era) {
	fn := c.SSAFunc("ledger", "DetermineBlockType")
	// block type constant -> era name
	eraOf := map[int64]string{}
	for _, n := range p.Types.Scope().Names() {
		if k, ok := p.Types.Scope().Lookup(n).(*types.Const); ok && strings.HasPrefix(n, "BlockType") {
			if v, ok := constant.Int64Val(constant.ToInt(k.Val())); ok {
				if _, known := rangeOf[strings.TrimPrefix(n, "BlockType")]; known {
					eraOf[v] = strings.TrimPrefix(n, "BlockType")
				}
			}
		}
	}
	// layout atom and values: the tag of the layout switch, as the SSA comparison facts name it
	var layoutVals []int64
	layoutName := map[int64]string{}
	if outer != nil {
		for _, cl := range outer.Body.List {
			cc := cl.(*ast.CaseClause)
			for _, e := range cc.List {
				if v, ok := constInt(p.TypesInfo, e); ok {
					layoutVals = append(layoutVals, v)
					layoutName[v] = types.ExprString(e)
				}
			}
		}
	} else {
		// the header-body length that is compared with the most distinct constants is the layout discriminator; the
		// constants are named after the package's HeaderBodyLength* constants when they match
		byAtom := map[string]map[int64]bool{}
		for _, ef := range edgeFacts(fn) {
			l, op, r, ok := splitRel(ef.Fact)
			if !ok || !strings.HasPrefix(l, "len(") || op != "==" && op != "!=" {
				continue
			}
			if k, err := strconv.ParseInt(r, 10, 64); err == nil && k > 2 {
				if byAtom[l] == nil {
					byAtom[l] = map[int64]bool{}
				}
				byAtom[l][k] = true
			}
		}
		best := ""
		for a, ks := range byAtom {
			if best == "" || len(ks) > len(byAtom[best]) {
				best = a
			}
		}
		for k := range byAtom[best] {
			layoutVals = append(layoutVals, k)
			layoutName[k] = fmt.Sprint(k)
			for _, n := range p.Types.Scope().Names() {
				if cst, ok := p.Types.Scope().Lookup(n).(*types.Const); ok && strings.HasPrefix(n, "HeaderBodyLength") {
					if v, ok := constant.Int64Val(constant.ToInt(cst.Val())); ok && v == k {
						layoutName[k] = n
					}
				}
			}
		}
		sort.Slice(layoutVals, func(i, j int) bool { return layoutVals[i] < layoutVals[j] })
	}
	layoutAtom, verAtom := "", ""
	verAtoms := map[string]bool{}
	for _, ef := range edgeFacts(fn) {
		if l, op, r, ok := splitRel(ef.Fact); ok && op == "==" && strings.HasPrefix(l, "len(") {
			for _, v := range layoutVals {
				if r == fmt.Sprint(v) {
					layoutAtom = l
				}
			}
		}
	}
	// version atom: what is handed to the range test, here or by way of a classification helper
	for _, g := range closureFuncs(fn, 2) {
		for _, ci := range allCalls(g) {
			if cal := ci.Common().StaticCallee(); cal != nil && cal.Name() == "inProtocolRange" && len(ci.Common().Args) == 3 {
				if g == fn {
					verAtom = desc(ci.Common().Args[0])
					verAtoms[verAtom] = true
				} else if pa, ok := ci.Common().Args[0].(*ssa.Parameter); ok {
					for _, cj := range allCalls(fn) {
						if cj.Common().StaticCallee() == g {
							for i, q := range g.Params {
								if q == pa {
									verAtom = desc(cj.Common().Args[i])
									verAtoms[verAtom] = true
								}
							}
						}
					}
				}
			}
		}
	}
	if verAtom == "" {
		// range tests written inline: the version is whatever else is compared with small constants
		for _, g := range closureFuncs(fn, 2) {
			if g != fn {
				continue
			}
			for _, ef := range edgeFacts(g) {
				l, _, r, ok := splitRel(ef.Fact)
				if !ok || l == layoutAtom || strings.HasPrefix(l, "len(") || strings.HasPrefix(l, "phi(") {
					continue
				}
				if k, err := strconv.ParseInt(r, 10, 64); err == nil && k >= 0 && k <= 64 && strings.Contains(l, "uint64") {
					verAtom = l
					verAtoms[l] = true
				}
			}
		}
	}
	if layoutAtom == "" || verAtom == "" || len(layoutVals) != 2 {
		c.Undecided("DetermineBlockType: layout/version atoms not identified (%q, %q, %d layouts)", layoutAtom, verAtom, len(layoutVals))
		return
	}
	c.Ok("dispatch-case-era", "ledger.DetermineBlockType:layouts", fd.Pos(), "two header layouts")
	perLayoutEra := map[string]map[string][]int64{}
	for v := int64(0); v <= 64; v++ {
		okV, detail, seen := true, "", ""
		for _, L := range layoutVals {
			val := map[string]int64{layoutAtom: L}
			for a := range verAtoms {
				val[a] = v
			}
			res, ok := constResults(fn, 0, val, 0)
			if !ok {
				c.Undecided("DetermineBlockType: result for layout %d, major %d is not a constant block type", L, v)
				return
			}
			if len(res) > 1 {
				okV = false
				detail += fmt.Sprintf(" layout %s yields %d different block types;", layoutName[L], len(res))
			}
			for bt := range res {
				e := eraOf[bt]
				ln := layoutName[L]
				if perLayoutEra[ln] == nil {
					perLayoutEra[ln] = map[string][]int64{}
				}
				perLayoutEra[ln][e] = append(perLayoutEra[ln][e], v)
				r, known := rangeOf[e]
				if !known || v < r.min || v > r.max {
					okV = false
					detail += fmt.Sprintf(" layout %s classifies it as %s whose declared range is [%d,%d];", ln, e, r.min, r.max)
				}
				if seen != "" && seen != e {
					okV = false
					detail += fmt.Sprintf(" it maps to %s and %s depending on the layout;", seen, e)
				}
				seen = e
			}
		}
		c.Check(okV, "dispatch-version-unique", fmt.Sprintf("ledger.DetermineBlockType:major=%d", v), fd.Pos(), "maps to at most one era, inside that era's declared range", fmt.Sprintf("protocol major %d:%s", v, detail))
	}
	var lns []string
	for ln := range perLayoutEra {
		lns = append(lns, ln)
	}
	sort.Strings(lns)
	for _, ln := range lns {
		var es []string
		for e := range perLayoutEra[ln] {
			es = append(es, e)
		}
		sort.Strings(es)
		for _, e := range es {
			vs := perLayoutEra[ln][e]
			r := rangeOf[e]
			full := int64(len(vs)) == r.max-r.min+1
			c.Check(full, "dispatch-case-era", "ledger.DetermineBlockType:"+ln+":"+e, fd.Pos(), "the layout classifies exactly "+e+"'s own [Min,Max] as "+e,
				fmt.Sprintf("layout %s classifies majors %v as %s, whose declared range is [%d,%d]", ln, vs, e, r.min, r.max))
		}
	}
	// outside every declared range: an error
	for _, L := range layoutVals {
		val := map[string]int64{layoutAtom: L}
		for a := range verAtoms {
			val[a] = 200
		}
		res, _ := constResults(fn, 0, val, 0)
		c.Check(len(res) == 0, "dispatch-case-era", "ledger.DetermineBlockType:"+layoutName[L]+":default", fd.Pos(), "a version outside every declared range is an error", "a version outside every declared range is classified instead of rejected")
	}
}
