package main

import (
	"fmt"
	"go/token"
	"strings"

	"golang.org/x/tools/go/ssa"
)

func init() {
	register(&Prop{
		ID:        "C41",
		Technique: "decision-table extraction by path-sensitive reachability under finite valuations of the comparison atoms, exhaustive antisymmetry/transitivity check on the extracted table, exact-three-way-comparison rule for the density metrics, structural rules for the deep-fork test and the selection loop",
		Explanation: "(1) Compare: for every cell (block-number order, VRF-empty flags, VRF order) the single reachable return and its constant are extracted; the table must equal the specification (longer wins; tie: both empty ⇒ equal, an empty VRF loses, the lower VRF wins, equal ⇒ 0); antisymmetry (swapped cell ⇒ negated result) and transitivity over all triples of representative tips are checked on the table. " +
			"(2) IsDeepFork is tip > fork ∧ tip − fork > k. CompareWithDensity uses Compare unless the fork is deep, then the density comparison and, on a tie, Compare. (3) Each density metric is compared by an exact three-way comparison of the two candidates' metric values (x>y ⇒ 1, y>x ⇒ −1, else 0) with no arithmetic on the values — a tolerance makes 'tie' non-transitive. Whether the metric is chosen uniformly for a candidate set is also decided: it is chosen per pair from the operands' dynamic types, which is reported (known finding). " +
			"(4) selectPreferred starts from the first candidate, visits all others and replaces the incumbent only when compare(candidate, incumbent) > 0.",
		Assumptions: []string{"ChainTip accessors are pure", "float density values themselves are not evaluated", "order-independence follows from a total preorder plus (4) only up to ties"},
		Run:         runC41,
	})
}

func runC41(c *Ctx) {
	c.W.buildSSA()
	rel := "consensus"
	cmpFn := c.SSAFunc(rel, "PraosChainSelector.Compare")
	if cmpFn == nil {
		c.Undecided("Compare not found")
		return
	}
	key := ssaFuncKey(cmpFn)
	// atoms
	bnA, bnB := "call:consensus.ChainTip.BlockNumber(p1)", "call:consensus.ChainTip.BlockNumber(p2)"
	lenA, lenB := "len(call:consensus.ChainTip.VRFOutput(p1))", "len(call:consensus.ChainTip.VRFOutput(p2))"
	cmpAtom := ""
	for _, f := range edgeFacts(cmpFn) {
		if strings.HasPrefix(f.Fact, "call:math/big.(*Int).Cmp(") {
			i := strings.LastIndex(f.Fact, ") ")
			cmpAtom = f.Fact[:i+1]
		}
	}
	// the big-integer comparison may sit in a tiebreak helper over the two VRF outputs: its atom is then named in
	// the helper's vocabulary and carried into the helper's evaluation unchanged
	var helperCmp []string
	// orientation of the integer comparison: +1 for a against b, −1 for b against a (the atom then carries the
	// opposite sign of the spec's "VRF order of a relative to b")
	cmpSign := int64(1)
	ia, ib := strings.Index(cmpAtom, "VRFOutput(p1)"), strings.Index(cmpAtom, "VRFOutput(p2)")
	okOperands := ia >= 0 && ib >= 0 && ia != ib
	if okOperands && ib < ia {
		cmpSign = -1
	}
	if cmpAtom == "" {
		for _, ci := range allCalls(cmpFn) {
			h := samePkgHelper(cmpFn, ci.Common())
			if h == nil {
				continue
			}
			for _, cj := range allCalls(h) {
				if calleeName(cj.Common()) != "math/big.(*Int).Cmp" || cj.Value() == nil {
					continue
				}
				helperCmp = append(helperCmp, "@"+h.Name()+":"+desc(cj.Value()))
				// Cmp(int(p_i), int(p_j)) with argument i = a.VRFOutput() and j = b.VRFOutput()
				ta, tb := trace(cj.Common().Args[0]), trace(cj.Common().Args[1])
				ai, bi := -1, -1
				for i, a := range ci.Common().Args {
					switch trace(a) {
					case "VRFOutput(p1)":
						ai = i
					case "VRFOutput(p2)":
						bi = i
					}
				}
				pa, pb := fmt.Sprintf("p%d", ai), fmt.Sprintf("p%d", bi)
				switch {
				case ai >= 0 && bi >= 0 && strings.Contains(ta, pa) && strings.Contains(tb, pb):
					okOperands = true
				case ai >= 0 && bi >= 0 && strings.Contains(ta, pb) && strings.Contains(tb, pa):
					okOperands, cmpSign = true, -1
				default:
					okOperands = false
				}
			}
		}
	}
	if cmpAtom == "" && len(helperCmp) == 0 {
		c.Undecided("%s: VRF comparison not found", key)
		return
	}
	// the Cmp must be a(VRF) vs b(VRF) in that order
	c.Check(okOperands, "compare-table", key+":vrf-operands", cmpFn.Pos(), "VRF outputs of a and b are compared as integers", "the VRF comparison is not between int(a.VRF) and int(b.VRF)")
	type cell struct{ bn, ea, eb, vc int }
	table := map[cell]int{}
	spec := func(x cell) int {
		switch {
		case x.bn != 0:
			return x.bn
		case x.ea == 1 && x.eb == 1:
			return 0
		case x.ea == 1:
			return -1
		case x.eb == 1:
			return 1
		default:
			return -x.vc
		}
	}
	for _, bn := range []int{-1, 0, 1} {
		for _, ea := range []int{0, 1} {
			for _, eb := range []int{0, 1} {
				for _, vc := range []int{-1, 0, 1} {
					val := map[string]int64{"p1": 1, "p2": 1, bnA: int64(1 + bn), bnB: 1, lenA: int64(1 - ea), lenB: int64(1 - eb)}
					if cmpAtom != "" {
						val[cmpAtom] = cmpSign * int64(vc)
					}
					for _, a := range helperCmp {
						val[a] = cmpSign * int64(vc)
					}
					var res []string
					if rs, okc := constResults(cmpFn, 0, val, 0); okc {
						for k := range rs {
							res = append(res, fmt.Sprint(k))
						}
					} else {
						res = []string{"non-constant"}
					}
					ck := fmt.Sprintf("%s:bn%+d:aEmpty=%d:bEmpty=%d:vrf%+d", key, bn, ea, eb, vc)
					x := cell{bn, ea, eb, vc}
					if len(res) != 1 {
						c.Bad("compare-table", ck, cmpFn.Pos(), "the cell does not determine a single result (%v)", res)
						continue
					}
					var got int
					fmt.Sscan(res[0], &got)
					table[x] = got
					want := spec(x)
					// cells where a VRF is empty make the VRF order irrelevant; spec() already ignores it
					c.Check(got == want, "compare-table", ck, cmpFn.Pos(), fmt.Sprintf("= %d", want), fmt.Sprintf("Compare returns %d for (block number %s, a VRF empty=%v, b VRF empty=%v, VRF order %+d); the chain-selection rule gives %d", got, map[int]string{-1: "a<b", 0: "equal", 1: "a>b"}[bn], ea == 1, eb == 1, vc, want))
				}
			}
		}
	}
	// antisymmetry + transitivity on the extracted table, over representative tips (bn ∈ {0,1}, vrf ∈ {empty,1,2})
	type tip struct{ bn, vrf int } // vrf 0 = empty
	var tips []tip
	for bn := 0; bn < 3; bn++ {
		for vrf := 0; vrf < 4; vrf++ {
			tips = append(tips, tip{bn, vrf})
		}
	}
	sgn := func(a, b int) int {
		switch {
		case a < b:
			return -1
		case a > b:
			return 1
		}
		return 0
	}
	look := func(a, b tip) int {
		x := cell{sgn(a.bn, b.bn), b2i(a.vrf == 0), b2i(b.vrf == 0), sgn(a.vrf, b.vrf)}
		return table[x]
	}
	anti, trans := true, true
	var wa, wt string
	for _, a := range tips {
		for _, b := range tips {
			if look(a, b) != -look(b, a) {
				anti = false
				wa = fmt.Sprintf("%v vs %v", a, b)
			}
			for _, d := range tips {
				if look(a, b) >= 0 && look(b, d) >= 0 && look(a, d) < 0 {
					trans = false
					wt = fmt.Sprintf("%v ≥ %v ≥ %v but first < last", a, b, d)
				}
			}
		}
	}
	c.Check(anti, "compare-preorder", key+":antisymmetric", cmpFn.Pos(), "Compare(a,b) = −Compare(b,a) on every cell", "Compare is not antisymmetric: "+wa)
	c.Check(trans, "compare-preorder", key+":transitive", cmpFn.Pos(), "≥ is transitive over all triples of representative tips", "Compare is not transitive: "+wt)
	// nil handling
	for _, v := range []struct {
		a, b int64
		want string
	}{{0, 0, "0"}, {0, 1, "-1"}, {1, 0, "1"}} {
		reach := psReachVal(cmpFn, []*ssa.BasicBlock{cmpFn.Blocks[0]}, nil, map[string]int64{"p1": v.a, "p2": v.b})
		got := map[string]bool{}
		if rs, okc := constResults(cmpFn, 0, map[string]int64{"p1": v.a, "p2": v.b}, 0); okc && len(rs) > 0 {
			// constants returned directly or through a nil-resolution helper
			for k := range rs {
				got[fmt.Sprint(k)] = true
			}
			reach = map[*ssa.BasicBlock]bool{}
		}
		for _, b := range cmpFn.Blocks {
			if r, ok := b.Instrs[len(b.Instrs)-1].(*ssa.Return); ok && reach[b] {
				// only the first return on the nil path: returns reachable before any accessor call
				calls := false
				for _, in := range b.Instrs {
					if _, isCall := in.(*ssa.Call); isCall {
						calls = true
					}
				}
				_ = calls
				got[desc(r.Results[0])] = true
			}
		}
		c.Check(len(got) == 1 && got[v.want], "compare-table", fmt.Sprintf("%s:nil:a=%d:b=%d", key, v.a, v.b), cmpFn.Pos(), "nil tips order below non-nil ones", fmt.Sprintf("with a nil=%v, b nil=%v Compare can return %v, expected %s", v.a == 0, v.b == 0, sortedKeys(got), v.want))
	}
	// (2) deep fork
	if fn := c.SSAFunc(rel, "PraosChainSelector.IsDeepFork"); fn != nil {
		ok, okFalse := false, false
		var gtEdges [][2]interface{}
		for _, b := range fn.Blocks {
			for s := 0; s < 2 && s < len(b.Succs); s++ {
				r := c.c39EdgeRel(b, s)
				if r == nil {
					continue
				}
				l, op, rr := r.lhs, r.op, r.rhs
				if l == "BlockNumber<p1" {
					l, rr, op = rr, l, swapOpStr(op)
				}
				if l == "p2" && rr == "BlockNumber<p1" {
					switch op {
					case ">":
						gtEdges = append(gtEdges, [2]interface{}{b, s})
					case "<=":
						tgt := b.Succs[s]
						if ret, isR := tgt.Instrs[len(tgt.Instrs)-1].(*ssa.Return); isR && desc(ret.Results[0]) == "false" {
							okFalse = true
						}
					}
				}
			}
		}
		for _, b := range fn.Blocks {
			r, isR := b.Instrs[len(b.Instrs)-1].(*ssa.Return)
			if !isR {
				continue
			}
			if trace(r.Results[0]) == "((p2 - BlockNumber<p1) > SecurityParam<p0)" {
				reach, _ := reachAvoiding(fn, func(from *ssa.BasicBlock, succ int) bool {
					for _, e := range gtEdges {
						if e[0].(*ssa.BasicBlock) == from && e[1].(int) == succ {
							return true
						}
					}
					return false
				})
				ok = !reach[b] && len(gtEdges) > 0
			}
		}
		if !(ok && okFalse) {
			// written as one expression: return tip > fork && tip−fork > k
			for _, b := range fn.Blocks {
				r, isR := b.Instrs[len(b.Instrs)-1].(*ssa.Return)
				if !isR {
					continue
				}
				ph, isPhi := r.Results[0].(*ssa.Phi)
				if !isPhi || len(ph.Edges) != 2 {
					continue
				}
				for i, e := range ph.Edges {
					other := ph.Edges[1-i]
					if desc(e) != "false" || trace(other) != "((p2 - BlockNumber<p1) > SecurityParam<p0)" {
						continue
					}
					pred := ph.Block().Preds[i]
					for s2 := 0; s2 < 2 && s2 < len(pred.Succs); s2++ {
						rl := c.c39EdgeRel(pred, s2)
						if rl == nil {
							continue
						}
						l, op, rr := rl.lhs, rl.op, rl.rhs
						if l == "BlockNumber<p1" {
							l, rr, op = rr, l, swapOpStr(op)
						}
						// the false constant arrives on tip <= fork, the subtraction is evaluated on tip > fork
						if l == "p2" && rr == "BlockNumber<p1" && op == "<=" && pred.Succs[s2] == ph.Block() {
							if bo, isBo := other.(*ssa.BinOp); isBo && bo.Block() == pred.Succs[1-s2] {
								ok, okFalse = true, true
							}
						}
					}
				}
			}
		}
		c.Check(ok && okFalse, "deep-fork", ssaFuncKey(fn), fn.Pos(), "deep ⇔ tip > fork ∧ tip − fork > k", "IsDeepFork is not (tip > fork block) ∧ (tip − fork block > security parameter)")
	}
	if fn := c.SSAFunc(rel, "PraosChainSelector.CompareWithDensity"); fn != nil {
		fk := ssaFuncKey(fn)
		var deep, dens *ssa.Call
		var cmps []*ssa.Call
		for _, ci := range allCalls(fn) {
			cal := ci.Common().StaticCallee()
			if cal == nil {
				continue
			}
			call, _ := ci.(*ssa.Call)
			switch cal.Name() {
			case "IsDeepFork":
				deep = call
			case "compareDensity":
				dens = call
			case "Compare":
				cmps = append(cmps, call)
			}
		}
		if deep == nil || dens == nil || len(cmps) == 0 {
			c.Bad("density-first-when-deep", fk, fn.Pos(), "CompareWithDensity does not combine IsDeepFork, compareDensity and Compare")
		} else {
			okArgs := trace(deep.Call.Args[1]) == "p3" && trace(deep.Call.Args[2]) == "p4" && trace(dens.Call.Args[1]) == "p1" && trace(dens.Call.Args[2]) == "p2" && trace(dens.Call.Args[3]) == "p3"
			for _, cm := range cmps {
				okArgs = okArgs && trace(cm.Call.Args[1]) == "p1" && trace(cm.Call.Args[2]) == "p2"
			}
			c.Check(okArgs, "density-first-when-deep", fk+":operands", fn.Pos(), "all comparisons are on (a, b) in that order with the given fork", "the sub-comparisons do not receive (a, b) in the same order")
			// density only when deep; result returned only when non-zero
			v := c.mustPass(fn, []ssa.Instruction{dens}, func(f string) bool { return f == "T:"+desc(deep) })
			c.Check(v[0].OK, "density-first-when-deep", fk+":only-when-deep", dens.Pos(), "density decides only for deep forks", "the density comparison is used although the fork is not deep")
			for _, b := range fn.Blocks {
				r, isR := b.Instrs[len(b.Instrs)-1].(*ssa.Return)
				if !isR || r.Results[0] != ssa.Value(dens) {
					continue
				}
				v := c.mustPass(fn, []ssa.Instruction{r}, func(f string) bool { return f == desc(dens)+" != 0" })
				c.Check(v[0].OK, "density-first-when-deep", fk+":tie-falls-through", r.Pos(), "a density tie falls through to Compare", "a density tie is returned as the final answer")
			}
		}
	}
	// (3) metrics
	if fn := c.SSAFunc(rel, "PraosChainSelector.compareDensity"); fn != nil {
		fk := ssaFuncKey(fn)
		type metric struct {
			name       string
			gt, lt     bool
			arithmetic bool
		}
		metrics := map[string]*metric{}
		for _, b := range fn.Blocks {
			iff, ok := b.Instrs[len(b.Instrs)-1].(*ssa.If)
			if !ok {
				continue
			}
			bo, ok := iff.Cond.(*ssa.BinOp)
			if !ok {
				continue
			}
			x, y := trace(bo.X), trace(bo.Y)
			name := ""
			for _, m := range []string{"BlocksInWindow(", "Density("} {
				if strings.Contains(x, m) || strings.Contains(y, m) {
					name = strings.TrimSuffix(m, "(")
				}
			}
			if name == "" {
				continue
			}
			if metrics[name] == nil {
				metrics[name] = &metric{name: name}
			}
			m := metrics[name]
			direct := func(s, who string) bool {
				return strings.HasPrefix(s, name+"(") && strings.Contains(s, who) && !strings.Contains(s, " - ") && !strings.Contains(s, " + ") && !strings.Contains(s, "Abs(")
			}
			retOf := func(s *ssa.BasicBlock) string {
				if r, ok := s.Instrs[len(s.Instrs)-1].(*ssa.Return); ok {
					return desc(r.Results[0])
				}
				return "?"
			}
			switch {
			case bo.Op == token.GTR && direct(x, "p1") && direct(y, "p2"):
				m.gt = retOf(b.Succs[0]) == "1"
			case bo.Op == token.GTR && direct(x, "p2") && direct(y, "p1"):
				m.lt = retOf(b.Succs[0]) == "-1"
			case bo.Op == token.LSS && direct(x, "p1") && direct(y, "p2"):
				m.lt = retOf(b.Succs[0]) == "-1"
			case bo.Op == token.LSS && direct(x, "p2") && direct(y, "p1"):
				m.gt = retOf(b.Succs[0]) == "1"
			default:
				m.arithmetic = true
			}
		}
		// a metric handed to an exact three-way comparison helper: h(x,y) = 1 if x>y, −1 if y>x, else 0, no arithmetic
		for _, g := range closureFuncs(fn, 1) {
			for _, ci := range allCalls(g) {
				h := samePkgHelper(g, ci.Common())
				if h == nil || len(ci.Common().Args) != 2 || len(h.Params) != 2 {
					continue
				}
				x, y := trace(ci.Common().Args[0]), trace(ci.Common().Args[1])
				name := ""
				for _, m := range []string{"BlocksInWindow(", "Density("} {
					if strings.HasPrefix(x, m) && strings.HasPrefix(y, m) {
						name = strings.TrimSuffix(m, "(")
					}
				}
				if name == "" {
					continue
				}
				if metrics[name] == nil {
					metrics[name] = &metric{name: name}
				}
				m := metrics[name]
				three := true
				for _, tc := range []struct{ a, b, want int64 }{{2, 1, 1}, {1, 2, -1}, {1, 1, 0}, {0, 0, 0}} {
					rs, okc := constResults(h, 0, map[string]int64{"p0": tc.a, "p1": tc.b}, 0)
					if !okc || len(rs) != 1 || !rs[tc.want] {
						three = false
					}
				}
				arith := false
				for _, in := range fnInstrs(h) {
					if bo, isBo := in.(*ssa.BinOp); isBo {
						switch bo.Op {
						case token.ADD, token.SUB, token.MUL, token.QUO:
							arith = true
						}
					}
				}
				// the helper's result must be what is returned, and the operands the first candidate's then the second's
				operands := strings.Contains(x, "p1") && strings.Contains(y, "p2") && !strings.Contains(x, " - ") && !strings.Contains(y, " - ")
				if three && !arith && operands {
					m.gt, m.lt = true, true
				} else {
					m.arithmetic = true
				}
			}
		}
		c.Check(len(metrics) >= 1, "density-exact-comparison", fk+":metrics", fn.Pos(), "a density metric is compared", "compareDensity compares no density metric")
		for _, name := range sortedKeys(metrics) {
			m := metrics[name]
			c.Check(m.gt && m.lt && !m.arithmetic, "density-exact-comparison", fk+":"+name, fn.Pos(), "x>y ⇒ 1, y>x ⇒ −1, else 0 on the raw metric values", "the "+name+" metric is not compared by an exact three-way comparison of the two values (a tolerance or other arithmetic is applied): 'tie' is then not transitive, so the order is not a preorder and the preferred candidate depends on the order candidates are given in")
		}
		// metric selection must not depend on the operands
		if len(metrics) > 1 {
			dep := false
			for _, ef := range edgeFacts(fn) {
				if strings.HasPrefix(ef.Fact, "T:assert(p1,") || strings.HasPrefix(ef.Fact, "T:assert(p2,") {
					dep = true
				}
			}
			c.Check(!dep, "density-metric-uniform", fk, fn.Pos(), "the metric is chosen from configuration only", "the density metric (window block count vs legacy ratio) is chosen per pair from the operands' dynamic types: in a candidate set mixing tips with and without BlocksInWindow, a≥b (window counts), b≥c (ratio) and c>a (ratio) can all hold, so the comparison is not transitive")
		}
	}
	// (4) selectPreferred
	if fn := c.SSAFunc(rel, "PraosChainSelector.selectPreferred"); fn != nil {
		fk := ssaFuncKey(fn)
		var call *ssa.Call
		for _, ci := range allCalls(fn) {
			if !ci.Common().IsInvoke() && ci.Common().StaticCallee() == nil && trace(ci.Common().Value) == "p2" {
				call, _ = ci.(*ssa.Call)
			}
		}
		if call == nil {
			c.Bad("select-maximal", fk, fn.Pos(), "selectPreferred never calls the comparison")
		} else {
			a0, a1 := call.Call.Args[0], call.Call.Args[1]
			ph, isPhi := a1.(*ssa.Phi)
			okArgs := strings.HasPrefix(trace(a0), "p1[]") && isPhi
			rangeTail := false
			if !okArgs && isPhi && strings.HasPrefix(trace(a0), "p1[:][]") {
				// for _, candidate := range candidates[1:]
				var walk func(v ssa.Value, d int)
				walk = func(v ssa.Value, d int) {
					if d > 6 || v == nil {
						return
					}
					switch x := v.(type) {
					case *ssa.UnOp:
						walk(x.X, d+1)
					case *ssa.IndexAddr:
						walk(x.X, d+1)
					case *ssa.Slice:
						if trace(x.X) == "p1" && x.Low != nil && desc(x.Low) == "1" && x.High == nil {
							rangeTail = true
						}
					}
				}
				walk(a0, 0)
				okArgs = rangeTail
			}
			okInit, okRepl := false, false
			if isPhi {
				for _, e := range ph.Edges {
					if trace(e) == "p1[]" && indexIsConst(e, 0) {
						okInit = true
					}
					if inner, ok := e.(*ssa.Phi); ok {
						// phi(candidates[i] on the >0 edge | incumbent otherwise)
						for i, ie := range inner.Edges {
							pred := inner.Block().Preds[i]
							if ie == a0 || trace(ie) == trace(a0) {
								// pred reached via "> 0" edge
								for _, ef := range edgeFacts(fn) {
									if (ef.Fact == desc(call)+" > 0" || ef.Fact == desc(call)+" >= 0") && (ef.From.Succs[ef.Succ] == pred || ef.From == pred) {
										okRepl = true
									}
								}
							}
						}
					}
				}
			}
			c.Check(okArgs && okInit && okRepl, "select-maximal", fk, call.Pos(), "incumbent starts as the first candidate and is replaced only when compare(candidate, incumbent) > 0 (or ≥ 0)", "selectPreferred does not keep a running maximum (start from the first candidate, replace only on compare(candidate, incumbent) > 0)")
			// loop covers 1..len-1
			okLoop := false
			if h := loopHeadOf(call.Block()); h != nil {
				if iff, ok := h.Instrs[len(h.Instrs)-1].(*ssa.If); ok {
					okLoop = strings.HasSuffix(trace(iff.Cond), "< len(p1))") || rangeTail && strings.HasSuffix(trace(iff.Cond), "< len(p1[:]))")
				}
			}
			c.Check(okLoop, "select-maximal", fk+":all-candidates", call.Pos(), "every candidate is visited", "the loop does not visit every candidate")
		}
	}
}

func b2i(b bool) int {
	if b {
		return 1
	}
	return 0
}
