package main

import (
	"fmt"
	"go/token"
	"strings"

	"golang.org/x/tools/go/ssa"
)

func init() {
	register(&Prop{
		ID:        "C39",
		Technique: "relational normalisation of the guard comparisons (with one-level inlining of constant helper functions) + must-pass-through and phi-edge rules on the verifier, signer and updater",
		Explanation: "Narrow guard clauses; cryptographic forward security is not decided. (1) SumXKesSig.Verify descends only when period < 2^Depth (strict; helper calls such as MaxPeriod are inlined before the relation is read), and only after ConstantTimeCompare(HashPair(left,right), pubKey) == 1; the right subtree is taken exactly when period ≥ 2^(Depth−1), with period − 2^(Depth−1) and the right key, otherwise the period and the left key unchanged; the recursive call receives exactly these values and the message; an unknown sigma type is false. " +
			"(2) Sum0KesSig.Verify is ed25519.Verify(pubKey, msg, sig). (3) Sign refuses period ≥ 2^Depth and period ≠ key period. (4) Update refuses when period+1 ≥ 2^Depth, the evolved key carries period+1, the same depth and the same cached public key, and the old key is zeroised. (5) signInternal/updateInternal split at 2^(depth−1) consistently with the verifier.",
		Assumptions: []string{"ed25519, Blake2b", "that a key evolved t times signs with leaf t follows from (5) by induction and is not enumerated"},
		Run:         runC39,
	})
}

// relOn returns the relation "<p> OP 2^expr" that holds on edge succ of b, if b's branch compares the period-like value p with a power of two.
type c39Rel struct {
	lhs, op, rhs string
}

func (c *Ctx) c39Inline(v ssa.Value) string {
	// inline one level of helper calls in package kes whose single return is an expression of the parameters
	if call, ok := v.(*ssa.Call); ok {
		if cal := call.Call.StaticCallee(); cal != nil && cal.Pkg != nil && strings.HasSuffix(cal.Pkg.Pkg.Path(), "/kes") && len(cal.Blocks) == 1 {
			if r, ok := cal.Blocks[0].Instrs[len(cal.Blocks[0].Instrs)-1].(*ssa.Return); ok && len(r.Results) == 1 {
				t := trace(r.Results[0])
				for i, a := range call.Call.Args {
					t = strings.ReplaceAll(t, fmt.Sprintf("p%d", i), "§"+trace(a)+"§")
				}
				return strings.ReplaceAll(t, "§", "")
			}
		}
	}
	return trace(v)
}

func (c *Ctx) c39EdgeRel(b *ssa.BasicBlock, succ int) *c39Rel {
	iff, ok := b.Instrs[len(b.Instrs)-1].(*ssa.If)
	if !ok {
		return nil
	}
	bo, ok := iff.Cond.(*ssa.BinOp)
	if !ok {
		return nil
	}
	op := bo.Op
	if succ == 1 {
		op = negOp(op)
	}
	return &c39Rel{c.c39Inline(bo.X), op.String(), c.c39Inline(bo.Y)}
}

func runC39(c *Ctx) {
	c.W.buildSSA()
	rel := "kes"
	fn := c.SSAFunc(rel, "SumXKesSig.Verify")
	if fn == nil {
		c.Undecided("kes.SumXKesSig.Verify not found")
		return
	}
	key := ssaFuncKey(fn)
	var rec []*ssa.Call
	for _, ci := range allCalls(fn) {
		if cal := ci.Common().StaticCallee(); cal != nil && cal.Name() == "Verify" && cal.Pkg == fn.Pkg {
			if call, ok := ci.(*ssa.Call); ok {
				rec = append(rec, call)
			}
		}
	}
	c.Check(len(rec) == 2, "kes-descend", key+":cases", fn.Pos(), "descends into SumX and Sum0 signatures", fmt.Sprintf("%d recursive verifications found, expected the SumX and the Sum0 case", len(rec)))
	if len(rec) == 0 {
		return
	}
	// (1a) period bound: on every path to a descent there is an edge with relation period < 2^Depth (strictly)
	isPow := func(s string, minus1 bool) bool {
		if minus1 {
			return s == "(1 << (Depth<p0 - 1))"
		}
		return s == "(1 << Depth<p0)"
	}
	var boundEdges, halfEdgesGE, halfEdgesLT [][2]interface{}
	type edge struct {
		b *ssa.BasicBlock
		s int
	}
	var strict, loose []edge
	var geHalf, ltHalf []edge
	for _, b := range fn.Blocks {
		for s := 0; s < 2 && s < len(b.Succs); s++ {
			r := c.c39EdgeRel(b, s)
			if r == nil {
				continue
			}
			l, op, rr := r.lhs, r.op, r.rhs
			if isPow(l, false) || isPow(l, true) {
				l, rr, op = rr, l, swapOpStr(op)
			}
			if l != "p1" {
				continue
			}
			switch {
			case isPow(rr, false) && op == "<":
				strict = append(strict, edge{b, s})
			case isPow(rr, false) && op == "<=":
				loose = append(loose, edge{b, s})
			case isPow(rr, true) && op == ">=":
				geHalf = append(geHalf, edge{b, s})
			case isPow(rr, true) && op == "<":
				ltHalf = append(ltHalf, edge{b, s})
			}
		}
	}
	_, _, _ = boundEdges, halfEdgesGE, halfEdgesLT
	cutSet := func(es []edge) func(*ssa.BasicBlock, int) bool {
		return func(from *ssa.BasicBlock, succ int) bool {
			for _, e := range es {
				if e.b == from && e.s == succ {
					return true
				}
			}
			return false
		}
	}
	{
		reach, _ := reachAvoiding(fn, cutSet(strict))
		bad := false
		for _, r := range rec {
			if reach[r.Block()] {
				bad = true
			}
		}
		why := "the verifier can descend without having established period < 2^Depth"
		if bad && len(loose) > 0 {
			why = "the period guard admits period = 2^Depth (it is not strict): a signature made at the last period 2^Depth−1 also verifies at period 2^Depth"
		}
		c.Check(!bad && len(strict) > 0, "kes-period-bound", key, fn.Pos(), "descends only when period < 2^Depth", why)
	}
	// (1b) public key bound
	{
		reach, _ := reachAvoiding(fn, func(from *ssa.BasicBlock, succ int) bool {
			r := c.c39EdgeRel(from, succ)
			return r != nil && r.op == "==" && r.rhs == "1" && r.lhs == "ConstantTimeCompare(HashPair(LeftHandSidePublicKey<p0,RightHandSidePublicKey<p0),p2)"
		})
		bad := false
		for _, r := range rec {
			if reach[r.Block()] {
				bad = true
			}
		}
		c.Check(!bad, "kes-key-bound", key, fn.Pos(), "descends only when HashPair(left,right) equals the given key (constant time)", "the verifier can descend without HashPair(left,right) having matched the public key it was given")
	}
	// (1c) subtree selection: phi edges
	for _, call := range rec {
		ck := key + ":" + call.Call.StaticCallee().RelString(fn.Pkg.Pkg)
		pPh, ok1 := call.Call.Args[1].(*ssa.Phi)
		kPh, ok2 := call.Call.Args[2].(*ssa.Phi)
		if !ok1 || !ok2 || pPh.Block() != kPh.Block() {
			// the pair may be chosen by a helper returning (period, key): every return of it is the left or the right
			// pair and is reachable only through the matching half-range edge of that helper
			e1, isE1 := call.Call.Args[1].(*ssa.Extract)
			e2, isE2 := call.Call.Args[2].(*ssa.Extract)
			if isE1 && isE2 && e1.Tuple == e2.Tuple {
				if hc, isCall := e1.Tuple.(*ssa.Call); isCall {
					if h := samePkgHelper(fn, &hc.Call); h != nil {
						sub := func(t string) string { return substParamsTrace(t, hc.Call.Args) }
						var hGE, hLT []edge
						for _, b := range h.Blocks {
							for sx := 0; sx < 2 && sx < len(b.Succs); sx++ {
								r := c.c39EdgeRel(b, sx)
								if r == nil {
									continue
								}
								l, op, rr := sub(r.lhs), r.op, sub(r.rhs)
								if isPow(l, true) {
									l, rr, op = rr, l, swapOpStr(op)
								}
								if l != "p1" || !isPow(rr, true) {
									continue
								}
								switch op {
								case ">=":
									hGE = append(hGE, edge{b, sx})
								case "<":
									hLT = append(hLT, edge{b, sx})
								}
							}
						}
						reachNoGE, _ := reachAvoiding(h, cutSet(hGE))
						reachNoLT, _ := reachAvoiding(h, cutSet(hLT))
						okSel, nRet := true, 0
						for _, b := range h.Blocks {
							r, isR := b.Instrs[len(b.Instrs)-1].(*ssa.Return)
							if !isR || len(r.Results) <= e1.Index || len(r.Results) <= e2.Index {
								continue
							}
							nRet++
							pt, kt := sub(trace(returnedValue(r, e1.Index))), sub(trace(returnedValue(r, e2.Index)))
							right := pt == "(p1 - (1 << (Depth<p0 - 1)))" && kt == "RightHandSidePublicKey<p0"
							left := pt == "p1" && kt == "LeftHandSidePublicKey<p0"
							switch {
							case right && !reachNoGE[b] && len(hGE) > 0:
							case left && !reachNoLT[b] && len(hLT) > 0:
							default:
								okSel = false
							}
						}
						c.Check(okSel && nRet > 0, "kes-subtree", ck, call.Pos(), "right subtree ⇔ period ≥ 2^(Depth−1), with period − 2^(Depth−1) and the right key; else the left key and the same period (chosen in "+h.Name()+")", "the sub-signature's period/key are not selected as: period ≥ 2^(Depth−1) ⇒ (period − 2^(Depth−1), right key), else (period, left key)")
						c.Check(trace(call.Call.Args[3]) == "p3", "kes-subtree", ck+":message", call.Pos(), "the same message is verified below", "the sub-signature is verified against "+shortArg(trace(call.Call.Args[3]))+" instead of the message")
						continue
					}
				}
			}
			c.Bad("kes-subtree", ck, call.Pos(), "the sub-signature is not verified with a (period, key) pair selected together")
			continue
		}
		okSel := len(pPh.Edges) == 2
		for i := range pPh.Edges {
			pred := pPh.Block().Preds[i]
			pt, kt := trace(pPh.Edges[i]), trace(kPh.Edges[i])
			right := pt == "(p1 - (1 << (Depth<p0 - 1)))" && kt == "RightHandSidePublicKey<p0"
			left := pt == "p1" && kt == "LeftHandSidePublicKey<p0"
			if !right && !left {
				okSel = false
				continue
			}
			// the edge into the phi block on this pred: right must come through a ≥half edge, left through a <half edge
			want := geHalf
			if left {
				want = ltHalf
			}
			through := false
			for _, e := range want {
				tgt := e.b.Succs[e.s]
				if tgt == pred || (e.b == pred && tgt == pPh.Block()) {
					through = true
				}
			}
			if !through {
				okSel = false
			}
		}
		c.Check(okSel, "kes-subtree", ck, call.Pos(), "right subtree ⇔ period ≥ 2^(Depth−1), with period − 2^(Depth−1) and the right key; else the left key and the same period", "the sub-signature's period/key are not selected as: period ≥ 2^(Depth−1) ⇒ (period − 2^(Depth−1), right key), else (period, left key)")
		c.Check(trace(call.Call.Args[3]) == "p3", "kes-subtree", ck+":message", call.Pos(), "the same message is verified below", "the sub-signature is verified against "+shortArg(trace(call.Call.Args[3]))+" instead of the message")
	}
	// (2)
	if f0 := c.SSAFunc(rel, "Sum0KesSig.Verify"); f0 != nil {
		ok := false
		for _, b := range f0.Blocks {
			if r, isR := b.Instrs[len(b.Instrs)-1].(*ssa.Return); isR {
				ok = trace(r.Results[0]) == "Verify(p2,p3,p0)"
			}
		}
		c.Check(ok, "kes-leaf", ssaFuncKey(f0), f0.Pos(), "leaf = ed25519.Verify(pubKey, msg, sig)", "the leaf verification is not ed25519.Verify(pubKey, msg, signature)")
	}
	// 1 << depth may be written as a call to a same-package helper whose body is exactly that
	pow2Helper := ""
	for _, hf := range c.pkgFuncs(rel) {
		if hf.Parent() != nil || len(hf.Params) != 1 || len(hf.Blocks) != 1 {
			continue
		}
		if r, ok := hf.Blocks[0].Instrs[len(hf.Blocks[0].Instrs)-1].(*ssa.Return); ok && len(r.Results) == 1 && desc(r.Results[0]) == "(1 << p0)" {
			pow2Helper = "call:" + ssaFuncKey(hf) + "("
		}
	}
	pow2Form := func(fact string) string {
		// call:kes.MaxPeriod(X) → (1 << X)
		if pow2Helper == "" {
			return fact
		}
		for {
			i := strings.Index(fact, pow2Helper)
			if i < 0 {
				return fact
			}
			depth, j := 0, i+len(pow2Helper)-1
			for ; j < len(fact); j++ {
				if fact[j] == '(' {
					depth++
				} else if fact[j] == ')' {
					depth--
					if depth == 0 {
						break
					}
				}
			}
			if j >= len(fact) {
				return fact
			}
			fact = fact[:i] + "(1 << " + fact[i+len(pow2Helper):j] + ")" + fact[j+1:]
		}
	}
	// (3) Sign
	if sg := c.SSAFunc(rel, "Sign"); sg != nil {
		sk := ssaFuncKey(sg)
		rets := successReturns(sg)
		for _, g := range []struct{ name, fact string }{
			{"period-in-range", "p1 < (1 << p0.Depth)"},
			{"period-is-current", "p1 == p0.Period"},
		} {
			v := c.mustPass(sg, rets, func(f string) bool { return pow2Form(f) == g.fact })
			ok := len(rets) > 0
			for _, x := range v {
				if !x.OK {
					ok = false
				}
			}
			c.Check(ok, "kes-sign-guards", sk+":"+g.name, sg.Pos(), "signing requires "+g.fact, "Sign can produce a signature without "+g.fact+": an evolved key signs for another period")
		}
		for _, ci := range allCalls(sg) {
			if cal := ci.Common().StaticCallee(); cal != nil && cal.Name() == "signInternal" {
				t := trace(ci.Common().Args[0]) + "," + trace(ci.Common().Args[1]) + "," + trace(ci.Common().Args[2]) + "," + trace(ci.Common().Args[3])
				c.Check(t == "Depth<p0,p1,Data<p0,p2", "kes-sign-guards", sk+":args", ci.Pos(), "signs (depth, period, key data, message)", "signInternal is called with "+t)
			}
		}
	}
	// (4) Update
	if up := c.SSAFunc(rel, "Update"); up != nil {
		uk := ssaFuncKey(up)
		rets := successReturns(up)
		v := c.mustPass(up, rets, func(f string) bool { return pow2Form(f) == "(p0.Period + 1) < (1 << p0.Depth)" })
		ok := len(rets) > 0
		for _, x := range v {
			if !x.OK {
				ok = false
			}
		}
		c.Check(ok, "kes-update", uk+":exhaustion", up.Pos(), "evolving requires period+1 < 2^Depth", "Update evolves a key beyond its last period")
		fields := map[string]string{}
		for _, in := range fnInstrs(up) {
			st, isSt := in.(*ssa.Store)
			if !isSt {
				continue
			}
			if fa, isFA := st.Addr.(*ssa.FieldAddr); isFA {
				if al, isAl := fa.X.(*ssa.Alloc); isAl && strings.HasSuffix(typeStr(al.Type()), "kes.SecretKey") {
					fields[fieldName(fa.X.Type(), fa.Field)] = trace(st.Val)
				}
			}
		}
		c.Check(fields["Period"] == "(Period<p0 + 1)", "kes-update", uk+":period", up.Pos(), "the evolved key is at period+1", "the evolved key's period is "+fields["Period"])
		c.Check(fields["Depth"] == "Depth<p0", "kes-update", uk+":depth", up.Pos(), "same depth", "the evolved key's depth is "+fields["Depth"])
		pkT := fields["publicKey"]
		c.Check(pkT == "publicKey<p0" || pkT == "" || pkT == "nil" || strings.HasPrefix(pkT, "publicKeyInternal(Depth<p0,"), "kes-update", uk+":public-key", up.Pos(), "the public key is carried over unchanged", "the evolved key's cached public key is "+fields["publicKey"]+", not the original one")
		zero := false
		for _, ci := range allCalls(up) {
			if cal := ci.Common().StaticCallee(); cal != nil && cal.Name() == "Zeroize" && trace(ci.Common().Args[0]) == "p0" {
				zero = true
			}
		}
		c.Check(zero, "kes-update", uk+":old-key-erased", up.Pos(), "the old key is zeroised", "Update leaves the old key material usable: an earlier period can still be signed")
		for _, ci := range allCalls(up) {
			if cal := ci.Common().StaticCallee(); cal != nil && cal.Name() == "updateInternal" {
				t := trace(ci.Common().Args[0]) + "," + trace(ci.Common().Args[1])
				c.Check(t == "Depth<p0,Period<p0", "kes-update", uk+":args", ci.Pos(), "evolves from the current period", "updateInternal is called with "+t)
			}
		}
	}
	// (5) split consistency in signInternal / updateInternal
	for _, name := range []string{"signInternal", "updateInternal"} {
		f := c.SSAFunc(rel, name)
		if f == nil {
			c.Undecided("kes.%s not found", name)
			continue
		}
		fk := ssaFuncKey(f)
		nRec := 0
		okAll := true
		for _, ci := range allCalls(f) {
			if ci.Common().StaticCallee() != f {
				continue
			}
			nRec++
			d, p := trace(ci.Common().Args[0]), trace(ci.Common().Args[1])
			if d != "(p0 - 1)" {
				okAll = false
			}
			// one recursive call whose period was chosen before it: every way the chosen value can be the period
			// itself / the re-based period must come with the matching comparison
			if ph, isPhi := ci.Common().Args[1].(*ssa.Phi); isPhi && len(ph.Edges) == 2 {
				merged := true
				for i, e := range ph.Edges {
					var wf string
					switch trace(e) {
					case "p1":
						wf = "p1 < (1 << (p0 - 1))"
						if name != "signInternal" {
							wf = "p1 < ((1 << (p0 - 1)) - 1)"
						}
					case "(p1 - (1 << (p0 - 1)))":
						wf = "p1 >= (1 << (p0 - 1))"
						if name != "signInternal" {
							wf = "p1 != ((1 << (p0 - 1)) - 1)"
						}
					default:
						merged = false
						continue
					}
					if !edgeImpliesMatch(ph.Block().Preds[i], ph.Block(), func(f string) bool { return f == wf }) {
						merged = false
					}
				}
				if merged {
					nRec++ // stands for both halves
					continue
				}
			}
			var wantFact string
			switch p {
			case "p1":
				if name == "signInternal" {
					wantFact = "p1 < (1 << (p0 - 1))"
				} else {
					wantFact = "p1 < ((1 << (p0 - 1)) - 1)"
				}
			case "(p1 - (1 << (p0 - 1)))":
				if name == "signInternal" {
					wantFact = "p1 >= (1 << (p0 - 1))"
				} else {
					wantFact = "p1 != ((1 << (p0 - 1)) - 1)"
				}
			default:
				okAll = false
				continue
			}
			v := c.mustPass(f, []ssa.Instruction{ci.(ssa.Instruction)}, func(fact string) bool { return fact == wantFact })
			if !v[0].OK {
				okAll = false
			}
		}
		c.Check(nRec == 2 && okAll, "kes-split", fk, f.Pos(), "left half keeps the period, right half subtracts 2^(depth−1), chosen by comparison with 2^(depth−1)", name+" does not split periods at 2^(depth−1) consistently with the verifier")
	}
}

var _ = token.ADD
