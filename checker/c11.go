package main

import (
	"fmt"
	"strings"

	"golang.org/x/tools/go/ssa"
)

func init() {
	register(&Prop{
		ID:        "C11",
		Technique: "who-may-call + SSA guard dominance + finite (agency,role) decision table on the protocol engine",
		Explanation: "Every path from the wire to the application handler is pinned down structurally: (1) the MessageHandlerFunc field is called only in Protocol.handleMessage and only after transitionState(msg) returned nil for the same message; " +
			"(2) handleMessage is called only by recvLoop with the message just taken from recvQueueChan; (3) between two handler calls (and before the first) recvLoop always consumes a recvReadyChan token, i.e. peer agency is re-established per message; " +
			"(4) the error edge of handleMessage cannot reach another handleMessage call and reports through SendError unless shutting down; (5) recvReadyChan/sendReadyChan are signalled only by stateLoop's setState, and the (agency, role) table under which each signal is reachable is exactly {(Client,Server),(Server,Client)} resp. {(Client,Client),(Server,Server)} (all 9 valuations enumerated); " +
			"(6) nextState returns a successor only on MsgType == msg.Type() with MatchFunc nil or true; (7) stateLoop changes state only with nextState's error-free result and reports nil only then; currentState is written only by setState; (8) transitionState returns what the state loop answered.",
		Assumptions: []string{"the state map content is as extracted (C16)", "goroutine interleavings between stateLoop and recvLoop are not enumerated; the token discipline is decided per loop iteration"},
		Run:         runC11,
	})
}

func runC11(c *Ctx) {
	c.W.buildSSA()
	// (1) handler call sites, module-wide
	n := 0
	for _, p := range c.W.Pkgs {
		for _, fn := range c.pkgFuncs(relPkg(p.PkgPath)) {
			for _, ci := range allCalls(fn) {
				cc := ci.Common()
				if cc.IsInvoke() || !strings.HasSuffix(desc(cc.Value), ".config.MessageHandlerFunc") {
					continue
				}
				n++
				fk := ssaFuncKey(fn)
				if fk != "protocol.(*Protocol).handleMessage" && fk != "protocol.(*Protocol).recvLoop" && !ownedBy(fn, []string{"protocol.(*Protocol).recvLoop"}, 1) {
					c.Bad("handler-call-site", fk, ci.Pos(), "MessageHandlerFunc is invoked outside recvLoop's message handling: a message can reach the application without the state-machine check")
					continue
				}
				msg := desc(cc.Args[0])
				want := "call:protocol.(*Protocol).transitionState(p0," + msg + ") == nil"
				// the accepting branch of the transitionState call made on this very message value
				for _, cj := range allCalls(fn) {
					if calleeName(cj.Common()) == "protocol.(*Protocol).transitionState" && len(cj.Common().Args) == 2 && cj.Common().Args[1] == cc.Args[0] && cj.Value() != nil {
						if okF, _ := factsForValue(fn, cj.Value()); okF != "" {
							want = okF
						}
					}
				}
				v := c.mustPass(fn, []ssa.Instruction{ci.(ssa.Instruction)}, func(f string) bool { return f == want })
				c.Check(v[0].OK, "handler-call-site", fk, ci.Pos(), "handler call dominated by "+want, "the handler is reachable without transitionState having accepted this message ("+v[0].Witness+")")
			}
		}
	}
	c.Floor("handler-call-site", 1)

	// (2)+(3)+(4) recvLoop
	rl := c.SSAFunc("protocol", "Protocol.recvLoop")
	var hm *ssa.Function
	if o := c.FuncObjOpt("protocol", "Protocol.handleMessage"); o != nil {
		hm = c.SSAOf(o)
	}
	var hmCalls []ssa.CallInstruction
	inlineForm := false
	if hm == nil {
		// handleMessage folded into recvLoop: the unit is transitionState(msg) followed by the handler call, and the
		// handling error is whatever value merges their results
		for _, ci := range allCalls(rl) {
			if calleeName(ci.Common()) == "protocol.(*Protocol).transitionState" {
				hmCalls = append(hmCalls, ci)
				inlineForm = true
			}
		}
	}
	for _, p := range c.W.Pkgs {
		if hm == nil {
			break
		}
		for _, fn := range c.pkgFuncs(relPkg(p.PkgPath)) {
			for _, ci := range allCalls(fn) {
				if ci.Common().StaticCallee() == hm {
					fk := ssaFuncKey(fn)
					_, isGo := ci.(*ssa.Go)
					c.Check(fk == "protocol.(*Protocol).recvLoop" && !isGo, "handle-message-caller", fk, ci.Pos(), "handleMessage called synchronously from recvLoop", "handleMessage is called from "+fk+" (or asynchronously): received messages bypass recvLoop's agency wait")
					if fk == "protocol.(*Protocol).recvLoop" {
						hmCalls = append(hmCalls, ci)
					}
				}
			}
		}
	}
	if len(hmCalls) == 0 {
		c.Undecided("recvLoop does not call handleMessage")
	}
	if inlineForm {
		c.Ok("handle-message-caller", "protocol.(*Protocol).recvLoop:inline", rl.Pos(), "messages are checked and handled in recvLoop itself")
	}
	for _, ci := range hmCalls {
		arg := desc(ci.Common().Args[1])
		c.Check(strings.HasPrefix(arg, "<-") && strings.HasSuffix(arg, ".recvQueueChan"), "handle-message-arg", "protocol.(*Protocol).recvLoop", ci.Pos(), "handles the message just received from recvQueueChan", "handleMessage is given "+arg+", not the message taken from recvQueueChan")
		isReady := func(f string) bool { return strings.HasPrefix(f, "sel:<-") && strings.HasSuffix(f, ".recvReadyChan") }
		cut := cutByFacts(rl, isReady)
		// from entry
		reach, parent := reachAvoiding(rl, cut)
		ok1 := !reach[ci.Block()]
		w := ""
		if !ok1 {
			w = c.witness(rl, parent, ci.Block())
		}
		// from itself
		again := reachFromAvoiding([]*ssa.BasicBlock{ci.Block()}, cut)
		ok2 := !again[ci.Block()]
		c.Check(ok1 && ok2, "recv-agency-per-message", "protocol.(*Protocol).recvLoop", ci.Pos(), "every handleMessage call is preceded, in its own iteration, by a receive from recvReadyChan",
			fmt.Sprintf("a message can be handled without a fresh recvReadyChan token (first iteration bypass=%v %s, next-iteration bypass=%v): the peer need not hold agency", !ok1, w, !ok2))
		// bare receive form (not in a select) is also a valid wait: handled by facts only for select; check there is at least one select/recv on recvReadyChan
		// (4) error edge
		errFact := "call:protocol.(*Protocol).handleMessage(" + desc(ci.Common().Args[0]) + "," + arg + ") != nil"
		var errSucc []*ssa.BasicBlock
		for _, ef := range edgeFacts(rl) {
			if ef.Fact == errFact {
				errSucc = append(errSucc, ef.From.Succs[ef.Succ])
			}
		}
		if inlineForm {
			_, non := handlingErrorEdges(rl)
			for _, e := range non {
				errSucc = append(errSucc, e.from.Succs[e.succ])
			}
		}
		if len(errSucc) == 0 {
			c.Bad("stop-after-error", "protocol.(*Protocol).recvLoop", ci.Pos(), "the error result of handleMessage is not tested")
			continue
		}
		afterErr := map[*ssa.BasicBlock]bool{}
		for _, s := range errSucc {
			afterErr[s] = true
			for b := range reachFromAvoiding([]*ssa.BasicBlock{s}, nil) {
				afterErr[b] = true
			}
		}
		c.Check(!afterErr[ci.Block()], "stop-after-error", "protocol.(*Protocol).recvLoop", ci.Pos(), "after a handling error no further handleMessage call is reachable", "after a handling error the loop can reach handleMessage again: later messages still reach the application")
		// reports: every path from the error edge to a return passes SendError or the shutting-down filter
		okRep := true
		for _, s := range errSucc {
			seen := map[*ssa.BasicBlock]bool{}
			var walk func(b *ssa.BasicBlock)
			walk = func(b *ssa.BasicBlock) {
				if seen[b] || !okRep {
					return
				}
				seen[b] = true
				for _, in := range b.Instrs {
					if cx, ok := in.(ssa.CallInstruction); ok && calleeName(cx.Common()) == "protocol.(*Protocol).SendError" {
						return
					}
				}
				if _, isRet := b.Instrs[len(b.Instrs)-1].(*ssa.Return); isRet {
					okRep = false
					return
				}
				for i, nx := range b.Succs {
					if iff, ok := b.Instrs[len(b.Instrs)-1].(*ssa.If); ok {
						tf, _ := condFacts(iff.Cond)
						if i == 0 && len(tf) == 1 && strings.HasPrefix(tf[0], "T:call:errors.Is(") && strings.HasSuffix(tf[0], "global:protocol.ErrProtocolShuttingDown)") {
							continue // graceful shutdown is not an error to report
						}
					}
					walk(nx)
				}
			}
			walk(s)
		}
		c.Check(okRep, "error-reported", "protocol.(*Protocol).recvLoop", ci.Pos(), "a handling error is reported through SendError (except graceful shutdown)", "a handling error can end recvLoop without SendError")
	}

	// (5) ready-signal table
	c.checkReadySignals()

	// (6) nextState
	ns := c.SSAFunc("protocol", "Protocol.nextState")
	succ := successReturns(ns)
	if len(succ) == 0 {
		c.Undecided("nextState has no success return")
	}
	vt := c.mustPass(ns, succ, func(f string) bool {
		return strings.HasSuffix(f, ".MsgType == call:protocol.Message.Type(p2)") || (strings.HasPrefix(f, "call:protocol.Message.Type(p2) == ") && strings.HasSuffix(f, ".MsgType"))
	})
	vm := c.mustPass(ns, succ, func(f string) bool {
		return strings.HasSuffix(f, ".MatchFunc == nil") || (strings.HasPrefix(f, "T:call:dyn:") && strings.Contains(f, ".MatchFunc(") && strings.HasSuffix(f, ",p2)"))
	})
	for i := range succ {
		c.Check(vt[i].OK, "next-state-type", "protocol.(*Protocol).nextState", succ[i].Pos(), "a successor is returned only for a transition whose MsgType equals msg.Type()", "nextState can return a successor without the message type matching a transition ("+vt[i].Witness+")")
		c.Check(vm[i].OK, "next-state-match", "protocol.(*Protocol).nextState", succ[i].Pos(), "a successor is returned only if MatchFunc is nil or accepted the message", "nextState can return a successor although MatchFunc rejected the message ("+vm[i].Witness+")")
		r := succ[i].(*ssa.Return)
		c.Check(strings.HasSuffix(desc(r.Results[0]), ".NewState"), "next-state-value", "protocol.(*Protocol).nextState", r.Pos(), "returns the matched transition's NewState", "the state returned is "+desc(r.Results[0])+", not the matched transition's NewState")
	}
	// transitions come from StateMap[currentState]
	okSrc := false
	for _, b := range ns.Blocks {
		for _, in := range b.Instrs {
			if lk, ok := in.(*ssa.Lookup); ok && desc(lk.X) == "p0.config.StateMap" && desc(lk.Index) == "p1" {
				okSrc = true
			}
		}
	}
	c.Check(okSrc, "next-state-source", "protocol.(*Protocol).nextState", ns.Pos(), "transitions are read from StateMap[currentState]", "nextState does not read the transitions of the current state")

	// (7) stateLoop
	sl := c.SSAFunc("protocol", "Protocol.stateLoop")
	setStateKey := c.setStateKey()
	var setCalls []ssa.Instruction
	var nilSends, errSends []ssa.Instruction
	for _, b := range sl.Blocks {
		for _, in := range b.Instrs {
			if ci, ok := in.(ssa.CallInstruction); ok && calleeName(ci.Common()) == setStateKey && inLoop(b) {
				setCalls = append(setCalls, in)
			}
			if snd, ok := in.(*ssa.Send); ok && strings.HasSuffix(desc(snd.Chan), ".errorChan") {
				if isNilConst(snd.X) {
					nilSends = append(nilSends, in)
				} else {
					errSends = append(errSends, in)
				}
			}
		}
	}
	if len(setCalls) == 0 || len(nilSends) == 0 {
		c.Undecided("stateLoop: setState call in loop or nil reply not found (%d/%d)", len(setCalls), len(nilSends))
	}
	nsOK := func(f string) bool {
		return strings.HasPrefix(f, "call:protocol.(*Protocol).nextState(") && strings.HasSuffix(f, ".msg)#1 == nil") && strings.Contains(f, "call:protocol.(*Protocol).getCurrentState(")
	}
	for i, v := range c.mustPass(sl, setCalls, nsOK) {
		arg := desc(setCalls[i].(ssa.CallInstruction).Common().Args[0])
		c.Check(v.OK && strings.HasSuffix(arg, ".msg)#0") && strings.HasPrefix(arg, "call:protocol.(*Protocol).nextState("), "state-change-guard", "protocol.(*Protocol).stateLoop", setCalls[i].Pos(),
			"state changes only to nextState(current, msg) when it returned no error", "the state can change without an error-free nextState result ("+v.Witness+"; arg "+arg+")")
	}
	for i, v := range c.mustPass(sl, nilSends, nsOK) {
		c.Check(v.OK, "state-reply-guard", "protocol.(*Protocol).stateLoop", nilSends[i].Pos(), "success is reported only after an accepted transition", "nil is reported to transitionState without an accepted transition ("+v.Witness+")")
	}
	c.Check(len(errSends) >= 1, "state-reply-error", "protocol.(*Protocol).stateLoop", sl.Pos(), "a rejected transition is answered with an error", "a rejected transition is never answered with an error")
	// currentState writers
	nw := 0
	for _, fn := range c.pkgFuncs("protocol") {
		for _, b := range fn.Blocks {
			for _, in := range b.Instrs {
				st, ok := in.(*ssa.Store)
				if !ok {
					continue
				}
				fa, ok := st.Addr.(*ssa.FieldAddr)
				if !ok || fieldName(fa.X.Type(), fa.Field) != "currentState" || !isNamed(fa.X.Type(), "protocol", "Protocol") {
					continue
				}
				nw++
				fk := ssaFuncKey(fn)
				c.Check(fk == setStateKey || fk == "protocol.New", "current-state-writer", fk, st.Pos(), "currentState written by setState/New", "currentState is written outside stateLoop's setState")
			}
		}
	}
	c.Floor("current-state-writer", 2)

	// (8) transitionState
	ts := c.SSAFunc("protocol", "Protocol.transitionState")
	okTS := true
	var got []string
	for _, b := range ts.Blocks {
		if r, ok := b.Instrs[len(b.Instrs)-1].(*ssa.Return); ok {
			vals := []ssa.Value{returnedValue(r, 0)}
			if ph, isPhi := vals[0].(*ssa.Phi); isPhi {
				vals = ph.Edges // a result variable: each value it can hold
			}
			for _, v := range vals {
				d := desc(v)
				got = append(got, d)
				if d != "global:protocol.ErrProtocolShuttingDown" && !strings.HasPrefix(d, "<-makechan(") {
					okTS = false
				}
			}
		}
	}
	sent := false
	for _, b := range ts.Blocks {
		for _, in := range b.Instrs {
			if sel, ok := in.(*ssa.Select); ok {
				for _, st := range sel.States {
					if st.Send != nil && strings.HasSuffix(desc(st.Chan), ".stateTransitionChan") {
						sent = true
					}
				}
			}
		}
	}
	c.Check(okTS && sent, "transition-state-result", "protocol.(*Protocol).transitionState", ts.Pos(), "returns the state loop's answer (or ErrProtocolShuttingDown)", "transitionState returns "+strings.Join(got, ", ")+": not the state loop's verdict")
}

func (c *Ctx) checkReadySignals() {
	agC, agS := c.ConstInt("protocol", "AgencyClient"), c.ConstInt("protocol", "AgencyServer")
	rC, rS := c.ConstInt("protocol", "ProtocolRoleClient"), c.ConstInt("protocol", "ProtocolRoleServer")
	wants := map[string]map[[2]int64]bool{
		".recvReadyChan": {{agC, rS}: true, {agS, rC}: true},
		".sendReadyChan": {{agC, rC}: true, {agS, rS}: true},
	}
	setStateKey := c.setStateKey()
	var setState *ssa.Function
	for _, fn := range c.pkgFuncs("protocol") {
		if ssaFuncKey(fn) == setStateKey {
			setState = fn
		}
	}
	if setState == nil {
		c.Undecided("stateLoop's state setter not found")
	}
	// which ready channels a channel value can be: by field suffix, or the edges of a phi over them
	suffixOf := func(v ssa.Value) string {
		d := desc(v)
		for suf := range wants {
			if strings.HasSuffix(d, suf) {
				return suf
			}
		}
		return ""
	}
	chanKinds := func(v ssa.Value) (kinds []string, phi *ssa.Phi) {
		if p, ok := v.(*ssa.Phi); ok {
			nNil := 0
			for _, e := range p.Edges {
				if isNilConst(e) {
					nNil++ // "no signal" alternative: var ch chan bool; … if ch != nil { select { case ch <- true: … } }
					continue
				}
				if s := suffixOf(e); s != "" {
					kinds = append(kinds, s)
				}
			}
			if len(kinds) > 0 && len(kinds)+nNil == len(p.Edges) {
				return kinds, p
			}
			return nil, nil
		}
		if s := suffixOf(v); s != "" {
			return []string{s}, nil
		}
		return nil, nil
	}
	type site struct {
		fn *ssa.Function
		in ssa.Instruction
		ch ssa.Value
	}
	var sites []site
	for _, st := range liftedSendSites(c.pkgFuncs("protocol")) {
		if k, _ := chanKinds(st.Chan); len(k) > 0 {
			sites = append(sites, site{st.Fn, st.At, st.Chan})
		}
	}
	got := map[string]map[[2]int64]bool{".recvReadyChan": {}, ".sendReadyChan": {}}
	units := map[*ssa.Function][]site{}
	for _, st := range sites {
		fk := ssaFuncKey(st.fn)
		kinds, _ := chanKinds(st.ch)
		if st.fn != setState && !ownedBy(st.fn, []string{setStateKey}, 1) {
			for _, k := range kinds {
				c.Bad("ready-signal-owner", fk+":"+k, st.in.Pos(), "%s is signalled outside stateLoop's setState: agency can be granted without a state transition", k)
			}
			continue
		}
		units[st.fn] = append(units[st.fn], st)
	}
	for u, ss := range units {
		fk := ssaFuncKey(u)
		// atoms in the unit's vocabulary
		agencyAtom, roleAtom := atomComparedWithConst(u, ".Agency"), atomComparedWithConst(u, ".config.Role")
		agencySrc := agencyAtom
		// entry := StateMap[s] kept in a local: the atom names the local, its single store names the lookup
		for _, in := range fnInstrs(u) {
			ld, ok := in.(*ssa.UnOp)
			if !ok || desc(ld) != agencyAtom {
				continue
			}
			if t := trace(ld); strings.HasPrefix(t, "Agency<lookup(StateMap<config<") && strings.Contains(t, ",p0)") {
				agencySrc = "lookup(" + t + ".config.StateMap,p0)"
			}
		}
		if u != setState {
			// a helper of setState: the agency is the parameter that receives StateMap[new state].Agency
			agencyAtom, agencySrc = "", ""
			for _, ci := range callersInPkg(u) {
				for i, a := range ci.Common().Args {
					if d := desc(a); strings.HasSuffix(d, ".Agency") {
						agencyAtom, agencySrc = fmt.Sprintf("p%d", i), d
						// entry := StateMap[s] kept in a local: read through the single store
						if t := trace(a); strings.HasPrefix(t, "Agency<lookup(StateMap<config<") && strings.Contains(t, ",p0)") {
							agencySrc = "lookup(" + t + ".config.StateMap,p0)"
						}
					}
				}
			}
		}
		if agencyAtom == "" || roleAtom == "" {
			c.Bad("ready-signal-table", fk, u.Pos(), "the ready signals do not depend on the new state's agency and the configured role")
			continue
		}
		if !strings.HasPrefix(agencySrc, "lookup(") || !strings.Contains(agencySrc, ".config.StateMap,p0)") {
			c.Bad("ready-signal-table", fk, u.Pos(), "agency is read from %s, not from StateMap[new state]", agencySrc)
			continue
		}
		for a := int64(0); a <= 2; a++ {
			for r := int64(0); r <= 2; r++ {
				psReachValV(u, []*ssa.BasicBlock{u.Blocks[0]}, nil, map[string]int64{agencyAtom: a, roleAtom: r}, func(b *ssa.BasicBlock, _ func(ssa.Value) (bool, bool)) {
					for _, st := range ss {
						if st.in.Block() != b {
							continue
						}
						kinds, phi := chanKinds(st.ch)
						if phi != nil && psChanChoice != nil {
							if v, ok := psChanChoice(phi); ok {
								if isNilConst(v) {
									kinds = nil // a send on a nil channel in a select with default never happens
								} else {
									kinds = []string{suffixOf(v)}
								}
							}
						}
						for _, k := range kinds {
							got[k][[2]int64{a, r}] = true
						}
					}
				})
			}
		}
	}
	for _, suf := range []string{".recvReadyChan", ".sendReadyChan"} {
		sub, sup := true, true
		for k := range got[suf] {
			if !wants[suf][k] {
				sub = false
			}
		}
		for k := range wants[suf] {
			if !got[suf][k] {
				sup = false
			}
		}
		c.Check(sub, "ready-signal-table", "setState:"+suf, setState.Pos(), fmt.Sprintf("signalled only for (agency,role) ∈ %v", keysOf(wants[suf])),
			fmt.Sprintf("%s is signalled for (agency,role) ∈ %v, allowed are %v", suf, keysOf(got[suf]), keysOf(wants[suf])))
		c.Check(sup, "ready-signal-complete", "setState:"+suf, setState.Pos(), "every (agency,role) pair that grants this side a turn signals "+suf,
			fmt.Sprintf("%s is signalled for %v but must be for %v: a side holding agency is never woken", suf, keysOf(got[suf]), keysOf(wants[suf])))
	}
}

func keysOf(m map[[2]int64]bool) string {
	var out []string
	for a := int64(0); a <= 2; a++ {
		for r := int64(0); r <= 2; r++ {
			if m[[2]int64{a, r}] {
				out = append(out, fmt.Sprintf("(%d,%d)", a, r))
			}
		}
	}
	return strings.Join(out, "")
}

// setStateKey identifies stateLoop's state setter structurally: the one function other than New that stores
// Protocol.currentState and is owned by stateLoop (a closure of it, or a helper called only from it).
func (c *Ctx) setStateKey() string {
	sl := c.SSAFunc("protocol", "Protocol.stateLoop")
	owned := map[*ssa.Function]bool{}
	for _, f := range withAnon(sl) {
		owned[f] = true
	}
	var found []string
	for _, fn := range c.pkgFuncs("protocol") {
		if ssaFuncKey(fn) == "protocol.New" {
			continue
		}
		writes := false
		for _, in := range fnInstrs(fn) {
			if st, ok := in.(*ssa.Store); ok {
				if fa, ok := st.Addr.(*ssa.FieldAddr); ok && fieldName(fa.X.Type(), fa.Field) == "currentState" && isNamed(fa.X.Type(), "protocol", "Protocol") {
					writes = true
				}
			}
		}
		if !writes {
			continue
		}
		ok := owned[fn] && fn != sl
		if !ok && fn.Parent() == nil {
			cs := callersInPkg(fn)
			ok = len(cs) > 0
			for _, ci := range cs {
				if !owned[ci.Parent()] {
					ok = false
				}
			}
		}
		if ok {
			found = append(found, ssaFuncKey(fn))
		}
	}
	if len(found) != 1 {
		return "protocol.(*Protocol).stateLoop$1"
	}
	return found[0]
}

type cfgEdge struct {
	from *ssa.BasicBlock
	succ int
}

// handlingErrorEdges: the branch edges of recvLoop on which the outcome of handling a message is known: nil (handled)
// and non-nil (failed). The outcome is the result of handleMessage, or — when that is folded into recvLoop — the value
// that merges the results of transitionState and of the handler call.
func handlingErrorEdges(rl *ssa.Function) (nilEdges, nonNilEdges []cfgEdge) {
	final := map[ssa.Value]bool{}
	for _, ci := range allCalls(rl) {
		cc := ci.Common()
		if ci.Value() == nil {
			continue
		}
		if calleeName(cc) == "protocol.(*Protocol).handleMessage" || !cc.IsInvoke() && strings.HasSuffix(desc(cc.Value), ".config.MessageHandlerFunc") {
			final[ci.Value()] = true
		}
	}
	for changed := true; changed; {
		changed = false
		for _, in := range fnInstrs(rl) {
			ph, ok := in.(*ssa.Phi)
			if !ok || final[ph] {
				continue
			}
			for _, e := range ph.Edges {
				if final[e] {
					final[ph] = true
					changed = true
				}
			}
		}
	}
	// a handler result that only feeds a phi is tested through the phi
	tested := map[ssa.Value]bool{}
	for v := range final {
		if _, isPhi := v.(*ssa.Phi); isPhi {
			tested[v] = true
			continue
		}
		feedsPhi := false
		for _, r := range *v.Referrers() {
			if ph, ok := r.(*ssa.Phi); ok && final[ph] {
				feedsPhi = true
			}
		}
		if !feedsPhi {
			tested[v] = true
		}
	}
	for _, b := range rl.Blocks {
		iff, ok := b.Instrs[len(b.Instrs)-1].(*ssa.If)
		if !ok {
			continue
		}
		bo, ok := iff.Cond.(*ssa.BinOp)
		if !ok || !isNilConst(bo.Y) || !tested[bo.X] {
			continue
		}
		switch bo.Op.String() {
		case "==":
			nilEdges = append(nilEdges, cfgEdge{b, 0})
			nonNilEdges = append(nonNilEdges, cfgEdge{b, 1})
		case "!=":
			nilEdges = append(nilEdges, cfgEdge{b, 1})
			nonNilEdges = append(nonNilEdges, cfgEdge{b, 0})
		}
	}
	return
}
