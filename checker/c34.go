package main

import (
	"fmt"
	"go/types"
	"strings"

	"golang.org/x/tools/go/ssa"
)

func init() {
	register(&Prop{
		ID:        "C34",
		Technique: "SSA guard dominance on every era's block constructor + argument provenance + struct-shape/segment-count agreement + guard chains inside the binders",
		Explanation: "(1) Every New<Era>BlockFromCbor returns a block only on paths that took the SkipBodyHashValidation=true edge or the success edge of that era's binder (ValidateBlockBodyHash for Shelley..Conway, body-hash comparison for Dijkstra, ValidateBodyProof for Byron main/EBB). " +
			"(2) The binder is applied to the very bytes that were decoded and to the decoded header's BlockBodyHash(); the segment count passed equals 1 + the number of body fields of the era's block struct (4 for Shelley–Mary, 5 for Alonzo–Conway). " +
			"(3) ValidateBlockBodyHash hashes elements 1..n-1 of the decoded top-level array, rejects a short array and succeeds only on bytes.Equal with the expected hash. (4) Byron: ValidateBodyProof succeeds only if the tx-count comparison, merkle root, witnesses hash, delegation and update payload hashes all passed (each through checkHash's bytes.Equal); the EBB hashes its preserved body bytes. " +
			"The stored-bytes side of the Dijkstra body hash is C01's store-not-overwritten/hash-input-stored rules.",
		Assumptions: []string{"Byron ssc_proof is checked structurally only by default (documented omission of the library)", "blake2b and the merkle construction (C35) are as specified", "toarray struct decoding rejects top-level arrays with surplus elements (fxamacker/cbor)"},
		Run:         runC34,
	})
}

func runC34(c *Ctx) {
	c.W.buildSSA()
	n := 0
	for _, p := range c.W.Pkgs {
		rel := relPkg(p.PkgPath)
		if !strings.HasPrefix(rel, "ledger/") {
			continue
		}
		for _, fn := range c.pkgFuncs(rel) {
			if fn.Parent() != nil || fn.Signature.Recv() != nil {
				continue
			}
			name := fn.Name()
			if !strings.HasPrefix(name, "New") || !strings.HasSuffix(name, "BlockFromCbor") {
				continue
			}
			res := fn.Signature.Results()
			if res.Len() != 2 || !hasField(res.At(0).Type(), "BlockHeader") {
				continue // not a header+body block (e.g. Leios endorser blocks carry no header)
			}
			n++
			c.checkBlockCtor(fn)
		}
	}
	if n < 9 {
		c.Undecided("only %d era block constructors found (9 confirmed: Byron main/EBB, Shelley..Dijkstra)", n)
	}
	c.checkValidateBlockBodyHash()
	c.checkByronProof()
}

func (c *Ctx) checkBlockCtor(fn *ssa.Function) {
	key := ssaFuncKey(fn)
	var rets []ssa.Instruction
	for _, b := range fn.Blocks {
		if r, ok := b.Instrs[len(b.Instrs)-1].(*ssa.Return); ok && !isNilConst(r.Results[0]) {
			rets = append(rets, r)
		}
	}
	if len(rets) == 0 {
		c.Bad("ctor-binds-body", key, fn.Pos(), "constructor never returns a block")
		return
	}
	binderKind := ""
	match := func(f string) bool {
		switch {
		case strings.HasPrefix(f, "T:") && strings.HasSuffix(f, ".SkipBodyHashValidation"):
			return true
		case strings.HasPrefix(f, "call:ledger/common.ValidateBlockBodyHash(") && strings.HasSuffix(f, ") == nil"):
			binderKind = "segments"
			return true
		case strings.Contains(f, ").ValidateBodyProof(") && strings.HasSuffix(f, ") == nil"):
			binderKind = "byron"
			return true
		case strings.HasPrefix(f, "call:crypto/subtle.ConstantTimeCompare(") && strings.HasSuffix(f, ") == 1"):
			binderKind = "dijkstra"
			return true
		case strings.HasPrefix(f, "T:call:bytes.Equal(") && strings.Contains(f, "BlockBodyHash("):
			binderKind = "dijkstra"
			return true
		}
		return false
	}
	vs := c.mustPass(fn, rets, match)
	for i, v := range vs {
		c.Check(v.OK, "ctor-binds-body", key, rets[i].Pos(), "a block is returned only after the body was bound to the header (or validation was explicitly skipped): "+strings.Join(shortAll(factsMatching(fn, match)), " | "),
			"a decoded block can be returned without its body having been checked against the header's commitment ("+v.Witness+")")
	}
	// the skip edge really is the config flag of the variadic config parameter (default false)
	okCfg := false
	for _, b := range fn.Blocks {
		for _, in := range b.Instrs {
			if st, ok := in.(*ssa.Store); ok && strings.HasSuffix(typeStr(st.Addr.Type()), "common.VerifyConfig") {
				if strings.HasPrefix(desc(st.Val), "p1[0]") {
					okCfg = true
				}
			}
		}
	}
	c.Check(okCfg, "ctor-skip-flag", key, fn.Pos(), "the skip flag is read from the caller's VerifyConfig (zero value = validate)", "the body-hash skip flag does not come from the caller-supplied VerifyConfig")
	// binder arguments
	for _, ci := range allCalls(fn) {
		cn := calleeName(ci.Common())
		args := ci.Common().Args
		switch {
		case cn == "ledger/common.ValidateBlockBodyHash":
			c.Check(args[0] == fn.Params[0], "binder-input", key+":data", ci.Pos(), "the bytes hashed are the bytes that were decoded", "ValidateBlockBodyHash is applied to "+desc(args[0])+", not to the bytes the block was decoded from")
			hd := desc(args[1])
			c.Check(strings.Contains(hd, ".BlockHeader") && strings.Contains(hd, "BlockBodyHash("), "binder-input", key+":expected", ci.Pos(), "expected hash is the decoded header's BlockBodyHash()", "expected hash is "+hd+", not the decoded header's body hash")
			// segment count vs struct shape
			cnt, ok := args[3].(*ssa.Const)
			want := int64(1 + bodyFieldCount(fn.Signature.Results().At(0).Type()))
			c.Check(ok && cnt.Int64() == want, "binder-segment-count", key, ci.Pos(), fmt.Sprintf("segment count %d = header + %d body fields of the block struct", want, want-1),
				fmt.Sprintf("segment count passed is %s but the era's block has %d body components: a component is left outside the body hash", desc(args[3]), want-1))
		case strings.HasSuffix(cn, ").ValidateBodyProof"):
			c.Check(strings.HasPrefix(desc(args[0]), "alloc:"), "binder-input", key+":block", ci.Pos(), "proof validated on the block just decoded", "ValidateBodyProof is called on "+desc(args[0]))
		case cn == "crypto/subtle.ConstantTimeCompare" || cn == "bytes.Equal":
			a, b := desc(args[0]), desc(args[1])
			both := a + " " + b
			if strings.Contains(both, "BlockBodyHash(") {
				c.Check(strings.Contains(both, "BlockHeader") && strings.Contains(both, "CalculatedBlockBodyHash("), "binder-input", key+":compare", ci.Pos(), "compares header.BlockBodyHash() with the hash calculated from the body", "the comparison is between "+a+" and "+b)
			}
		}
	}
	if binderKind == "dijkstra" {
		// CalculatedBlockBodyHash delegates to the body's Hash (root over stored bytes: C01)
		for _, p := range c.W.Pkgs {
			if relPkg(p.PkgPath) != "ledger/dijkstra" {
				continue
			}
			for _, g := range c.pkgFuncs("ledger/dijkstra") {
				if g.Name() == "CalculatedBlockBodyHash" && g.Parent() == nil {
					ok := false
					for _, b := range g.Blocks {
						if r, isR := b.Instrs[len(b.Instrs)-1].(*ssa.Return); isR {
							if strings.Contains(desc(r.Results[0]), "DijkstraBlockBody).Hash(") {
								ok = true
							}
						}
					}
					c.Check(ok, "binder-input", ssaFuncKey(g), g.Pos(), "calculated hash is the body's Hash()", "CalculatedBlockBodyHash does not hash the block body")
				}
			}
		}
	}
}

func shortAll(xs []string) []string {
	var out []string
	for _, x := range xs {
		if len(x) > 90 {
			x = x[:40] + "…" + x[len(x)-45:]
		}
		out = append(out, x)
	}
	return out
}

// bodyFieldCount counts the exported fields of the block struct after the header (embedded helpers excluded).
func bodyFieldCount(t types.Type) int {
	if p, ok := t.(*types.Pointer); ok {
		t = p.Elem()
	}
	st, ok := t.Underlying().(*types.Struct)
	if !ok {
		return -1
	}
	n := 0
	for i := 0; i < st.NumFields(); i++ {
		f := st.Field(i)
		if f.Embedded() || !f.Exported() || f.Name() == "BlockHeader" {
			continue
		}
		n++
	}
	return n
}

func (c *Ctx) checkValidateBlockBodyHash() {
	fn := c.SSAFunc("ledger/common", "ValidateBlockBodyHash")
	key := ssaFuncKey(fn)
	succ := successReturns(fn)
	if len(succ) == 0 {
		c.Undecided("ValidateBlockBodyHash has no success return")
	}
	guard := func(rule, okMsg, badMsg string, m func(string) bool) {
		for i, v := range c.mustPass(fn, succ, m) {
			c.Check(v.OK, rule, key, succ[i].Pos(), okMsg, badMsg+" ("+v.Witness+")")
		}
	}
	guard("segments-decoded", "success only after the top-level array was decoded from the data", "success without decoding the block bytes", func(f string) bool {
		return strings.HasPrefix(f, "call:cbor.Decode(p0,") && strings.HasSuffix(f, "#1 == nil")
	})
	guard("segments-arity", "success only if the array has at least the era's segment count", "a block with fewer top-level elements than the era requires can pass", func(f string) bool {
		return relIs(f, func(x string) bool { return strings.HasPrefix(x, "len(") }, ">=", func(x string) bool { return x == "p3" })
	})
	guard("segments-compare", "success only on the equality edge of the hash comparison with the expected body hash", "success is reachable without the computed hash equalling the expected one", func(f string) bool {
		return strings.HasPrefix(f, "T:call:bytes.Equal(") && strings.Contains(f, "(p1)")
	})
	// loop: i from 1 while i < p3, hashing raw[i]
	okLoop, okElem := false, false
	// the loop may live in a helper that receives the decoded array and the segment count: its facts and operands
	// are read with the helper's parameters replaced by the caller's arguments
	type unit struct {
		f    *ssa.Function
		args []ssa.Value
	}
	units := []unit{{fn, nil}}
	for _, ci := range allCalls(fn) {
		if h := samePkgHelper(fn, ci.Common()); h != nil && h.Parent() == nil {
			units = append(units, unit{h, ci.Common().Args})
		}
	}
	for _, u := range units {
		sub := func(s string) string {
			if u.args == nil {
				return s
			}
			return substParams(s, u.args)
		}
		loop, elem := false, false
		for _, ef := range edgeFacts(u.f) {
			f := sub(ef.Fact)
			if strings.HasPrefix(f, "phi(") && strings.HasSuffix(f, " < p3") && strings.Contains(f, "1") {
				loop = true
			}
		}
		for _, ci := range allCalls(u.f) {
			if strings.HasSuffix(calleeName(ci.Common()), "blake2b.Sum256") {
				d := sub(desc(ci.Common().Args[0]))
				if strings.Contains(d, "RawMessage[phi(") {
					elem = true
				}
			}
		}
		if loop && elem {
			okLoop, okElem = true, true
		}
	}
	c.Check(okLoop && okElem, "segments-range", key, fn.Pos(), "each of the elements 1..n-1 is hashed", "the segment loop does not cover elements 1..n-1 of the block array")
}

func (c *Ctx) checkByronProof() {
	type req struct {
		fn     string
		callee []string // callees whose nil error must dominate success (or be the returned value)
	}
	reqs := []req{
		{"ByronMainBlock.ValidateBodyProof", []string{"ledger/byron.(*ByronMainBlock).validateTxProof", "ledger/byron.checkPayloadHash"}},
		{"ByronMainBlock.validateTxProof", []string{"ledger/byron.checkHash"}},
	}
	for _, r := range reqs {
		fn := c.SSAFunc("ledger/byron", r.fn)
		key := ssaFuncKey(fn)
		succ := successReturns(fn)
		for _, callee := range r.callee {
			// every call to callee: its result is either tested (== nil edge dominates all later success returns) or returned directly
			nCalls := 0
			for _, ci := range allCalls(fn) {
				if calleeName(ci.Common()) != callee {
					continue
				}
				nCalls++
				d := desc(ci.Value())
				returned := false
				tested := false
				var later []ssa.Instruction
				phiOK, viaPhi := true, false
				for _, s := range succ {
					rv := s.(*ssa.Return).Results[0]
					if ph, isPhi := rv.(*ssa.Phi); isPhi && ph.Block() == s.Block() {
						// a result variable: on every incoming edge the value is this check's own result, or the
						// edge is only taken after this check returned nil
						viaPhi = true
						for i, e := range ph.Edges {
							if e == ssa.Value(ci.Value()) {
								continue
							}
							pred := ph.Block().Preds[i]
							// not a success on this edge: the value carried is a non-nil error there
							if edgeImpliesMatch(pred, ph.Block(), func(f string) bool { return f == desc(e)+" != nil" }) || definitelyNonNilErr(e, pred, 0) {
								continue
							}
							okEdge := edgeImpliesMatch(pred, ph.Block(), func(f string) bool { return f == d+" == nil" })
							if !okEdge {
								v := c.mustPass(fn, []ssa.Instruction{pred.Instrs[len(pred.Instrs)-1]}, func(f string) bool { return f == d+" == nil" })
								okEdge = v[0].OK
							}
							if !okEdge {
								phiOK = false
							}
						}
						continue
					}
					if desc(rv) == d {
						returned = true
					} else {
						later = append(later, s)
					}
				}
				if viaPhi && phiOK && len(later) == 0 {
					returned = true
				}
				if len(later) > 0 {
					tested = phiOK
					for _, v := range c.mustPass(fn, later, func(f string) bool { return f == d+" == nil" }) {
						if !v.OK {
							tested = false
						}
					}
				}
				c.Check(returned || tested, "byron-proof-chain", key+":"+shortArg(d), ci.Pos(), "the check's result is returned or must be nil before success", "the result of "+callee+" is ignored: this part of the body proof is not enforced")
			}
			if nCalls == 0 {
				c.Bad("byron-proof-chain", key+":"+callee, fn.Pos(), "%s no longer calls %s", r.fn, callee)
			}
		}
	}
	// which parts: delegation and update payload hashes, merkle root over tx bodies, witnesses hash, tx count
	vb := c.SSAFunc("ledger/byron", "ByronMainBlock.ValidateBodyProof")
	labels := map[string]bool{}
	for _, ci := range allCalls(vb) {
		if calleeName(ci.Common()) == "ledger/byron.checkPayloadHash" {
			labels[desc(ci.Common().Args[0])+":"+lastCall(desc(ci.Common().Args[2]))] = true
		}
	}
	c.Check(labels["\"delegation\":DlgPayloadCbor"] && labels["\"update\":UpdPayloadCbor"], "byron-proof-parts", ssaFuncKey(vb), vb.Pos(), "delegation and update payload hashes are checked over their preserved CBOR", fmt.Sprintf("delegation/update payload binding incomplete: %v", sortedKeys(labels)))
	tp := c.SSAFunc("ledger/byron", "ByronMainBlock.validateTxProof")
	okCount := false
	for _, v := range c.mustPass(tp, successReturns(tp), func(f string) bool {
		return strings.Contains(f, " == ") && strings.Contains(f, "call:ledger/byron.asUint(") && strings.Contains(f, "len(") && strings.Contains(f, ".TxPayload)")
	}) {
		okCount = v.OK
	}
	c.Check(okCount, "byron-proof-parts", ssaFuncKey(tp)+":count", tp.Pos(), "declared transaction count must equal the body's", "the declared transaction count is not compared with the number of transactions in the body")
	parts := map[string]bool{}
	for _, ci := range allCalls(tp) {
		if calleeName(ci.Common()) == "ledger/byron.checkHash" {
			a := desc(ci.Common().Args[2])
			switch {
			case strings.Contains(a, "ledger/byron.MerkleRoot("):
				parts["merkle"] = true
			case strings.Contains(a, "Blake2b256Hash(") && strings.Contains(a, "encodeWitnessList("):
				parts["witnesses"] = true
			}
		}
	}
	c.Check(parts["merkle"] && parts["witnesses"], "byron-proof-parts", ssaFuncKey(tp)+":hashes", tp.Pos(), "merkle root of the tx bodies and hash of the witness list are checked", fmt.Sprintf("tx proof binding incomplete: %v", sortedKeys(parts)))
	// leaves are the stored body bytes
	okLeaves := false
	for _, f := range closureFuncs(tp, 2) {
		for _, ci := range allCalls(f) {
			if strings.HasSuffix(calleeName(ci.Common()), ".Cbor") && strings.Contains(desc(ci.Common().Args[0]), ".Body") {
				okLeaves = true
			}
		}
	}
	c.Check(okLeaves, "byron-proof-parts", ssaFuncKey(tp)+":leaves", tp.Pos(), "merkle leaves are the transactions' preserved body bytes", "merkle leaves are not the stored transaction body bytes")
	// checkHash
	ch := c.SSAFunc("ledger/byron", "checkHash")
	for i, v := range c.mustPass(ch, successReturns(ch), func(f string) bool { return strings.HasPrefix(f, "T:call:bytes.Equal(") }) {
		c.Check(v.OK, "byron-checkhash", ssaFuncKey(ch), successReturns(ch)[i].Pos(), "succeeds only when the proof entry equals the computed hash", "checkHash can succeed without the hashes being equal ("+v.Witness+")")
	}
	cp := c.SSAFunc("ledger/byron", "checkPayloadHash")
	okCP := false
	for _, b := range cp.Blocks {
		if r, ok := b.Instrs[len(b.Instrs)-1].(*ssa.Return); ok {
			d := desc(r.Results[0])
			if strings.HasPrefix(d, "call:ledger/byron.checkHash(p0,p1,call:ledger/common.Blake2b256Hash(p2))") {
				okCP = true
			}
		}
	}
	c.Check(okCP, "byron-checkhash", ssaFuncKey(cp), cp.Pos(), "compares the proof entry with Blake2b256 of the payload bytes", "checkPayloadHash does not compare against the hash of the payload")
	// EBB
	eb := c.SSAFunc("ledger/byron", "ByronEpochBoundaryBlock.ValidateBodyProof")
	okEB := false
	for _, b := range eb.Blocks {
		if r, ok := b.Instrs[len(b.Instrs)-1].(*ssa.Return); ok {
			d := desc(r.Results[0])
			if strings.HasPrefix(d, "call:ledger/byron.checkHash(") && strings.Contains(d, ".BlockHeader.BodyProof") && strings.Contains(d, "Blake2b256Hash(call:ledger/byron.(*ByronEpochBoundaryBlock).BodyCbor(") {
				okEB = true
			}
		}
	}
	c.Check(okEB, "byron-checkhash", ssaFuncKey(eb), eb.Pos(), "EBB body bytes are hashed and compared with the header's body proof", "the EBB body is not bound to the header's body proof")
}

func lastCall(d string) string {
	// "call:pkg.(*T).Name(...)" -> Name
	i := strings.LastIndex(d, ").")
	if i < 0 {
		return d
	}
	rest := d[i+2:]
	if j := strings.Index(rest, "("); j >= 0 {
		return rest[:j]
	}
	return rest
}

func hasField(t types.Type, name string) bool {
	if p, ok := t.(*types.Pointer); ok {
		t = p.Elem()
	}
	st, ok := t.Underlying().(*types.Struct)
	if !ok {
		return false
	}
	for i := 0; i < st.NumFields(); i++ {
		if st.Field(i).Name() == name {
			return true
		}
	}
	return false
}
