package main

import (
	"fmt"
	"go/token"
	"strings"

	"golang.org/x/tools/go/ssa"
)

func init() {
	register(&Prop{
		ID:        "C13",
		Technique: "SSA value-identity guard dominance, lock-region and FIFO-accounting rules on protocol.readLoop/recvLoop",
		Explanation: "Necessary structural conditions of bounded receive buffering, decided on all paths: (1) the enqueue into recvQueueChan is dominated by limit<=0 or by the pass edge of pendingRecvBytes+msgLen<=limit, where msgLen is len() of exactly the bytes handed to the message decoder and limit is the current state's PendingMessageByteLimit; " +
			"(2) the increment of pendingRecvBytes by that same msgLen happens on the pass edge inside the same pendingBytesMu critical section as the comparison; (3) msgLen>limit ends in SendError+return before the wait loop can be entered; " +
			"(4) the incomplete-CBOR continuation can loop only through the pass edge of readBuffer.Len()<=maxReadBufferSize (=16 MiB), otherwise SendError+return; (5) every load/store of pendingRecvBytes/pendingRecvSizes is under pendingBytesMu; " +
			"(6) accounting is FIFO: sizes are appended at the tail with the value added to the counter, recvLoop subtracts element 0 and advances the slice by [1:], on every path after a successfully handled message; (7) every blocking select in readLoop has a stop/muxer-done alternative so the backpressure wait can always be woken.",
		Assumptions: []string{"the protocol's handler returns (progress of recvLoop is C15's concern)", "time.After polling terminates when pending bytes drop (liveness not decided)"},
		Run:         runC13,
	})
}

func loadsField(v ssa.Value, field string) bool {
	u, ok := v.(*ssa.UnOp)
	if !ok || u.Op != token.MUL {
		return false
	}
	fa, ok := u.X.(*ssa.FieldAddr)
	return ok && fieldName(fa.X.Type(), fa.Field) == field
}

func runC13(c *Ctx) {
	rl := c.SSAFunc("protocol", "Protocol.readLoop")
	key := "protocol.(*Protocol).readLoop"
	// anchors
	var msgData ssa.Value
	for _, ci := range allCalls(rl) {
		if strings.HasSuffix(desc(ci.Common().Value), ".config.MessageFromCborFunc") && len(ci.Common().Args) == 2 {
			msgData = ci.Common().Args[1]
		}
	}
	if msgData == nil {
		c.Undecided("readLoop: MessageFromCborFunc call not found")
	}
	var msgLens []ssa.Value
	for _, ci := range allCalls(rl) {
		if calleeName(ci.Common()) == "len" && ci.Common().Args[0] == msgData {
			msgLens = append(msgLens, ci.Value())
		}
	}
	isMsgLen := func(v ssa.Value) bool {
		for _, m := range msgLens {
			if m == v {
				return true
			}
		}
		return false
	}
	if len(msgLens) == 0 {
		c.Undecided("readLoop: len(msgData) not computed")
	}
	isLimit := func(v ssa.Value) bool {
		d := desc(v)
		return strings.Contains(d, ".PendingMessageByteLimit") && !strings.Contains(d, "call:")
	}
	// limit must come from StateMap[getCurrentState()]
	okLimSrc := false
	for _, b := range rl.Blocks {
		for _, in := range b.Instrs {
			if lk, ok := in.(*ssa.Lookup); ok && strings.HasSuffix(desc(lk.X), ".config.StateMap") && strings.Contains(desc(lk.Index), "getCurrentState(") {
				okLimSrc = true
			}
		}
	}
	c.Check(okLimSrc, "limit-source", key, rl.Pos(), "limit is StateMap[current state].PendingMessageByteLimit", "the byte limit is not read from the current state's map entry")

	var sinks []ssa.Instruction
	var sentMsg ssa.Value
	for _, b := range rl.Blocks {
		for _, in := range b.Instrs {
			switch x := in.(type) {
			case *ssa.Select:
				for _, st := range x.States {
					if st.Send != nil && strings.HasSuffix(desc(st.Chan), ".recvQueueChan") {
						sinks = append(sinks, x)
						sentMsg = st.Send
					}
				}
			case *ssa.Send:
				if strings.HasSuffix(desc(x.Chan), ".recvQueueChan") {
					sinks = append(sinks, x)
					sentMsg = x.X
				}
			}
		}
	}
	if len(sinks) != 1 {
		c.Undecided("readLoop: expected one enqueue into recvQueueChan, found %d", len(sinks))
	}
	c.Check(strings.Contains(desc(sentMsg), ".config.MessageFromCborFunc("), "enqueue-value", key, sinks[0].Pos(), "the decoded message is what is queued", "the value queued is not the decoded message")

	// classify Ifs by value identity
	type edge struct {
		b *ssa.BasicBlock
		i int
	}
	var budgetPass, noLimit, oversizePass []edge
	var budgetIf *ssa.If
	for _, b := range rl.Blocks {
		iff, ok := b.Instrs[len(b.Instrs)-1].(*ssa.If)
		if !ok {
			continue
		}
		bo, ok := iff.Cond.(*ssa.BinOp)
		if !ok {
			continue
		}
		x, y, op := bo.X, bo.Y, bo.Op
		if k, ok := y.(*ssa.Const); ok && isLimit(x) && k.Int64() == 0 {
			// limit > 0 / limit <= 0 / limit == 0 / limit != 0
			switch op {
			case token.GTR, token.NEQ:
				noLimit = append(noLimit, edge{b, 1})
			case token.LEQ, token.EQL:
				noLimit = append(noLimit, edge{b, 0})
			}
			continue
		}
		// normalise to x OP y with limit on the right
		if isLimit(x) && !isLimit(y) {
			x, y, op = y, x, swapOp(op)
		}
		if !isLimit(y) {
			continue
		}
		if add, ok := x.(*ssa.BinOp); ok && add.Op == token.ADD {
			a, bb := add.X, add.Y
			if loadsField(bb, "pendingRecvBytes") {
				a, bb = bb, a
			}
			if loadsField(a, "pendingRecvBytes") && isMsgLen(bb) {
				switch op {
				case token.LEQ:
					budgetPass = append(budgetPass, edge{b, 0})
					budgetIf = iff
				case token.GTR:
					budgetPass = append(budgetPass, edge{b, 1})
					budgetIf = iff
				}
			}
			continue
		}
		if isMsgLen(x) {
			switch op {
			case token.GTR:
				oversizePass = append(oversizePass, edge{b, 1})
			case token.LEQ:
				oversizePass = append(oversizePass, edge{b, 0})
			}
		}
	}
	inSet := func(es ...[]edge) func(*ssa.BasicBlock, int) bool {
		return func(b *ssa.BasicBlock, i int) bool {
			for _, s := range es {
				for _, e := range s {
					if e.b == b && e.i == i {
						return true
					}
				}
			}
			return false
		}
	}
	// (1)
	if len(budgetPass) == 0 {
		c.Bad("enqueue-budget-guard", key, sinks[0].Pos(), "no comparison pendingRecvBytes+msgLen <= limit found")
	} else {
		reach, parent := reachAvoiding(rl, inSet(budgetPass, noLimit))
		c.Check(!reach[sinks[0].Block()], "enqueue-budget-guard", key, sinks[0].Pos(), "enqueue dominated by limit<=0 or pendingRecvBytes+msgLen<=limit",
			"a message can be queued although pendingRecvBytes+msgLen exceeds the state's limit ("+c.witness(rl, parent, sinks[0].Block())+")")
	}
	// (2) increment on the pass edge, same critical section
	nInc := 0
	for _, b := range rl.Blocks {
		for _, in := range b.Instrs {
			st, ok := in.(*ssa.Store)
			if !ok {
				continue
			}
			fa, ok := st.Addr.(*ssa.FieldAddr)
			if !ok || fieldName(fa.X.Type(), fa.Field) != "pendingRecvBytes" {
				continue
			}
			nInc++
			add, ok := st.Val.(*ssa.BinOp)
			okVal := ok && add.Op == token.ADD && (loadsField(add.X, "pendingRecvBytes") && isMsgLen(add.Y) || loadsField(add.Y, "pendingRecvBytes") && isMsgLen(add.X))
			c.Check(okVal, "increment-value", fmt.Sprintf("%s:%d", key, nInc), st.Pos(), "pendingRecvBytes += msgLen of this message", "pendingRecvBytes is updated with "+desc(st.Val)+", not += len(message bytes)")
			held := heldAt(rl, st, ".pendingBytesMu", []string{"Lock"}, []string{"Unlock"})
			c.Check(held, "increment-locked", fmt.Sprintf("%s:%d", key, nInc), st.Pos(), "under pendingBytesMu", "pendingRecvBytes is incremented without pendingBytesMu held")
			// if the limited path: must be on the pass edge in the same critical section as the compare
			if budgetIf != nil && budgetIf.Block().Dominates(b) && b != budgetIf.Block() {
				onPass := false
				for _, e := range budgetPass {
					if e.b.Succs[e.i] == b && len(b.Preds) == 1 {
						onPass = true
					}
				}
				// same critical section: the mutex is held at the comparison and no lock operation on it
				// precedes the store inside the pass block
				sameCS := heldAt(rl, budgetIf, ".pendingBytesMu", []string{"Lock"}, []string{"Unlock"})
				for _, in2 := range b.Instrs {
					if in2 == st {
						break
					}
					if ci, ok := in2.(ssa.CallInstruction); ok && isLockCall(ci, ".pendingBytesMu", "Lock", "Unlock") {
						sameCS = false
					}
				}
				c.Check(onPass && sameCS, "increment-atomic-with-check", fmt.Sprintf("%s:%d", key, nInc), st.Pos(), "increment is on the pass edge, in the critical section of the comparison",
					"check and increment of pendingRecvBytes are not one critical section on the pass edge: two checks can both pass before either increments")
			}
		}
	}
	if nInc == 0 {
		c.Bad("increment-value", key, rl.Pos(), "readLoop never accounts received bytes in pendingRecvBytes")
	}
	// (3) oversize
	if budgetIf != nil {
		if len(oversizePass) == 0 {
			c.Bad("oversize-guard", key, budgetIf.Pos(), "no msgLen > limit rejection before the backpressure wait: an oversized message spins forever")
		} else {
			reach, parent := reachAvoiding(rl, inSet(oversizePass, noLimit))
			c.Check(!reach[budgetIf.Block()], "oversize-guard", key, budgetIf.Pos(), "the wait loop is entered only when msgLen <= limit",
				"the backpressure wait is reachable with msgLen > limit ("+c.witness(rl, parent, budgetIf.Block())+")")
			for _, e := range oversizePass {
				rej := e.b.Succs[1-e.i]
				c.Check(blockPathsCall(rej, "protocol.(*Protocol).SendError"), "oversize-reports", key, rej.Instrs[0].Pos(), "oversized message ends in SendError and return", "an oversized message does not end the protocol with an error")
			}
		}
	}
	// (4) incomplete CBOR
	maxBuf := c.ConstInt("protocol", "maxReadBufferSize")
	c.Check(maxBuf == 16*1024*1024, "read-buffer-bound", "protocol.maxReadBufferSize", rl.Pos(), "16 MiB", fmt.Sprintf("maxReadBufferSize is %d, not 16 MiB", maxBuf))
	var eofEdges []edge
	for _, ef := range edgeFacts(rl) {
		if strings.HasPrefix(ef.Fact, "T:call:errors.Is(") && strings.HasSuffix(ef.Fact, "global:io.ErrUnexpectedEOF)") {
			eofEdges = append(eofEdges, edge{ef.From, ef.Succ})
		}
	}
	if len(eofEdges) == 0 {
		c.Bad("incomplete-bound", key, rl.Pos(), "no io.ErrUnexpectedEOF continuation found")
	}
	sizePass := cutByFacts(rl, func(f string) bool {
		return strings.HasPrefix(f, "call:bytes.(*Buffer).Len(") && (strings.HasSuffix(f, fmt.Sprintf(" <= %d", maxBuf)) || strings.HasSuffix(f, fmt.Sprintf(" < %d", maxBuf+1)))
	})
	for _, e := range eofEdges {
		start := e.b.Succs[e.i]
		seen := map[*ssa.BasicBlock]bool{start: true}
		q := []*ssa.BasicBlock{start}
		loops := false
		for len(q) > 0 {
			b := q[0]
			q = q[1:]
			for i, s := range b.Succs {
				if sizePass(b, i) {
					continue
				}
				if s == e.b {
					loops = true
				}
				if !seen[s] {
					seen[s] = true
					q = append(q, s)
				}
			}
		}
		c.Check(!loops, "incomplete-bound", key, start.Instrs[0].Pos(), "waiting for more bytes is only possible while readBuffer.Len() <= maxReadBufferSize",
			"incomplete CBOR can be accumulated without the 16 MiB read-buffer bound being checked")
	}
	// (5) lock discipline for the accounting fields, package-wide
	nAcc := 0
	for _, fn := range c.pkgFuncs("protocol") {
		for _, b := range fn.Blocks {
			for _, in := range b.Instrs {
				fa, ok := in.(*ssa.FieldAddr)
				if !ok || !isNamed(fa.X.Type(), "protocol", "Protocol") {
					continue
				}
				fname := fieldName(fa.X.Type(), fa.Field)
				if fname != "pendingRecvBytes" && fname != "pendingRecvSizes" {
					continue
				}
				for _, use := range referrersOf(fa) {
					if _, isDbg := use.(*ssa.DebugRef); isDbg {
						continue
					}
					nAcc++
					held := heldAt(fn, use, ".pendingBytesMu", []string{"Lock"}, []string{"Unlock"})
					c.Check(held, "accounting-locked", fmt.Sprintf("%s:%s:%d", ssaFuncKey(fn), fname, nAcc), use.Pos(), "access under pendingBytesMu", "access to "+fname+" without pendingBytesMu held")
				}
			}
		}
	}
	c.Floor("accounting-locked", 10)
	// (6) FIFO accounting
	c.checkRecvAccountingFIFO(rl, isMsgLen)
	// (7) blocking selects are wake-able
	for _, b := range rl.Blocks {
		for _, in := range b.Instrs {
			sel, ok := in.(*ssa.Select)
			if !ok || !sel.Blocking {
				continue
			}
			wake := false
			for _, st := range sel.States {
				d := desc(st.Chan)
				if st.Send == nil && (strings.HasSuffix(d, ".stopChan") || strings.HasSuffix(d, ".muxerDoneChan")) {
					wake = true
				}
			}
			c.Check(wake, "wait-wakeable", fmt.Sprintf("%s:%s", key, desc(sel)), sel.Pos(), "blocking select has a stop/muxer-done case", "blocking select in readLoop cannot be woken by shutdown: "+desc(sel))
		}
	}
}

// unlockBetween: a non-deferred Unlock of the mutex lies on a path between a and b.
func unlockBetween(fn *ssa.Function, a, b ssa.Instruction, mutexSuffix string) bool {
	for _, ci := range allCalls(fn) {
		if _, isDefer := ci.(*ssa.Defer); isDefer {
			continue
		}
		if isLockCall(ci, mutexSuffix, "Unlock", "RUnlock") {
			u := ci.(ssa.Instruction)
			if reachesInstr(a, u) && reachesInstr(u, b) {
				return true
			}
		}
	}
	return false
}

// blockPathsCall: every path from b to a Return passes a call to callee (and b cannot loop forever without it is not checked).
func blockPathsCall(b *ssa.BasicBlock, callee string) bool {
	ok := true
	seen := map[*ssa.BasicBlock]bool{}
	var walk func(x *ssa.BasicBlock)
	walk = func(x *ssa.BasicBlock) {
		if seen[x] || !ok {
			return
		}
		seen[x] = true
		for _, in := range x.Instrs {
			if ci, isCall := in.(ssa.CallInstruction); isCall && calleeName(ci.Common()) == callee {
				return
			}
		}
		if _, isRet := x.Instrs[len(x.Instrs)-1].(*ssa.Return); isRet {
			ok = false
			return
		}
		for _, s := range x.Succs {
			walk(s)
		}
	}
	walk(b)
	return ok
}

func (c *Ctx) checkRecvAccountingFIFO(rl *ssa.Function, isMsgLen func(ssa.Value) bool) {
	// pushes in readLoop: append(pendingRecvSizes, msgLen)
	nPush := 0
	for _, ci := range allCalls(rl) {
		if calleeName(ci.Common()) != "append" || !strings.HasSuffix(desc(ci.Common().Args[0]), ".pendingRecvSizes") {
			continue
		}
		nPush++
		// appended slice: address of a [1]int array holding msgLen
		okVal := false
		if sl, ok := ci.Common().Args[1].(*ssa.Slice); ok {
			if al, ok := sl.X.(*ssa.Alloc); ok {
				for _, u := range referrersOf(al) {
					if ia, ok := u.(*ssa.IndexAddr); ok {
						for _, u2 := range referrersOf(ia) {
							if st, ok := u2.(*ssa.Store); ok && isMsgLen(st.Val) {
								okVal = true
							}
						}
					}
				}
			}
		}
		c.Check(okVal, "sizes-push", fmt.Sprintf("protocol.(*Protocol).readLoop:%d", nPush), ci.Pos(), "msgLen appended at the tail of pendingRecvSizes", "the size pushed onto pendingRecvSizes is not the message length added to the counter")
	}
	if nPush == 0 {
		c.Bad("sizes-push", "protocol.(*Protocol).readLoop", rl.Pos(), "readLoop never records message sizes")
	}
	rv := c.SSAFunc("protocol", "Protocol.recvLoop")
	key := "protocol.(*Protocol).recvLoop"
	var dec *ssa.Store
	var adv *ssa.Store
	for _, b := range rv.Blocks {
		for _, in := range b.Instrs {
			st, ok := in.(*ssa.Store)
			if !ok {
				continue
			}
			fa, ok := st.Addr.(*ssa.FieldAddr)
			if !ok {
				continue
			}
			switch fieldName(fa.X.Type(), fa.Field) {
			case "pendingRecvBytes":
				if bo, ok := st.Val.(*ssa.BinOp); ok && bo.Op == token.SUB {
					dec = st
				}
			case "pendingRecvSizes":
				adv = st
			}
		}
	}
	if dec == nil || adv == nil {
		c.Bad("sizes-pop", key, rv.Pos(), "recvLoop does not subtract a recorded size and advance pendingRecvSizes")
		return
	}
	sub := dec.Val.(*ssa.BinOp)
	subD := desc(sub.Y)
	c.Check(loadsField(sub.X, "pendingRecvBytes") && strings.HasSuffix(subD, ".pendingRecvSizes[0]"), "sizes-pop", key+":head", dec.Pos(), "subtracts pendingRecvSizes[0] (oldest message)",
		"recvLoop subtracts "+subD+" instead of the oldest recorded size pendingRecvSizes[0]: the counter drifts from the bytes really queued")
	advD := desc(adv.Val)
	c.Check(strings.HasSuffix(advD, ".pendingRecvSizes[1:]"), "sizes-pop", key+":advance", adv.Pos(), "advances the queue by [1:]", "pendingRecvSizes is advanced by "+advD+", not by dropping element 0")
	// after a successful handleMessage every path back to the loop head passes the len(sizes)>0 test
	var okEdgeSucc []*ssa.BasicBlock
	for _, ef := range edgeFacts(rv) {
		if strings.HasPrefix(ef.Fact, "call:protocol.(*Protocol).handleMessage(") && strings.HasSuffix(ef.Fact, ") == nil") {
			okEdgeSucc = append(okEdgeSucc, ef.From.Succs[ef.Succ])
		}
	}
	var testBlocks []*ssa.BasicBlock
	for _, ef := range edgeFacts(rv) {
		if strings.HasPrefix(ef.Fact, "len(") && strings.Contains(ef.Fact, ".pendingRecvSizes) > 0") {
			testBlocks = append(testBlocks, ef.From)
		}
	}
	okPost := len(okEdgeSucc) > 0 && len(testBlocks) > 0
	for _, s := range okEdgeSucc {
		if containsBlock(testBlocks, s) {
			continue
		}
		// can we get back to the handleMessage block without passing a test block?
		seen := map[*ssa.BasicBlock]bool{s: true}
		q := []*ssa.BasicBlock{s}
		for len(q) > 0 {
			b := q[0]
			q = q[1:]
			for _, nx := range b.Succs {
				if containsBlock(testBlocks, nx) {
					continue
				}
				if containsBlock(okEdgeSucc, nx) || nx.Index < s.Index && nx.Dominates(s) {
					okPost = false
				}
				if !seen[nx] {
					seen[nx] = true
					q = append(q, nx)
				}
			}
		}
	}
	c.Check(okPost && testBlocks[0].Dominates(dec.Block()), "decrement-after-handle", key, dec.Pos(), "every successfully handled message reaches the decrement before the next iteration",
		"a handled message can start the next iteration without its bytes being released from pendingRecvBytes")
}

func containsBlock(bs []*ssa.BasicBlock, b *ssa.BasicBlock) bool {
	for _, x := range bs {
		if x == b {
			return true
		}
	}
	return false
}
