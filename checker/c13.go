package main

import (
	"fmt"
	"go/token"
	"strings"

	"golang.org/x/tools/go/ssa"
)

func init() {
	register(&Prop{
		ID:        "C13",
		Technique: "SSA value-identity guard dominance, lock-region and FIFO-accounting rules on protocol.readLoop/recvLoop",
		Explanation: "Necessary structural conditions of bounded receive buffering, decided on all paths: (1) the enqueue into recvQueueChan is dominated by limit<=0 or by the pass edge of pendingRecvBytes+msgLen<=limit, where msgLen is len() of exactly the bytes handed to the message decoder and limit is the current state's PendingMessageByteLimit; " +
			"(2) the increment of pendingRecvBytes by that same msgLen happens on the pass edge inside the same pendingBytesMu critical section as the comparison; (3) msgLen>limit ends in SendError+return before the wait loop can be entered; " +
			"(4) the incomplete-CBOR continuation can loop only through the pass edge of readBuffer.Len()<=maxReadBufferSize (=16 MiB), otherwise SendError+return; (5) every load/store of pendingRecvBytes/pendingRecvSizes is under pendingBytesMu; " +
			"(6) accounting is FIFO: sizes are appended at the tail with the value added to the counter, recvLoop subtracts element 0 and advances the slice by [1:], on every path after a successfully handled message; (7) every blocking select in readLoop has a stop/muxer-done alternative so the backpressure wait can always be woken.",
		Assumptions: []string{"the protocol's handler returns (progress of recvLoop is C15's concern)", "time.After polling terminates when pending bytes drop (liveness not decided)"},
		Run:         runC13,
	})
}

func loadsField(v ssa.Value, field string) bool {
	u, ok := v.(*ssa.UnOp)
	if !ok || u.Op != token.MUL {
		return false
	}
	fa, ok := u.X.(*ssa.FieldAddr)
	return ok && fieldName(fa.X.Type(), fa.Field) == field
}

func runC13(c *Ctx) {
	c.W.buildSSA()
	rl := c.SSAFunc("protocol", "Protocol.readLoop")
	rv := c.SSAFunc("protocol", "Protocol.recvLoop")
	if rl == nil || rv == nil {
		c.Undecided("protocol read/recv loops not found")
		return
	}
	key := "protocol.(*Protocol).readLoop"
	fns := c.pkgFuncs("protocol")

	// ---- value predicates (interprocedural) -------------------------------------------------------------
	// isMsgLen: len() of the bytes handed to MessageFromCborFunc in the same function, or a parameter that
	// receives such a value at every call site.
	var isMsgLen func(v ssa.Value, d int) bool
	isMsgLen = func(v ssa.Value, d int) bool {
		if d > 4 {
			return false
		}
		switch x := v.(type) {
		case *ssa.Call:
			if calleeName(&x.Call) != "len" {
				return false
			}
			data := x.Call.Args[0]
			for _, ci := range allCalls(x.Parent()) {
				if strings.HasSuffix(desc(ci.Common().Value), ".config.MessageFromCborFunc") && len(ci.Common().Args) == 2 && ci.Common().Args[1] == data {
					return true
				}
			}
			return false
		case *ssa.Parameter:
			f := x.Parent()
			idx := -1
			for i, p := range f.Params {
				if p == x {
					idx = i
				}
			}
			sites := callersInPkg(f)
			if idx < 0 || len(sites) == 0 {
				return false
			}
			for _, s := range sites {
				if idx >= len(s.Common().Args) || !isMsgLen(s.Common().Args[idx], d+1) {
					return false
				}
			}
			return true
		case *ssa.Convert:
			return isMsgLen(x.X, d+1)
		}
		return false
	}
	// isLimit: derives only from StateMap[current state].PendingMessageByteLimit (and the constant 0 for "no entry")
	var isLimit func(v ssa.Value, d int) bool
	isLimit = func(v ssa.Value, d int) bool {
		if d > 6 {
			return false
		}
		switch x := v.(type) {
		case *ssa.Const:
			return x.Value != nil && x.Int64() == 0 && d > 0
		case *ssa.Phi:
			some := false
			for _, e := range x.Edges {
				if k, ok := e.(*ssa.Const); ok && k.Value != nil && k.Int64() == 0 {
					continue
				}
				if !isLimit(e, d+1) {
					return false
				}
				some = true
			}
			return some
		case *ssa.UnOp, *ssa.Field, *ssa.FieldAddr:
			t := trace(v)
			return strings.HasPrefix(t, "PendingMessageByteLimit<") && strings.Contains(t, "lookup(StateMap<config<") && (strings.Contains(t, "getCurrentState(") || strings.Contains(t, "currentState<"))
		case *ssa.Call:
			h := x.Call.StaticCallee()
			if h == nil || h.Pkg != x.Parent().Pkg || len(h.Blocks) == 0 {
				return false
			}
			some := false
			for _, hb := range h.Blocks {
				if r, ok := hb.Instrs[len(hb.Instrs)-1].(*ssa.Return); ok && len(r.Results) == 1 {
					rvv := returnedValue(r, 0)
					if k, ok := rvv.(*ssa.Const); ok && k.Value != nil && k.Int64() == 0 {
						continue
					}
					if !isLimit(rvv, d+1) {
						return false
					}
					some = true
				}
			}
			return some
		case *ssa.Parameter:
			f := x.Parent()
			idx := -1
			for i, p := range f.Params {
				if p == x {
					idx = i
				}
			}
			sites := callersInPkg(f)
			if idx < 0 || len(sites) == 0 {
				return false
			}
			for _, s := range sites {
				if idx >= len(s.Common().Args) || !isLimit(s.Common().Args[idx], d+1) {
					return false
				}
			}
			return true
		}
		return false
	}

	// ---- (1) writers of pendingRecvBytes, package-wide ---------------------------------------------------
	type incSite struct {
		fn *ssa.Function
		st *ssa.Store
		v  ssa.Value
	}
	var incs []incSite
	var decs []*ssa.Store
	for _, fn := range fns {
		for _, in := range fnInstrs(fn) {
			st, ok := in.(*ssa.Store)
			if !ok {
				continue
			}
			fa, ok := st.Addr.(*ssa.FieldAddr)
			if !ok || fieldName(fa.X.Type(), fa.Field) != "pendingRecvBytes" {
				continue
			}
			fk := ssaFuncKey(fn)
			switch x := st.Val.(type) {
			case *ssa.BinOp:
				if x.Op == token.ADD && (loadsField(x.X, "pendingRecvBytes") || loadsField(x.Y, "pendingRecvBytes")) {
					v := x.Y
					if loadsField(x.Y, "pendingRecvBytes") {
						v = x.X
					}
					incs = append(incs, incSite{fn, st, v})
					continue
				}
				if x.Op == token.SUB && loadsField(x.X, "pendingRecvBytes") {
					decs = append(decs, st)
					continue
				}
			case *ssa.Const:
				if x.Value != nil && x.Int64() == 0 {
					continue // clamp / reset
				}
			case *ssa.Call:
				if calleeName(&x.Call) == "max" {
					decs = append(decs, st)
					continue
				}
			case *ssa.Phi:
				// clamp written as a conditional: all edges are either a subtraction of the counter or 0
				okPhi := true
				for _, e := range x.Edges {
					if k, isK := e.(*ssa.Const); isK && k.Value != nil && k.Int64() == 0 {
						continue
					}
					if bo, isBo := e.(*ssa.BinOp); isBo && bo.Op == token.SUB && loadsField(bo.X, "pendingRecvBytes") {
						continue
					}
					okPhi = false
				}
				if okPhi {
					decs = append(decs, st)
					continue
				}
			}
			c.Bad("recv-bytes-writers", fk+":"+shortArg(desc(st.Val)), st.Pos(), "pendingRecvBytes is assigned %s: it may only grow by the length of a message being queued or shrink by a recorded size", desc(st.Val))
		}
	}
	if len(incs) == 0 {
		c.Undecided("no increment of pendingRecvBytes found in package protocol")
		return
	}

	// ---- (2) every increment is guarded, locked, atomic with its check, and adds the message length -----
	for i, inc := range incs {
		fn, st, v := inc.fn, inc.st, inc.v
		ik := fmt.Sprintf("%s:inc#%d", ssaFuncKey(fn), i+1)
		c.Check(isMsgLen(v, 0), "increment-value", ik, st.Pos(), "pendingRecvBytes += length of the message being queued", "pendingRecvBytes grows by "+shortArg(trace(v))+", which is not (at every call site) the length of the message being queued")
		held := heldAt(fn, st, ".pendingBytesMu", []string{"Lock"}, []string{"Unlock"})
		c.Check(held, "increment-locked", ik, st.Pos(), "under pendingBytesMu", "pendingRecvBytes is incremented without pendingBytesMu held")
		// guard edges in fn: L<=0 ; pending+v<=L
		type edge struct {
			b *ssa.BasicBlock
			i int
		}
		var pass []edge
		var budgetIf *ssa.If
		limitOK := true
		for _, b := range fn.Blocks {
			iff, ok := b.Instrs[len(b.Instrs)-1].(*ssa.If)
			if !ok {
				continue
			}
			cond := iff.Cond
			for {
				u, isU := cond.(*ssa.UnOp)
				if !isU || u.Op != token.NOT {
					break
				}
				cond = u.X
				// !(a op b) is a negOp(op) b
				if inner, isBo := cond.(*ssa.BinOp); isBo && negOp(inner.Op) != token.ILLEGAL {
					cond = &ssa.BinOp{Op: negOp(inner.Op), X: inner.X, Y: inner.Y}
				}
			}
			bo, ok := cond.(*ssa.BinOp)
			if !ok {
				continue
			}
			x, y, op := bo.X, bo.Y, bo.Op
			if k, ok := y.(*ssa.Const); ok && k.Value != nil && k.Int64() == 0 && isLimit(x, 0) {
				switch op {
				case token.GTR, token.NEQ:
					pass = append(pass, edge{b, 1})
				case token.LEQ, token.EQL:
					pass = append(pass, edge{b, 0})
				}
				continue
			}
			isSum := func(s ssa.Value) bool {
				add, ok := s.(*ssa.BinOp)
				return ok && add.Op == token.ADD && ((loadsField(add.X, "pendingRecvBytes") && add.Y == v) || (loadsField(add.Y, "pendingRecvBytes") && add.X == v))
			}
			if isSum(y) && !isSum(x) {
				x, y, op = y, x, swapOp(op)
			}
			if !isSum(x) {
				continue
			}
			if !isLimit(y, 0) {
				limitOK = false
			}
			switch op {
			case token.LEQ:
				pass = append(pass, edge{b, 0})
				budgetIf = iff
			case token.GTR:
				pass = append(pass, edge{b, 1})
				budgetIf = iff
			}
		}
		if budgetIf == nil {
			c.Bad("enqueue-budget-guard", ik, st.Pos(), "pendingRecvBytes is increased without any comparison of pendingRecvBytes+length with the state's limit in the same function: the receive buffer is unbounded")
			continue
		}
		c.Check(limitOK, "limit-source", ik, budgetIf.Pos(), "the limit compared is StateMap[current state].PendingMessageByteLimit", "the value the pending bytes are compared with is not (at every call site) the current state's PendingMessageByteLimit")
		reach, parent := reachAvoiding(fn, func(b *ssa.BasicBlock, i int) bool {
			for _, e := range pass {
				if e.b == b && e.i == i {
					return true
				}
			}
			return false
		})
		c.Check(!reach[st.Block()], "enqueue-budget-guard", ik, st.Pos(), "the increment is reachable only when limit<=0 or pendingRecvBytes+len<=limit",
			"pendingRecvBytes can be increased although pendingRecvBytes+length exceeds the state's limit ("+c.witness(fn, parent, st.Block())+")")
		sameCS := heldAt(fn, budgetIf, ".pendingBytesMu", []string{"Lock"}, []string{"Unlock"})
		if sameCS {
			// from the pass edge to the store, without re-entering the comparison, no (non-deferred) unlock may occur
			var startBlocks []*ssa.BasicBlock
			for _, e := range pass {
				if e.b == budgetIf.Block() {
					startBlocks = append(startBlocks, e.b.Succs[e.i])
				}
			}
			region := reachFromAvoiding(startBlocks, func(from *ssa.BasicBlock, i int) bool { return from.Succs[i] == budgetIf.Block() })
			for _, sb := range startBlocks {
				region[sb] = true
			}
			for _, ci := range allCalls(fn) {
				if _, isDefer := ci.(*ssa.Defer); isDefer {
					continue
				}
				if !isLockCall(ci, ".pendingBytesMu", "Unlock", "RUnlock") || !region[ci.Block()] {
					continue
				}
				u := ci.(ssa.Instruction)
				if u.Block() == st.Block() && precedes(u, st) {
					sameCS = false
				} else if u.Block() != st.Block() && reachesInstr(u, st) && !reachesBlockAvoiding(u.Block(), st.Block(), budgetIf.Block()) == false {
					sameCS = false
				}
			}
		}
		// the unlimited branch need not share the section with a comparison it does not make
		onBudgetPath := budgetIf.Block().Dominates(st.Block())
		c.Check(!onBudgetPath || sameCS, "increment-atomic-with-check", ik, st.Pos(), "check and increment are one critical section", "check and increment of pendingRecvBytes are not one critical section: two checks can both pass before either increments")
		// FIFO push next to the increment
		pushed := false
		for _, ci := range allCalls(fn) {
			if calleeName(ci.Common()) != "append" || !strings.HasSuffix(desc(ci.Common().Args[0]), ".pendingRecvSizes") {
				continue
			}
			if ci.Block() != st.Block() {
				continue
			}
			if sl, ok := ci.Common().Args[1].(*ssa.Slice); ok {
				if al, ok := sl.X.(*ssa.Alloc); ok {
					for _, u := range referrersOf(al) {
						if ia, ok := u.(*ssa.IndexAddr); ok {
							for _, u2 := range referrersOf(ia) {
								if s2, ok := u2.(*ssa.Store); ok && s2.Val == v {
									pushed = true
								}
							}
						}
					}
				}
			}
		}
		c.Check(pushed, "sizes-push", ik, st.Pos(), "the same length is appended to pendingRecvSizes with the increment", "the length added to pendingRecvBytes is not recorded in pendingRecvSizes alongside: the later release subtracts a different amount")
	}

	// ---- (3) the enqueue is preceded by an increment (through helpers) -----------------------------------
	isInc := func(in ssa.Instruction) bool {
		for _, inc := range incs {
			if ssa.Instruction(inc.st) == in {
				return true
			}
		}
		return false
	}
	var sinks []ssa.Instruction
	var sinkFn *ssa.Function
	var sentMsg ssa.Value
	for _, fn := range closureFuncs(rl, 2) {
		for _, in := range fnInstrs(fn) {
			switch x := in.(type) {
			case *ssa.Select:
				for _, st := range x.States {
					if st.Send != nil && strings.HasSuffix(desc(st.Chan), ".recvQueueChan") {
						sinks = append(sinks, x)
						sentMsg, sinkFn = st.Send, fn
					}
				}
			case *ssa.Send:
				if strings.HasSuffix(desc(x.Chan), ".recvQueueChan") {
					sinks = append(sinks, x)
					sentMsg, sinkFn = x.X, fn
				}
			}
		}
	}
	if len(sinks) != 1 {
		c.Undecided("readLoop: expected one enqueue into recvQueueChan in its call closure, found %d", len(sinks))
		return
	}
	if sinkFn == rl {
		c.Check(strings.Contains(trace(sentMsg), "MessageFromCborFunc"), "enqueue-value", key, sinks[0].Pos(), "the decoded message is what is queued", "the value queued is not the decoded message")
	}
	v := c.mustPassEv(sinkFn, sinks, PassSpec{Instr: isInc})
	okAcc := v[0].OK
	if !okAcc && sinkFn != rl {
		// the enqueue sits in a helper: every call site must be preceded by the accounting
		okAcc = true
		for _, site := range callersInPkg(sinkFn) {
			vv := c.mustPassEv(site.Parent(), []ssa.Instruction{site.(ssa.Instruction)}, PassSpec{Instr: isInc})
			if !vv[0].OK {
				okAcc = false
			}
		}
	}
	c.Check(okAcc, "accounted-before-enqueue", key, sinks[0].Pos(), "every path to the enqueue has accounted the message's bytes", "a message can be queued for recvLoop without its bytes having been added to pendingRecvBytes ("+v[0].Witness+")")

	// ---- (4) oversize: the retry wait is entered only when the message can ever fit ----------------------
	{
		var waits []*ssa.Select
		for _, in := range fnInstrs(rl) {
			sel, ok := in.(*ssa.Select)
			if !ok || !sel.Blocking || !inLoop(sel.Block()) {
				continue
			}
			for _, st := range sel.States {
				if strings.Contains(trace(st.Chan), "After(") {
					waits = append(waits, sel)
				}
			}
		}
		for _, sel := range waits {
			type edge struct {
				b *ssa.BasicBlock
				i int
			}
			var pass []edge
			found := false
			for _, b := range rl.Blocks {
				iff, ok := b.Instrs[len(b.Instrs)-1].(*ssa.If)
				if !ok {
					continue
				}
				bo, ok := iff.Cond.(*ssa.BinOp)
				if !ok {
					continue
				}
				x, y, op := bo.X, bo.Y, bo.Op
				if k, ok := y.(*ssa.Const); ok && k.Value != nil && k.Int64() == 0 && isLimit(x, 0) {
					switch op {
					case token.GTR, token.NEQ:
						pass = append(pass, edge{b, 1})
					case token.LEQ, token.EQL:
						pass = append(pass, edge{b, 0})
					}
					continue
				}
				if isLimit(x, 0) && isMsgLen(y, 0) {
					x, y, op = y, x, swapOp(op)
				}
				if isMsgLen(x, 0) && isLimit(y, 0) {
					found = true
					switch op {
					case token.GTR:
						pass = append(pass, edge{b, 1})
						rej := b.Succs[0]
						c.Check(blockPathsCall(rej, "protocol.(*Protocol).SendError"), "oversize-reports", key, iff.Pos(), "an oversized message ends in SendError and return", "an oversized message does not end the protocol with an error")
					case token.LEQ:
						pass = append(pass, edge{b, 0})
						rej := b.Succs[1]
						c.Check(blockPathsCall(rej, "protocol.(*Protocol).SendError"), "oversize-reports", key, iff.Pos(), "an oversized message ends in SendError and return", "an oversized message does not end the protocol with an error")
					}
				}
			}
			if !found {
				c.Bad("oversize-guard", key, sel.Pos(), "the back-pressure wait is not preceded by a length > limit rejection: a single message larger than the state's limit makes readLoop wait forever")
				continue
			}
			reach, parent := reachAvoiding(rl, func(b *ssa.BasicBlock, i int) bool {
				for _, e := range pass {
					if e.b == b && e.i == i {
						return true
					}
				}
				return false
			})
			c.Check(!reach[sel.Block()], "oversize-guard", key, sel.Pos(), "the wait is entered only when length <= limit", "the back-pressure wait is reachable with a message longer than the limit ("+c.witness(rl, parent, sel.Block())+")")
		}
		if len(waits) == 0 {
			c.Note("readLoop has no timed back-pressure wait")
		}
	}

	// ---- (5) incomplete CBOR accumulation is bounded ------------------------------------------------------
	type edge struct {
		b *ssa.BasicBlock
		i int
	}
	maxBuf := c.ConstInt("protocol", "maxReadBufferSize")
	c.Check(maxBuf == 16*1024*1024, "read-buffer-bound", "protocol.maxReadBufferSize", rl.Pos(), "16 MiB", fmt.Sprintf("maxReadBufferSize is %d, not 16 MiB", maxBuf))
	var eofEdges []edge
	for _, ef := range edgeFacts(rl) {
		if strings.HasPrefix(ef.Fact, "T:call:errors.Is(") && strings.HasSuffix(ef.Fact, "global:io.ErrUnexpectedEOF)") {
			eofEdges = append(eofEdges, edge{ef.From, ef.Succ})
		}
	}
	if len(eofEdges) == 0 {
		c.Undecided("%s: the io.ErrUnexpectedEOF continuation was not recognised", key)
	}
	sizePass := cutByFacts(rl, func(f string) bool {
		return strings.HasPrefix(f, "call:bytes.(*Buffer).Len(") && (strings.HasSuffix(f, fmt.Sprintf(" <= %d", maxBuf)) || strings.HasSuffix(f, fmt.Sprintf(" < %d", maxBuf+1)))
	})
	for _, e := range eofEdges {
		start := e.b.Succs[e.i]
		seen := map[*ssa.BasicBlock]bool{start: true}
		q := []*ssa.BasicBlock{start}
		loops := false
		for len(q) > 0 {
			b := q[0]
			q = q[1:]
			for i, s := range b.Succs {
				if sizePass(b, i) {
					continue
				}
				if s == e.b {
					loops = true
				}
				if !seen[s] {
					seen[s] = true
					q = append(q, s)
				}
			}
		}
		c.Check(!loops, "incomplete-bound", key, start.Instrs[0].Pos(), "waiting for more bytes is only possible while readBuffer.Len() <= maxReadBufferSize",
			"incomplete CBOR can be accumulated without the 16 MiB read-buffer bound being checked")
	}

	// ---- (6) lock discipline for the accounting fields, package-wide -------------------------------------
	nAcc := 0
	for _, fn := range fns {
		for _, in := range fnInstrs(fn) {
			fa, ok := in.(*ssa.FieldAddr)
			if !ok || !isNamed(fa.X.Type(), "protocol", "Protocol") {
				continue
			}
			fname := fieldName(fa.X.Type(), fa.Field)
			if fname != "pendingRecvBytes" && fname != "pendingRecvSizes" {
				continue
			}
			for _, use := range referrersOf(fa) {
				if _, isDbg := use.(*ssa.DebugRef); isDbg {
					continue
				}
				nAcc++
				held := heldAt(fn, use, ".pendingBytesMu", []string{"Lock"}, []string{"Unlock"})
				c.Check(held, "accounting-locked", fmt.Sprintf("%s:%s:%d", ssaFuncKey(fn), fname, nAcc), use.Pos(), "access under pendingBytesMu", "access to "+fname+" without pendingBytesMu held")
			}
		}
	}

	// ---- (7) release: FIFO head, after every handled message ----------------------------------------------
	if len(decs) == 0 {
		c.Bad("sizes-pop", "protocol:pendingRecvBytes", rv.Pos(), "pendingRecvBytes is never decreased: after the first limit's worth of messages the reader waits forever")
	}
	isDecEvent := func(in ssa.Instruction) bool {
		for _, d := range decs {
			if ssa.Instruction(d) == in {
				return true
			}
		}
		return false
	}
	for i, d := range decs {
		fn := d.Parent()
		dk := fmt.Sprintf("%s:dec#%d", ssaFuncKey(fn), i+1)
		// what is subtracted: pendingRecvSizes[0]
		var sub ssa.Value
		var find func(v ssa.Value, depth int)
		find = func(v ssa.Value, depth int) {
			if depth > 4 || sub != nil {
				return
			}
			switch x := v.(type) {
			case *ssa.BinOp:
				if x.Op == token.SUB && loadsField(x.X, "pendingRecvBytes") {
					sub = x.Y
				}
			case *ssa.Call:
				for _, a := range x.Call.Args {
					find(a, depth+1)
				}
			case *ssa.Phi:
				for _, e := range x.Edges {
					find(e, depth+1)
				}
			}
		}
		find(d.Val, 0)
		okHead := sub != nil && strings.HasPrefix(trace(sub), "pendingRecvSizes<") && strings.HasSuffix(trace(sub), "[]") && indexIsConst(sub, 0)
		shown := "?"
		if sub != nil {
			shown = trace(sub)
		}
		c.Check(okHead, "sizes-pop", dk+":head", d.Pos(), "subtracts pendingRecvSizes[0] (oldest message)", "the release subtracts "+shortArg(shown)+" instead of the oldest recorded size pendingRecvSizes[0]: the counter drifts from the bytes really queued")
		// the queue advances by [1:] in the same function
		adv := false
		for _, in := range fnInstrs(fn) {
			if st, ok := in.(*ssa.Store); ok {
				if fa, ok := st.Addr.(*ssa.FieldAddr); ok && fieldName(fa.X.Type(), fa.Field) == "pendingRecvSizes" {
					if sl, ok := st.Val.(*ssa.Slice); ok && sl.Low != nil && desc(sl.Low) == "1" && sl.High == nil && loadsField(sl.X, "pendingRecvSizes") {
						adv = true
					}
				}
			}
		}
		c.Check(adv, "sizes-pop", dk+":advance", d.Pos(), "advances the queue by [1:]", "pendingRecvSizes is not advanced by dropping element 0 where its head is subtracted")
	}
	// after a successfully handled message every path back to the loop head passes a release (or finds nothing recorded)
	{
		var starts []*ssa.BasicBlock
		var hmBlock *ssa.BasicBlock
		for _, ef := range edgeFacts(rv) {
			if strings.HasPrefix(ef.Fact, "call:protocol.(*Protocol).handleMessage(") && strings.HasSuffix(ef.Fact, ") == nil") {
				starts = append(starts, ef.From.Succs[ef.Succ])
				hmBlock = ef.From
			}
		}
		if len(starts) == 0 {
			// handleMessage folded into recvLoop: the edge on which the merged handling error is nil
			nilE, _ := handlingErrorEdges(rv)
			for _, e := range nilE {
				starts = append(starts, e.from.Succs[e.succ])
				hmBlock = e.from
				for _, ci := range allCalls(rv) {
					if calleeName(ci.Common()) == "protocol.(*Protocol).transitionState" {
						hmBlock = ci.Block()
					}
				}
			}
		}
		if len(starts) == 0 {
			c.Undecided("recvLoop: the handleMessage success edge was not recognised")
		} else {
			spec := PassSpec{
				Instr: isDecEvent,
				Edge: func(f string) bool {
					return strings.HasPrefix(f, "len(") && strings.Contains(f, ".pendingRecvSizes) ") && (strings.HasSuffix(f, " <= 0") || strings.HasSuffix(f, " == 0"))
				},
			}
			pc := computePassCuts(rv, spec, 2, map[*ssa.Function]bool{})
			reach := reachFromAvoiding(starts, pc.cut)
			for _, s := range starts {
				reach[s] = true
			}
			bad := false
			for b := range reach {
				if pc.after[b] != nil {
					continue
				}
				// reaching the handleMessage block again (next iteration) or a return-less loop head without a release
				if b == hmBlock {
					bad = true
				}
			}
			c.Check(!bad, "decrement-after-handle", "protocol.(*Protocol).recvLoop", hmBlock.Instrs[0].Pos(), "every successfully handled message is released before the next one is handled", "a handled message can be followed by the next one without its bytes having been released from pendingRecvBytes")
		}
	}

	// ---- (8) blocking selects in readLoop are wake-able ---------------------------------------------------
	for _, in := range fnInstrs(rl) {
		sel, ok := in.(*ssa.Select)
		if !ok || !sel.Blocking {
			continue
		}
		wake := false
		for _, st := range sel.States {
			d := desc(st.Chan)
			if st.Send == nil && (strings.HasSuffix(d, ".stopChan") || strings.HasSuffix(d, ".muxerDoneChan")) {
				wake = true
			}
		}
		c.Check(wake, "wait-wakeable", fmt.Sprintf("%s:%s", key, desc(sel)), sel.Pos(), "blocking select has a stop/muxer-done case", "blocking select in readLoop cannot be woken by shutdown: "+desc(sel))
	}
}

// unlockBetween: a non-deferred Unlock of the mutex lies on a path between a and b.
func unlockBetween(fn *ssa.Function, a, b ssa.Instruction, mutexSuffix string) bool {
	for _, ci := range allCalls(fn) {
		if _, isDefer := ci.(*ssa.Defer); isDefer {
			continue
		}
		if isLockCall(ci, mutexSuffix, "Unlock", "RUnlock") {
			u := ci.(ssa.Instruction)
			if reachesInstr(a, u) && reachesInstr(u, b) {
				return true
			}
		}
	}
	return false
}

// blockPathsCall: every path from b to a Return passes a call to callee (and b cannot loop forever without it is not checked).
func blockPathsCall(b *ssa.BasicBlock, callee string) bool {
	ok := true
	seen := map[*ssa.BasicBlock]bool{}
	var walk func(x *ssa.BasicBlock)
	walk = func(x *ssa.BasicBlock) {
		if seen[x] || !ok {
			return
		}
		seen[x] = true
		for _, in := range x.Instrs {
			if ci, isCall := in.(ssa.CallInstruction); isCall && calleeName(ci.Common()) == callee {
				return
			}
		}
		if _, isRet := x.Instrs[len(x.Instrs)-1].(*ssa.Return); isRet {
			ok = false
			return
		}
		for _, s := range x.Succs {
			walk(s)
		}
	}
	walk(b)
	return ok
}

func containsBlock(bs []*ssa.BasicBlock, b *ssa.BasicBlock) bool {
	for _, x := range bs {
		if x == b {
			return true
		}
	}
	return false
}

// reachesBlockAvoiding: b is reachable from a without passing through the block avoid.
func reachesBlockAvoiding(a, b, avoid *ssa.BasicBlock) bool {
	seen := map[*ssa.BasicBlock]bool{a: true}
	q := []*ssa.BasicBlock{a}
	for len(q) > 0 {
		x := q[0]
		q = q[1:]
		for _, s := range x.Succs {
			if s == avoid || seen[s] {
				continue
			}
			if s == b {
				return true
			}
			seen[s] = true
			q = append(q, s)
		}
	}
	return false
}
