package main

// E1 (guard dominance) and value description over go/ssa.

import (
	"strconv"
	"regexp"
	"fmt"
	"go/constant"
	"go/token"
	"go/types"
	"sort"
	"strings"

	"golang.org/x/tools/go/ssa"
)

// desc gives a canonical, local-name-free description of an SSA value built from
// resolved callees, fields, parameters (by index) and constants.
func desc(v ssa.Value) string { return descD(v, 0) }

// descParamSpill: name spilled parameters as parameters (see descD, *ssa.Alloc).
var descParamSpill = true

func descD(v ssa.Value, d int) string {
	if v == nil {
		return "<nil>"
	}
	if d > 8 {
		return "…"
	}
	switch x := v.(type) {
	case *ssa.Const:
		if x.IsNil() {
			return "nil"
		}
		if x.Value == nil {
			return "zero"
		}
		if x.Value.Kind() == constant.String {
			return x.Value.ExactString()
		}
		return x.Value.String()
	case *ssa.Parameter:
		for i, p := range x.Parent().Params {
			if p == x {
				return fmt.Sprintf("p%d", i)
			}
		}
		return "p?"
	case *ssa.FreeVar:
		return "free:" + x.Name()
	case *ssa.Global:
		return "global:" + relPkg(x.Pkg.Pkg.Path()) + "." + x.Name()
	case *ssa.Function:
		return "func:" + ssaFuncKey(x)
	case *ssa.Builtin:
		return x.Name()
	case *ssa.FieldAddr:
		return descD(x.X, d+1) + "." + fieldName(x.X.Type(), x.Field)
	case *ssa.Field:
		return descD(x.X, d+1) + "." + fieldName(x.X.Type(), x.Field)
	case *ssa.UnOp:
		switch x.Op {
		case token.MUL:
			return descD(x.X, d+1)
		case token.NOT:
			return "!" + descD(x.X, d+1)
		case token.ARROW:
			return "<-" + descD(x.X, d+1)
		case token.SUB:
			return "-" + descD(x.X, d+1)
		}
		return x.Op.String() + descD(x.X, d+1)
	case *ssa.BinOp:
		return "(" + descD(x.X, d+1) + " " + x.Op.String() + " " + descD(x.Y, d+1) + ")"
	case *ssa.Call:
		return descCall(&x.Call, d)
	case *ssa.Extract:
		if sel, ok := x.Tuple.(*ssa.Select); ok && x.Index >= 2 {
			// received value of the (Index-2)th receive state
			n := 0
			for _, st := range sel.States {
				if st.Dir == types.RecvOnly {
					if n == x.Index-2 {
						return "<-" + descD(st.Chan, d+1)
					}
					n++
				}
			}
		}
		return descD(x.Tuple, d+1) + fmt.Sprintf("#%d", x.Index)
	case *ssa.Convert:
		return descD(x.X, d+1)
	case *ssa.ChangeType:
		return descD(x.X, d+1)
	case *ssa.ChangeInterface:
		return descD(x.X, d+1)
	case *ssa.MakeInterface:
		return descD(x.X, d+1)
	case *ssa.SliceToArrayPointer:
		return descD(x.X, d+1)
	case *ssa.TypeAssert:
		s := "assert(" + descD(x.X, d+1) + "," + typeStr(x.AssertedType) + ")"
		return s
	case *ssa.Lookup:
		return "lookup(" + descD(x.X, d+1) + "," + descD(x.Index, d+1) + ")"
	case *ssa.Index:
		return descD(x.X, d+1) + "[" + descD(x.Index, d+1) + "]"
	case *ssa.IndexAddr:
		return descD(x.X, d+1) + "[" + descD(x.Index, d+1) + "]"
	case *ssa.Slice:
		lo, hi := "", ""
		if x.Low != nil {
			lo = descD(x.Low, d+1)
		}
		if x.High != nil {
			hi = descD(x.High, d+1)
		}
		return descD(x.X, d+1) + "[" + lo + ":" + hi + "]"
	case *ssa.Phi:
		var parts []string
		seen := map[string]bool{}
		for _, e := range x.Edges {
			s := descD(e, d+2)
			if !seen[s] {
				seen[s] = true
				parts = append(parts, s)
			}
		}
		sort.Strings(parts)
		return "phi(" + strings.Join(parts, "|") + ")"
	case *ssa.Alloc:
		// a parameter spilled to the heap because a closure captures it reads as the parameter: whether some closure
		// (a deferred func literal, say) captures it must not change how the value is named
		if descParamSpill {
			if pv, ok := singleStore(x).(*ssa.Parameter); ok {
				for i, q := range pv.Parent().Params {
					if q == pv {
						return "p" + strconv.Itoa(i)
					}
				}
			}
		}
		return "alloc:" + typeStr(x.Type())
	case *ssa.MakeMap:
		return "makemap"
	case *ssa.MakeSlice:
		return "makeslice(" + descD(x.Len, d+1) + ")"
	case *ssa.MakeChan:
		return "makechan(" + descD(x.Size, d+1) + ")"
	case *ssa.MakeClosure:
		return "closure:" + ssaFuncKey(x.Fn.(*ssa.Function))
	case *ssa.Next:
		return "next(" + descD(x.Iter, d+1) + ")"
	case *ssa.Range:
		return "range(" + descD(x.X, d+1) + ")"
	case *ssa.Select:
		var parts []string
		for i := range x.States {
			parts = append(parts, selStateDesc(x, i, d))
		}
		if !x.Blocking {
			parts = append(parts, "default")
		}
		return "select{" + strings.Join(parts, ";") + "}"
	}
	return fmt.Sprintf("%T", v)
}

func typeStr(t types.Type) string {
	return types.TypeString(t, func(p *types.Package) string { return relPkg(p.Path()) })
}

func fieldName(t types.Type, idx int) string {
	if p, ok := t.Underlying().(*types.Pointer); ok {
		t = p.Elem()
	}
	st, ok := t.Underlying().(*types.Struct)
	if !ok || idx >= st.NumFields() {
		return fmt.Sprintf("f%d", idx)
	}
	return st.Field(idx).Name()
}

func descCall(cc *ssa.CallCommon, d int) string {
	if cc.IsInvoke() {
		return "call:" + typeStr(cc.Value.Type()) + "." + cc.Method.Name() + "(" + descD(cc.Value, d+1) + ")"
	}
	var name string
	switch f := cc.Value.(type) {
	case *ssa.Function:
		name = ssaFuncKey(f)
	case *ssa.Builtin:
		if (f.Name() == "len" || f.Name() == "cap") && len(cc.Args) == 1 {
			return f.Name() + "(" + descD(cc.Args[0], d+1) + ")"
		}
		name = f.Name()
	case *ssa.MakeClosure:
		name = "closure:" + ssaFuncKey(f.Fn.(*ssa.Function))
	default:
		name = "dyn:" + descD(cc.Value, d+1)
	}
	var args []string
	for _, a := range cc.Args {
		args = append(args, descD(a, d+2))
	}
	return "call:" + name + "(" + strings.Join(args, ",") + ")"
}

// calleeName gives the resolved callee key of a call ("pkg.(*T).M" / "pkg.F" / "iface:T.M" / builtin name), "" if dynamic.
func calleeName(cc *ssa.CallCommon) string {
	if cc.IsInvoke() {
		return "iface:" + typeStr(cc.Value.Type()) + "." + cc.Method.Name()
	}
	switch f := cc.Value.(type) {
	case *ssa.Function:
		return ssaFuncKey(f)
	case *ssa.Builtin:
		return f.Name()
	case *ssa.MakeClosure:
		return ssaFuncKey(f.Fn.(*ssa.Function))
	}
	if h := resolveCallee(cc); h != nil {
		return ssaFuncKey(h)
	}
	return ""
}

// ---------------------------------------------------------------------------
// Edge facts

type EdgeFact struct {
	From *ssa.BasicBlock
	Succ int // 0 = true edge, 1 = false edge
	Fact string
}

func negOp(op token.Token) token.Token {
	switch op {
	case token.EQL:
		return token.NEQ
	case token.NEQ:
		return token.EQL
	case token.LSS:
		return token.GEQ
	case token.GEQ:
		return token.LSS
	case token.GTR:
		return token.LEQ
	case token.LEQ:
		return token.GTR
	}
	return token.ILLEGAL
}

func swapOp(op token.Token) token.Token {
	switch op {
	case token.LSS:
		return token.GTR
	case token.GTR:
		return token.LSS
	case token.LEQ:
		return token.GEQ
	case token.GEQ:
		return token.LEQ
	}
	return op
}

func selStateDesc(sel *ssa.Select, i int, d int) string {
	if i < 0 || i >= len(sel.States) {
		return "default"
	}
	st := sel.States[i]
	if st.Dir == types.SendOnly {
		return descD(st.Chan, d+1) + "<-"
	}
	return "<-" + descD(st.Chan, d+1)
}

// condFacts returns the facts that hold when cond is true, and when it is false.
func condFacts(cond ssa.Value) (tf, ff []string) {
	if b, ok := cond.(*ssa.BinOp); ok && (b.Op == token.EQL || b.Op == token.NEQ) {
		if ex, ok := b.X.(*ssa.Extract); ok && ex.Index == 0 {
			if sel, ok := ex.Tuple.(*ssa.Select); ok {
				if k, ok := b.Y.(*ssa.Const); ok {
					s := selStateDesc(sel, int(k.Int64()), 0)
					if b.Op == token.EQL {
						return []string{"sel:" + s}, []string{"!sel:" + s}
					}
					return []string{"!sel:" + s}, []string{"sel:" + s}
				}
			}
		}
	}
	switch x := cond.(type) {
	case *ssa.UnOp:
		if x.Op == token.NOT {
			a, b := condFacts(x.X)
			return b, a
		}
	case *ssa.BinOp:
		if n := negOp(x.Op); n != token.ILLEGAL {
			l, r, op := x.X, x.Y, x.Op
			if _, lc := l.(*ssa.Const); lc {
				if _, rc := r.(*ssa.Const); !rc {
					l, r, op = r, l, swapOp(op)
				}
			}
			ld, rd := desc(l), desc(r)
			return []string{ld + " " + op.String() + " " + rd}, []string{ld + " " + negOp(op).String() + " " + rd}
		}
	case *ssa.Const:
		return nil, nil
	}
	d := desc(cond)
	return []string{"T:" + d}, []string{"F:" + d}
}

func edgeFacts(fn *ssa.Function) []EdgeFact {
	var out []EdgeFact
	for _, b := range fn.Blocks {
		if len(b.Instrs) == 0 {
			continue
		}
		iff, ok := b.Instrs[len(b.Instrs)-1].(*ssa.If)
		if !ok {
			continue
		}
		tf, ff := condFacts(iff.Cond)
		for _, f := range tf {
			out = append(out, EdgeFact{b, 0, f})
		}
		for _, f := range ff {
			out = append(out, EdgeFact{b, 1, f})
		}
	}
	return out
}

// reachAvoiding computes blocks reachable from entry when the edges for which cut returns true are removed.
// parent records a BFS tree for witness paths.
func reachAvoiding(fn *ssa.Function, cut func(from *ssa.BasicBlock, succ int) bool) (reach map[*ssa.BasicBlock]bool, parent map[*ssa.BasicBlock]*ssa.BasicBlock) {
	reach = map[*ssa.BasicBlock]bool{}
	parent = map[*ssa.BasicBlock]*ssa.BasicBlock{}
	if len(fn.Blocks) == 0 {
		return
	}
	q := []*ssa.BasicBlock{fn.Blocks[0]}
	reach[fn.Blocks[0]] = true
	for len(q) > 0 {
		b := q[0]
		q = q[1:]
		for i, s := range b.Succs {
			if cut != nil && cut(b, i) {
				continue
			}
			if !reach[s] {
				reach[s] = true
				parent[s] = b
				q = append(q, s)
			}
		}
	}
	// the recover block is an alternative entry
	if fn.Recover != nil && !reach[fn.Recover] {
		// not treated as reachable for guard purposes
		_ = fn.Recover
	}
	return
}

func (c *Ctx) witness(fn *ssa.Function, parent map[*ssa.BasicBlock]*ssa.BasicBlock, to *ssa.BasicBlock) string {
	var lines []string
	seen := map[int]bool{}
	for b := to; b != nil; b = parent[b] {
		ln := c.blockLine(b)
		if ln > 0 && !seen[ln] {
			seen[ln] = true
			lines = append(lines, fmt.Sprint(ln))
		}
	}
	for i, j := 0, len(lines)-1; i < j; i, j = i+1, j-1 {
		lines[i], lines[j] = lines[j], lines[i]
	}
	if len(lines) > 14 {
		lines = append(lines[:7], append([]string{"…"}, lines[len(lines)-6:]...)...)
	}
	return "lines " + strings.Join(lines, "→")
}

func (c *Ctx) blockLine(b *ssa.BasicBlock) int {
	for _, in := range b.Instrs {
		if p := in.Pos(); p.IsValid() {
			return c.W.Fset.Position(p).Line
		}
	}
	return 0
}

// mustPass decides whether every path from entry to each sink traverses an edge carrying a fact accepted by match.
// It reports one obligation per sink.
type SinkVerdict struct {
	Sink    ssa.Instruction
	OK      bool
	Witness string
}

func (c *Ctx) mustPass(fn *ssa.Function, sinks []ssa.Instruction, match func(fact string) bool) []SinkVerdict {
	cutSet := passEdges(fn, match, 2)
	reach, parent := reachAvoiding(fn, func(from *ssa.BasicBlock, succ int) bool {
		if succ > 1 {
			return false
		}
		return cutSet[from][succ]
	})
	var out []SinkVerdict
	for _, s := range sinks {
		b := s.Block()
		if reach[b] {
			if mustPassDepth < 2 && c.delegatedReturnPasses(fn, s, match) {
				out = append(out, SinkVerdict{s, true, ""})
				continue
			}
			// second look, path-sensitively (flag variables, conditions tested twice)
			if ps := psReach(fn, []*ssa.BasicBlock{fn.Blocks[0]}, func(from *ssa.BasicBlock, succ int) bool { return succ < 2 && cutSet[from][succ] }); !ps[b] {
				out = append(out, SinkVerdict{s, true, ""})
				continue
			}
			out = append(out, SinkVerdict{s, false, c.witness(fn, parent, b)})
		} else {
			out = append(out, SinkVerdict{s, true, ""})
		}
	}
	return out
}

var mustPassDepth int

// delegatedReturnPasses: the sink is `return h(...)` — the verdict of a same-package helper handed back unchanged — and
// every success return of h lies behind an accepted fact (h's facts are read with its parameters replaced by the
// call's arguments).
func (c *Ctx) delegatedReturnPasses(fn *ssa.Function, s ssa.Instruction, match func(string) bool) bool {
	r, ok := s.(*ssa.Return)
	if !ok {
		return false
	}
	ei := errorResultIndex(fn)
	if ei < 0 || ei >= len(r.Results) {
		return false
	}
	var call *ssa.Call
	switch x := returnedValue(r, ei).(type) {
	case *ssa.Call:
		call = x
	case *ssa.Extract:
		call, _ = x.Tuple.(*ssa.Call)
	}
	if call == nil {
		return false
	}
	h := samePkgHelper(fn, &call.Call)
	if h == nil || errorResultIndex(h) < 0 {
		return false
	}
	hs := successReturns(h)
	if len(hs) == 0 {
		return true
	}
	mustPassDepth++
	defer func() { mustPassDepth-- }()
	for _, v := range c.mustPass(h, hs, func(f string) bool { return match(f) || match(substParams(f, call.Call.Args)) }) {
		if !v.OK {
			return false
		}
	}
	return true
}

// passEdges: the If edges of fn on which a fact accepted by match is known to hold — either because the edge's own
// condition says so, or because the condition tests the result of a same-package helper all of whose paths to the
// corresponding kind of return pass such an edge (helper facts are translated into the caller's vocabulary by
// substituting the helper's parameters with the call's arguments). depth bounds the helper nesting followed.
func passEdges(fn *ssa.Function, match func(fact string) bool, depth int) map[*ssa.BasicBlock][2]bool {
	cutSet := map[*ssa.BasicBlock][2]bool{}
	for _, f := range edgeFacts(fn) {
		if f.Succ < 2 && match(f.Fact) {
			v := cutSet[f.From]
			v[f.Succ] = true
			cutSet[f.From] = v
		}
	}
	// a branch on a materialised short-circuit value (ok := A && B; if !ok {…}): the outcome edge carries a fact
	// when every way the phi can take that outcome implies one
	for _, b := range fn.Blocks {
		if len(b.Instrs) == 0 {
			continue
		}
		iff, ok := b.Instrs[len(b.Instrs)-1].(*ssa.If)
		if !ok {
			continue
		}
		cond, neg := iff.Cond, false
		for {
			u, isU := cond.(*ssa.UnOp)
			if !isU || u.Op != token.NOT {
				break
			}
			cond, neg = u.X, !neg
		}
		phi, isPhi := cond.(*ssa.Phi)
		if !isPhi || phi.Block() != b || !isBoolPhi(phi) {
			continue
		}
		for _, outcome := range []bool{true, false} {
			all, any := true, false
			for i, e := range phi.Edges {
				pred := b.Preds[i]
				if k, isK := e.(*ssa.Const); isK && k.Value != nil {
					if (desc(k) == "true") != outcome {
						continue
					}
					any = true
					if !edgeImpliesMatch(pred, b, match) {
						all = false
					}
					continue
				}
				any = true
				tf, ff := condFacts(e)
				facts := tf
				if !outcome {
					facts = ff
				}
				hit := false
				for _, f := range facts {
					if match(f) {
						hit = true
					}
				}
				if !hit && !edgeImpliesMatch(pred, b, match) {
					all = false
				}
			}
			if any && all {
				succ := 0
				if outcome == neg {
					succ = 1
				}
				v := cutSet[b]
				v[succ] = true
				cutSet[b] = v
			}
		}
	}
	if depth <= 0 {
		return cutSet
	}
	for _, b := range fn.Blocks {
		if len(b.Instrs) == 0 {
			continue
		}
		iff, ok := b.Instrs[len(b.Instrs)-1].(*ssa.If)
		if !ok {
			continue
		}
		call, idx, kind, swapped := helperTest(iff.Cond)
		if call == nil {
			continue
		}
		h := call.Call.StaticCallee()
		if h == nil || h.Pkg == nil || h.Pkg != fn.Pkg || len(h.Blocks) == 0 || h == fn {
			continue
		}
		subst := func(fact string) string { return substParams(fact, call.Call.Args) }
		hm := func(fact string) bool { return match(subst(fact)) }
		for succ := 0; succ < 2; succ++ {
			if cutSet[b][succ] {
				continue
			}
			// which class of helper returns leads to this edge?
			truthy := succ == 0
			if swapped {
				truthy = !truthy
			}
			var rets []*ssa.BasicBlock
			nClass := 0
			for _, hb := range h.Blocks {
				r, isR := hb.Instrs[len(hb.Instrs)-1].(*ssa.Return)
				if !isR || idx >= len(r.Results) {
					continue
				}
				rv := returnedValue(r, idx)
				nClass++
				switch kind {
				case "bool":
					if k, isK := rv.(*ssa.Const); isK && k.Value != nil {
						if (desc(k) == "true") != truthy {
							nClass--
							continue
						}
					} else {
						// the helper returns the tested value itself (return m.set[k], return a == b): on this
						// class of return the corresponding fact about that value holds
						tf, ff := condFacts(rv)
						facts := tf
						if !truthy {
							facts = ff
						}
						holds := false
						for _, f := range facts {
							if hm(f) {
								holds = true
							}
						}
						if holds {
							continue
						}
					}
				case "err":
					// truthy edge of `x == nil`: returns that may be nil
					nonNil := definitelyNonNilErr(rv, hb, 0)
					if truthy && nonNil {
						nClass--
						continue
					}
					if !truthy && isNilConst(rv) {
						nClass--
						continue
					}
				}
				rets = append(rets, hb)
			}
			if nClass == 0 {
				continue
			}
			hcut := passEdges(h, hm, depth-1)
			hreach, _ := reachAvoiding(h, func(from *ssa.BasicBlock, s int) bool { return s < 2 && hcut[from][s] })
			all := true
			for _, rb := range rets {
				if hreach[rb] {
					all = false
				}
			}
			if all {
				v := cutSet[b]
				v[succ] = true
				cutSet[b] = v
			}
		}
	}
	return cutSet
}

// helperTest recognises `if h(...)`, `if !h(...)`, `if ok` (ok = h(...)#k), `if err == nil` / `!= nil` (err = h(...)#k or h(...)).
// kind is "bool" or "err"; swapped means the true edge corresponds to the false/non-nil class.
func helperTest(cond ssa.Value) (call *ssa.Call, idx int, kind string, swapped bool) {
	unwrap := func(v ssa.Value) (*ssa.Call, int) {
		if ex, ok := v.(*ssa.Extract); ok {
			if cl, ok := ex.Tuple.(*ssa.Call); ok {
				return cl, ex.Index
			}
			return nil, 0
		}
		if cl, ok := v.(*ssa.Call); ok {
			return cl, 0
		}
		return nil, 0
	}
	switch x := cond.(type) {
	case *ssa.UnOp:
		if x.Op == token.NOT {
			c2, i2, k2, s2 := helperTest(x.X)
			return c2, i2, k2, !s2
		}
	case *ssa.BinOp:
		if (x.Op == token.EQL || x.Op == token.NEQ) && isNilConst(x.Y) {
			if cl, i := unwrap(x.X); cl != nil {
				return cl, i, "err", x.Op == token.NEQ
			}
		}
		return nil, 0, "", false
	}
	if cl, i := unwrap(cond); cl != nil {
		if b, ok := cond.Type().Underlying().(*types.Basic); ok && b.Kind() == types.Bool {
			return cl, i, "bool", false
		}
	}
	return nil, 0, "", false
}

var paramTokRe = regexp.MustCompile(`\bp(\d+)\b`)

// substParams rewrites the helper's parameter tokens p<i> in a fact/desc string with the caller's argument descriptions.
func substParams(s string, args []ssa.Value) string {
	return paramTokRe.ReplaceAllStringFunc(s, func(tok string) string {
		i, err := strconv.Atoi(tok[1:])
		if err != nil || i >= len(args) {
			return tok
		}
		return desc(args[i])
	})
}

// factsMatching lists the distinct facts in fn accepted by match (for evidence/diagnostics).
func factsMatching(fn *ssa.Function, match func(string) bool) []string {
	seen := map[string]bool{}
	var out []string
	for _, f := range edgeFacts(fn) {
		if match(f.Fact) && !seen[f.Fact] {
			seen[f.Fact] = true
			out = append(out, f.Fact)
		}
	}
	sort.Strings(out)
	return out
}

// ---------------------------------------------------------------------------
// Returns

func errorResultIndex(fn *ssa.Function) int {
	res := fn.Signature.Results()
	for i := res.Len() - 1; i >= 0; i-- {
		if isErrorType(res.At(i).Type()) {
			return i
		}
	}
	return -1
}

func isErrorType(t types.Type) bool {
	n, ok := t.(*types.Named)
	return ok && n.Obj().Pkg() == nil && n.Obj().Name() == "error"
}

// definitelyNonNil: value is certainly a non-nil error at the point of use.
func definitelyNonNilErr(v ssa.Value, at *ssa.BasicBlock, depth int) bool {
	if depth > 4 {
		return false
	}
	switch x := v.(type) {
	case *ssa.Const:
		return !x.IsNil()
	case *ssa.MakeInterface:
		return true
	case *ssa.UnOp:
		// a package-level sentinel error (var ErrX = errors.New(...)); never reassigned by convention
		if g, ok := x.X.(*ssa.Global); ok && x.Op == token.MUL && strings.HasPrefix(g.Name(), "Err") {
			return true
		}
	case *ssa.Call:
		switch calleeName(&x.Call) {
		case "fmt.Errorf", "errors.New", "errors.Join":
			return true
		case "iface:context.Context.Err":
			// ctx.Err() after <-ctx.Done() fired for the same context (select arm or plain receive): non-nil by
			// the contract of context.Context
			if at != nil && x.Call.IsInvoke() {
				want := "sel:<-call:context.Context.Done(" + desc(x.Call.Value) + ")"
				for b := at; b != nil; b = b.Idom() {
					id := b.Idom()
					if id == nil {
						break
					}
					iff, ok := id.Instrs[len(id.Instrs)-1].(*ssa.If)
					if !ok {
						continue
					}
					tf, _ := condFacts(iff.Cond)
					for _, f := range tf {
						if f == want && id.Succs[0] == b && len(b.Preds) == 1 {
							return true
						}
					}
				}
			}
		}
	case *ssa.Phi:
		for _, e := range x.Edges {
			if !definitelyNonNilErr(e, nil, depth+1) {
				goto dom
			}
		}
		return true
	}
dom:
	if at == nil {
		return false
	}
	// dominated by the edge "v != nil"
	want := desc(v) + " != nil"
	for b := at; b != nil; b = b.Idom() {
		id := b.Idom()
		if id == nil {
			break
		}
		iff, ok := id.Instrs[len(id.Instrs)-1].(*ssa.If)
		if !ok {
			continue
		}
		tf, ff := condFacts(iff.Cond)
		// b must be reached only via the matching edge: require that the other successor does not reach b without passing id... approximate by direct successor & single predecessor
		for i, facts := range [][]string{tf, ff} {
			for _, f := range facts {
				if f == want && id.Succs[i] == b && len(b.Preds) == 1 {
					return true
				}
			}
		}
	}
	return false
}

// successReturns: Return instructions on which the error result may be nil.
// If the function has no error result, all returns are returned.
func successReturns(fn *ssa.Function) []ssa.Instruction {
	idx := errorResultIndex(fn)
	var out []ssa.Instruction
	for _, b := range fn.Blocks {
		if len(b.Instrs) == 0 {
			continue
		}
		r, ok := b.Instrs[len(b.Instrs)-1].(*ssa.Return)
		if !ok {
			continue
		}
		if idx >= 0 && idx < len(r.Results) && definitelyNonNilErr(returnedValue(r, idx), b, 0) {
			continue
		}
		out = append(out, r)
	}
	return out
}

// allCalls returns every call instruction (call, go, defer) in fn with its common part.
func allCalls(fn *ssa.Function) []ssa.CallInstruction {
	var out []ssa.CallInstruction
	for _, b := range fn.Blocks {
		for _, in := range b.Instrs {
			if ci, ok := in.(ssa.CallInstruction); ok {
				out = append(out, ci)
			}
		}
	}
	return out
}

func callsTo(fn *ssa.Function, pred func(name string) bool) []ssa.CallInstruction {
	var out []ssa.CallInstruction
	for _, ci := range allCalls(fn) {
		if pred(calleeName(ci.Common())) {
			out = append(out, ci)
		}
	}
	return out
}

// withAnon returns fn and all its anonymous functions (closures), recursively.
func withAnon(fn *ssa.Function) []*ssa.Function {
	out := []*ssa.Function{fn}
	for _, a := range fn.AnonFuncs {
		out = append(out, withAnon(a)...)
	}
	return out
}

func dumpFacts(fn *ssa.Function) string {
	var sb strings.Builder
	for _, f := range edgeFacts(fn) {
		fmt.Fprintf(&sb, "  b%d/%d: %s\n", f.From.Index, f.Succ, f.Fact)
	}
	return sb.String()
}

// pkgFuncs returns every source function (incl. methods and closures) of a module package.
func (c *Ctx) pkgFuncs(rel string) []*ssa.Function {
	c.W.buildSSA()
	p := c.Pkg(rel)
	var out []*ssa.Function
	seen := map[*ssa.Function]bool{}
	c.W.indexDecls()
	var objs []*types.Func
	for obj, pk := range c.W.declPkg {
		if pk == p {
			objs = append(objs, obj)
		}
	}
	sort.Slice(objs, func(i, j int) bool { return objs[i].Pos() < objs[j].Pos() })
	for _, obj := range objs {
		fn := c.W.Prog.FuncValue(obj)
		if fn == nil || len(fn.Blocks) == 0 {
			continue
		}
		for _, f := range withAnon(fn) {
			if !seen[f] {
				seen[f] = true
				out = append(out, f)
			}
		}
	}
	return out
}

// recvTypeName returns the receiver's named type ("Client") of a method, "" for functions.
func recvTypeName(fn *ssa.Function) string {
	for fn.Parent() != nil {
		fn = fn.Parent()
	}
	sig := fn.Signature
	if sig.Recv() == nil {
		return ""
	}
	t := sig.Recv().Type()
	if p, ok := t.(*types.Pointer); ok {
		t = p.Elem()
	}
	if n, ok := types.Unalias(t).(*types.Named); ok {
		return n.Obj().Name()
	}
	return ""
}

func isNilConst(v ssa.Value) bool {
	k, ok := v.(*ssa.Const)
	return ok && k.IsNil()
}

func isZeroConst(v ssa.Value) bool {
	k, ok := v.(*ssa.Const)
	if !ok || k.Value == nil {
		return false
	}
	return k.Value.Kind() == constant.Int && constant.Sign(k.Value) == 0
}

// paramRef returns how the idx-th parameter is referred to in descriptions inside fn: "p<idx>", or the description
// of the local it is spilled to (by-value struct parameters whose address is taken) when that local is written only by the spill.
func paramRef(fn *ssa.Function, idx int) (string, *ssa.Alloc) {
	if idx >= len(fn.Params) {
		return fmt.Sprintf("p%d", idx), nil
	}
	p := fn.Params[idx]
	for _, u := range referrersOf(p) {
		st, ok := u.(*ssa.Store)
		if !ok || st.Val != p {
			continue
		}
		al, ok := st.Addr.(*ssa.Alloc)
		if !ok {
			continue
		}
		whole := 0
		for _, u2 := range referrersOf(al) {
			if s2, ok := u2.(*ssa.Store); ok && s2.Addr == al {
				whole++
			}
		}
		if whole == 1 {
			return desc(al), al
		}
	}
	return fmt.Sprintf("p%d", idx), nil
}

// fnInstrs returns every instruction of fn in block order.
func fnInstrs(fn *ssa.Function) []ssa.Instruction {
	var out []ssa.Instruction
	for _, b := range fn.Blocks {
		out = append(out, b.Instrs...)
	}
	return out
}

// returnedValue resolves the "defer spill" of go/ssa: in a function with defers and results, `return x` becomes
// `*res = x; rundefers; t = *res; return t`. It returns x when the store is in the same block, else the result itself.
func returnedValue(r *ssa.Return, idx int) ssa.Value {
	v := r.Results[idx]
	u, ok := v.(*ssa.UnOp)
	if !ok || u.Op != token.MUL {
		return v
	}
	al, ok := u.X.(*ssa.Alloc)
	if !ok {
		return v
	}
	b := r.Block()
	for i := len(b.Instrs) - 1; i >= 0; i-- {
		if st, ok := b.Instrs[i].(*ssa.Store); ok && st.Addr == al {
			return st.Val
		}
	}
	return v
}

// splitRel splits a comparison fact "L op R" at the operator outside any parentheses.
func splitRel(fact string) (l, op, r string, ok bool) {
	depth := 0
	for i := 0; i < len(fact); i++ {
		switch fact[i] {
		case '(', '[', '{':
			depth++
		case ')', ']', '}':
			depth--
		case ' ':
			if depth != 0 {
				continue
			}
			for _, o := range []string{"<=", ">=", "==", "!=", "<", ">"} {
				if strings.HasPrefix(fact[i+1:], o+" ") {
					return fact[:i], o, fact[i+len(o)+2:], true
				}
			}
		}
	}
	return "", "", "", false
}

// relIs: the fact states "a op b" for some a accepted by isA and b accepted by isB, in either operand order.
func relIs(fact string, isA func(string) bool, op string, isB func(string) bool) bool {
	l, o, r, ok := splitRel(fact)
	if !ok {
		return false
	}
	sw := map[string]string{"<": ">", ">": "<", "<=": ">=", ">=": "<=", "==": "==", "!=": "!="}
	return o == op && isA(l) && isB(r) || o == sw[op] && isA(r) && isB(l)
}

// condOnValue: cond tests v itself — v (a bool), !v, v == nil, v != nil. okOnTrue tells whether the true edge is the
// one on which v is true / nil.
func condOnValue(cond ssa.Value, v ssa.Value) (okOnTrue, matched bool) {
	if cond == v {
		return true, true
	}
	switch x := cond.(type) {
	case *ssa.UnOp:
		if x.Op == token.NOT {
			o, m := condOnValue(x.X, v)
			return !o, m
		}
	case *ssa.BinOp:
		if (x.Op == token.EQL || x.Op == token.NEQ) && (x.X == v && isNilConst(x.Y) || x.Y == v && isNilConst(x.X)) {
			return x.Op == token.EQL, true
		}
	}
	return false, false
}

// factsForValue: the edge-fact strings (as edgeFacts produces them) of the branch in fn that tests v: the fact of the
// edge on which v is true / nil, and the fact of the other edge.
func factsForValue(fn *ssa.Function, v ssa.Value) (okFact, badFact string) {
	for _, b := range fn.Blocks {
		iff, ok := b.Instrs[len(b.Instrs)-1].(*ssa.If)
		if !ok {
			continue
		}
		okOnTrue, m := condOnValue(iff.Cond, v)
		if !m {
			continue
		}
		tf, ff := condFacts(iff.Cond)
		if len(tf) != 1 || len(ff) != 1 {
			continue
		}
		if okOnTrue {
			return tf[0], ff[0]
		}
		return ff[0], tf[0]
	}
	return "", ""
}

// edgeImpliesMatch: the CFG edge pred->succ is only taken when some fact accepted by match holds: pred (or the chain of
// single-predecessor blocks above it) ends in an If whose corresponding edge carries such a fact.
func edgeImpliesMatch(pred, succ *ssa.BasicBlock, match func(string) bool) bool {
	check := func(ifb, via *ssa.BasicBlock) bool {
		iff, ok := ifb.Instrs[len(ifb.Instrs)-1].(*ssa.If)
		if !ok {
			return false
		}
		tf, ff := condFacts(iff.Cond)
		for i, fs := range [][]string{tf, ff} {
			if ifb.Succs[i] != via || ifb.Succs[1-i] == via {
				continue
			}
			for _, f := range fs {
				if match(f) {
					return true
				}
			}
		}
		return false
	}
	if check(pred, succ) {
		return true
	}
	b := pred
	for i := 0; i < 4 && len(b.Preds) == 1; i++ {
		if check(b.Preds[0], b) {
			return true
		}
		b = b.Preds[0]
	}
	return false
}

// atomComparedWithConst: the left side of an edge fact "atom op <integer>" in fn whose text ends with suffix.
func atomComparedWithConst(fn *ssa.Function, suffix string) string {
	for _, ef := range edgeFacts(fn) {
		l, _, r, ok := splitRel(ef.Fact)
		if !ok || !strings.HasSuffix(l, suffix) || strings.HasPrefix(l, "(") {
			continue
		}
		if _, err := strconv.ParseInt(r, 10, 64); err == nil {
			return l
		}
	}
	return ""
}
