package main

import (
	"fmt"
	"go/types"
	"strings"

	"golang.org/x/tools/go/ssa"
)

func init() {
	register(&Prop{
		ID:        "C33",
		Technique: "constant check + path-sensitive reachability under an integer valuation of the protocol major version (0..20) + type-level coverage of the version-source assertion + per-iteration escape analysis of the withdrawal loop",
		Explanation: "(1) ProtocolVersionPlomin = 10 and ProtocolVersionDijkstra = 12. (2) For every major version 0..20, the DRep-delegation lookup in conway.UtxoValidateWithdrawals is reachable under that valuation exactly when the version is 10 or 11 (edges whose comparison is false under the valuation are pruned). " +
			"(3) The value compared is obtained from the protocol parameters by an assertion that succeeds for the parameter type of every era whose rule list holds this rule (Conway and Dijkstra): an interface asserted must be implemented by both, a concrete type must be the only one; otherwise the failing side must not fall through to success. " +
			"(4) With the gate open, an iteration with a non-nil, non-zero amount and a stake credential can continue only through a non-nil delegation; a failed DRepDelegationState capability assertion returns DRepDelegationStateUnavailableError and a nil delegation returns WithdrawalNotDelegatedToDRepError; a phase-2-invalid transaction returns before any of this; Shelley's withdrawal checks are applied first. (5) Both rule lists contain the rule.",
		Assumptions: []string{"ProtocolMajorVersion() accessors return the decoded major version", "registration of the reward account is decided by the Shelley rule reached first"},
		Run:         runC33,
	})
}

func runC33(c *Ctx) {
	c.W.buildSSA()
	for name, want := range map[string]int64{"ProtocolVersionPlomin": 10, "ProtocolVersionDijkstra": 12} {
		v, ok := c.ConstIntOpt("ledger/common", name)
		c.Check(ok && v == want, "pv-constants", "ledger/common."+name, 0, fmt.Sprintf("= %d", want), fmt.Sprintf("%s is %d, the gate's band is defined by %d", name, v, want))
	}
	lists := c.eraRuleLists()
	var fn *ssa.Function
	var eras []string
	for _, era := range []string{"conway", "dijkstra"} {
		er := lists[era]
		if er == nil {
			c.Undecided("no rule list for %s", era)
			continue
		}
		var f *ssa.Function
		for _, rf := range er.Rules {
			if strings.HasSuffix(rf.Name(), "UtxoValidateWithdrawals") {
				f = c.resolveDelegation(c.SSAOf(rf))
			}
		}
		c.Check(f != nil, "withdrawal-rule-listed", "ledger/"+era, er.Pos, "the era's list holds the withdrawal rule", "the "+era+" rule list has no withdrawal rule")
		if f != nil {
			if fn != nil && f != fn {
				c.Undecided("conway and dijkstra use different withdrawal rules (%s, %s)", ssaFuncKey(fn), ssaFuncKey(f))
			}
			fn = f
			eras = append(eras, era)
		}
	}
	if fn == nil {
		return
	}
	key := ssaFuncKey(fn)
	// locate the lookup and the version atom; either may live in an unexported helper called once from the rule
	isLookup := func(ci ssa.CallInstruction) bool {
		return ci.Common().IsInvoke() && ci.Common().Method.Name() == "DRepDelegation"
	}
	isVer := func(ci ssa.CallInstruction) bool {
		cc := ci.Common()
		return (cc.IsInvoke() && cc.Method.Name() == "ProtocolMajorVersion") || (cc.StaticCallee() != nil && cc.StaticCallee().Name() == "ProtocolMajorVersion")
	}
	// soleSite: the one call of helper h, made directly from fn
	soleSite := func(h *ssa.Function) *ssa.Call {
		cs := callersInPkg(h)
		if len(cs) != 1 || cs[0].Parent() != fn {
			return nil
		}
		cl, _ := cs[0].(*ssa.Call)
		return cl
	}
	fnL := fn // the function holding the lookup
	var lookup *ssa.Call
	for _, ci := range allCalls(fn) {
		if isLookup(ci) {
			lookup, _ = ci.(*ssa.Call)
		}
	}
	var site ssa.Instruction // where the lookup happens, seen from the rule
	if lookup != nil {
		site = lookup
	} else {
		h := movedInto(fn, isLookup)
		if h == nil {
			c.Bad("pv-gate", key, fn.Pos(), "the rule never asks the ledger state for a DRep delegation")
			return
		}
		cl := soleSite(h)
		if cl == nil || h.Parent() != nil || errorResultIndex(h) != 0 || h.Signature.Results().Len() != 1 {
			c.Undecided("%s: the DRep-delegation lookup lives in helper %s, which is not a once-called error-returning function of the rule; the gate rules were not re-derived for this shape", key, h.Name())
			return
		}
		for _, ci := range allCalls(h) {
			if isLookup(ci) {
				lookup, _ = ci.(*ssa.Call)
			}
		}
		fnL, site = h, cl
	}
	if lookup == nil {
		c.Undecided("%s: the DRep-delegation lookup is not a plain call", key)
		return
	}
	var verCall *ssa.Call
	for _, ci := range allCalls(fn) {
		if isVer(ci) {
			verCall, _ = ci.(*ssa.Call)
		}
	}
	var atom string
	fnV := fn // the function reading the version
	if verCall != nil {
		atom = desc(verCall)
	} else {
		// a field read of the parameters
		for _, ef := range edgeFacts(fn) {
			if i := strings.Index(ef.Fact, ".ProtocolMajor"); i >= 0 {
				atom = strings.Fields(ef.Fact)[0]
			}
		}
	}
	if atom == "" {
		h := movedInto(fn, isVer)
		if h == nil {
			c.Bad("pv-gate", key, fn.Pos(), "the rule does not read the protocol major version")
			return
		}
		cl := soleSite(h)
		if cl == nil || h.Parent() != nil {
			c.Undecided("%s: the protocol version is read in helper %s, which is not a once-called function of the rule; the gate rules were not re-derived for this shape", key, h.Name())
			return
		}
		for _, ci := range allCalls(h) {
			if isVer(ci) {
				verCall, _ = ci.(*ssa.Call)
			}
		}
		if verCall == nil {
			c.Undecided("%s: the version read in %s is not a plain call", key, h.Name())
			return
		}
		// the helper's atom in the rule's vocabulary: its parameters stand for the arguments of the one call
		atom = desc(verCall)
		for i := range h.Params {
			if i < len(cl.Call.Args) {
				if na, ok := substToken(atom, "p"+fmt.Sprint(i), "\x00"+fmt.Sprint(i)); ok {
					atom = na
				}
			}
		}
		for i := range h.Params {
			if i < len(cl.Call.Args) {
				atom = strings.ReplaceAll(atom, "\x00"+fmt.Sprint(i), desc(cl.Call.Args[i]))
			}
		}
		fnV = h
	}
	for pv := int64(0); pv <= 20; pv++ {
		reach := psReachVal(fn, []*ssa.BasicBlock{fn.Blocks[0]}, nil, map[string]int64{atom: pv})
		open := reach[site.Block()]
		want := pv == 10 || pv == 11
		c.Check(open == want, "pv-gate", fmt.Sprintf("%s:pv=%d", key, pv), lookup.Pos(), fmt.Sprintf("delegation requirement %s", map[bool]string{true: "applies", false: "does not apply"}[want]),
			fmt.Sprintf("at protocol major version %d the DRep-delegation requirement %s, but the ledger imposes it exactly at versions 10 and 11", pv, map[bool]string{true: "applies", false: "is skipped"}[open]))
	}
	// (3) version source covers each era's parameter type
	var ta *ssa.TypeAssert
	if verCall != nil {
		recv := verCall.Call.Value
		if !verCall.Call.IsInvoke() && len(verCall.Call.Args) > 0 {
			recv = verCall.Call.Args[0]
		}
		if ex, ok := recv.(*ssa.Extract); ok {
			ta, _ = ex.Tuple.(*ssa.TypeAssert)
		} else {
			ta, _ = recv.(*ssa.TypeAssert)
		}
	}
	if ta == nil || traceIP(fn, ta.X) != "p3" {
		c.Undecided("%s: cannot identify how the protocol version is obtained from the parameters", key)
	} else {
		for _, era := range eras {
			pk := c.Pkg("ledger/" + era)
			tn := strings.ToUpper(era[:1]) + era[1:] + "ProtocolParameters"
			obj := pk.Types.Scope().Lookup(tn)
			if obj == nil {
				c.Undecided("type %s not found", tn)
				continue
			}
			pt := types.NewPointer(obj.Type())
			succeeds := false
			if it, ok := ta.AssertedType.Underlying().(*types.Interface); ok {
				succeeds = types.Implements(pt, it)
			} else {
				succeeds = types.Identical(pt, ta.AssertedType)
			}
			okCover := succeeds
			if !succeeds && ta.CommaOk && (fnV != fn || fnL != fn) {
				c.Undecided("%s: the version is read through an assertion that fails for *%s and the rule is split over helpers; the failing side was not followed", key, tn)
				continue
			}
			if !succeeds && ta.CommaOk {
				// the failing side must not be silently accepted
				for _, ef := range edgeFacts(fn) {
					iff := ef.From.Instrs[len(ef.From.Instrs)-1].(*ssa.If)
					if ex, ok := iff.Cond.(*ssa.Extract); ok && ex.Tuple == ssa.Value(ta) && strings.HasPrefix(ef.Fact, "F:") {
						reach := reachFromAvoiding([]*ssa.BasicBlock{ef.From}, func(from *ssa.BasicBlock, s int) bool { return from == ef.From && s != ef.Succ })
						silent := false
						for _, r := range successReturns(fn) {
							if reach[r.Block()] && !reach[lookup.Block()] {
								silent = true
							}
						}
						okCover = !silent
					}
				}
			}
			c.Check(okCover, "pv-source-covers-era", key+":"+era, ta.Pos(), "the version is readable from "+tn, "the version is read through an assertion to "+typeStr(ta.AssertedType)+" that fails for *"+tn+" and then returns success: for "+era+" parameters the PV10/PV11 gate is skipped")
		}
	}
	// (4) ordering and outcomes
	{
		// IsValid first
		v := c.mustPass(fn, []ssa.Instruction{site}, func(f string) bool { return f == "T:call:ledger/common.Transaction.IsValid(p0)" })
		c.Check(v[0].OK, "gate-order", key+":phase-2-invalid-first", lookup.Pos(), "a phase-2-invalid transaction never reaches the gate", "the delegation requirement is applied to phase-2-invalid transactions ("+v[0].Witness+")")
		ok := false
		for _, ef := range edgeFacts(fn) {
			if ef.Fact == "F:call:ledger/common.Transaction.IsValid(p0)" {
				s := ef.From.Succs[ef.Succ]
				if r, isR := s.Instrs[len(s.Instrs)-1].(*ssa.Return); isR && isNilConst(returnedValue(r, 0)) {
					ok = true
				}
			}
		}
		c.Check(ok, "gate-order", key+":invalid-accepts", fn.Pos(), "a phase-2-invalid transaction is accepted by this rule", "a phase-2-invalid transaction is not passed through")
		v2 := c.mustPass(fn, []ssa.Instruction{site}, func(f string) bool {
			return strings.HasPrefix(f, "call:ledger/shelley.UtxoValidateWithdrawals(p0,p1,p2,p3) == nil")
		})
		c.Check(v2[0].OK, "gate-order", key+":shelley-checks-first", lookup.Pos(), "the Shelley withdrawal checks pass before the gate", "the Shelley withdrawal checks are not applied before the delegation gate ("+v2[0].Witness+")")
	}
	// iteration escape
	head := loopHeadOf(site.Block())
	if head == nil {
		c.Bad("gate-outcomes", key+":loop", lookup.Pos(), "the delegation lookup is not inside a loop over the withdrawals")
		return
	}
	var starts []*ssa.BasicBlock
	for _, s := range head.Succs {
		if reachesBlock(s, head) {
			starts = append(starts, s)
		}
	}
	// edge (from,succ) on which `Extract(lookup,#0) != nil` holds / does not hold
	delegEdge := func(from *ssa.BasicBlock, succ int) (isDeleg, nonNil bool) {
		iff, ok := from.Instrs[len(from.Instrs)-1].(*ssa.If)
		if !ok {
			return
		}
		bo, ok := iff.Cond.(*ssa.BinOp)
		if !ok {
			return
		}
		ex, ok := bo.X.(*ssa.Extract)
		if !ok || ex.Tuple != ssa.Value(lookup) || ex.Index != 0 || !isNilConst(bo.Y) {
			return
		}
		switch bo.Op.String() {
		case "==":
			return true, succ == 1
		case "!=":
			return true, succ == 0
		}
		return
	}
	cutIn := func(g *ssa.Function, extra func(f string) bool) func(from *ssa.BasicBlock, succ int) bool {
		return func(from *ssa.BasicBlock, succ int) bool {
			if is, nn := delegEdge(from, succ); is && nn {
				return true
			}
			for _, ef := range edgeFacts(g) {
				if ef.From != from || ef.Succ != succ {
					continue
				}
				f := ef.Fact
				switch {
				case strings.HasPrefix(f, "call:math/big.(*Int).Sign(") && strings.HasSuffix(f, " == 0"): // zero amount
					return true
				case strings.HasPrefix(f, "next(range(") && strings.HasSuffix(f, "#2 == nil"): // nil amount
					return true
				case strings.HasPrefix(f, "F:call:ledger/common.(*Address).StakeCredential("): // no stake credential
					return true
				case extra != nil && extra(f):
					return true
				}
			}
			return false
		}
	}
	bad := ""
	var extra func(f string) bool
	if fnL != fn {
		// the per-withdrawal helper: it returns nil only for an account without stake credential or with a delegation
		hr := psReach(fnL, []*ssa.BasicBlock{fnL.Blocks[0]}, cutIn(fnL, nil))
		for _, r := range successReturns(fnL) {
			if hr[r.Block()] {
				bad = "the success return of " + fnL.Name()
			}
		}
		callDesc := desc(site.(*ssa.Call))
		extra = func(f string) bool { return f == callDesc+" == nil" }
	}
	reach := psReach(fn, starts, cutIn(fn, extra))
	if reach[head] {
		bad = "the next withdrawal"
	}
	for _, r := range successReturns(fn) {
		if reach[r.Block()] {
			bad = "the success return"
		}
	}
	c.Check(bad == "", "gate-outcomes", key+":undelegated-rejected", lookup.Pos(), "a non-zero withdrawal with a stake credential continues only with a DRep delegation", "a non-zero withdrawal from an account without DRep delegation can reach "+bad)
	// error kinds
	retType := func(b *ssa.BasicBlock) string {
		seen := map[*ssa.BasicBlock]bool{}
		for b != nil && !seen[b] {
			seen[b] = true
			if r, ok := b.Instrs[len(b.Instrs)-1].(*ssa.Return); ok {
				if mi, ok := returnedValue(r, 0).(*ssa.MakeInterface); ok {
					return typeStr(mi.X.Type())
				}
				return desc(returnedValue(r, 0))
			}
			if len(b.Succs) != 1 {
				return "?"
			}
			b = b.Succs[0]
		}
		return "?"
	}
	outcomeEdges := edgeFacts(fn)
	if fnL != fn {
		outcomeEdges = append(append([]EdgeFact{}, outcomeEdges...), edgeFacts(fnL)...)
	}
	for _, ef := range outcomeEdges {
		s := ef.From.Succs[ef.Succ]
		switch {
		case ef.Fact == "F:assert(p2,ledger/common.DRepDelegationState)#1" && ef.From.Parent() == fn:
			t := retType(s)
			c.Check(strings.HasSuffix(t, "DRepDelegationStateUnavailableError"), "gate-outcomes", key+":state-unavailable", ef.From.Instrs[len(ef.From.Instrs)-1].Pos(), "a ledger state without the capability yields the state-unavailable error", "a ledger state that cannot answer the delegation query yields "+t+" instead of DRepDelegationStateUnavailableError")
		case func() bool { is, nn := delegEdge(ef.From, ef.Succ); return is && !nn }():
			t := retType(s)
			c.Check(strings.HasSuffix(t, "WithdrawalNotDelegatedToDRepError"), "gate-outcomes", key+":not-delegated", ef.From.Instrs[len(ef.From.Instrs)-1].Pos(), "a missing delegation yields the not-delegated error", "a missing delegation yields "+t+" instead of WithdrawalNotDelegatedToDRepError")
		}
	}
	c.Floor("gate-outcomes", 3)
	// the capability assertion is on the ledger state parameter and happens before the lookup for the first non-zero withdrawal
	{
		recv := traceIP(fn, lookup.Call.Value)
		c.Check(strings.Contains(recv, "assert<p2"), "gate-outcomes", key+":asks-ledger-state", lookup.Pos(), "the delegation is asked of the ledger state passed in", "the delegation is asked of "+shortArg(recv)+", not of the ledger state argument")
		cred := traceIP(fn, lookup.Call.Args[0])
		c.Check(strings.HasPrefix(cred, "StakeCredential(next(range(Withdrawals(p0)))#1)#0"), "gate-outcomes", key+":credential-of-account", lookup.Pos(), "the credential looked up is the withdrawal's own reward account", "the credential looked up is "+shortArg(cred))
	}
}
