// vcheck: repository-specific static checker for the gouroboros properties.
//
// Usage: vcheck -p C07 [-tier quick|thorough] [-repo /repo]
// Exit 0: all obligations discharged (known findings printed).
// Exit 1: VIOLATION line printed, report under /verif/out/<id>.violations.json
// Exit 2: could not decide (load error, unresolved anchor, panic) - never a pass.
package main

import (
	"encoding/json"
	"flag"
	"fmt"
	"os"
	"path/filepath"
	"runtime/debug"
	"sort"
	"strconv"
	"strings"
	"time"
)

type Prop struct {
	ID          string
	Level       string // evidence level: "other" or "proof"
	Technique   string
	Explanation string
	Assumptions []string
	Trusted     []string
	Run         func(c *Ctx)
}

var registry = map[string]*Prop{}

func register(p *Prop) {
	if _, dup := registry[p.ID]; dup {
		panic("duplicate property " + p.ID)
	}
	if p.Level == "" {
		p.Level = "other"
	}
	registry[p.ID] = p
}

var verifDir = "/verif"

func main() {
	pid := flag.String("p", "", "property id (C01..C46), or 'all', or 'warm'")
	tier := flag.String("tier", "quick", "quick|thorough")
	repo := flag.String("repo", "", "repository root (default $VERIF_REPO or /repo)")
	verbose := flag.Bool("v", false, "print every obligation")
	noEvidence := flag.Bool("no-evidence", false, "do not write evidence/violation files (selftests)")
	list := flag.Bool("list", false, "list registered properties")
	dump := flag.String("dump", "", "debug: dump edge facts and calls of pkg:Func (e.g. cbor:DecodeIdFromList)")
	flag.Parse()
	if d := os.Getenv("VERIF_DIR"); d != "" {
		verifDir = d
	}
	if *list {
		ids := sortedKeys(registry)
		for _, id := range ids {
			fmt.Println(id, registry[id].Level, registry[id].Technique)
		}
		return
	}
	if *repo == "" {
		*repo = os.Getenv("VERIF_REPO")
	}
	if *repo == "" {
		*repo = "/repo"
	}
	if t := os.Getenv("VERIF_TIER"); t != "" && !flagSet("tier") {
		*tier = t
	}
	if *tier != "quick" && *tier != "thorough" {
		fmt.Fprintln(os.Stderr, "bad tier", *tier)
		os.Exit(2)
	}
	seed := 0
	if s := os.Getenv("VERIF_SEED"); s != "" {
		seed, _ = strconv.Atoi(s)
	}
	if *dump != "" {
		w, err := loadWorld(*repo, false)
		if err != nil {
			fmt.Fprintln(os.Stderr, "load failed:", err)
			os.Exit(2)
		}
		c := &Ctx{W: w, Prop: &Prop{ID: "dump"}, floors: map[string]int{}}
		parts := strings.SplitN(*dump, ":", 2)
		fn := c.SSAFunc(parts[0], parts[1])
		for _, f := range withAnon(fn) {
			fmt.Println("==", ssaFuncKey(f))
			fmt.Print(dumpFacts(f))
			for _, ci := range allCalls(f) {
				fmt.Printf("  call b%d line %d: %s\n", ci.Block().Index, w.Fset.Position(ci.Pos()).Line, descCall(ci.Common(), 0))
			}
			for _, r := range successReturns(f) {
				fmt.Printf("  success-return b%d line %d\n", r.Block().Index, c.blockLine(r.Block()))
			}
		}
		return
	}
	if *pid == "warm" {
		start := time.Now()
		w, err := loadWorld(*repo, false)
		if err != nil {
			fmt.Fprintln(os.Stderr, "load failed:", err)
			os.Exit(2)
		}
		w.buildSSA()
		fmt.Printf("warm: %d packages loaded in %.1fs\n", len(w.Pkgs), time.Since(start).Seconds())
		return
	}
	var ids []string
	if *pid == "all" {
		ids = sortedKeys(registry)
	} else {
		for _, id := range strings.Split(*pid, ",") {
			if _, ok := registry[id]; !ok {
				fmt.Fprintln(os.Stderr, "unknown property", id)
				os.Exit(2)
			}
			ids = append(ids, id)
		}
	}
	known, err := loadKnown(filepath.Join(verifDir, "known_findings.json"))
	if err != nil {
		fmt.Fprintln(os.Stderr, "known findings:", err)
		os.Exit(2)
	}
	loadStart := time.Now()
	w, err := loadWorld(*repo, *tier == "thorough")
	if err != nil {
		fmt.Fprintln(os.Stderr, "UNDECIDED: load failed:", err)
		os.Exit(2)
	}
	loadS := time.Since(loadStart).Seconds()
	exit := 0
	for _, id := range ids {
		rc := runProp(w, registry[id], *tier, seed, known, *verbose, !*noEvidence, loadS)
		if rc > exit {
			exit = rc
		}
	}
	os.Exit(exit)
}

func flagSet(name string) bool {
	found := false
	flag.Visit(func(f *flag.Flag) {
		if f.Name == name {
			found = true
		}
	})
	return found
}

func sortedKeys[V any](m map[string]V) []string {
	ks := make([]string, 0, len(m))
	for k := range m {
		ks = append(ks, k)
	}
	sort.Strings(ks)
	return ks
}

func runProp(w *World, p *Prop, tier string, seed int, known *Known, verbose, writeFiles bool, loadS float64) (rc int) {
	start := time.Now()
	c := &Ctx{W: w, Prop: p, Tier: tier, floors: map[string]int{}}
	func() {
		defer func() {
			if r := recover(); r != nil {
				if u, ok := r.(undecided); ok {
					c.undecided = append(c.undecided, string(u))
					return
				}
				c.undecided = append(c.undecided, fmt.Sprintf("checker panic: %v\n%s", r, debug.Stack()))
			}
		}()
		p.Run(c)
		c.checkFloors()
	}()
	wall := time.Since(start).Seconds() + loadS

	// classify
	var viol, knownHits []Obligation
	for _, o := range c.Obls {
		if o.OK {
			continue
		}
		if k := known.match(p.ID, o.Rule, o.Key); k != nil {
			o.Known = k.WhatFails
			knownHits = append(knownHits, o)
		} else {
			viol = append(viol, o)
		}
	}
	if verbose {
		for _, o := range c.Obls {
			st := "ok  "
			if !o.OK {
				st = "FAIL"
			}
			fmt.Printf("  %s %s [%s] %s %s\n", st, o.Rule, o.Key, o.Pos, o.Detail)
		}
	}
	seenKnown := map[string]bool{}
	for _, o := range knownHits {
		line := fmt.Sprintf("KNOWN-FINDING: property=%s %s [%s %s] at %s", p.ID, o.Known, o.Rule, o.Key, o.Pos)
		if !seenKnown[line] {
			fmt.Println(line)
			seenKnown[line] = true
		}
	}
	outDir := filepath.Join(verifDir, "out")
	violPath := filepath.Join(outDir, p.ID+".violations.json")
	if len(c.undecided) > 0 {
		for _, u := range c.undecided {
			fmt.Printf("UNDECIDED property=%s %s\n", p.ID, u)
		}
		rc = 2
	}
	if len(viol) > 0 {
		if writeFiles {
			os.MkdirAll(outDir, 0o755)
			writeJSON(violPath, map[string]any{"property": p.ID, "tier": tier, "violations": viol})
		}
		for _, o := range viol {
			fmt.Printf("  violation: rule=%s key=%s at %s: %s\n", o.Rule, o.Key, o.Pos, o.Detail)
		}
		fmt.Printf("VIOLATION property=%s replay=%s\n", p.ID, violPath)
		rc = 1 // a definite violation takes precedence over undecided obligations
	} else if writeFiles {
		os.Remove(violPath)
	}
	// evidence
	total := len(c.Obls)
	okN := 0
	rules := map[string][2]int{}
	for _, o := range c.Obls {
		r := rules[o.Rule]
		r[0]++
		if o.OK {
			okN++
			r[1]++
		}
		rules[o.Rule] = r
	}
	var samples []any
	perRule := map[string]int{}
	for _, o := range c.Obls {
		if perRule[o.Rule] >= 2 || len(samples) >= 24 {
			continue
		}
		perRule[o.Rule]++
		samples = append(samples, map[string]any{"rule": o.Rule, "key": o.Key, "pos": o.Pos, "ok": o.OK, "detail": o.Detail})
	}
	ruleSummary := map[string]any{}
	for r, v := range rules {
		ruleSummary[r] = map[string]int{"instances": v[0], "discharged": v[1], "floor": c.floors[r]}
	}
	var knownList []string
	for _, o := range knownHits {
		knownList = append(knownList, o.Rule+" "+o.Key)
	}
	discharged := okN + len(knownHits)
	_ = discharged
	cov := map[string]any{
		"obligations":          total,
		"discharged":           okN,
		"known_findings":       len(knownHits),
		"known_finding_keys":   knownList,
		"checker_cmd":          fmt.Sprintf("./vcheck.sh -p %s -tier %s", p.ID, tier),
		"trusted_base":         append([]string{"go/types + go/ssa (x/tools v0.50.0) faithfully represent the source", "the per-rule recognisers in /verif/checker"}, p.Trusted...),
		"explanation":          p.Explanation,
		"evaluations":          total,
		"distinct_nontrivial":  distinctKeys(c.Obls),
		"rule":                 "one obligation per (rule, construct key) found in the current source; distinct = distinct keys; all are non-trivial (each names a real construct)",
		"samples":              samples,
		"rules":                ruleSummary,
		"packages_loaded":      len(w.Pkgs),
		"functions_in_program": w.numFuncs(),
		"analysed":             c.Analysed,
		"repo":                 w.Repo,
		"repo_head":            w.head(),
		"undecided":            c.undecided,
	}
	if p.Level == "proof" {
		cov["exhaustive"] = true
	}
	ev := map[string]any{
		"property_id": p.ID,
		"tier":        tier,
		"seed":        seed,
		"level":       p.Level,
		"coverage":    cov,
		"assumptions": nonNilStrings(p.Assumptions),
		"wall_s":      wall,
		"violations":  len(viol),
	}
	if writeFiles {
		os.MkdirAll(filepath.Join(verifDir, "evidence"), 0o755)
		writeJSON(filepath.Join(verifDir, "evidence", p.ID+".json"), ev)
	}
	fmt.Printf("%s tier=%s obligations=%d discharged=%d known=%d violations=%d undecided=%d wall=%.1fs\n",
		p.ID, tier, total, okN, len(knownHits), len(viol), len(c.undecided), wall)
	return rc
}

func distinctKeys(obls []Obligation) int {
	m := map[string]bool{}
	for _, o := range obls {
		m[o.Rule+"|"+o.Key] = true
	}
	return len(m)
}

func writeJSON(path string, v any) {
	b, err := json.MarshalIndent(v, "", " ")
	if err != nil {
		panic(err)
	}
	if err := os.WriteFile(path, append(b, '\n'), 0o644); err != nil {
		fmt.Fprintln(os.Stderr, "write", path, err)
		os.Exit(2)
	}
}

// ---------------------------------------------------------------------------

type Known struct {
	Entries []KnownEntry `json:"findings"`
}
type KnownEntry struct {
	Property      string `json:"property"`
	Rule          string `json:"rule"`
	Key           string `json:"key"`
	WhatFails     string `json:"what_fails"`
	Demonstration string `json:"demonstration,omitempty"`
	Status        string `json:"status"` // "known" | "fixed"
	Commit        string `json:"commit,omitempty"`
}

func loadKnown(path string) (*Known, error) {
	k := &Known{}
	b, err := os.ReadFile(path)
	if err != nil {
		if os.IsNotExist(err) {
			return k, nil
		}
		return nil, err
	}
	if err := json.Unmarshal(b, k); err != nil {
		return nil, err
	}
	return k, nil
}

// match returns the "known" (unrepaired) entry for this exact rule+key; fixed entries suppress nothing.
func (k *Known) match(prop, rule, key string) *KnownEntry {
	for i := range k.Entries {
		e := &k.Entries[i]
		if e.Status == "known" && e.Property == prop && e.Rule == rule && e.Key == key {
			return e
		}
	}
	return nil
}

func nonNilStrings(x []string) []string {
	if x == nil {
		return []string{}
	}
	return x
}
