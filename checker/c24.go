package main

import (
	"fmt"
	"go/token"
	"go/types"
	"strings"

	"golang.org/x/tools/go/ssa"
)

func init() {
	register(&Prop{
		ID:        "C24",
		Technique: "who-may-write on the acknowledgement counter + range-guard dominance before narrowing conversions + control-dependence of Done on the blocking flag",
		Explanation: "(1) Server.ackCount is written only with len() of the ids of the reply just received (in RequestTxIds) or with the constant 0; every function that re-initialises the protocol instance (calls initProtocol on an existing server) also resets ackCount to 0 before the restart, so a new conversation never acknowledges ids of the previous one. " +
			"(2) Every int→uint16 conversion of the ack and request counts is dominated by guards implying 0 ≤ x ≤ 65535, with rejection otherwise; MaxAckCount = MaxRequestCount = 65535. (3) The acknowledgement placed in MsgRequestTxIds is the converted ackCount, the request count the converted argument. " +
			"(4) Client: MsgDone is sent only on the path where the request's Blocking flag is true, and a stop during a non-blocking request returns an error; the limit guards precede the user callback.",
		Assumptions: []string{"the application does not layer its own window on top (its returned id lists are taken at face value)", "arithmetic across rounds is len() of the last reply by construction, not evaluated"},
		Run:         runC24,
	})
}

func runC24(c *Ctx) {
	rel := "protocol/txsubmission"
	c.W.buildSSA()
	// constants
	for _, n := range []string{"MaxAckCount", "MaxRequestCount"} {
		v := c.ConstInt(rel, n)
		c.Check(v == 65535, "window-constants", rel+"."+n, token.NoPos, "65535", fmt.Sprintf("%s is %d, the wire field is 16 bits (65535)", n, v))
	}
	// (1) writers of ackCount
	nW := 0
	resetIn := map[*ssa.Function][]ssa.Instruction{}
	for _, fn := range c.pkgFuncs(rel) {
		for _, b := range fn.Blocks {
			for _, in := range b.Instrs {
				st, ok := in.(*ssa.Store)
				if !ok {
					continue
				}
				fa, ok := st.Addr.(*ssa.FieldAddr)
				if !ok || fieldName(fa.X.Type(), fa.Field) != "ackCount" {
					continue
				}
				nW++
				d := desc(st.Val)
				fk := ssaFuncKey(fn)
				switch {
				case d == "0":
					resetIn[fn] = append(resetIn[fn], st)
					c.Ok("ack-writer", fk+":reset", st.Pos(), "reset to 0")
				case strings.HasPrefix(d, "len(") && strings.HasSuffix(d, ".txIds)") && (strings.Contains(d, "requestTxIdsResultChan") || lenOfReceived(st.Val, "requestTxIdsResultChan")):
					c.Ok("ack-writer", fk+":len", st.Pos(), "set to the number of ids in the reply just received")
					// every reply handed to the caller (a return that may carry a nil error) has passed this update: a reply
					// that skips it, e.g. an empty one, leaves the previous count to be acknowledged a second time
					{
						skipped := c.successBypass(fn, map[*ssa.BasicBlock]bool{st.Block(): true})
						c.Check(skipped == "", "ack-writer", fk+":every-reply", st.Pos(), "every successful return has recorded the size of the reply it hands out", "the return at "+skipped+" can succeed without ackCount having been set to the size of this reply: the count of an earlier reply is acknowledged again with the next request, for ids that are no longer outstanding")
					}
				default:
					c.Bad("ack-writer", fk+":"+shortArg(d), st.Pos(), "ackCount is set to %s: it must be the number of ids received in the last reply (or 0)", d)
				}
			}
		}
	}
	if nW < 1 {
		c.Undecided("no write to Server.ackCount found")
	}
	// restart resets
	nRe := 0
	for _, fn := range c.pkgFuncs(rel) {
		var inits, starts []ssa.Instruction
		buildsServer := false
		for _, b := range fn.Blocks {
			for _, in := range b.Instrs {
				if al, ok := in.(*ssa.Alloc); ok && strings.HasSuffix(typeStr(al.Type()), "txsubmission.Server") {
					buildsServer = true
				}
			}
		}
		for _, ci := range allCalls(fn) {
			cn := calleeName(ci.Common())
			if cn == rel+".(*Server).initProtocol" {
				inits = append(inits, ci.(ssa.Instruction))
			}
			if cn == rel+".(*Server).Start" {
				starts = append(starts, ci.(ssa.Instruction))
			}
		}
		if len(inits) == 0 || buildsServer || recvTypeName(fn) != "Server" {
			continue
		}
		// Start() itself lazily initialises; only restarts of a used instance matter: functions that Stop() then initProtocol()
		stops := false
		for _, ci := range allCalls(fn) {
			if strings.HasSuffix(calleeName(ci.Common()), "(*Server).Stop") || strings.HasSuffix(calleeName(ci.Common()), "(*Protocol).Stop") {
				stops = true
			}
		}
		if !stops {
			continue
		}
		nRe++
		ok := false
		for _, r := range resetIn[fn] {
			for _, s := range starts {
				if precedes(r, s) {
					ok = true
				}
			}
			if len(starts) == 0 {
				ok = true
			}
		}
		c.Check(ok, "ack-reset-on-restart", ssaFuncKey(fn), inits[0].Pos(), "the restart path resets ackCount before the new instance starts", "the protocol instance is restarted without resetting ackCount: the first RequestTxIds of the new conversation acknowledges ids of the previous one")
	}
	if nRe == 0 {
		c.Bad("ack-reset-on-restart", rel, token.NoPos, "no restart path found (handleDone no longer re-initialises the protocol?)")
	}
	// (2) narrowing conversions
	nConv := 0
	for _, fn := range c.pkgFuncs(rel) {
		for _, b := range fn.Blocks {
			for _, in := range b.Instrs {
				cv, ok := in.(*ssa.Convert)
				if !ok {
					continue
				}
				to, ok1 := cv.Type().Underlying().(*types.Basic)
				from, ok2 := cv.X.Type().Underlying().(*types.Basic)
				if !ok1 || !ok2 || to.Kind() != types.Uint16 || from.Kind() == types.Uint16 || from.Kind() == types.Uint8 {
					continue
				}
				nConv++
				x := desc(cv.X)
				key := fmt.Sprintf("%s:uint16(%s)", ssaFuncKey(fn), shortArg(x))
				lo := c.mustPass(fn, []ssa.Instruction{cv}, func(f string) bool { return f == x+" >= 0" || f == x+" > -1" })
				hi := c.mustPass(fn, []ssa.Instruction{cv}, func(f string) bool { return f == x+" <= 65535" || f == x+" < 65536" })
				unsignedSrc := from.Info()&types.IsUnsigned != 0
				c.Check((lo[0].OK || unsignedSrc) && hi[0].OK, "narrowing-guarded", key, cv.Pos(), "conversion to uint16 only after 0 ≤ x ≤ 65535 was established", "a count is narrowed to uint16 without dominating guards 0 ≤ x ≤ 65535: it wraps around on the wire")
			}
		}
	}
	if nConv < 2 {
		c.Undecided("only %d int→uint16 conversions found in %s (2 confirmed)", nConv, rel)
	}
	// (3) message fields
	rq := c.SSAFunc(rel, "Server.RequestTxIds")
	okMsg := false
	for _, ci := range allCalls(rq) {
		if calleeName(ci.Common()) == rel+".NewMsgRequestTxIds" {
			a := ci.Common().Args
			okMsg = desc(a[0]) == "p1" && strings.HasSuffix(desc(a[1]), ".ackCount") && desc(a[2]) == "p2"
		}
	}
	c.Check(okMsg, "request-fields", ssaFuncKey(rq), rq.Pos(), "MsgRequestTxIds carries (blocking, ackCount, reqCount)", "MsgRequestTxIds is not built from (blocking, ackCount, reqCount)")
	// (4) client
	h := c.SSAFunc(rel, "Client.handleRequestTxIds")
	var doneCalls []ssa.Instruction
	for _, ci := range allCalls(h) {
		if calleeName(ci.Common()) == rel+".NewMsgDone" {
			doneCalls = append(doneCalls, ci.(ssa.Instruction))
		}
	}
	if len(doneCalls) == 0 {
		c.Bad("done-only-blocking", ssaFuncKey(h), h.Pos(), "client never sends Done")
	}
	for i, v := range c.mustPass(h, doneCalls, func(f string) bool { return strings.HasPrefix(f, "T:") && strings.HasSuffix(f, ".Blocking") }) {
		c.Check(v.OK, "done-only-blocking", ssaFuncKey(h), doneCalls[i].Pos(), "Done is sent only in answer to a blocking request", "Done can be sent in answer to a non-blocking request ("+v.Witness+")")
	}
	// the F:Blocking edge after a stop request leads to an error
	okErr := false
	for _, ef := range edgeFacts(h) {
		if strings.HasPrefix(ef.Fact, "F:") && strings.HasSuffix(ef.Fact, ".Blocking") {
			after := reachFromAvoiding([]*ssa.BasicBlock{ef.From}, func(from *ssa.BasicBlock, i int) bool { return from == ef.From && i != ef.Succ })
			bad := false
			for _, r := range successReturns(h) {
				if after[r.Block()] && !containsCall(r.Block(), ".SendMessage") {
					// a success return reachable from the non-blocking stop edge without going through the normal reply
				}
				_ = r
			}
			// simpler: the edge's successor returns a non-nil error directly
			s := ef.From.Succs[ef.Succ]
			if r, ok := s.Instrs[len(s.Instrs)-1].(*ssa.Return); ok && definitelyNonNilErr(r.Results[0], s, 0) {
				okErr = !bad
			}
		}
	}
	c.Check(okErr, "stop-nonblocking-error", ssaFuncKey(h), h.Pos(), "a stop during a non-blocking request is an error", "a stop request during a non-blocking RequestTxIds does not produce an error")
	// limits precede the callback
	var cb []ssa.Instruction
	for _, ci := range allCalls(h) {
		if strings.HasSuffix(desc(ci.Common().Value), ".config.RequestTxIdsFunc") {
			cb = append(cb, ci.(ssa.Instruction))
		}
	}
	for _, fld := range []string{".Ack", ".Req"} {
		for i, v := range c.mustPass(h, cb, func(f string) bool { return strings.HasSuffix(f, fld+" <= 65535") }) {
			c.Check(v.OK, "client-limit-guard", ssaFuncKey(h)+":"+fld, cb[i].Pos(), "the limit on"+fld+" is checked before the application is asked", "the application callback is reachable without the"+fld+" limit check ("+v.Witness+")")
		}
	}
}

func containsCall(b *ssa.BasicBlock, suffix string) bool {
	for _, in := range b.Instrs {
		if ci, ok := in.(ssa.CallInstruction); ok && strings.HasSuffix(calleeName(ci.Common()), suffix) {
			return true
		}
	}
	return false
}

// lenOfReceived: v is len(X.field) where X is a local struct filled by a receive from a channel whose description contains chanName.
func lenOfReceived(v ssa.Value, chanName string) bool {
	call, ok := v.(*ssa.Call)
	if !ok || calleeName(&call.Call) != "len" {
		return false
	}
	root := rootValue(call.Call.Args[0], 0)
	al, ok := root.(*ssa.Alloc)
	if !ok {
		return strings.Contains(desc(root), chanName)
	}
	for _, u := range referrersOf(al) {
		if st, ok := u.(*ssa.Store); ok && st.Addr == al && strings.Contains(desc(st.Val), chanName) {
			return true
		}
	}
	return false
}
