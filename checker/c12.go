package main

import (
	"fmt"
	"strings"

	"golang.org/x/tools/go/ssa"
)

func init() {
	register(&Prop{
		ID:        "C12",
		Technique: "path-sensitive CFG reachability (bool-phi tracking) + value-identity rules on protocol.sendLoop",
		Explanation: "Structural necessary conditions of ordered, state-machine-driven sending, decided over all paths of sendLoop: (1) one sendReadyChan token per state transition: no transitionState call is reachable from entry, from itself or from another transitionState call without crossing a receive from sendReadyChan; " +
			"(2) queued (pipelined) transitions are applied from index 0, removed from index 0 and appended at the tail; (3) every dequeued message is written once to the payload buffer (its stored CBOR, or its encoding when none) and goes to exactly one of transitionState / the transition queue before the next dequeue or the segment hand-off; " +
			"(4) the segment hand-off to the muxer is unreachable unless the first message's transitionState returned nil (tracked through the queueTransition flag); a transition error reaches SendError and return; " +
			"(5) sendQueueChan has one producer (enqueueMessage) and one consumer (sendLoop), muxerSendChan one producer (sendLoop); no go statement on the path; (6) pendingSendBytes is only touched under pendingBytesMu.",
		Assumptions: []string{"the state loop answers transitionState as decided under C11", "acceptance of whole conversations by the peer is not decided"},
		Run:         runC12,
	})
}

func runC12(c *Ctx) {
	runC12Own(c)
	// a message reaches the wire once and unchanged only if the bytes of a segment already handed to the muxer are not
	// overwritten by the next batch: the payload-buffer freshness rule of C10 is part of this property too
	c.onlyRules = map[string]bool{"segment-buffer-fresh": true, "segment-loop-exit": true}
	defer func() { c.onlyRules = nil }()
	runC10(c)
}

func runC12Own(c *Ctx) {
	sl := c.SSAFunc("protocol", "Protocol.sendLoop")
	key := "protocol.(*Protocol).sendLoop"
	// transition sites: direct transitionState calls, or calls to a same-package wrapper that makes exactly one
	// transitionState call on its own parameters and reports success (true / nil) only behind transitionState == nil
	type tsSite struct {
		ci      ssa.CallInstruction
		msg     ssa.Value
		okFact  string // edge fact in sendLoop under which the transition was accepted
		badFact string
		wrapper *ssa.Function
	}
	var sites []tsSite
	for _, ci := range allCalls(sl) {
		cc := ci.Common()
		if calleeName(cc) == "protocol.(*Protocol).transitionState" {
			okF, badF := factsForValue(sl, ci.Value())
			sites = append(sites, tsSite{ci, cc.Args[1], okF, badF, nil})
			continue
		}
		h := samePkgHelper(sl, cc)
		if h == nil || h.Parent() != nil {
			continue
		}
		var inner []ssa.CallInstruction
		for _, cj := range allCalls(h) {
			if calleeName(cj.Common()) == "protocol.(*Protocol).transitionState" {
				inner = append(inner, cj)
			}
		}
		if len(inner) == 0 {
			continue
		}
		if len(inner) != 1 {
			c.Undecided("sendLoop: helper %s makes %d transitionState calls", h.Name(), len(inner))
		}
		mi := -1
		for i, q := range h.Params {
			if inner[0].Common().Args[1] == ssa.Value(q) {
				mi = i
			}
		}
		if mi < 0 || inner[0].Common().Args[0] != ssa.Value(h.Params[0]) || h.Signature.Results().Len() != 1 {
			c.Undecided("sendLoop: helper %s does not apply transitionState to its own message parameter", h.Name())
		}
		innerOK, innerBad := factsForValue(h, inner[0].Value())
		if innerOK == "" {
			c.Undecided("sendLoop: helper %s does not test the result of transitionState", h.Name())
		}
		isBool := typeStr(h.Signature.Results().At(0).Type()) == "bool"
		var sinks []ssa.Instruction
		for _, in := range fnInstrs(h) {
			r, ok := in.(*ssa.Return)
			if !ok {
				continue
			}
			rv := returnedValue(r, 0)
			if k, isK := rv.(*ssa.Const); isK && isBool && k.Value != nil && k.Value.String() == "false" {
				continue
			}
			if !isBool && definitelyNonNilErr(rv, r.Block(), 0) {
				continue
			}
			sinks = append(sinks, r)
		}
		for i, v := range c.mustPass(h, sinks, func(f string) bool { return f == innerOK }) {
			c.Check(v.OK, "transition-wrapper", ssaFuncKey(h)+":success", sinks[i].Pos(), "the wrapper reports success only after transitionState accepted", "the wrapper can report success although transitionState rejected the message ("+v.Witness+")")
		}
		for _, ef := range edgeFacts(h) {
			if ef.Fact == innerBad {
				c.Check(pathsReportOrShutdown(ef.From.Succs[ef.Succ]), "transition-error-reported", ssaFuncKey(h)+":"+shortArg(ef.Fact), ef.From.Succs[ef.Succ].Instrs[0].Pos(), "a rejected transition ends in SendError+return (or graceful shutdown)", "a rejected outbound transition does not stop the protocol with an error")
			}
		}
		okF, badF := factsForValue(sl, ci.Value())
		sites = append(sites, tsSite{ci, cc.Args[mi], okF, badF, h})
	}
	var tsCalls []ssa.CallInstruction
	siteOf := map[ssa.CallInstruction]tsSite{}
	for _, st := range sites {
		if st.okFact == "" {
			c.Bad("transition-error-reported", key+":unchecked:"+shortArg(desc(st.msg)), st.ci.Pos(), "the result of the state transition is not tested: a rejected outbound message is sent anyway")
		}
		tsCalls = append(tsCalls, st.ci)
		siteOf[st.ci] = st
	}
	if len(tsCalls) < 2 {
		c.Undecided("sendLoop: expected transitionState calls for queued and fresh messages, found %d", len(tsCalls))
	}
	ready := cutByFacts(sl, func(f string) bool { return strings.HasPrefix(f, "sel:<-") && strings.HasSuffix(f, ".sendReadyChan") })
	// (1) token per transition
	fromEntry := psReach(sl, []*ssa.BasicBlock{sl.Blocks[0]}, ready)
	for i, ci := range tsCalls {
		k := fmt.Sprintf("%s:transition#%d(%s)", key, i+1, shortArg(desc(siteOf[ci].msg)))
		bad := ""
		if fromEntry[ci.Block()] {
			bad = "reachable from entry without a sendReadyChan token"
		}
		// from the point just after this call: successors of its block (the call is followed by the error test)
		after := psReachAfter(sl, ci.Block(), ready)
		for j, other := range tsCalls {
			if after[other.Block()] {
				bad += fmt.Sprintf("; transition#%d reachable after it without a new token", j+1)
			}
		}
		c.Check(bad == "", "token-per-transition", k, ci.Pos(), "each state transition consumes its own sendReadyChan token", "a state transition can be driven without this side holding agency: "+bad)
	}
	// (2) FIFO of queued transitions
	var queuedCall, freshCall ssa.CallInstruction
	for _, ci := range tsCalls {
		a := desc(siteOf[ci].msg)
		if strings.HasSuffix(a, "[0]") {
			queuedCall = ci
		} else if strings.HasSuffix(a, ".message") {
			freshCall = ci
		}
	}
	c.Check(queuedCall != nil, "queue-fifo", key+":head", sl.Pos(), "queued transitions are applied from index 0", "no transitionState(queuedStateTransitions[0]) found: pipelined transitions are not applied oldest-first")
	delOK, appOK := false, false
	var appendCall ssa.CallInstruction
	for _, ci := range allCalls(sl) {
		cc := ci.Common()
		switch calleeName(cc) {
		case "slices.Delete":
			if len(cc.Args) == 3 && desc(cc.Args[1]) == "0" && desc(cc.Args[2]) == "1" {
				delOK = true
				if queuedCall != nil {
					// removal only after the transition succeeded
					qOK := siteOf[queuedCall].okFact
					v := c.mustPass(sl, []ssa.Instruction{ci.(ssa.Instruction)}, func(f string) bool { return f == qOK })
					c.Check(v[0].OK, "queue-fifo", key+":remove-after-success", ci.Pos(), "element 0 is removed only after its transition succeeded", "a queued transition can be dropped without having been applied ("+v[0].Witness+")")
				}
			}
		case "append":
			if len(cc.Args) == 2 && isNamedSlice(cc.Args[0], "Message") {
				appOK = true
				appendCall = ci
			}
		}
	}
	if !delOK {
		// reslice form q = q[1:]
		for _, b := range sl.Blocks {
			for _, in := range b.Instrs {
				if s, ok := in.(*ssa.Slice); ok && s.Low != nil && desc(s.Low) == "1" && s.High == nil && isNamedSlice(s.X, "Message") {
					delOK = true
				}
			}
		}
	}
	c.Check(delOK, "queue-fifo", key+":remove", sl.Pos(), "the applied transition is removed from index 0", "queued transitions are not removed from the head")
	c.Check(appOK, "queue-fifo", key+":append", sl.Pos(), "later messages of a batch are appended at the tail", "pipelined messages are not appended to the transition queue")

	// (3) every dequeued message: one buffer write, and one of transition/queue
	var deq *ssa.Select
	for _, b := range sl.Blocks {
		for _, in := range b.Instrs {
			if sel, ok := in.(*ssa.Select); ok {
				for _, st := range sel.States {
					if st.Send == nil && strings.HasSuffix(desc(st.Chan), ".sendQueueChan") {
						deq = sel
					}
				}
			}
		}
	}
	var handoff ssa.Instruction
	for _, f := range closureFuncs(sl, 2) {
		for _, in := range fnInstrs(f) {
			if sel, ok := in.(*ssa.Select); ok {
				for _, st := range sel.States {
					if st.Send != nil && strings.HasSuffix(desc(st.Chan), ".muxerSendChan") {
						// the hand-off may sit in a helper of sendLoop: the call in sendLoop stands for it
						for _, at := range liftToCaller(sl, in, 2) {
							handoff = at
						}
					}
				}
			}
		}
	}
	if deq == nil || handoff == nil {
		c.Undecided("sendLoop: dequeue select or muxer hand-off not found")
	}
	var deqSucc *ssa.BasicBlock
	for _, ef := range edgeFacts(sl) {
		if strings.HasPrefix(ef.Fact, "sel:<-") && strings.HasSuffix(ef.Fact, ".sendQueueChan") {
			deqSucc = ef.From.Succs[ef.Succ]
		}
	}
	if deqSucc == nil {
		c.Undecided("sendLoop: dequeue edge not found")
	}
	var writeCall ssa.CallInstruction
	nWrites := 0
	for _, ci := range allCalls(sl) {
		if calleeName(ci.Common()) == "bytes.(*Buffer).Write" {
			writeCall = ci
			nWrites++
		}
	}
	if writeCall == nil {
		c.Bad("message-written-once", key, sl.Pos(), "sendLoop never writes message bytes into the payload buffer")
	} else {
		// value written: msg.Cbor() or cbor.Encode(msg) of the dequeued message
		d := desc(writeCall.Common().Args[1])
		okVal := strings.Contains(d, "call:protocol.Message.Cbor(") && strings.Contains(d, ".message)") && (strings.Contains(d, "call:cbor.Encode(") || !strings.Contains(d, "phi("))
		c.Check(okVal && nWrites == 1, "message-written-once", key+":value", writeCall.Pos(), "payload bytes are msg.Cbor() (or its encoding when absent) of the dequeued message", fmt.Sprintf("bytes written to the payload buffer are %s (%d writes)", d, nWrites))
		// post-dominance: from dequeue, avoiding the write block, neither next dequeue nor hand-off reachable
		avoid := reachAvoidBlocks(deqSucc, map[*ssa.BasicBlock]bool{writeCall.Block(): true})
		c.Check(!avoid[deq.Block()] && !avoid[handoff.Block()], "message-written-once", key+":always", writeCall.Pos(), "every dequeued message is written before the next dequeue / hand-off",
			"a dequeued message can be skipped: next dequeue or segment hand-off reachable without writing its bytes")
		c.Check(!inInnerLoop(writeCall.Block(), deq.Block()), "message-written-once", key+":once", writeCall.Pos(), "not inside a nested loop", "the payload write sits in a nested loop: a message can be written more than once")
	}
	if freshCall != nil && appendCall != nil {
		avoid := reachAvoidBlocks(deqSucc, map[*ssa.BasicBlock]bool{freshCall.Block(): true, appendCall.Block(): true})
		c.Check(!avoid[deq.Block()] && !avoid[handoff.Block()], "message-drives-state", key, freshCall.Pos(), "every dequeued message goes to transitionState or to the transition queue",
			"a dequeued message can be sent without driving the state machine (neither transitionState nor queued)")
		// the appended value is the dequeued message
		okApp := false
		if sl2, ok := appendCall.Common().Args[1].(*ssa.Slice); ok {
			if al, ok := sl2.X.(*ssa.Alloc); ok {
				for _, u := range referrersOf(al) {
					if ia, ok := u.(*ssa.IndexAddr); ok {
						for _, u2 := range referrersOf(ia) {
							if st, ok := u2.(*ssa.Store); ok && strings.HasSuffix(desc(st.Val), ".message") {
								okApp = true
							}
						}
					}
				}
			}
		}
		c.Check(okApp, "message-drives-state", key+":queued-value", appendCall.Pos(), "the queued transition is the dequeued message", "the value appended to the transition queue is not the dequeued message")
	} else {
		c.Bad("message-drives-state", key, sl.Pos(), "sendLoop lacks transitionState(msg) or the transition queue append")
	}
	// (4) hand-off only after the first message's transition succeeded
	if freshCall != nil {
		okFact := siteOf[freshCall].okFact
		cut := cutByFacts(sl, func(f string) bool { return f == okFact })
		r := psReach(sl, []*ssa.BasicBlock{sl.Blocks[0]}, cut)
		c.Check(!r[handoff.Block()], "handoff-after-transition", key, handoff.Pos(), "no segment reaches the muxer unless the batch's first transition was accepted",
			"a segment can be handed to the muxer although transitionState rejected (or never saw) the first message of the batch")
		// error edge reports
		for _, ef := range edgeFacts(sl) {
			for _, st := range sites {
				if ef.Fact != st.badFact {
					continue
				}
				if st.wrapper == nil {
					c.Check(pathsReportOrShutdown(ef.From.Succs[ef.Succ]), "transition-error-reported", key+":"+shortArg(ef.Fact), ef.From.Succs[ef.Succ].Instrs[0].Pos(), "a rejected transition ends in SendError+return (or graceful shutdown)", "a rejected outbound transition does not stop the protocol with an error")
				} else {
					// the wrapper reported; the loop must end here: no dequeue, hand-off or further transition
					after := reachAvoidBlocks(ef.From.Succs[ef.Succ], nil)
					leaves := !after[deq.Block()] && !after[handoff.Block()]
					c.Check(leaves, "transition-error-reported", key+":"+shortArg(ef.Fact), ef.From.Succs[ef.Succ].Instrs[0].Pos(), "after a rejected transition the send loop ends", "after a rejected outbound transition the send loop keeps running")
				}
			}
		}
	}
	// (5) channel ownership
	c.chanOwners("protocol", ".sendQueueChan", []string{"protocol.(*Protocol).enqueueMessage"}, []string{"protocol.(*Protocol).sendLoop"})
	c.chanOwners("protocol", ".muxerSendChan", []string{"protocol.(*Protocol).sendLoop"}, nil)
	for _, b := range sl.Blocks {
		for _, in := range b.Instrs {
			if g, ok := in.(*ssa.Go); ok {
				c.Bad("no-async-send", key, g.Pos(), "sendLoop starts a goroutine: message order to the wire is no longer the dequeue order")
			}
		}
	}
	c.Ok("no-async-send", key+":scan", sl.Pos(), "no go statement in sendLoop")
	// (6) pendingSendBytes under lock
	n := 0
	for _, fn := range c.pkgFuncs("protocol") {
		for _, b := range fn.Blocks {
			for _, in := range b.Instrs {
				fa, ok := in.(*ssa.FieldAddr)
				if !ok || !isNamed(fa.X.Type(), "protocol", "Protocol") || fieldName(fa.X.Type(), fa.Field) != "pendingSendBytes" {
					continue
				}
				for _, use := range referrersOf(fa) {
					if _, isDbg := use.(*ssa.DebugRef); isDbg {
						continue
					}
					n++
					c.Check(heldAt(fn, use, ".pendingBytesMu", []string{"Lock"}, []string{"Unlock"}), "send-accounting-locked", fmt.Sprintf("%s:%d", ssaFuncKey(fn), n), use.Pos(), "under pendingBytesMu", "pendingSendBytes accessed without pendingBytesMu")
				}
			}
		}
	}
	c.Floor("send-accounting-locked", 6)
}

func shortArg(s string) string {
	if len(s) > 60 {
		return "…" + s[len(s)-50:]
	}
	return s
}

func isNamedSlice(v ssa.Value, elem string) bool {
	return strings.HasSuffix(typeStr(v.Type()), "[]protocol."+elem)
}

// psReachAfter: blocks reachable from the successors of b (path-sensitive), honouring cut.
func psReachAfter(fn *ssa.Function, b *ssa.BasicBlock, cut func(*ssa.BasicBlock, int) bool) map[*ssa.BasicBlock]bool {
	var starts []*ssa.BasicBlock
	for i, s := range b.Succs {
		if cut != nil && cut(b, i) {
			continue
		}
		starts = append(starts, s)
	}
	return psReach(fn, starts, cut)
}

// reachAvoidBlocks: blocks reachable from start without entering any block of avoid (start itself is checked).
func reachAvoidBlocks(start *ssa.BasicBlock, avoid map[*ssa.BasicBlock]bool) map[*ssa.BasicBlock]bool {
	reach := map[*ssa.BasicBlock]bool{}
	if avoid[start] {
		return reach
	}
	q := []*ssa.BasicBlock{start}
	reach[start] = true
	for len(q) > 0 {
		b := q[0]
		q = q[1:]
		for _, s := range b.Succs {
			if avoid[s] || reach[s] {
				continue
			}
			reach[s] = true
			q = append(q, s)
		}
	}
	return reach
}

// inInnerLoop: b lies on a cycle that does not pass through head.
func inInnerLoop(b, head *ssa.BasicBlock) bool {
	r := reachAvoidBlocks(b, map[*ssa.BasicBlock]bool{head: true})
	for _, s := range b.Succs {
		if s == head {
			continue
		}
		rr := reachAvoidBlocks(s, map[*ssa.BasicBlock]bool{head: true})
		if rr[b] {
			return true
		}
	}
	_ = r
	return false
}

// pathsReportOrShutdown: every path from b to a Return passes SendError, except through the errors.Is(…, ErrProtocolShuttingDown) true edge.
func pathsReportOrShutdown(b *ssa.BasicBlock) bool {
	ok := true
	seen := map[*ssa.BasicBlock]bool{}
	var walk func(x *ssa.BasicBlock)
	walk = func(x *ssa.BasicBlock) {
		if seen[x] || !ok {
			return
		}
		seen[x] = true
		for _, in := range x.Instrs {
			if cx, isCall := in.(ssa.CallInstruction); isCall && calleeName(cx.Common()) == "protocol.(*Protocol).SendError" {
				return
			}
		}
		if _, isRet := x.Instrs[len(x.Instrs)-1].(*ssa.Return); isRet {
			ok = false
			return
		}
		for i, nx := range x.Succs {
			if iff, isIf := x.Instrs[len(x.Instrs)-1].(*ssa.If); isIf {
				tf, _ := condFacts(iff.Cond)
				if i == 0 && len(tf) == 1 && strings.HasPrefix(tf[0], "T:call:errors.Is(") && strings.HasSuffix(tf[0], "global:protocol.ErrProtocolShuttingDown)") {
					continue
				}
			}
			walk(nx)
		}
	}
	walk(b)
	return ok
}

// chanOwners: in package rel, sends on channels whose desc ends with suffix happen only in senders, receives only in receivers (nil = not checked).
// ownedBy: fn is one of the named owner functions (or a closure of one), or an unexported helper that runs only as
// part of them: every call site in the package is in an owner and none is a go statement.
func ownedBy(fn *ssa.Function, owners []string, depth int) bool {
	k := ssaFuncKey(fn)
	for _, x := range owners {
		if x == k || strings.HasPrefix(k, x+"$") {
			return true
		}
	}
	if depth <= 0 || fn.Parent() != nil || fn.Object() == nil || fn.Object().Exported() {
		return false
	}
	cs := callersInPkg(fn)
	if len(cs) == 0 {
		return false
	}
	for _, ci := range cs {
		if _, isGo := ci.(*ssa.Go); isGo || !ownedBy(ci.Parent(), owners, depth-1) {
			return false
		}
	}
	return true
}

func (c *Ctx) chanOwners(rel, suffix string, senders, receivers []string) {
	ns, nr := 0, 0
	for _, fn := range c.pkgFuncs(rel) {
		fk := ssaFuncKey(fn)
		in := func(list []string, _ string) bool { return ownedBy(fn, list, 2) }
		for _, b := range fn.Blocks {
			for _, ins := range b.Instrs {
				switch x := ins.(type) {
				case *ssa.Send:
					if strings.HasSuffix(desc(x.Chan), suffix) {
						ns++
						c.Check(in(senders, fk), "chan-owner", suffix+":send:"+fk, x.Pos(), "send by the owning producer", "unexpected producer on "+suffix+": ordering through this channel is no longer single-writer")
					}
				case *ssa.UnOp:
					if x.Op.String() == "<-" && strings.HasSuffix(desc(x.X), suffix) && receivers != nil {
						nr++
						c.Check(in(receivers, fk), "chan-owner", suffix+":recv:"+fk, x.Pos(), "receive by the owning consumer", "unexpected consumer on "+suffix+": messages can be taken out of order")
					}
				case *ssa.Select:
					for _, st := range x.States {
						if !strings.HasSuffix(desc(st.Chan), suffix) {
							continue
						}
						if st.Send != nil {
							ns++
							c.Check(in(senders, fk), "chan-owner", suffix+":send:"+fk, x.Pos(), "send by the owning producer", "unexpected producer on "+suffix+": ordering through this channel is no longer single-writer")
						} else if receivers != nil {
							nr++
							c.Check(in(receivers, fk), "chan-owner", suffix+":recv:"+fk, x.Pos(), "receive by the owning consumer", "unexpected consumer on "+suffix+": messages can be taken out of order")
						}
					}
				}
			}
		}
	}
	if ns == 0 {
		c.Bad("chan-owner", suffix+":send", 0, "no send on %s found", suffix)
	}
	if receivers != nil && nr == 0 {
		c.Bad("chan-owner", suffix+":recv", 0, "no receive on %s found", suffix)
	}
}
