package main

// E7: lock-region discipline on SSA.

import (
	"strings"

	"golang.org/x/tools/go/ssa"
)

func isLockCall(ci ssa.CallInstruction, mutexSuffix string, names ...string) bool {
	cc := ci.Common()
	cn := calleeName(cc)
	ok := false
	for _, n := range names {
		if cn == "sync.(*Mutex)."+n || cn == "sync.(*RWMutex)."+n {
			ok = true
		}
	}
	if !ok || len(cc.Args) == 0 {
		return false
	}
	return strings.HasSuffix(desc(cc.Args[0]), mutexSuffix)
}

// instrIndex returns the index of in within its block.
func instrIndex(in ssa.Instruction) int {
	for i, x := range in.Block().Instrs {
		if x == in {
			return i
		}
	}
	return -1
}

// precedes reports whether a is executed before b on every path reaching b (a dominates b).
func precedes(a, b ssa.Instruction) bool {
	if a.Block() == b.Block() {
		return instrIndex(a) < instrIndex(b)
	}
	return a.Block().Dominates(b.Block())
}

// heldAt: some Lock/RLock of the mutex dominates instr and no non-deferred Unlock/RUnlock of it lies
// on a path between that lock and instr.
func heldAt(fn *ssa.Function, instr ssa.Instruction, mutexSuffix string, lockNames []string, unlockNames []string) bool {
	var locks, unlocks []ssa.Instruction
	for _, ci := range allCalls(fn) {
		if _, isDefer := ci.(*ssa.Defer); isDefer {
			continue
		}
		if isLockCall(ci, mutexSuffix, lockNames...) {
			locks = append(locks, ci.(ssa.Instruction))
		}
		if isLockCall(ci, mutexSuffix, unlockNames...) {
			unlocks = append(unlocks, ci.(ssa.Instruction))
		}
	}
	for _, l := range locks {
		if !precedes(l, instr) {
			continue
		}
		bad := false
		for _, u := range unlocks {
			if between(l, u, instr) {
				bad = true
				break
			}
		}
		if !bad {
			return true
		}
	}
	return false
}

// between: u is reachable from l and instr is reachable from u (block-level, with in-block ordering).
func between(l, u, instr ssa.Instruction) bool {
	return reachesInstr(l, u) && reachesInstr(u, instr)
}

func reachesInstr(a, b ssa.Instruction) bool {
	if a.Block() == b.Block() && instrIndex(a) < instrIndex(b) {
		return true
	}
	// reach b.Block from successors of a.Block
	seen := map[*ssa.BasicBlock]bool{}
	var st []*ssa.BasicBlock
	st = append(st, a.Block().Succs...)
	for len(st) > 0 {
		x := st[len(st)-1]
		st = st[:len(st)-1]
		if seen[x] {
			continue
		}
		seen[x] = true
		if x == b.Block() {
			return true
		}
		st = append(st, x.Succs...)
	}
	return false
}

// referrersOf returns the instructions that use v (nil-safe).
func referrersOf(v ssa.Value) []ssa.Instruction {
	r := v.Referrers()
	if r == nil {
		return nil
	}
	return *r
}
