package main

// E7: lock-region discipline on SSA.

import (
	"strings"

	"golang.org/x/tools/go/ssa"
)

func isLockCall(ci ssa.CallInstruction, mutexSuffix string, names ...string) bool {
	cc := ci.Common()
	cn := calleeName(cc)
	ok := false
	for _, n := range names {
		if cn == "sync.(*Mutex)."+n || cn == "sync.(*RWMutex)."+n {
			ok = true
		}
	}
	if !ok || len(cc.Args) == 0 {
		return false
	}
	return strings.HasSuffix(desc(cc.Args[0]), mutexSuffix)
}

// instrIndex returns the index of in within its block.
func instrIndex(in ssa.Instruction) int {
	for i, x := range in.Block().Instrs {
		if x == in {
			return i
		}
	}
	return -1
}

// precedes reports whether a is executed before b on every path reaching b (a dominates b).
func precedes(a, b ssa.Instruction) bool {
	if a.Block() == b.Block() {
		return instrIndex(a) < instrIndex(b)
	}
	return a.Block().Dominates(b.Block())
}

// heldAt decides by a forward must-dataflow whether the mutex is held on every path reaching instr:
// state after Lock/RLock = held, after a non-deferred Unlock/RUnlock = not held; meet = logical and.
func heldAt(fn *ssa.Function, instr ssa.Instruction, mutexSuffix string, lockNames []string, unlockNames []string) bool {
	type st = bool
	effect := func(in ssa.Instruction, cur st) st {
		ci, ok := in.(ssa.CallInstruction)
		if !ok {
			return cur
		}
		if _, isDefer := ci.(*ssa.Defer); isDefer {
			return cur
		}
		if _, isGo := ci.(*ssa.Go); isGo {
			return cur
		}
		if isLockCall(ci, mutexSuffix, lockNames...) {
			return true
		}
		if isLockCall(ci, mutexSuffix, unlockNames...) {
			return false
		}
		return cur
	}
	out := map[*ssa.BasicBlock]st{}
	for _, b := range fn.Blocks {
		out[b] = true // optimistic
	}
	inState := func(b *ssa.BasicBlock) st {
		if b == fn.Blocks[0] {
			return false
		}
		if len(b.Preds) == 0 {
			return false
		}
		v := true
		for _, p := range b.Preds {
			v = v && out[p]
		}
		return v
	}
	for changed := true; changed; {
		changed = false
		for _, b := range fn.Blocks {
			cur := inState(b)
			for _, in := range b.Instrs {
				cur = effect(in, cur)
			}
			if out[b] != cur {
				out[b] = cur
				changed = true
			}
		}
	}
	cur := inState(instr.Block())
	for _, in := range instr.Block().Instrs {
		if in == instr {
			return cur
		}
		cur = effect(in, cur)
	}
	return false
}

// between: u is reachable from l and instr is reachable from u (block-level, with in-block ordering).
func between(l, u, instr ssa.Instruction) bool {
	return reachesInstr(l, u) && reachesInstr(u, instr)
}

func reachesInstr(a, b ssa.Instruction) bool {
	if a.Block() == b.Block() && instrIndex(a) < instrIndex(b) {
		return true
	}
	// reach b.Block from successors of a.Block
	seen := map[*ssa.BasicBlock]bool{}
	var st []*ssa.BasicBlock
	st = append(st, a.Block().Succs...)
	for len(st) > 0 {
		x := st[len(st)-1]
		st = st[:len(st)-1]
		if seen[x] {
			continue
		}
		seen[x] = true
		if x == b.Block() {
			return true
		}
		st = append(st, x.Succs...)
	}
	return false
}

// referrersOf returns the instructions that use v (nil-safe).
func referrersOf(v ssa.Value) []ssa.Instruction {
	r := v.Referrers()
	if r == nil {
		return nil
	}
	return *r
}
