package main

import (
	"strings"

	"golang.org/x/tools/go/ssa"
)

func init() {
	register(&Prop{
		ID:        "C23",
		Technique: "SSA guard dominance on blockfetch.Client.GetBlock + synchronous-callback rule on handleBlock",
		Explanation: "(1) Every return of Client.GetBlock that yields a block is dominated by the equality edge of a comparison between the received block's Hash() bytes and the requested point's Hash (a comparison on anything weaker, e.g. the slot, does not count). The block compared is the value received from blockChan, which handleBlock fills with the block decoded from the Block message. " +
			"(2) Range mode: handleBlock invokes BlockFunc/BlockRawFunc synchronously on the handler goroutine (no go statement, not deferred), once per Block message, with the block/bytes of that message, so blocks reach the application in arrival order. (3) The request sent is MsgRequestRange(point, point) for GetBlock and (start, end) for GetBlockRange. " +
			"The 'no block / several blocks must fail rather than hang' clause is C15's known findings for handleBlock/handleBatchDone.",
		Assumptions: []string{"Block.Hash() is the header hash over stored bytes (C01)", "arrival order equals the server's send order (C09/C10)"},
		Run:         runC23,
	})
}

func runC23(c *Ctx) {
	gb := c.SSAFunc("protocol/blockfetch", "Client.GetBlock")
	key := ssaFuncKey(gb)
	var rets []ssa.Instruction
	for _, b := range gb.Blocks {
		if r, ok := b.Instrs[len(b.Instrs)-1].(*ssa.Return); ok && !isNilConst(r.Results[0]) {
			rets = append(rets, r)
		}
	}
	if len(rets) == 0 {
		c.Undecided("GetBlock never returns a block")
	}
	pointRef, pointSpill := paramRef(gb, 1)
	for _, r := range rets {
		bd := desc(r.(*ssa.Return).Results[0])
		c.Check(strings.Contains(bd, ".blockChan"), "getblock-source", key, r.Pos(), "the block returned is the one received from blockChan", "GetBlock returns "+bd+", not the block delivered for this request")
		v := c.mustPass(gb, []ssa.Instruction{r}, func(f string) bool {
			if !strings.HasPrefix(f, "T:call:bytes.Equal(") {
				return false
			}
			return strings.Contains(f, ".Hash(") && strings.Contains(f, pointRef+".Hash") && strings.Contains(f, ".blockChan")
		})
		c.Check(v[0].OK, "getblock-hash-match", key, r.Pos(), "a block is returned only if its hash equals the requested point's hash", "GetBlock can return a block whose hash was not compared (equal) with the requested point's hash ("+v[0].Witness+")")
	}
	// request range
	okReq := false
	for _, ci := range allCalls(gb) {
		if calleeName(ci.Common()) == "protocol/blockfetch.NewMsgRequestRange" {
			isPoint := func(v ssa.Value) bool {
				if v == gb.Params[1] {
					return true
				}
				if u, ok := v.(*ssa.UnOp); ok && pointSpill != nil && u.X == pointSpill {
					return true
				}
				return false
			}
			okReq = isPoint(ci.Common().Args[0]) && isPoint(ci.Common().Args[1])
		}
	}
	c.Check(okReq, "getblock-request", key, gb.Pos(), "requests the range (point, point)", "GetBlock does not request exactly the range [point, point]")
	// (2) handleBlock
	hb := c.SSAFunc("protocol/blockfetch", "Client.handleBlock")
	hk := ssaFuncKey(hb)
	nCb := 0
	// handleBlock and the helpers it calls synchronously, outside any loop
	syncFns := []*ssa.Function{hb}
	for i := 0; i < len(syncFns) && i < 6; i++ {
		for _, ci := range allCalls(syncFns[i]) {
			_, isGo := ci.(*ssa.Go)
			_, isDefer := ci.(*ssa.Defer)
			if h := samePkgHelper(syncFns[i], ci.Common()); h != nil && !isGo && !isDefer && !inLoop(ci.Block()) && h.Parent() == nil {
				dup := false
				for _, g := range syncFns {
					dup = dup || g == h
				}
				if !dup {
					syncFns = append(syncFns, h)
				}
			}
		}
	}
	isSync := func(f *ssa.Function) bool {
		for _, g := range syncFns {
			if g == f {
				return true
			}
		}
		return false
	}
	var scan []*ssa.Function
	for _, g := range syncFns {
		scan = append(scan, withAnon(g)...)
	}
	for _, f := range scan {
		for _, ci := range allCalls(f) {
			d := desc(ci.Common().Value)
			if !(strings.HasSuffix(d, ".config.BlockFunc") || strings.HasSuffix(d, ".config.BlockRawFunc")) {
				continue
			}
			nCb++
			_, isGo := ci.(*ssa.Go)
			_, isDefer := ci.(*ssa.Defer)
			c.Check(!isGo && !isDefer && isSync(f) && !inLoop(ci.Block()), "range-callback-sync", hk+":"+d[strings.LastIndex(d, ".")+1:], ci.Pos(), "callback runs synchronously, once, on the handler goroutine", "the block callback is invoked asynchronously/deferred/in a loop: delivery order or multiplicity is no longer the arrival order")
			// argument provenance: the block/bytes of this message
			args := ci.Common().Args
			ad := desc(args[len(args)-1])
			if f != hb {
				ad = traceIP(hb, args[len(args)-1])
			}
			c.Check(strings.Contains(ad, "RawBlock") || strings.Contains(ad, "NewBlockFromCbor("), "range-callback-arg", hk+":"+d[strings.LastIndex(d, ".")+1:], ci.Pos(), "callback receives this message's block", "callback receives "+ad)
		}
	}
	if nCb < 2 {
		c.Bad("range-callback-sync", hk, hb.Pos(), "handleBlock no longer calls BlockFunc/BlockRawFunc")
	}
	// the value sent on blockChan is the block decoded from this message
	okSend := false
	for _, b := range hb.Blocks {
		for _, in := range b.Instrs {
			if s, ok := in.(*ssa.Send); ok && strings.HasSuffix(desc(s.Chan), ".blockChan") {
				okSend = strings.Contains(desc(s.X), "NewBlockFromCbor(")
			}
		}
	}
	c.Check(okSend, "getblock-delivery", hk, hb.Pos(), "GetBlock mode delivers the block decoded from this Block message", "the value sent on blockChan is not the block decoded from the received message")
	// the per-request delivery mode belongs to the request that holds the busy token: a requester writes client state
	// only after it acquired the token, otherwise a call queued behind a batch in flight redirects that batch's blocks
	handlerReads := map[string]bool{} // client fields the message handlers consult
	for _, hf := range c.pkgFuncs("protocol/blockfetch") {
		if hf.Signature.Recv() == nil || !strings.HasSuffix(typeStr(hf.Signature.Recv().Type()), "blockfetch.Client") || !strings.HasPrefix(hf.Name(), "handle") {
			continue
		}
		for _, in := range fnInstrs(hf) {
			if fa, ok := in.(*ssa.FieldAddr); ok && trace(fa.X) == "p0" {
				handlerReads[fieldName(fa.X.Type(), fa.Field)] = true
			}
		}
	}
	for _, name := range []string{"Client.GetBlock", "Client.GetBlockRange"} {
		fo := c.FuncObjOpt("protocol/blockfetch", name)
		if fo == nil {
			continue
		}
		fn := c.SSAOf(fo)
		if fn == nil || len(fn.Blocks) == 0 {
			continue
		}
		fk := ssaFuncKey(fn)
		var acq ssa.CallInstruction
		for _, ci := range allCalls(fn) {
			if cal := ci.Common().StaticCallee(); cal != nil && strings.Contains(strings.ToLower(cal.Name()), "acquirebusy") {
				acq = ci
			}
		}
		if acq == nil {
			c.Undecided("%s: the busy token is not acquired here; the request-state rule was not derived for this shape", fk)
			continue
		}
		for _, in := range fnInstrs(fn) {
			st, ok := in.(*ssa.Store)
			if !ok {
				continue
			}
			fa, ok := st.Addr.(*ssa.FieldAddr)
			if !ok || trace(fa.X) != "p0" {
				continue
			}
			fname := fieldName(fa.X.Type(), fa.Field)
			if !handlerReads[fname] {
				continue
			}
			after := acq.Block().Dominates(st.Block()) && acq.Block() != st.Block()
			if acq.Block() == st.Block() {
				for _, bi := range st.Block().Instrs {
					if bi == ssa.Instruction(acq.(ssa.Instruction)) {
						after = true
						break
					}
					if bi == ssa.Instruction(st) {
						break
					}
				}
			}
			c.Check(after, "request-state-under-busy", fk+":"+fname, st.Pos(), "client state is written after the busy token was acquired", "the client's "+fname+" is written before the busy token is acquired: a call queued behind a batch in flight changes how that batch's remaining blocks are delivered (they go to the other consumer and are never read)")
		}
	}
}
