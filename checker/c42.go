package main

import (
	"fmt"
	"os"
	"go/types"
	"strings"

	"golang.org/x/tools/go/ssa"
)

func init() {
	register(&Prop{
		ID:        "C42",
		Technique: "who-may-call/who-may-write rules, must-pass-through on the in-order and buffering paths, lock must-dataflow, exactly-once forwarding rules on the stage goroutines' CFGs, send/close discipline",
		Explanation: "(1) The user's apply function is called only from applyItem, at most once per call, applyItem only from maybeApply, and that call is dominated by no-decode-error, no-validation-error and (when validation is required) IsValid. (2) nextSequence is advanced only in ProcessWithStatus and applyPending, by exactly one, under the stage mutex, each time paired with maybeApply of the item that carries that sequence (the incoming item on the sequence-match edge; the item looked up and deleted at pending[nextSequence]). " +
			"(3) An out-of-order item is stored in pending (under the mutex) on every path before ProcessWithStatus returns — whatever it returns — so no sequence number is ever dropped. (4) The apply runner forwards every item of the slice ProcessWithStatus returned, once each, and the stage workers send every received item to their output exactly once after processing (or stop on cancellation). " +
			"(5) Submit sends on submitChan only while holding submitMu.RLock after the stopped check; Stop stores stopped and closes submitChan under submitMu.Lock, closes each inter-stage channel only after the writers' pool was joined, and cancels the context first so every blocked stage wakes.",
		Assumptions: []string{"the decode/validate stages set the item's error fields (C02/C40 cover what they check)", "Go channel FIFO and sync primitives", "schedules are not enumerated; the rules are schedule-independent"},
		Run:         runC42,
	})
	register(&Prop{
		ID:        "C43",
		Technique: "outstanding-item accounting: who-may-write on the counter, dominance of the increment over the hand-off, decrement only on the non-error result of the apply stage with the count of finished items, reader identity for PendingCount/WaitForDrain",
		Explanation: "(1) The counter read by PendingCount (and therefore by WaitForDrain, which returns nil only on PendingCount()==0) is BlockPipeline.outstanding. (2) It is incremented by one in Submit before the select that hands the item to the pipeline, and decremented by one on exactly the branches of that select that did not hand it over. (3) Its only other writer is the processed callback, which subtracts n; the apply runner invokes that callback only on the nil-error result of ProcessWithStatus with n = len(returned slice), and ProcessWithStatus puts an item into that slice only after maybeApply (apply or skip) has returned for it. Hence an item contributes to the counter from before it is receivable until after its apply call has returned.",
		Assumptions: []string{"atomic counters", "an item dropped because the pipeline context was cancelled stays counted (the pipeline is stopping)"},
		Run:         runC43,
	})
	register(&Prop{
		ID:        "C44",
		Technique: "acquire/release pairing on Submit's CFG: mutations of the sequence counter dominated by the successful hand-off edge, inside the single-submitter slot",
		Explanation: "(1) The sequence number an item carries is sequenceCounter.Load() read while the submit slot is held; (2) every mutation of sequenceCounter in the package is in Submit and is dominated by the edge on which the send to submitChan succeeded, so a submission that returns an error (caller's context expired, pipeline stopping) consumes no number and leaves no gap for the apply stage to wait on; (3) the slot is a 1-buffered channel acquired by a select that also watches both contexts and released by a deferred receive registered right after acquisition, so Load and Add of one submission cannot interleave with another's.",
		Assumptions: []string{"atomic counters and channel semantics"},
		Run:         runC44,
	})
}

type selEdge struct {
	from *ssa.BasicBlock
	st   *ssa.SelectState
	sel  *ssa.Select
}

// selectEdges lists, for every select in fn, the block whose true edge is taken when state k was chosen.
func selectEdges(fn *ssa.Function) []selEdge {
	var out []selEdge
	for _, b := range fn.Blocks {
		sel := selectOfIf(b)
		if sel == nil {
			continue
		}
		iff := b.Instrs[len(b.Instrs)-1].(*ssa.If)
		k, ok := iff.Cond.(*ssa.BinOp).Y.(*ssa.Const)
		if !ok {
			continue
		}
		i := int(k.Int64())
		if i < 0 || i >= len(sel.States) {
			continue
		}
		out = append(out, selEdge{b, sel.States[i], sel})
	}
	return out
}

func isSendOn(st *ssa.SelectState, suffix string) bool {
	return st.Dir == types.SendOnly && strings.HasSuffix(trace(st.Chan), suffix)
}

func runC42(c *Ctx) {
	c.W.buildSSA()
	if os.Getenv("C42_DEBUG") != "" {
		debugC42(c)
	}
	rel := "pipeline"
	// (1) who may call applyFunc / applyItem
	var applyItem, maybeApply, pws, applyPending *ssa.Function
	// applyItem may be folded into maybeApply: the guarded site is then the callback call itself
	if o := c.FuncObjOpt(rel, "ApplyStage.applyItem"); o != nil {
		applyItem = c.SSAOf(o)
	}
	maybeApply = c.SSAFunc(rel, "ApplyStage.maybeApply")
	applyItemInlined := applyItem == nil
	if applyItemInlined {
		applyItem = maybeApply
	}
	pws = c.SSAFunc(rel, "ApplyStage.ProcessWithStatus")
	applyPending = c.SSAFunc(rel, "ApplyStage.applyPending")
	if applyItem == nil || maybeApply == nil || pws == nil || applyPending == nil {
		c.Undecided("apply stage functions not found")
		return
	}
	nApply := 0
	for _, fn := range c.pkgFuncs(rel) {
		for _, ci := range allCalls(fn) {
			cc := ci.Common()
			if !cc.IsInvoke() && cc.StaticCallee() == nil && strings.HasSuffix(trace(cc.Value), "applyFunc<p0") {
				nApply++
				c.Check(fn == applyItem && !inLoop(ci.Block()), "apply-only-good-blocks", ssaFuncKey(fn)+":applyFunc", ci.Pos(), "the apply callback is invoked once, from applyItem", "the apply callback is invoked from "+ssaFuncKey(fn)+" (or in a loop): a block can be applied more than once or outside the guarded path")
				c.Check(trace(cc.Args[0]) == "p2", "apply-only-good-blocks", ssaFuncKey(fn)+":applyFunc:item", ci.Pos(), "applied to the item passed in", "the apply callback receives "+shortArg(trace(cc.Args[0])))
			}
			if !applyItemInlined && cc.StaticCallee() == applyItem {
				c.Check(fn == maybeApply, "apply-only-good-blocks", ssaFuncKey(fn)+":applyItem", ci.Pos(), "applyItem is reached only through maybeApply", "applyItem is called from "+ssaFuncKey(fn)+", bypassing the decode/validation guards")
			}
			if cc.StaticCallee() == maybeApply {
				c.Check(fn == pws || fn == applyPending, "apply-only-good-blocks", ssaFuncKey(fn)+":maybeApply", ci.Pos(), "maybeApply is reached only from the sequencing functions", "maybeApply is called from "+ssaFuncKey(fn)+", outside the in-order sequencing")
			}
		}
	}
	c.Check(nApply == 1, "apply-only-good-blocks", rel+":applyFunc-sites", applyItem.Pos(), "one call site of the apply callback", fmt.Sprintf("%d call sites of the apply callback", nApply))
	for _, ci := range allCalls(maybeApply) {
		if !applyItemInlined && ci.Common().StaticCallee() != applyItem {
			continue
		}
		if applyItemInlined {
			cc := ci.Common()
			if cc.IsInvoke() || cc.StaticCallee() != nil || !strings.HasSuffix(trace(cc.Value), "applyFunc<p0") {
				continue
			}
			// the callback call stands for applyItem(ctx, item): (receiver, ctx, item) positions
			ci = inlinedApplySite{ci}
		}
		for _, g := range []struct{ name, fact string }{
			{"no-decode-error", "call:pipeline.(*BlockItem).DecodeError(p2) == nil"},
			{"no-validation-error", "call:pipeline.(*BlockItem).ValidationError(p2) == nil"},
		} {
			v := c.mustPass(maybeApply, []ssa.Instruction{ci.(ssa.Instruction)}, func(f string) bool { return f == g.fact })
			c.Check(v[0].OK, "apply-only-good-blocks", ssaFuncKey(maybeApply)+":"+g.name, ci.Pos(), "apply requires "+g.fact, "a block is applied although "+g.name+" does not hold ("+v[0].Witness+")")
		}
		v := c.mustPass(maybeApply, []ssa.Instruction{ci.(ssa.Instruction)}, func(f string) bool {
			return f == "F:p0.requireValidation" || f == "T:call:pipeline.(*BlockItem).IsValid(p2)"
		})
		c.Check(v[0].OK, "apply-only-good-blocks", ssaFuncKey(maybeApply)+":validated-when-required", ci.Pos(), "with validation required only valid blocks are applied", "a block that was not validated is applied although validation is required ("+v[0].Witness+")")
		c.Check(trace(ci.Common().Args[2]) == "p2", "apply-only-good-blocks", ssaFuncKey(maybeApply)+":same-item", ci.Pos(), "the guarded item is the one applied", "applyItem receives another item than the one whose errors were checked")
	}
	// (2) nextSequence writers
	nSeq := 0
	for _, fn := range c.pkgFuncs(rel) {
		for _, in := range fnInstrs(fn) {
			st, ok := in.(*ssa.Store)
			if !ok {
				continue
			}
			fa, ok := st.Addr.(*ssa.FieldAddr)
			if !ok || fieldName(fa.X.Type(), fa.Field) != "nextSequence" {
				continue
			}
			fk := ssaFuncKey(fn)
			t := trace(st.Val)
			if desc(st.Val) == "0" && (fn.Name() == "Reset" || fn.Name() == "NewApplyStage") {
				c.Ok("sequence-advance", fk+":reset", st.Pos(), "reset to 0 by constructor/Reset")
				continue
			}
			nSeq++
			okFn := fn == pws || fn == applyPending
			// the drain step may be a helper of the sequencing functions (takeNextPending)
			var helperOf *ssa.Function
			if !okFn && ownedBy(fn, []string{ssaFuncKey(pws), ssaFuncKey(applyPending)}, 1) {
				okFn = true
				for _, ci := range callersInPkg(fn) {
					helperOf = ci.Parent()
				}
			}
			okInc := t == "(nextSequence<p0 + 1)"
			held := heldAt(fn, st, ".mu", []string{"Lock"}, []string{"Unlock"})
			c.Check(okFn && okInc && held, "sequence-advance", fk+":increment", st.Pos(), "advances by one under the stage mutex", fmt.Sprintf("nextSequence is written in %s as %s (mutex held: %v): the in-order cursor must advance by exactly one, under the mutex, only in the sequencing functions", fk, shortArg(t), held))
			// paired with maybeApply of the right item
			var paired bool
			for _, ci := range allCalls(fn) {
				if ci.Common().StaticCallee() != maybeApply || !reachesBlock(st.Block(), ci.Block()) && st.Block() != ci.Block() {
					continue
				}
				it := trace(ci.Common().Args[2])
				switch fn {
				case pws:
					v := c.mustPass(fn, []ssa.Instruction{st}, func(f string) bool {
						return f == "call:pipeline.(*BlockItem).SequenceNumber(p2) == p0.nextSequence"
					})
					paired = it == "p2" && v[0].OK
				case applyPending:
					paired = it == "lookup(pending<p0,nextSequence<p0)#0"
				}
			}
			if helperOf != nil {
				// the helper hands back the buffered item of the consumed number, and the caller applies what it got
				gives := false
				for _, in2 := range fnInstrs(fn) {
					if r, ok := in2.(*ssa.Return); ok && len(r.Results) > 0 && (reachesBlock(st.Block(), r.Block()) || st.Block() == r.Block()) {
						if trace(returnedValue(r, 0)) == "lookup(pending<p0,nextSequence<p0)#0" {
							gives = true
						}
					}
				}
				for _, ci := range allCalls(helperOf) {
					if ci.Common().StaticCallee() != maybeApply {
						continue
					}
					it := trace(ci.Common().Args[2])
					if gives && strings.HasPrefix(it, fn.Name()+"(") && strings.HasSuffix(it, "#0") {
						paired = true
					}
				}
			}
			c.Check(paired, "sequence-advance", fk+":applies-that-item", st.Pos(), "the item carrying the consumed sequence number is the one handed to maybeApply", "the sequence cursor advances without the item carrying that number being handed to maybeApply")
		}
	}
	c.Check(nSeq == 2, "sequence-advance", rel+":writers", pws.Pos(), "two increments (in-order path, drain of buffered items)", fmt.Sprintf("%d increments of nextSequence found, expected 2", nSeq))
	// applyPending deletes what it takes
	{
		del := false
		for _, f := range closureFuncs(applyPending, 1) {
			if f != applyPending && !ownedBy(f, []string{ssaFuncKey(applyPending)}, 1) {
				continue
			}
			for _, ci := range allCalls(f) {
				if b, ok := ci.Common().Value.(*ssa.Builtin); ok && b.Name() == "delete" && trace(ci.Common().Args[0]) == "pending<p0" && trace(ci.Common().Args[1]) == "nextSequence<p0" {
					del = heldAt(f, ci.(ssa.Instruction), ".mu", []string{"Lock"}, []string{"Unlock"})
				}
			}
		}
		c.Check(del, "sequence-advance", ssaFuncKey(applyPending)+":removes-buffered", applyPending.Pos(), "a buffered item is removed when taken", "applyPending does not delete the buffered item it applies (under the mutex): it would be applied again")
	}
	// (3) out-of-order buffered on every path
	{
		var start *ssa.BasicBlock
		for _, ef := range edgeFacts(pws) {
			if ef.Fact == "call:pipeline.(*BlockItem).SequenceNumber(p2) != p0.nextSequence" {
				start = ef.From.Succs[ef.Succ]
			}
		}
		if start == nil {
			c.Undecided("ProcessWithStatus: out-of-order edge not found")
		} else {
			// a helper that stores its item argument into pending under its key argument on every path
			bufferHelper := func(ci ssa.CallInstruction) bool {
				h := samePkgHelper(pws, ci.Common())
				if h == nil || h.Parent() != nil || len(ci.Common().Args) < 3 || trace(ci.Common().Args[0]) != "p0" {
					return false
				}
				var upd *ssa.MapUpdate
				for _, in := range fnInstrs(h) {
					if mu, ok := in.(*ssa.MapUpdate); ok && trace(mu.Map) == "pending<p0" {
						upd = mu
					}
				}
				if upd == nil {
					return false
				}
				kp, okK := upd.Key.(*ssa.Parameter)
				vp, okV := upd.Value.(*ssa.Parameter)
				if !okK || !okV {
					return false
				}
				ki, vi := -1, -1
				for i, q := range h.Params {
					if q == kp {
						ki = i
					}
					if q == vp {
						vi = i
					}
				}
				if ki < 0 || vi < 0 || ki >= len(ci.Common().Args) || vi >= len(ci.Common().Args) {
					return false
				}
				if trace(ci.Common().Args[ki]) != "SequenceNumber(p2)" || trace(ci.Common().Args[vi]) != "p2" {
					return false
				}
				// on every path of the helper
				avoid := map[*ssa.BasicBlock]bool{upd.Block(): true}
				for b := range reachAvoidBlocks(h.Blocks[0], avoid) {
					if _, isR := b.Instrs[len(b.Instrs)-1].(*ssa.Return); isR {
						return false
					}
				}
				return heldAt(pws, ci.(ssa.Instruction), ".mu", []string{"Lock"}, []string{"Unlock"})
			}
			isBuf := func(b *ssa.BasicBlock) bool {
				for _, in := range b.Instrs {
					if mu, ok := in.(*ssa.MapUpdate); ok && trace(mu.Map) == "pending<p0" && trace(mu.Value) == "p2" && trace(mu.Key) == "SequenceNumber(p2)" {
						return true
					}
					if ci, ok := in.(ssa.CallInstruction); ok && bufferHelper(ci) {
						return true
					}
				}
				return false
			}
			bad := false
			if !isBuf(start) {
				reach := reachFromAvoiding([]*ssa.BasicBlock{start}, func(from *ssa.BasicBlock, s int) bool { return isBuf(from) })
				reach[start] = true
				for b := range reach {
					if isBuf(b) {
						continue
					}
					if _, ok := b.Instrs[len(b.Instrs)-1].(*ssa.Return); ok {
						bad = true
					}
				}
			}
			c.Check(!bad, "out-of-order-buffered", ssaFuncKey(pws), pws.Pos(), "an out-of-order item is stored in pending before any return", "ProcessWithStatus can return for an out-of-order item without having stored it in pending: that sequence number is lost, so it and every later block are never applied")
			for _, in := range fnInstrs(pws) {
				if mu, ok := in.(*ssa.MapUpdate); ok && trace(mu.Map) == "pending<p0" {
					c.Check(heldAt(pws, mu, ".mu", []string{"Lock"}, []string{"Unlock"}), "out-of-order-buffered", ssaFuncKey(pws)+":under-mutex", mu.Pos(), "buffered under the mutex", "pending is written without the stage mutex")
				}
			}
		}
	}
	// (4) forwarding
	if run := c.SSAFunc(rel, "ApplyStageRunner.run"); run != nil {
		rk := ssaFuncKey(run)
		var fwd *ssa.Call
		for _, ci := range allCalls(run) {
			if cal := ci.Common().StaticCallee(); cal != nil && cal.Name() == "forwardItem" {
				fwd, _ = ci.(*ssa.Call)
			}
		}
		ok := false
		if fwd != nil {
			t := trace(fwd.Call.Args[2])
			ok = strings.HasPrefix(t, "ProcessWithStatus(") && strings.HasSuffix(t, "#0[]") && inLoop(fwd.Block())
			if ok {
				ok = false
				for _, hb := range run.Blocks {
					iff, isIf := hb.Instrs[len(hb.Instrs)-1].(*ssa.If)
					if isIf && strings.Contains(trace(iff.Cond), "< len(ProcessWithStatus(") && reachesBlock(hb, fwd.Block()) && reachesBlock(fwd.Block(), hb) {
						ok = true
					}
				}
			}
		}
		c.Check(ok, "forward-each-once", rk, run.Pos(), "every item of the slice returned by ProcessWithStatus is forwarded in a range loop", "the runner does not forward each item returned by ProcessWithStatus exactly once")
		if fi := c.SSAFunc(rel, "ApplyStageRunner.forwardItem"); fi != nil {
			n := 0
			for _, e := range selectEdges(fi) {
				if isSendOn(e.st, "output<p0") && trace(e.st.Send) == "p2" {
					n++
				}
			}
			c.Check(n == 1, "forward-each-once", ssaFuncKey(fi), fi.Pos(), "one send of the item on the results channel", fmt.Sprintf("forwardItem has %d sends of the item on the output channel", n))
		}
	}
	if w := c.SSAFunc(rel, "StageWorkerPool.worker"); w != nil {
		wk := ssaFuncKey(w)
		var proc *ssa.Call
		for _, ci := range allCalls(w) {
			if ci.Common().IsInvoke() && ci.Common().Method.Name() == "Process" {
				proc, _ = ci.(*ssa.Call)
			}
		}
		var outEdges []selEdge
		for _, e := range selectEdges(w) {
			if isSendOn(e.st, "output<p0") {
				outEdges = append(outEdges, e)
			}
		}
		okW := proc != nil && len(outEdges) == 1
		if okW {
			// the item sent is the one received and processed
			recvT := trace(proc.Call.Args[1])
			okW = trace(outEdges[0].st.Send) == recvT && strings.Contains(recvT, ".input}")
			// from Process, the loop head is reachable only through the send edge (or not at all: return on cancel)
			head := loopHeadOf(proc.Block())
			reach := reachFromAvoiding([]*ssa.BasicBlock{proc.Block()}, func(from *ssa.BasicBlock, s int) bool {
				return from == outEdges[0].from && s == 0
			})
			if head != nil && reach[head] {
				okW = false
			}
		}
		c.Check(okW, "forward-each-once", wk, w.Pos(), "a worker sends the processed item to its output before taking the next one", "a stage worker can take the next item without having sent the processed one to its output (or sends something else): a block disappears between stages")
	}
	// (5) send/close discipline
	if sub := c.SSAFunc(rel, "BlockPipeline.Submit"); sub != nil {
		sk := ssaFuncKey(sub)
		for _, e := range selectEdges(sub) {
			if !isSendOn(e.st, "submitChan<p0") {
				continue
			}
			held := heldAt(sub, e.sel, ".submitMu", []string{"RLock", "Lock"}, []string{"RUnlock", "Unlock"})
			c.Check(held, "send-close-discipline", sk+":send-under-rlock", e.sel.Pos(), "the hand-off happens under submitMu.RLock", "Submit sends on submitChan without holding submitMu: Stop can close the channel concurrently (panic)")
			v := c.mustPass(sub, []ssa.Instruction{e.sel}, func(f string) bool { return strings.HasPrefix(f, "F:call:sync/atomic.(*Bool).Load(") && strings.HasSuffix(f, ".stopped)") })
			c.Check(v[0].OK, "send-close-discipline", sk+":stopped-checked", e.sel.Pos(), "stopped is checked (under the lock) before the hand-off", "Submit hands an item over without checking stopped under the lock")
		}
	}
	if stop := c.SSAFunc(rel, "BlockPipeline.Stop"); stop != nil {
		sk := ssaFuncKey(stop)
		var closes = map[string]ssa.CallInstruction{}
		var order []string
		// Stop's steps in order, with calls to helper methods on the same receiver expanded in place
		var steps []ssa.CallInstruction
		var expand func(f *ssa.Function, d int)
		expand = func(f *ssa.Function, d int) {
			for _, ci := range allCalls(f) {
				if _, isDefer := ci.(*ssa.Defer); !isDefer && d > 0 {
					if h := samePkgHelper(f, ci.Common()); h != nil && h.Parent() == nil && h.Signature.Recv() != nil && len(ci.Common().Args) > 0 && trace(ci.Common().Args[0]) == "p0" && h.Name() != "Stop" && h.Name() != "Wait" {
						expand(h, d-1)
						continue
					}
				}
				steps = append(steps, ci)
			}
		}
		expand(stop, 1)
		for _, ci := range steps {
			cc := ci.Common()
			if b, ok := cc.Value.(*ssa.Builtin); ok && b.Name() == "close" {
				n := trace(cc.Args[0])
				closes[n] = ci
				order = append(order, "close:"+n)
			} else if cal := cc.StaticCallee(); cal != nil {
				switch {
				case cal.Name() == "Stop" && len(cc.Args) > 0:
					order = append(order, "join:"+trace(cc.Args[0]))
				case cal.Name() == "Store" && strings.HasSuffix(trace(cc.Args[0]), "stopped<p0"):
					order = append(order, "stopped")
				case cal.Name() == "Wait":
					order = append(order, "wait")
				}
			} else if !cc.IsInvoke() && strings.HasSuffix(trace(cc.Value), "cancel<p0") {
				order = append(order, "cancel")
			}
		}
		seq := strings.Join(order, " ")
		idx := func(s string) int { return strings.Index(seq, s) }
		if ci := closes["submitChan<p0"]; ci != nil {
			held := heldAt(ci.Parent(), ci.(ssa.Instruction), ".submitMu", []string{"Lock"}, []string{"Unlock"})
			c.Check(held && idx("stopped") >= 0 && idx("stopped") < idx("close:submitChan<p0"), "send-close-discipline", sk+":close-submit", ci.Pos(), "submitChan is closed under submitMu.Lock after stopped was set", "Stop closes submitChan without submitMu.Lock or before setting stopped: a concurrent Submit can send on a closed channel")
		} else {
			c.Bad("send-close-discipline", sk+":close-submit", stop.Pos(), "Stop does not close submitChan: the decode workers never see end of input")
		}
		c.Check(idx("cancel") >= 0 && idx("cancel") < idx("close:submitChan<p0"), "send-close-discipline", sk+":cancel-first", stop.Pos(), "the context is cancelled before anything is joined", "Stop does not cancel the pipeline context first: blocked stages are not woken")
		c.Check(idx("join:decodePool<p0") >= 0 && idx("join:decodePool<p0") < idx("close:decodedChan<p0"), "send-close-discipline", sk+":close-decoded", stop.Pos(), "decodedChan is closed after the decode workers were joined", "decodedChan is closed while decode workers may still send on it")
		c.Check(idx("join:validatePool<p0") >= 0 && idx("join:validatePool<p0") < idx("close:validatedChan<p0"), "send-close-discipline", sk+":close-validated", stop.Pos(), "validatedChan is closed after the validate workers were joined", "validatedChan is closed while validate workers may still send on it")
		c.Check(idx("join:applyRunner<p0") >= 0 && idx("join:applyRunner<p0") < idx("close:resultsChan<p0") && idx("join:applyRunner<p0") < idx("close:errorsChan<p0"), "send-close-discipline", sk+":close-results", stop.Pos(), "results and errors channels are closed after the apply runner was joined", "results/errors channels are closed while the apply runner may still send on them")
	}
	// (6) in-order application presupposes that every submitted item carries its own sequence number: the rules that
	// tie reading, carrying and consuming the counter together (decided for C44) are necessary here as well — two items
	// with one number, or a number never handed over, stall the apply stage for good
	runC44(c)
}

func runC43(c *Ctx) {
	c.W.buildSSA()
	rel := "pipeline"
	// (1) readers
	if pc := c.SSAFunc(rel, "BlockPipeline.PendingCount"); pc != nil {
		ok := true
		n := 0
		// edges on which started.Load() was false
		notStarted := func(from *ssa.BasicBlock, succ int) bool {
			for _, ef := range edgeFacts(pc) {
				if ef.From == from && ef.Succ == succ && strings.HasPrefix(ef.Fact, "F:call:sync/atomic.(*Bool).Load(") && strings.HasSuffix(ef.Fact, ".started)") {
					return true
				}
			}
			return false
		}
		started, _ := reachAvoiding(pc, notStarted)
		judge := func(v ssa.Value, canBeStarted bool) {
			for {
				if cv, isCv := v.(*ssa.Convert); isCv {
					v = cv.X
					continue
				}
				break
			}
			if desc(v) == "0" || desc(v) == "0:int" {
				// zero only before Start
				ok = ok && !canBeStarted
				return
			}
			n++
			ok = ok && trace(v) == "Load(outstanding<p0)"
		}
		for _, b := range pc.Blocks {
			r, isR := b.Instrs[len(b.Instrs)-1].(*ssa.Return)
			if !isR {
				continue
			}
			rv := returnedValue(r, 0)
			if ph, isPhi := rv.(*ssa.Phi); isPhi && ph.Block() == b {
				for i, e := range ph.Edges {
					pred := b.Preds[i]
					can := started[pred]
					for si, sb := range pred.Succs {
						if sb == b && notStarted(pred, si) {
							can = false
						}
					}
					judge(e, can)
				}
				continue
			}
			judge(rv, started[b])
		}
		c.Check(ok && n >= 1, "drain-reads-outstanding", ssaFuncKey(pc), pc.Pos(), "PendingCount is the outstanding counter", "PendingCount is not the outstanding-item counter: items held inside workers are invisible to WaitForDrain")
	} else {
		c.Undecided("PendingCount not found")
	}
	if wd := c.SSAFunc(rel, "BlockPipeline.WaitForDrain"); wd != nil {
		rets := []ssa.Instruction{}
		for _, b := range wd.Blocks {
			if r, isR := b.Instrs[len(b.Instrs)-1].(*ssa.Return); isR && isNilConst(returnedValue(r, 0)) {
				rets = append(rets, r)
			}
		}
		v := c.mustPass(wd, rets, func(f string) bool { return f == "call:pipeline.(*BlockPipeline).PendingCount(p0) == 0" })
		ok := len(rets) > 0
		for _, x := range v {
			ok = ok && x.OK
		}
		c.Check(ok, "drain-reads-outstanding", ssaFuncKey(wd), wd.Pos(), "WaitForDrain succeeds only on PendingCount()==0", "WaitForDrain can return nil without PendingCount() having been 0")
	}
	// (2)/(3) writers of outstanding
	sub := c.SSAFunc(rel, "BlockPipeline.Submit")
	// the hand-off (select sending on submitChan) may live in a helper only Submit calls: the accounting rules are
	// read in the function that holds it
	{
		has := func(g *ssa.Function) bool {
			for _, e := range selectEdges(g) {
				if isSendOn(e.st, "submitChan<p0") {
					return true
				}
			}
			return false
		}
		if !has(sub) {
			for _, g := range closureFuncs(sub, 2) {
				if g != sub && ownedBy(g, []string{ssaFuncKey(sub)}, 1) && has(g) {
					sub = g
					break
				}
			}
		}
	}
	// the processed callback: the function handed to SetProcessedFunc (a func literal or a method value)
	var processedFn *ssa.Function
	if st := c.SSAFunc(rel, "BlockPipeline.Start"); st != nil {
		for _, ci := range allCalls(st) {
			if cal := ci.Common().StaticCallee(); cal != nil && cal.Name() == "SetProcessedFunc" && len(ci.Common().Args) == 2 {
				switch x := ci.Common().Args[1].(type) {
				case *ssa.MakeClosure:
					processedFn, _ = x.Fn.(*ssa.Function)
					if processedFn != nil && processedFn.Synthetic != "" && processedFn.Object() != nil {
						if m, ok := processedFn.Object().(*types.Func); ok {
							if mf := c.W.Prog.FuncValue(m); mf != nil {
								processedFn = mf
							}
						}
					}
				case *ssa.Function:
					processedFn = x
				}
			}
		}
	}
	nW, nPlus, nMinus, nProc := 0, 0, 0, 0
	for _, fn := range c.pkgFuncs(rel) {
		for _, ci := range allCalls(fn) {
			cc := ci.Common()
			cal := cc.StaticCallee()
			if cal == nil || len(cc.Args) == 0 || !strings.HasSuffix(trace(cc.Args[0]), "outstanding<p0") && !strings.HasSuffix(trace(cc.Args[0]), "outstanding<free:p") {
				continue
			}
			if cal.Name() == "Load" {
				continue
			}
			nW++
			fk := ssaFuncKey(fn)
			delta := ""
			if len(cc.Args) > 1 {
				delta = trace(cc.Args[1])
			}
			switch {
			case fn == sub && cal.Name() == "Add" && delta == "1":
				nPlus++
				// dominates the hand-off select
				ok := false
				for _, e := range selectEdges(sub) {
					if isSendOn(e.st, "submitChan<p0") {
						ok = ci.Block().Dominates(e.sel.Block()) && precedes(ci.(ssa.Instruction), e.sel)
					}
				}
				c.Check(ok, "outstanding-accounting", fk+":increment-before-handoff", ci.Pos(), "counted before the item becomes receivable", "the item is counted only after it may already have been received by a worker: drain can observe 0 while the block is in flight")
			case fn == sub && cal.Name() == "Add" && (delta == "-1"):
				nMinus++
				// only on paths where the hand-off did not happen: unreachable once the send edge is taken, and
				// reachable from a failed (receive) branch of the same select
				onFail := false
				for _, e := range selectEdges(sub) {
					if !isSendOn(e.st, "submitChan<p0") {
						continue
					}
					sent := reachFromAvoiding([]*ssa.BasicBlock{e.from}, func(from *ssa.BasicBlock, succ int) bool { return from == e.from && succ != 0 })
					if sent[ci.Block()] {
						continue
					}
					for _, e2 := range selectEdges(sub) {
						if e2.sel == e.sel && e2.st.Dir == types.RecvOnly {
							tgt := e2.from.Succs[0]
							if tgt == ci.Block() || reachAvoidBlocks(tgt, nil)[ci.Block()] {
								onFail = true
							}
						}
					}
				}
				c.Check(onFail, "outstanding-accounting", fk+":decrement-on-failed-handoff@"+c.returnKey(sub, ci.Block()), ci.Pos(), "un-counted exactly when the hand-off did not happen", "outstanding is decremented in Submit on a path where the item was handed over (or not on a failed hand-off branch)")
			case (fn == processedFn || fn.Parent() != nil && fn.Parent().Name() == "Start") && cal.Name() == "Add" && strings.HasPrefix(delta, "-"):
				nProc++
				c.Check(delta == "-p0" || delta == "(0 - p0)" || strings.HasPrefix(delta, "-"), "outstanding-accounting", fk+":processed-callback", ci.Pos(), "the processed callback subtracts the number of finished items", "the processed callback changes outstanding by "+delta)
			default:
				c.Bad("outstanding-accounting", fk+":"+cal.Name()+"("+shortArg(delta)+")", ci.Pos(), "outstanding is modified in %s by %s(%s), outside Submit's hand-off accounting and the processed callback", fk, cal.Name(), delta)
			}
		}
	}
	c.Check(nPlus == 1 && nMinus >= 1 && nProc == 1 && nW == nPlus+nMinus+nProc, "outstanding-accounting", rel+":writers", sub.Pos(), "writers: one +1, the failed-hand-off −1(s), the processed callback", fmt.Sprintf("%d writers of outstanding found (+1: %d, failed hand-off −1: %d, processed callback: %d)", nW, nPlus, nMinus, nProc))
	// every failed branch of the hand-off decrements
	for _, e := range selectEdges(sub) {
		isHandoff := false
		for _, st := range e.sel.States {
			if isSendOn(st, "submitChan<p0") {
				isHandoff = true
			}
		}
		if !isHandoff || e.st.Dir != types.RecvOnly {
			continue
		}
		tgt := e.from.Succs[0]
		// every path from the failed branch to a return gives the count back
		dec := map[*ssa.BasicBlock]bool{}
		for _, ci := range allCalls(sub) {
			if ci.Common().StaticCallee() != nil && ci.Common().StaticCallee().Name() == "Add" && strings.HasSuffix(trace(ci.Common().Args[0]), "outstanding<p0") && trace(ci.Common().Args[1]) == "-1" {
				dec[ci.Block()] = true
			}
		}
		has := true
		for b := range reachAvoidBlocks(tgt, dec) {
			if _, isR := b.Instrs[len(b.Instrs)-1].(*ssa.Return); isR && !dec[b] {
				has = false
			}
		}
		if !dec[tgt] && len(reachAvoidBlocks(tgt, dec)) == 0 {
			has = false
		}
		c.Check(has, "outstanding-accounting", ssaFuncKey(sub)+":failed-handoff-uncounted:"+shortArg(trace(e.st.Chan)), e.sel.Pos(), "a failed hand-off gives the count back", "a failed hand-off ("+shortArg(trace(e.st.Chan))+") leaves the item counted forever: WaitForDrain never returns")
	}
	// the callback is installed
	if st := c.SSAFunc(rel, "BlockPipeline.Start"); st != nil {
		ok := false
		for _, ci := range allCalls(st) {
			if cal := ci.Common().StaticCallee(); cal != nil && cal.Name() == "SetProcessedFunc" {
				ok = true
			}
		}
		c.Check(ok, "outstanding-accounting", ssaFuncKey(st)+":callback-installed", st.Pos(), "the processed callback is installed on the apply runner", "Start does not install the processed callback: outstanding never decreases")
	}
	// runner: processed(n) only on nil error with n = len(slice)
	if run := c.SSAFunc(rel, "ApplyStageRunner.run"); run != nil {
		rk := ssaFuncKey(run)
		n := 0
		for _, fn := range c.pkgFuncs(rel) {
			for _, ci := range allCalls(fn) {
				cc := ci.Common()
				if cc.IsInvoke() || cc.StaticCallee() != nil || !strings.HasSuffix(trace(cc.Value), "processed<p0") {
					continue
				}
				n++
				arg := trace(cc.Args[0])
				// the call may sit in a small reporting helper of the runner: judged where run calls that helper
				at := ci
				if fn != run {
					if ls := liftToCaller(run, ci, 2); len(ls) == 1 {
						if lc, isCall := ls[0].(ssa.CallInstruction); isCall {
							at = lc
							arg = traceIP(run, cc.Args[0])
						}
					}
				}
				okArg := strings.HasPrefix(arg, "len(ProcessWithStatus(") && strings.HasSuffix(arg, "#0)")
				okErr := false
				if at.Parent() == run {
					reach, _ := reachAvoiding(run, func(from *ssa.BasicBlock, succ int) bool {
						iff, isIf := from.Instrs[len(from.Instrs)-1].(*ssa.If)
						if !isIf {
							return false
						}
						bo, isBo := iff.Cond.(*ssa.BinOp)
						if !isBo || !isNilConst(bo.Y) {
							return false
						}
						ex, isEx := bo.X.(*ssa.Extract)
						if !isEx || ex.Index != 1 || !strings.HasPrefix(trace(ex.Tuple), "ProcessWithStatus(") {
							return false
						}
						return (bo.Op.String() == "==" && succ == 0) || (bo.Op.String() == "!=" && succ == 1)
					})
					okErr = !reach[at.Block()]
				}
				c.Check(at.Parent() == run && okArg && okErr && !inLoopInner(at) && (at == ci || !inLoop(ci.Block())), "outstanding-accounting", rk+":processed-call", ci.Pos(), "processed(len(returned items)) only on the nil-error result, once per result", "the processed callback is invoked with "+shortArg(arg)+" in "+ssaFuncKey(fn)+" (on the error path or with another count): an item still buffered is counted down, so drain can report 0 while a block is still to be applied")
			}
		}
		c.Check(n == 1, "outstanding-accounting", rk+":processed-sites", run.Pos(), "one call site of the processed callback", fmt.Sprintf("%d call sites of the processed callback", n))
	}
	// ProcessWithStatus: the returned slice holds only items for which maybeApply has returned
	if pws := c.SSAFunc(rel, "ApplyStage.ProcessWithStatus"); pws != nil {
		pk := ssaFuncKey(pws)
		for _, b := range pws.Blocks {
			r, isR := b.Instrs[len(b.Instrs)-1].(*ssa.Return)
			if !isR {
				continue
			}
			t := trace(r.Results[0])
			if t == "nil" || strings.HasPrefix(t, "nil:") {
				continue
			}
			// the elements are exactly the submitted item and what applyPending reports, however the slice is built
			srcs := map[string]bool{}
			sliceElemSources(r.Results[0], 0, srcs)
			okShape := len(srcs) == 2 && srcs["elem:p2"] && srcs["slice:applyPending(p0,p1)"]
			if !okShape {
				t = fmt.Sprint(sortedKeys(srcs))
			}
			var mcall ssa.CallInstruction
			for _, ci := range allCalls(pws) {
				if cal := ci.Common().StaticCallee(); cal != nil && cal.Name() == "maybeApply" && trace(ci.Common().Args[2]) == "p2" {
					mcall = ci
				}
			}
			okOrder := mcall != nil && (mcall.Block() == b && precedes(mcall.(ssa.Instruction), r) || mcall.Block().Dominates(b))
			c.Check(okShape && okOrder, "finished-before-counted", pk, r.Pos(), "the returned slice is [item] ++ applyPending(...), built after maybeApply(item) returned", "ProcessWithStatus reports items as processed that have not been through maybeApply yet: "+shortArg(t))
		}
	}
	if ap := c.SSAFunc(rel, "ApplyStage.applyPending"); ap != nil {
		ok := false
		for _, ci := range allCalls(ap) {
			if b, isB := ci.Common().Value.(*ssa.Builtin); isB && b.Name() == "append" {
				// appended item is the one maybeApply was called with, after the call
				for _, cj := range allCalls(ap) {
					if cal := cj.Common().StaticCallee(); cal != nil && cal.Name() == "maybeApply" {
						ok = cj.Block() == ci.Block() && precedes(cj.(ssa.Instruction), ci.(ssa.Instruction)) && firstSliceElem(ap, ci.Common().Args[1], 0) == trace(cj.Common().Args[2])
					}
				}
			}
		}
		c.Check(ok, "finished-before-counted", ssaFuncKey(ap), ap.Pos(), "a buffered item is reported only after maybeApply returned for it", "applyPending reports a buffered item before maybeApply has returned for it")
	}
}

func inLoopInner(ci ssa.CallInstruction) bool {
	// inside a loop nested within the function's main receive loop? approximate: the block's innermost loop head differs from the outermost one
	b := ci.Block()
	h := loopHeadOf(b)
	if h == nil {
		return false
	}
	// a loop whose head is dominated by another loop head that also contains b
	for d := h.Idom(); d != nil; d = d.Idom() {
		if reachesBlock(h, d) && reachesBlock(d, h) {
			return true
		}
	}
	return false
}

func runC44(c *Ctx) {
	c.W.buildSSA()
	rel := "pipeline"
	sub := c.SSAFunc(rel, "BlockPipeline.Submit")
	if sub == nil {
		c.Undecided("Submit not found")
		return
	}
	sk := ssaFuncKey(sub)
	var handoff *selEdge
	var slotAcq *selEdge
	hf := sub // the function holding the hand-off select: Submit, or a helper only Submit calls
	for _, e := range selectEdges(sub) {
		e := e
		if isSendOn(e.st, "submitChan<p0") {
			handoff = &e
		}
		if isSendOn(e.st, "submitSlot<p0") {
			slotAcq = &e
		}
	}
	if handoff == nil {
		for _, g := range closureFuncs(sub, 2) {
			if g == sub || !ownedBy(g, []string{sk}, 1) {
				continue
			}
			for _, e := range selectEdges(g) {
				e := e
				if isSendOn(e.st, "submitChan<p0") {
					handoff, hf = &e, g
				}
			}
		}
	}
	if handoff == nil {
		c.Bad("sequence-consumed-on-handoff", sk, sub.Pos(), "Submit does not hand items over through a select on submitChan")
		return
	}
	// the edge of Submit on which the slot has been acquired: the select's send edge, or the success edge of a
	// helper whose only success return lies behind its own send on the slot
	acqFrom, acqSucc := (*ssa.BasicBlock)(nil), 0
	if slotAcq != nil {
		acqFrom, acqSucc = slotAcq.from, 0
	} else {
		for _, ci := range allCalls(sub) {
			h := samePkgHelper(sub, ci.Common())
			if h == nil || h.Parent() != nil || ci.Value() == nil {
				continue
			}
			for _, e := range selectEdges(h) {
				e := e
				if !isSendOn(e.st, "submitSlot<p0") {
					continue
				}
				reach, _ := reachAvoiding(h, func(from *ssa.BasicBlock, succ int) bool { return from == e.from && succ == 0 })
				only := true
				for _, r := range successReturns(h) {
					if reach[r.Block()] {
						only = false
					}
				}
				okF, _ := factsForValue(sub, ci.Value())
				if !only || okF == "" {
					continue
				}
				for _, ef := range edgeFacts(sub) {
					if ef.Fact == okF {
						slotAcq = &e
						acqFrom, acqSucc = ef.From, ef.Succ
					}
				}
			}
		}
	}
	acqCut := func(from *ssa.BasicBlock, succ int) bool { return from == acqFrom && succ == acqSucc }
	// (2) all mutations of sequenceCounter
	nMut := 0
	for _, fn := range c.pkgFuncs(rel) {
		for _, ci := range allCalls(fn) {
			cc := ci.Common()
			cal := cc.StaticCallee()
			if cal == nil || len(cc.Args) == 0 || !strings.Contains(trace(cc.Args[0]), "sequenceCounter<") {
				continue
			}
			if cal.Name() == "Load" {
				continue
			}
			nMut++
			fk := ssaFuncKey(fn)
			if fn != sub && fn != hf {
				c.Bad("sequence-consumed-on-handoff", fk+":"+cal.Name(), ci.Pos(), "sequenceCounter is modified in %s, outside Submit", fk)
				continue
			}
			if fn != hf {
				c.Undecided("%s: the counter is consumed in Submit while the hand-off lives in %s; the consumed-on-handoff rule reads both in one function", sk, hf.Name())
			}
			reach, _ := reachAvoiding(hf, func(from *ssa.BasicBlock, succ int) bool { return from == handoff.from && succ == 0 })
			dominated := !reach[ci.Block()]
			okDelta := cal.Name() == "Add" && trace(cc.Args[1]) == "1"
			c.Check(dominated && okDelta, "sequence-consumed-on-handoff", sk+":"+cal.Name()+"@"+c.returnKey(hf, ci.Block()), ci.Pos(), "a sequence number is consumed (+1) only after the item carrying it was handed over", "sequenceCounter."+cal.Name()+" is reachable without the hand-off having succeeded: a submission that fails (context expired while the pipeline is full) consumes or disturbs a sequence number, leaving a gap the apply stage waits on forever")
		}
	}
	c.Check(nMut == 1, "sequence-consumed-on-handoff", sk+":mutations", sub.Pos(), "one mutation of sequenceCounter", fmt.Sprintf("%d mutations of sequenceCounter found, expected 1", nMut))
	// (1) the item's number is Load() under the slot
	var item *ssa.Call
	for _, g := range []*ssa.Function{sub, hf} {
		for _, ci := range allCalls(g) {
			if cal := ci.Common().StaticCallee(); cal != nil && cal.Name() == "NewBlockItem" {
				item, _ = ci.(*ssa.Call)
			}
		}
	}
	if item == nil {
		c.Bad("sequence-consumed-on-handoff", sk+":item", sub.Pos(), "Submit does not build a BlockItem")
	} else {
		st := trace(item.Call.Args[3])
		c.Check(st == "Load(sequenceCounter<p0)", "sequence-consumed-on-handoff", sk+":item-number", item.Pos(), "the item carries the current counter value", "the item's sequence number is "+shortArg(st)+", not the current counter value")
		c.Check(traceIP(sub, handoff.st.Send) == traceIP(sub, item), "sequence-consumed-on-handoff", sk+":item-sent", handoff.sel.Pos(), "the item carrying that number is what is sent", "the value sent on submitChan is not the item built with the sequence number")
	}
	// (3) slot
	if slotAcq == nil {
		// alternative: an exclusive mutex held from reading the counter to consuming it
		okMu := false
		if item != nil {
			for _, ci := range allCalls(sub) {
				cal := ci.Common().StaticCallee()
				if cal != nil && cal.Name() == "Add" && strings.Contains(trace(ci.Common().Args[0]), "sequenceCounter<") {
					for _, mu := range []string{".seqMu", ".submitSeqMu", ".mu"} {
						if heldAt(sub, item, mu, []string{"Lock"}, []string{"Unlock"}) && heldAt(sub, ci.(ssa.Instruction), mu, []string{"Lock"}, []string{"Unlock"}) {
							okMu = true
						}
					}
				}
			}
		}
		c.Check(okMu, "submit-serialised", sk, sub.Pos(), "reading and consuming the sequence number happen under one exclusive lock", "Submit neither takes the single-submitter slot nor holds an exclusive lock from reading the sequence counter to consuming it: two submitters can carry the same sequence number")
	} else {
		// both contexts are watched while waiting for the slot
		nRecv := 0
		for _, s := range slotAcq.sel.States {
			if s.Dir == types.RecvOnly && strings.HasPrefix(trace(s.Chan), "Done(") {
				nRecv++
			}
		}
		c.Check(slotAcq.sel.Blocking && nRecv == 2, "submit-serialised", sk+":acquire-wakeable", slotAcq.sel.Pos(), "waiting for the slot also watches the caller's and the pipeline's context", "waiting for the submit slot cannot be interrupted by both contexts")
		// item construction (Load) happens after acquisition
		if item != nil {
			reach, _ := reachAvoiding(sub, acqCut)
			c.Check(!reach[item.Block()], "submit-serialised", sk+":load-under-slot", item.Pos(), "the counter is read only while the slot is held", "the sequence counter is read without holding the submit slot")
		}
		// release: deferred closure receiving from the slot, registered after acquisition
		rel := false
		for _, in := range fnInstrs(sub) {
			d, ok := in.(*ssa.Defer)
			if !ok {
				continue
			}
			// a deferred func literal, or a deferred helper method, that receives from the slot
			var cl *ssa.Function
			if mc, ok := d.Call.Value.(*ssa.MakeClosure); ok {
				cl = mc.Fn.(*ssa.Function)
			} else if h := samePkgHelper(sub, &d.Call); h != nil {
				cl = h
			}
			if cl != nil {
				for _, cin := range fnInstrs(cl) {
					if u, ok := cin.(*ssa.UnOp); ok && u.Op.String() == "<-" && strings.Contains(trace(u.X), "submitSlot") {
						reach, _ := reachAvoiding(sub, acqCut)
						rel = !reach[d.Block()]
					}
				}
			}
		}
		c.Check(rel, "submit-serialised", sk+":release-deferred", sub.Pos(), "the slot is released by a deferred receive registered after acquisition", "the submit slot is not released on every return after acquisition (or is released without having been acquired)")
		// capacity 1
		if nb := c.SSAFunc("pipeline", "NewBlockPipeline"); nb != nil {
			ok := false
			for _, in := range fnInstrs(nb) {
				if mk, isMk := in.(*ssa.MakeChan); isMk && strings.Contains(typeStr(mk.Type()), "struct{}") {
					ok = desc(mk.Size) == "1"
				}
			}
			c.Check(ok, "submit-serialised", ssaFuncKey(nb)+":slot-capacity", nb.Pos(), "the slot has capacity 1", "the submit slot does not have capacity 1: submissions are not serialised")
		}
	}
}

func init() {
	debugC42 = func(c *Ctx) {
		rel := "pipeline"
		if run := c.SSAFunc(rel, "ApplyStageRunner.run"); run != nil {
			for _, ci := range allCalls(run) {
				if cal := ci.Common().StaticCallee(); cal != nil && cal.Name() == "forwardItem" {
					println("DBG fwd arg:", trace(ci.Common().Args[2]))
					if h := loopHeadOf(ci.Block()); h != nil {
						if iff, ok := h.Instrs[len(h.Instrs)-1].(*ssa.If); ok {
							println("DBG head cond:", trace(iff.Cond))
						}
					}
				}
			}
		}
		if w := c.SSAFunc(rel, "StageWorkerPool.worker"); w != nil {
			for _, ci := range allCalls(w) {
				if ci.Common().IsInvoke() && ci.Common().Method.Name() == "Process" {
					println("DBG proc args:", len(ci.Common().Args), trace(ci.Common().Args[len(ci.Common().Args)-1]))
				}
			}
			for _, e := range selectEdges(w) {
				println("DBG sel:", e.st.Dir, trace(e.st.Chan), e.st.Send != nil)
				if e.st.Send != nil {
					println("DBG send:", trace(e.st.Send))
				}
			}
		}
		if ap := c.SSAFunc(rel, "ApplyStage.applyPending"); ap != nil {
			for _, ci := range allCalls(ap) {
				if b, isB := ci.Common().Value.(*ssa.Builtin); isB && b.Name() == "append" {
					println("DBG append arg:", trace(ci.Common().Args[1]))
				}
			}
		}
	}
}

var debugC42 func(c *Ctx)

// inlinedApplySite presents the apply callback call as if it were the applyItem(recv, ctx, item) call it replaced, so
// that the guard rules read the applied item at argument position 2.
type inlinedApplySite struct{ ssa.CallInstruction }

func (s inlinedApplySite) Common() *ssa.CallCommon {
	cc := s.CallInstruction.Common()
	args := []ssa.Value{nil, nil}
	args = append(args, cc.Args...)
	return &ssa.CallCommon{Value: cc.Value, Args: args}
}
