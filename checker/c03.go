package main

import (
	"fmt"
	"go/ast"
	"go/types"
	"regexp"
	"strings"

	"golang.org/x/tools/go/packages"
	"golang.org/x/tools/go/ssa"
)

func init() {
	register(&Prop{
		ID:        "C03",
		Technique: "finite abstraction over the CBOR header byte (256 values, path-sensitive) + def-use rules on variant decoders",
		Explanation: "(a) In package cbor every function that returns a byte of its []byte parameter read at an index other than 0 (a 'raw read' that bypasses the decoder) is analysed for all 256 values of parameter[0]: the raw read may be reachable only for header bytes whose array header is exactly one byte (0x80..0x97 and the indefinite marker 0x9f); the index must be a constant or derive from the bytes, never from a header size assumed from an element count. " +
			"(b) every variant decoder obtains the id from DecodeIdFromList/DecodeById applied to its own data parameter and decodes that same value; (c) every switch over such an id has a default that returns an error. The CBOR major-type-4 header grammar is the oracle.",
		Assumptions: []string{"cbor.Decode into Value/[]any follows RFC 8949 for all length encodings (fxamacker/cbor contract)"},
		Run:         runC03,
	})
}

var rawReadRe = regexp.MustCompile(`^p(\d+)\[(.+)\]$`)

func countToSizeCall(v ssa.Value, depth int) string {
	if depth > 8 || v == nil {
		return ""
	}
	switch x := v.(type) {
	case *ssa.Call:
		cn := calleeName(&x.Call)
		if strings.HasSuffix(cn, ".ArrayHeaderSize") || strings.HasSuffix(cn, ".cborArrayHeaderSize") || strings.HasSuffix(cn, ".MapHeaderSize") {
			return cn
		}
		for _, a := range x.Call.Args {
			if r := countToSizeCall(a, depth+1); r != "" {
				return r
			}
		}
	case *ssa.BinOp:
		if r := countToSizeCall(x.X, depth+1); r != "" {
			return r
		}
		return countToSizeCall(x.Y, depth+1)
	case *ssa.Convert:
		return countToSizeCall(x.X, depth+1)
	case *ssa.ChangeType:
		return countToSizeCall(x.X, depth+1)
	case *ssa.Phi:
		for _, e := range x.Edges {
			if r := countToSizeCall(e, depth+1); r != "" {
				return r
			}
		}
	case *ssa.Extract:
		return countToSizeCall(x.Tuple, depth+1)
	}
	return ""
}

func runC03(c *Ctx) {
	oneByte := func(v int64) bool { return v >= 0x80 && v <= 0x97 || v == 0x9f }
	nRaw := 0
	// id extractors: DecodeIdFromList/DecodeById and what they call inside package cbor
	extract := map[*ssa.Function]bool{}
	var addFn func(f *ssa.Function)
	addFn = func(f *ssa.Function) {
		if f == nil || extract[f] || f.Pkg == nil || relPkg(f.Pkg.Pkg.Path()) != "cbor" {
			return
		}
		extract[f] = true
		for _, ci := range allCalls(f) {
			addFn(ci.Common().StaticCallee())
		}
	}
	addFn(c.SSAFunc("cbor", "DecodeIdFromList"))
	addFn(c.SSAFunc("cbor", "DecodeById"))
	c.Note("id-extractor closure in package cbor: %d functions", len(extract))
	for _, fn := range c.pkgFuncs("cbor") {
		if fn.Parent() != nil || !extract[fn] {
			continue
		}
		for _, b := range fn.Blocks {
			r, ok := b.Instrs[len(b.Instrs)-1].(*ssa.Return)
			if !ok {
				continue
			}
			for _, res := range r.Results {
				m := rawReadRe.FindStringSubmatch(desc(res))
				if m == nil || m[2] == "0" {
					continue
				}
				// parameter must be a byte slice
				pi := 0
				fmt.Sscanf(m[1], "%d", &pi)
				if pi >= len(fn.Params) || !strings.HasPrefix(typeStr(fn.Params[pi].Type()), "[]") {
					continue
				}
				nRaw++
				key := fmt.Sprintf("%s:p%d[%s]", ssaFuncKey(fn), pi, m[2])
				// index source
				var idxV ssa.Value
				if ia := findIndexAddr(res, 0); ia != nil {
					idxV = ia.Index
				}
				if idxV != nil {
					if src := countToSizeCall(idxV, 0); src != "" {
						c.Bad("raw-read-index", key, r.Pos(), "raw read at an offset computed by %s, a header size assumed from an element count: wrong whenever the length is not minimally encoded", src)
						continue
					}
				}
				atom := fmt.Sprintf("p%d[0]", pi)
				var badVals []string
				for v := int64(0); v < 256; v++ {
					reach := psReachVal(fn, []*ssa.BasicBlock{fn.Blocks[0]}, nil, map[string]int64{atom: v})
					if reach[b] && !oneByte(v) {
						badVals = append(badVals, fmt.Sprintf("%#x", v))
					}
				}
				if len(badVals) > 8 {
					badVals = append(badVals[:8], fmt.Sprintf("… %d values", len(badVals)))
				}
				c.Check(len(badVals) == 0, "raw-read-header", key, r.Pos(), "the raw read is reachable only for one-byte array headers (0x80..0x97, 0x9f); all 256 header bytes enumerated",
					"the raw read of byte ["+m[2]+"] is reachable when the header byte is "+strings.Join(badVals, ",")+", whose array header is longer than one byte: the byte read is part of the length, not the first element")
			}
		}
	}
	// an id extractor may also decode the first item from data[off:]: off must then be the header width actually
	// present, for every initial byte (evaluated like the header readers of C07)
	for fn := range extract {
		if fn.Parent() != nil {
			continue
		}
		for _, ci := range allCalls(fn) {
			cn := calleeName(ci.Common())
			if cn != "cbor.Decode" && cn != "cbor.DecodeGeneric" && cn != "cbor.NewStreamDecoder" || len(ci.Common().Args) == 0 {
				continue
			}
			sl, ok := ci.Common().Args[0].(*ssa.Slice)
			if !ok || sl.Low == nil {
				continue
			}
			if _, isParam := rootValue(sl.X, 0).(*ssa.Parameter); !isParam {
				continue
			}
			key := ssaFuncKey(fn) + ":first-item-offset"
			nRaw++
			if k, isK := sl.Low.(*ssa.Const); isK {
				if k.Value != nil && k.Int64() == 0 {
					continue
				}
				// a constant offset is right only where the header is that long: same enumeration as a raw read
				atom := "p0[0]"
				var badVals []string
				for v := int64(0); v < 256; v++ {
					reach := psReachVal(fn, []*ssa.BasicBlock{fn.Blocks[0]}, nil, map[string]int64{atom: v})
					if reach[ci.Block()] && !(oneByte(v) && k.Int64() == 1) {
						badVals = append(badVals, fmt.Sprintf("%#x", v))
					}
				}
				if len(badVals) > 8 {
					badVals = append(badVals[:8], fmt.Sprintf("… %d values", len(badVals)))
				}
				c.Check(len(badVals) == 0, "raw-read-header", key, ci.Pos(), "the first item is decoded at byte 1 only for one-byte headers", "the first item is decoded from byte "+k.Value.String()+" on also when the header byte is "+strings.Join(badVals, ","))
				continue
			}
			var h *ssa.Function
			hidx := 0
			switch x := sl.Low.(type) {
			case *ssa.Extract:
				if cl, isCall := x.Tuple.(*ssa.Call); isCall {
					h, hidx = cl.Call.StaticCallee(), x.Index
				}
			case *ssa.Call:
				h = x.Call.StaticCallee()
			}
			if h == nil || len(h.Blocks) == 0 || len(h.Params) == 0 {
				c.Undecided("%s: the offset of the first list item (%s) is not a constant or the result of a function over the data", key, shortArg(trace(sl.Low)))
				continue
			}
			wrong, undec := headerWidthVerdict(h, hidx, 4)
			if undec != "" {
				c.Undecided("%s: the offset %s returns for initial byte %s is not a constant this checker can evaluate", key, h.Name(), undec)
				continue
			}
			if len(wrong) > 6 {
				wrong = append(wrong[:6], fmt.Sprintf("… %d initial bytes", len(wrong)))
			}
			c.Check(len(wrong) == 0, "raw-read-header", key, ci.Pos(), "the first item is decoded behind the header width actually present (all 256 initial bytes)", "the first item is decoded at the offset "+h.Name()+" returns, which is not the header width for initial byte "+strings.Join(wrong, ", ")+": a byte of the length field is decoded as the tag")
		}
	}
	// vacuity guard: if the id extractors still index their byte parameter beyond [0] but no raw read was recognised, say so
	nIdx := 0
	for fn := range extract {
		for _, b := range fn.Blocks {
			for _, in := range b.Instrs {
				if ia, ok := in.(*ssa.IndexAddr); ok {
					if _, isP := ia.X.(*ssa.Parameter); isP && desc(ia.Index) != "0" {
						nIdx++
					}
				}
			}
		}
	}
	if nRaw == 0 && nIdx > 0 {
		c.Undecided("id extractors index their byte parameter at %d places but no raw-read return was recognised", nIdx)
	}
	if nRaw == 0 {
		c.Ok("raw-read-header", "cbor:none", 0, "no raw-read fast path exists in the id extractors: ids always come from the generic decoder")
	}

	// (b)+(c) variant decoders, module-wide
	nSites := 0
	c.eachFuncDecl(nil, func(p *packages.Package, fd *ast.FuncDecl, obj *types.Func) {
		if relPkg(p.PkgPath) == "cbor" {
			return
		}
		fn := c.SSAOf(obj)
		if fn == nil {
			return
		}
		for _, f := range withAnon(fn) {
			for _, ci := range allCalls(f) {
				cn := calleeName(ci.Common())
				if cn != "cbor.DecodeIdFromList" && cn != "cbor.DecodeById" {
					continue
				}
				nSites++
				key := ssaFuncKey(f)
				arg := ci.Common().Args[0]
				ad := desc(arg)
				// id source: own data
				okSrc := isDataParam(arg) || strings.HasSuffix(ad, ".Cbor()") || strings.Contains(ad, "call:") && strings.Contains(ad, ".Cbor(") || regexp.MustCompile(`^p\d+`).MatchString(ad) || strings.Contains(ad, "RawMessage") || strings.HasPrefix(ad, "alloc:") || strings.HasPrefix(ad, "phi(") || strings.HasPrefix(ad, "next(")
				c.Check(okSrc, "variant-id-source", key+":"+cn, ci.Pos(), "id read from "+ad, "variant id is read from "+ad)
				if cn == "cbor.DecodeIdFromList" {
					// the same bytes are decoded afterwards
					// (directly, element-wise from a decode of those same bytes, or through a stream decoder over them):
					// the root object of the id source must also be an operand of some decode call in the function
					same := false
					any := false
					idRoot := rootValue(arg, 0)
					for _, cj := range allCalls(f) {
						dn := calleeName(cj.Common())
						if dn == "cbor.Decode" || dn == "cbor.DecodeGeneric" || dn == "cbor.DecodeLenient" || dn == "cbor.NewStreamDecoder" || dn == "cbor.DecodeById" {
							any = true
							for _, a := range cj.Common().Args {
								if rootValue(a, 0) == idRoot {
									same = true
								}
							}
						}
					}
					if any {
						c.Check(same, "variant-same-bytes", key, ci.Pos(), "the variant is decoded from the bytes the id was read from", "the id is read from "+ad+" but a different value is decoded as the variant")
					}
				}
			}
		}
		// (c) switch on the id with erroring default
		ast.Inspect(fd.Body, func(n ast.Node) bool {
			as, ok := n.(*ast.AssignStmt)
			if !ok || len(as.Rhs) != 1 {
				return true
			}
			call, ok := as.Rhs[0].(*ast.CallExpr)
			if !ok {
				return true
			}
			cf := calleeOf(p.TypesInfo, call)
			if cf == nil || funcKey(cf) != "cbor.DecodeIdFromList" || len(as.Lhs) < 1 {
				return true
			}
			idIdent, ok := as.Lhs[0].(*ast.Ident)
			if !ok {
				return true
			}
			idObj := p.TypesInfo.ObjectOf(idIdent)
			ast.Inspect(fd.Body, func(m ast.Node) bool {
				sw, ok := m.(*ast.SwitchStmt)
				if !ok || sw.Tag == nil {
					return true
				}
				tid, ok := unparen(sw.Tag).(*ast.Ident)
				if !ok || p.TypesInfo.ObjectOf(tid) != idObj {
					return true
				}
				// the default must leave the function (with an error, or with an explicit
				// 'unknown' wrapper value): it must not fall through to the shared decode
				// of a named variant
				hasDef, defLeaves := false, false
				for _, s := range sw.Body.List {
					cc := s.(*ast.CaseClause)
					if cc.List != nil {
						continue
					}
					hasDef = true
					for _, st := range cc.Body {
						if _, ok := st.(*ast.ReturnStmt); ok {
							defLeaves = true
						}
					}
				}
				c.Check(hasDef && defLeaves, "variant-switch-total", funcKey(obj), sw.Pos(), "ids outside the table leave through the default (error or explicit unknown-variant value)", "switch over the variant id has no default that returns: an unknown tag falls through and is treated like a known variant")
				return true
			})
			return true
		})
	})
	if nSites < 20 {
		c.Undecided("only %d DecodeIdFromList/DecodeById call sites found (22 confirmed by hand)", nSites)
	}
	// (d) outside package cbor nobody steps over a container header by a byte count of their own: a constant
	// StreamDecoder.Advance, or a decode of data[k:] with a constant k ≥ 1, assumes the header is k bytes long and reads
	// a length byte as the first element whenever the length is not minimally encoded
	nSkip := 0
	for _, p := range c.W.Pkgs {
		rel := relPkg(p.PkgPath)
		if rel == "cbor" || strings.HasPrefix(rel, "internal") || strings.HasPrefix(rel, "cmd") {
			continue
		}
		for _, fn := range c.pkgFuncs(rel) {
			for _, ci := range allCalls(fn) {
				cn := calleeName(ci.Common())
				switch {
				case cn == "cbor.(*StreamDecoder).Advance":
					nSkip++
					arg := ci.Common().Args[len(ci.Common().Args)-1]
					_, isConst := arg.(*ssa.Const)
					fromHeader := strings.Contains(trace(arg), "DecodeArrayHeader(") || strings.Contains(trace(arg), "DecodeMapHeader(")
					c.Check(!isConst && fromHeader, "header-skip", ssaFuncKey(fn)+":Advance", ci.Pos(), "the stream is advanced by the header length the decoder reported",
						"the stream decoder is advanced by "+shortArg(trace(arg))+" bytes to step over a container header: the header is assumed to have that size, so with a non-minimal length encoding a length byte is decoded as the first element (the tag)")
				case cn == "cbor.Decode" || cn == "cbor.DecodeGeneric" || cn == "cbor.DecodeLenient" || cn == "cbor.NewStreamDecoder" || cn == "cbor.DecodeIdFromList":
					if len(ci.Common().Args) == 0 {
						continue
					}
					sl, isSl := ci.Common().Args[0].(*ssa.Slice)
					if !isSl || sl.Low == nil {
						continue
					}
					k, isK := sl.Low.(*ssa.Const)
					if !isK || k.Value == nil || k.Int64() < 1 {
						continue
					}
					// only bytes that hold a whole encoded item: a parameter or stored encoding
					root := rootValue(sl.X, 0)
					_, isParam := root.(*ssa.Parameter)
					if !isParam && !strings.Contains(trace(sl.X), "Cbor(") {
						continue
					}
					if !strings.HasPrefix(typeStr(sl.X.Type()), "[]byte") && !strings.HasPrefix(typeStr(sl.X.Type()), "[]uint8") {
						continue
					}
					// what is read there must be a tag: an integer destination (or the id extractor itself)
					if cn != "cbor.DecodeIdFromList" {
						isTag := false
						if len(ci.Common().Args) > 1 {
							dst := ci.Common().Args[1]
							if mi, ok := dst.(*ssa.MakeInterface); ok {
								dst = mi.X
							}
							if pt, ok := dst.Type().Underlying().(*types.Pointer); ok {
								if b, ok := pt.Elem().Underlying().(*types.Basic); ok && b.Info()&types.IsInteger != 0 {
									isTag = true
								}
							}
						}
						if !isTag {
							continue
						}
					}
					nSkip++
					c.Bad("header-skip", ssaFuncKey(fn)+":"+cn, ci.Pos(), "the encoded item is decoded from byte %d on, stepping over its container header by a fixed count: with a non-minimal length encoding a length byte is decoded as the first element", k.Int64())
				}
			}
		}
	}
	if nSkip == 0 {
		c.Ok("header-skip", "module:none", 0, "no code outside package cbor steps over a container header by its own byte count")
	}
}

func findIndexAddr(v ssa.Value, d int) *ssa.IndexAddr {
	if d > 5 || v == nil {
		return nil
	}
	switch x := v.(type) {
	case *ssa.IndexAddr:
		return x
	case *ssa.UnOp:
		return findIndexAddr(x.X, d+1)
	case *ssa.Convert:
		return findIndexAddr(x.X, d+1)
	case *ssa.ChangeType:
		return findIndexAddr(x.X, d+1)
	}
	return nil
}

func isDataParam(v ssa.Value) bool {
	p, ok := v.(*ssa.Parameter)
	return ok && (strings.HasPrefix(typeStr(p.Type()), "[]") || strings.HasSuffix(typeStr(p.Type()), "RawMessage"))
}

// rootValue strips field/index/slice/conversion/address steps to the underlying parameter, allocation or call.
func rootValue(v ssa.Value, d int) ssa.Value {
	if d > 10 || v == nil {
		return v
	}
	switch x := v.(type) {
	case *ssa.UnOp:
		return rootValue(x.X, d+1)
	case *ssa.FieldAddr:
		return rootValue(x.X, d+1)
	case *ssa.Field:
		return rootValue(x.X, d+1)
	case *ssa.IndexAddr:
		return rootValue(x.X, d+1)
	case *ssa.Index:
		return rootValue(x.X, d+1)
	case *ssa.Slice:
		return rootValue(x.X, d+1)
	case *ssa.Convert:
		return rootValue(x.X, d+1)
	case *ssa.ChangeType:
		return rootValue(x.X, d+1)
	case *ssa.MakeInterface:
		return rootValue(x.X, d+1)
	case *ssa.ChangeInterface:
		return rootValue(x.X, d+1)
	}
	return v
}
