package main

// E8: boolean path conditions over the AST with truth-table comparison.

import (
	"go/ast"
	"go/token"
	"go/types"
	"sort"
	"strings"

	"golang.org/x/tools/go/packages"
)

// Formula is a boolean expression tree over string atoms.
type Formula struct {
	Op   string // "atom", "not", "and", "or", "true", "false"
	Atom string
	Args []*Formula
}

func fTrue() *Formula            { return &Formula{Op: "true"} }
func fAtom(a string) *Formula    { return &Formula{Op: "atom", Atom: a} }
func fNot(a *Formula) *Formula   { return &Formula{Op: "not", Args: []*Formula{a}} }
func fAnd(a ...*Formula) *Formula { return &Formula{Op: "and", Args: a} }
func fOr(a ...*Formula) *Formula  { return &Formula{Op: "or", Args: a} }

func (f *Formula) Eval(env map[string]bool) bool {
	switch f.Op {
	case "true":
		return true
	case "false":
		return false
	case "atom":
		return env[f.Atom]
	case "not":
		return !f.Args[0].Eval(env)
	case "and":
		for _, a := range f.Args {
			if !a.Eval(env) {
				return false
			}
		}
		return true
	case "or":
		for _, a := range f.Args {
			if a.Eval(env) {
				return true
			}
		}
		return false
	}
	panic("bad formula")
}

func (f *Formula) Atoms(into map[string]bool) {
	if f.Op == "atom" {
		into[f.Atom] = true
	}
	for _, a := range f.Args {
		a.Atoms(into)
	}
}

func (f *Formula) String() string {
	switch f.Op {
	case "true", "false":
		return f.Op
	case "atom":
		return f.Atom
	case "not":
		return "!" + f.Args[0].String()
	}
	var parts []string
	for _, a := range f.Args {
		parts = append(parts, a.String())
	}
	sep := " && "
	if f.Op == "or" {
		sep = " || "
	}
	return "(" + strings.Join(parts, sep) + ")"
}

// condEnv resolves expressions into formulas inside one function.
type condEnv struct {
	p  *packages.Package
	fd *ast.FuncDecl
	// single-definition locals: var -> defining expression
	defs map[*types.Var]ast.Expr
	multi map[*types.Var]bool
}

func newCondEnv(p *packages.Package, fd *ast.FuncDecl) *condEnv {
	e := &condEnv{p: p, fd: fd, defs: map[*types.Var]ast.Expr{}, multi: map[*types.Var]bool{}}
	count := map[*types.Var]int{}
	ast.Inspect(fd.Body, func(n ast.Node) bool {
		switch s := n.(type) {
		case *ast.AssignStmt:
			for i, l := range s.Lhs {
				id, ok := l.(*ast.Ident)
				if !ok {
					continue
				}
				var v *types.Var
				if d, ok := p.TypesInfo.Defs[id].(*types.Var); ok {
					v = d
				} else if u, ok := p.TypesInfo.Uses[id].(*types.Var); ok {
					v = u
				}
				if v == nil {
					continue
				}
				count[v]++
				if len(s.Lhs) == len(s.Rhs) {
					e.defs[v] = s.Rhs[i]
				} else {
					e.multi[v] = true
				}
			}
		case *ast.ValueSpec:
			for i, id := range s.Names {
				if v, ok := p.TypesInfo.Defs[id].(*types.Var); ok {
					count[v]++
					if i < len(s.Values) {
						e.defs[v] = s.Values[i]
					} else {
						// zero value declaration counts as a definition without expression
						e.multi[v] = e.multi[v] || false
					}
				}
			}
		case *ast.IncDecStmt:
			if id, ok := s.X.(*ast.Ident); ok {
				if v, ok := p.TypesInfo.Uses[id].(*types.Var); ok {
					count[v] += 2
				}
			}
		}
		return true
	})
	for v, n := range count {
		if n != 1 {
			e.multi[v] = true
			delete(e.defs, v)
		}
	}
	return e
}

// canon gives a canonical string for a (non-boolean-structured) expression: identifiers resolve to
// objects; single-definition locals are replaced by their definition.
func (e *condEnv) canon(x ast.Expr, depth int) string {
	x = unparen(x)
	if depth > 6 {
		return "…"
	}
	info := e.p.TypesInfo
	// named constants keep their (qualified) name; other constant expressions fold to their value
	switch n := x.(type) {
	case *ast.Ident:
		if o, ok := info.Uses[n].(*types.Const); ok && o.Pkg() != nil {
			return relPkg(o.Pkg().Path()) + "." + o.Name()
		}
	case *ast.SelectorExpr:
		if o, ok := info.Uses[n.Sel].(*types.Const); ok && o.Pkg() != nil {
			return relPkg(o.Pkg().Path()) + "." + o.Name()
		}
	}
	if tv, ok := info.Types[x]; ok && tv.Value != nil {
		return tv.Value.ExactString()
	}
	switch n := x.(type) {
	case *ast.Ident:
		switch o := info.Uses[n].(type) {
		case *types.Var:
			if o.IsField() {
				return n.Name
			}
			if d, ok := e.defs[o]; ok && !e.multi[o] {
				return e.canon(d, depth+1)
			}
			if o.Parent() == o.Pkg().Scope() {
				return relPkg(o.Pkg().Path()) + "." + o.Name()
			}
			// receiver / parameter / multi-assigned local
			if sig := e.sigRecv(); sig != nil && o == sig {
				return "recv"
			}
			return "local:" + o.Name()
		case *types.Const:
			return relPkg(o.Pkg().Path()) + "." + o.Name()
		case *types.Nil:
			return "nil"
		case *types.Func:
			return funcKey(o)
		}
		return n.Name
	case *ast.SelectorExpr:
		if sel, ok := info.Selections[n]; ok {
			_ = sel
			return e.canon(n.X, depth+1) + "." + n.Sel.Name
		}
		// package-qualified
		if o, ok := info.Uses[n.Sel].(*types.Func); ok {
			return funcKey(o)
		}
		if o := info.Uses[n.Sel]; o != nil && o.Pkg() != nil {
			return relPkg(o.Pkg().Path()) + "." + o.Name()
		}
		return types.ExprString(n)
	case *ast.CallExpr:
		var args []string
		for _, a := range n.Args {
			args = append(args, e.canon(a, depth+1))
		}
		return e.canon(n.Fun, depth+1) + "(" + strings.Join(args, ",") + ")"
	case *ast.StarExpr:
		return e.canon(n.X, depth+1)
	case *ast.UnaryExpr:
		return n.Op.String() + e.canon(n.X, depth+1)
	case *ast.BinaryExpr:
		return "(" + e.canon(n.X, depth+1) + " " + n.Op.String() + " " + e.canon(n.Y, depth+1) + ")"
	case *ast.IndexExpr:
		return e.canon(n.X, depth+1) + "[" + e.canon(n.Index, depth+1) + "]"
	}
	return types.ExprString(x)
}

func (e *condEnv) sigRecv() *types.Var {
	if e.fd.Recv == nil || len(e.fd.Recv.List) == 0 || len(e.fd.Recv.List[0].Names) == 0 {
		return nil
	}
	v, _ := e.p.TypesInfo.Defs[e.fd.Recv.List[0].Names[0]].(*types.Var)
	return v
}

// formula converts a boolean expression into a Formula.
func (e *condEnv) formula(x ast.Expr, depth int) *Formula {
	x = unparen(x)
	if depth > 8 {
		return fAtom(e.canon(x, 0))
	}
	info := e.p.TypesInfo
	if tv, ok := info.Types[x]; ok && tv.Value != nil {
		if tv.Value.ExactString() == "true" {
			return fTrue()
		}
		if tv.Value.ExactString() == "false" {
			return &Formula{Op: "false"}
		}
	}
	switch n := x.(type) {
	case *ast.UnaryExpr:
		if n.Op == token.NOT {
			return fNot(e.formula(n.X, depth+1))
		}
	case *ast.BinaryExpr:
		switch n.Op {
		case token.LAND:
			return fAnd(e.formula(n.X, depth+1), e.formula(n.Y, depth+1))
		case token.LOR:
			return fOr(e.formula(n.X, depth+1), e.formula(n.Y, depth+1))
		case token.NEQ:
			// a != b  ==  !(a == b), with operands ordered canonically
			a, b := e.canon(n.X, 0), e.canon(n.Y, 0)
			if a > b {
				a, b = b, a
			}
			return fNot(fAtom("(" + a + " == " + b + ")"))
		case token.EQL:
			a, b := e.canon(n.X, 0), e.canon(n.Y, 0)
			if a > b {
				a, b = b, a
			}
			return fAtom("(" + a + " == " + b + ")")
		}
	case *ast.Ident:
		if v, ok := info.Uses[n].(*types.Var); ok && !v.IsField() {
			if d, ok := e.defs[v]; ok && !e.multi[v] {
				if b, isB := info.TypeOf(d).Underlying().(*types.Basic); isB && b.Kind() == types.Bool || true {
					return e.formula(d, depth+1)
				}
			}
		}
	}
	return fAtom(e.canon(x, 0))
}

// pathCondition returns the conjunction of the branch conditions enclosing target (by position) in fd.
// Only if/else chains are interpreted; other constructs contribute nothing (treated as unconstrained).
func (e *condEnv) pathCondition(target ast.Node) *Formula {
	var conj []*Formula
	var walk func(stmts []ast.Stmt) bool
	contains := func(n ast.Node) bool {
		return n != nil && n.Pos() <= target.Pos() && target.End() <= n.End()
	}
	var walkStmt func(s ast.Stmt) bool
	walkStmt = func(s ast.Stmt) bool {
		if !contains(s) {
			return false
		}
		switch st := s.(type) {
		case *ast.IfStmt:
			cond := e.formula(st.Cond, 0)
			if contains(st.Body) {
				conj = append(conj, cond)
				walk(st.Body.List)
				return true
			}
			if st.Else != nil && contains(st.Else) {
				conj = append(conj, fNot(cond))
				switch el := st.Else.(type) {
				case *ast.BlockStmt:
					walk(el.List)
				case *ast.IfStmt:
					walkStmt(el)
				}
				return true
			}
			return true // in the condition / init
		case *ast.BlockStmt:
			walk(st.List)
		case *ast.ForStmt:
			walk(st.Body.List)
		case *ast.RangeStmt:
			walk(st.Body.List)
		case *ast.SwitchStmt:
			// case k holds when no earlier case did and one of its own expressions does; default when none does.
			// With a tag the expressions are "tag == value"; fallthrough is not modelled (the clause is then left
			// unconstrained).
			var earlier []*Formula
			for _, cl := range st.Body.List {
				cc := cl.(*ast.CaseClause)
				var own []*Formula
				for _, x := range cc.List {
					if st.Tag == nil {
						own = append(own, e.formula(x, 0))
					} else {
						a, b := e.canon(st.Tag, 0), e.canon(x, 0)
						if a > b {
							a, b = b, a
						}
						own = append(own, fAtom("("+a+" == "+b+")"))
					}
				}
				if contains(cc) {
					hasFT := false
					for _, c2 := range st.Body.List {
						for _, bs := range c2.(*ast.CaseClause).Body {
							if br, ok := bs.(*ast.BranchStmt); ok && br.Tok == token.FALLTHROUGH {
								hasFT = true
							}
						}
					}
					if !hasFT && st.Init == nil {
						for _, f := range earlier {
							conj = append(conj, fNot(f))
						}
						if cc.List != nil {
							conj = append(conj, fOr(own...))
						} else {
							// default: also none of the later cases
							for _, c2 := range st.Body.List {
								cc2 := c2.(*ast.CaseClause)
								if cc2 == cc || cc2.List == nil {
									continue
								}
								for _, x := range cc2.List {
									if st.Tag == nil {
										conj = append(conj, fNot(e.formula(x, 0)))
									} else {
										a, b := e.canon(st.Tag, 0), e.canon(x, 0)
										if a > b {
											a, b = b, a
										}
										conj = append(conj, fNot(fAtom("("+a+" == "+b+")")))
									}
								}
							}
						}
					}
					walk(cc.Body)
				}
				earlier = append(earlier, own...)
			}
		case *ast.TypeSwitchStmt:
			for _, cc := range st.Body.List {
				if contains(cc) {
					walk(cc.(*ast.CaseClause).Body)
				}
			}
		case *ast.SelectStmt:
			for _, cc := range st.Body.List {
				if contains(cc) {
					walk(cc.(*ast.CommClause).Body)
				}
			}
		case *ast.LabeledStmt:
			walkStmt(st.Stmt)
		default:
			// closures inside expressions
			ast.Inspect(s, func(n ast.Node) bool {
				if fl, ok := n.(*ast.FuncLit); ok && contains(fl) {
					walk(fl.Body.List)
					return false
				}
				return true
			})
		}
		return true
	}
	walk = func(stmts []ast.Stmt) bool {
		for _, s := range stmts {
			if walkStmt(s) {
				return true
			}
		}
		return false
	}
	walk(e.fd.Body.List)
	if len(conj) == 0 {
		return fTrue()
	}
	return fAnd(conj...)
}

// truthTable enumerates all assignments of atoms and calls fn.
func truthTable(atoms []string, fn func(env map[string]bool)) {
	n := len(atoms)
	if n > 16 {
		panic("too many atoms for a truth table")
	}
	env := map[string]bool{}
	for m := 0; m < 1<<n; m++ {
		for i, a := range atoms {
			env[a] = m&(1<<i) != 0
		}
		fn(env)
	}
}

func sortedAtoms(fs ...*Formula) []string {
	m := map[string]bool{}
	for _, f := range fs {
		f.Atoms(m)
	}
	var out []string
	for a := range m {
		out = append(out, a)
	}
	sort.Strings(out)
	return out
}
