package main

// Path-sensitive reachability with per-path constant tracking of boolean phis (a per-path SCCP restricted to bool phis).

import (
	"go/token"
	"strconv"
	"go/constant"
	"go/types"
	"sort"
	"strings"

	"golang.org/x/tools/go/ssa"
)

type psState struct {
	b   *ssa.BasicBlock
	env string // canonical encoding of known phi values
}

func isBoolPhi(p *ssa.Phi) bool {
	b, ok := p.Type().Underlying().(*types.Basic)
	return ok && b.Kind() == types.Bool
}

// psReach explores (block, env) states from the given start (entering start block with env empty, phis of the start block unknown)
// and returns the set of blocks reachable. cut removes edges. visit (optional) is called per state.
func psReach(fn *ssa.Function, starts []*ssa.BasicBlock, cut func(from *ssa.BasicBlock, succ int) bool) map[*ssa.BasicBlock]bool {
	return psReachVal(fn, starts, cut, nil)
}

// psReachVal additionally prunes edges whose facts contradict the integer valuation val (E2).
func psReachVal(fn *ssa.Function, starts []*ssa.BasicBlock, cut func(from *ssa.BasicBlock, succ int) bool, val map[string]int64) map[*ssa.BasicBlock]bool {
	return psReachValV(fn, starts, cut, val, nil)
}

var psHelperDepth int

// evalArith: the value of an integer expression built from valued atoms and constants with + - * & | ^ << >> and
// conversions (truncated to the width of unsigned results).
func evalArith(v ssa.Value, val map[string]int64, d int) (int64, bool) {
	if d > 8 || v == nil {
		return 0, false
	}
	trunc := func(x int64, t types.Type) int64 {
		if b, ok := t.Underlying().(*types.Basic); ok {
			switch b.Kind() {
			case types.Uint8:
				return x & 0xff
			case types.Uint16:
				return x & 0xffff
			case types.Uint32:
				return x & 0xffffffff
			}
		}
		return x
	}
	if k, ok := v.(*ssa.Const); ok {
		if k.Value != nil && k.Value.Kind() == constant.Int {
			return k.Int64(), true
		}
		return 0, false
	}
	if val != nil {
		if r, ok := val[desc(v)]; ok {
			return r, true
		}
	}
	switch x := v.(type) {
	case *ssa.Convert:
		if r, ok := evalArith(x.X, val, d+1); ok {
			return trunc(r, x.Type()), true
		}
	case *ssa.ChangeType:
		return evalArith(x.X, val, d+1)
	case *ssa.BinOp:
		a, okA := evalArith(x.X, val, d+1)
		b, okB := evalArith(x.Y, val, d+1)
		if !okA || !okB {
			return 0, false
		}
		var r int64
		switch x.Op {
		case token.ADD:
			r = a + b
		case token.SUB:
			r = a - b
		case token.MUL:
			r = a * b
		case token.AND:
			r = a & b
		case token.OR:
			r = a | b
		case token.XOR:
			r = a ^ b
		case token.SHL:
			if b < 0 || b > 62 {
				return 0, false
			}
			r = a << uint(b)
		case token.SHR:
			if b < 0 || b > 62 {
				return 0, false
			}
			r = a >> uint(b)
		default:
			return 0, false
		}
		return trunc(r, x.Type()), true
	}
	return 0, false
}

// mapAtomTokens: atoms of the caller's valuation that mention argument i (as a whole token: f(assert(p3,T)#0)) are
// carried into the helper's vocabulary with the argument replaced by the helper's parameter name.
func mapAtomTokens(hval, val map[string]int64, i int, da string) {
	if da == "" {
		return
	}
	for k, v := range val {
		if k == da || strings.HasPrefix(k, da+".") {
			continue
		}
		if nk, ok := substToken(k, da, "p"+strconv.Itoa(i)); ok {
			hval[nk] = v
		}
	}
}

// substToken replaces every whole-token occurrence of from in s; ok when at least one was replaced.
func substToken(s, from, to string) (string, bool) {
	isWord := func(c byte) bool {
		return c == '_' || c >= '0' && c <= '9' || c >= 'a' && c <= 'z' || c >= 'A' && c <= 'Z'
	}
	var sb strings.Builder
	n := 0
	for i := 0; i < len(s); {
		if strings.HasPrefix(s[i:], from) && (i == 0 || !isWord(s[i-1]) && s[i-1] != '.') && (i+len(from) == len(s) || !isWord(s[i+len(from)])) {
			sb.WriteString(to)
			i += len(from)
			n++
			continue
		}
		sb.WriteByte(s[i])
		i++
	}
	return sb.String(), n > 0
}

// evalHelperBool evaluates a same-package boolean helper under a valuation of its parameters: known only when every
// feasible return yields the same boolean.
func evalHelperBool(h *ssa.Function, hval map[string]int64) (res, known bool) {
	return evalHelperBoolIdx(h, 0, hval)
}

// evalHelperBoolIdx: as evalHelperBool, for the boolean at result position idx.
func evalHelperBoolIdx(h *ssa.Function, idx int, hval map[string]int64) (res, known bool) {
	if psHelperDepth > 2 || len(h.Blocks) == 0 {
		return false, false
	}
	psHelperDepth++
	saved := lastPsEdges
	defer func() { psHelperDepth--; lastPsEdges = saved }()
	seenT, seenF, unknown := false, false, false
	psReachValV(h, []*ssa.BasicBlock{h.Blocks[0]}, nil, hval, func(b *ssa.BasicBlock, eval func(ssa.Value) (bool, bool)) {
		r, ok := b.Instrs[len(b.Instrs)-1].(*ssa.Return)
		if !ok || len(r.Results) <= idx {
			return
		}
		v, k := eval(r.Results[idx])
		switch {
		case !k:
			unknown = true
		case v:
			seenT = true
		default:
			seenF = true
		}
	})
	if unknown || seenT == seenF {
		return false, false
	}
	return seenT, true
}

// evalHelperNil: whether result idx of a same-package helper is nil under a valuation of its parameters: known only
// when every feasible return agrees (nil constant, or a value that is certainly non-nil).
func evalHelperNil(h *ssa.Function, idx int, hval map[string]int64) (isNil, known bool) {
	if psHelperDepth > 2 || len(h.Blocks) == 0 {
		return false, false
	}
	psHelperDepth++
	saved := lastPsEdges
	defer func() { psHelperDepth--; lastPsEdges = saved }()
	seenNil, seenNon, unknown := false, false, false
	reach := psReachValV(h, []*ssa.BasicBlock{h.Blocks[0]}, nil, hval, nil)
	for _, b := range h.Blocks {
		r, ok := b.Instrs[len(b.Instrs)-1].(*ssa.Return)
		if !ok || !reach[b] || idx >= len(r.Results) {
			continue
		}
		rv := returnedValue(r, idx)
		switch {
		case isNilConst(rv):
			seenNil = true
		case definitelyNonNilErr(rv, b, 0):
			seenNon = true
		default:
			if _, isAlloc := rv.(*ssa.Alloc); isAlloc {
				seenNon = true
			} else {
				unknown = true
			}
		}
	}
	if unknown || seenNil == seenNon {
		return false, false
	}
	return seenNil, true
}

// psReachValV is psReachVal with a visitor called once per explored (block, environment) state; eval evaluates a
// boolean value in that state.
func psReachValV(fn *ssa.Function, starts []*ssa.BasicBlock, cut func(from *ssa.BasicBlock, succ int) bool, val map[string]int64, visit func(b *ssa.BasicBlock, eval func(ssa.Value) (bool, bool))) map[*ssa.BasicBlock]bool {
	infeasible := map[*ssa.BasicBlock][2]bool{}
	if val != nil {
		for _, ef := range edgeFacts(fn) {
			if known, truth := evalFact(ef.Fact, val); known && !truth {
				v := infeasible[ef.From]
				v[ef.Succ] = true
				infeasible[ef.From] = v
			}
		}
	}
	// index phis
	phiIdx := map[*ssa.Phi]int{}
	var phis []*ssa.Phi
	for _, b := range fn.Blocks {
		for _, in := range b.Instrs {
			if p, ok := in.(*ssa.Phi); ok && isBoolPhi(p) {
				phiIdx[p] = len(phis)
				phis = append(phis, p)
			}
		}
	}
	// integer phis (tracked while their incoming value is a constant) and channel phis (tracked by chosen edge)
	intIdx := map[*ssa.Phi]int{}
	chIdx := map[*ssa.Phi]int{}
	for _, b := range fn.Blocks {
		for _, in := range b.Instrs {
			p, ok := in.(*ssa.Phi)
			if !ok {
				continue
			}
			switch t := p.Type().Underlying().(type) {
			case *types.Basic:
				if t.Info()&types.IsInteger != 0 {
					intIdx[p] = len(intIdx)
				}
			case *types.Chan:
				chIdx[p] = len(chIdx)
			}
		}
	}
	curI := map[int]int64{}
	curC := map[int]int{}
	_ = curC
	type env map[int]bool
	enc := func(e env) string {
		var ks []int
		for k := range e {
			ks = append(ks, k)
		}
		sort.Ints(ks)
		var sb strings.Builder
		for _, k := range ks {
			if e[k] {
				sb.WriteByte('T')
			} else {
				sb.WriteByte('F')
			}
			sb.WriteString(string(rune('a' + k%26)))
			sb.WriteString(string(rune('0' + k/26)))
		}
		return sb.String()
	}
	var evalInt func(v ssa.Value, d int) (int64, bool)
	evalInt = func(v ssa.Value, d int) (int64, bool) {
		if d > 4 {
			return 0, false
		}
		switch x := v.(type) {
		case *ssa.Const:
			if x.Value != nil && x.Value.Kind() == constant.Int {
				return x.Int64(), true
			}
		case *ssa.Phi:
			if i, ok := intIdx[x]; ok {
				r, known := curI[i]
				return r, known
			}
		case *ssa.Convert:
			return evalInt(x.X, d+1)
		case *ssa.ChangeType:
			return evalInt(x.X, d+1)
		}
		if val != nil {
			if r, ok := val[desc(v)]; ok {
				return r, true
			}
			if _, isBin := v.(*ssa.BinOp); isBin {
				if r, ok := evalArith(v, val, 0); ok {
					return r, true
				}
			}
			// the integer result of a same-package helper (incl. an instantiated generic one), when the helper
			// determines a single constant under the valuation carried onto its parameters
			var call *ssa.Call
			hidx := 0
			switch x := v.(type) {
			case *ssa.Call:
				call = x
			case *ssa.Extract:
				call, _ = x.Tuple.(*ssa.Call)
				hidx = x.Index
			}
			if call != nil && psHelperDepth <= 2 {
				if bt, isB := v.Type().Underlying().(*types.Basic); isB && bt.Info()&types.IsInteger != 0 {
					if h := samePkgHelper(fn, &call.Call); h != nil && h != fn {
						hval := map[string]int64{}
						for k, x := range val {
							if !paramTokRe.MatchString(k) {
								hval[k] = x
							}
							if pre := "@" + h.Name() + ":"; strings.HasPrefix(k, pre) {
								hval[k[len(pre):]] = x
							}
						}
						for i, a := range call.Call.Args {
							if x, ok := evalInt(a, d+1); ok {
								hval["p"+strconv.Itoa(i)] = x
							}
							mapAtomTokens(hval, val, i, desc(a))
						}
						if len(hval) > 0 {
							psHelperDepth++
							saved := lastPsEdges
							rs, ok := constResults(h, hidx, hval, 1)
							lastPsEdges = saved
							psHelperDepth--
							if ok && len(rs) == 1 {
								for k := range rs {
									return k, true
								}
							}
						}
					}
				}
			}
		}
		return 0, false
	}
	// values learned on the path: the outcome of a branch condition that is used again later (a flag tested twice, a
	// condition that also feeds a phi) keeps the value the taken edge implies
	curL := map[ssa.Value]bool{}
	var evalV func(v ssa.Value, e env) (res, known bool)
	evalV = func(v ssa.Value, e env) (res, known bool) {
		if r, ok := curL[v]; ok {
			return r, true
		}
		switch x := v.(type) {
		case *ssa.Const:
			if x.Value != nil && x.Value.Kind() == constant.Bool {
				return constant.BoolVal(x.Value), true
			}
		case *ssa.Phi:
			if i, ok := phiIdx[x]; ok {
				res, known = e[i]
				return
			}
		case *ssa.UnOp:
			if x.Op.String() == "!" {
				v, k := evalV(x.X, e)
				return !v, k
			}
		case *ssa.BinOp:
			if val != nil {
				if tf, _ := condFacts(x); len(tf) == 1 {
					if known, truth := evalFact(tf[0], val); known {
						return truth, true
					}
				}
				// equality of two boolean values ((a == X) == (b == Y))
				if x.Op == token.EQL || x.Op == token.NEQ {
					if bt, isB := x.X.Type().Underlying().(*types.Basic); isB && bt.Kind() == types.Bool {
						if a, okA := evalV(x.X, e); okA {
							if b, okB := evalV(x.Y, e); okB {
								return (a == b) == (x.Op == token.EQL), true
							}
						}
					}
				}
				// both operands evaluate to integers (constants, valued atoms, constant-carrying phis)
				if a, okA := evalInt(x.X, 0); okA {
					if b, okB := evalInt(x.Y, 0); okB {
						switch x.Op {
						case token.EQL:
							return a == b, true
						case token.NEQ:
							return a != b, true
						case token.LSS:
							return a < b, true
						case token.LEQ:
							return a <= b, true
						case token.GTR:
							return a > b, true
						case token.GEQ:
							return a >= b, true
						}
					}
				}
				// nil test of a same-package helper's result, the helper evaluated under the valuation
				if (x.Op == token.EQL || x.Op == token.NEQ) && isNilConst(x.Y) {
					var call *ssa.Call
					idx := 0
					switch y := x.X.(type) {
					case *ssa.Call:
						call = y
					case *ssa.Extract:
						call, _ = y.Tuple.(*ssa.Call)
						idx = y.Index
					}
					if call != nil {
						if h := call.Call.StaticCallee(); h != nil && h.Pkg != nil && h.Pkg == fn.Pkg && len(h.Blocks) > 0 && h != fn {
							hval := map[string]int64{}
							for i, a := range call.Call.Args {
								if k, ok := a.(*ssa.Const); ok && k.Value != nil && k.Value.Kind() == constant.Int {
									hval["p"+strconv.Itoa(i)] = k.Int64()
									continue
								}
								if v, ok := val[desc(a)]; ok {
									hval["p"+strconv.Itoa(i)] = v
								}
								mapAtomTokens(hval, val, i, desc(a))
							}
							if len(hval) > 0 {
								if isNil, known := evalHelperNil(h, idx, hval); known {
									return isNil == (x.Op == token.EQL), true
								}
							}
						}
					}
				}
			}
		case *ssa.Extract:
			// the boolean component of a same-package helper's results (result, decided := h(a, b))
			if cl, isCall := x.Tuple.(*ssa.Call); isCall && val != nil {
				if b, isB := x.Type().Underlying().(*types.Basic); isB && b.Kind() == types.Bool {
					if h := cl.Call.StaticCallee(); h != nil && h.Pkg != nil && h.Pkg == fn.Pkg && len(h.Blocks) > 0 && h != fn {
						hval := map[string]int64{}
						for i, a := range cl.Call.Args {
							if v, ok := evalInt(a, 0); ok {
								hval["p"+strconv.Itoa(i)] = v
							}
							da := desc(a)
							for k, v := range val {
								if strings.HasPrefix(k, da+".") {
									hval["p"+strconv.Itoa(i)+k[len(da):]] = v
								}
							}
							mapAtomTokens(hval, val, i, da)
						}
						if len(hval) > 0 {
							return evalHelperBoolIdx(h, x.Index, hval)
						}
					}
				}
			}
		case *ssa.Call:
			// a same-package boolean helper whose arguments are all valued
			if val == nil {
				return false, false
			}
			if b, isB := x.Type().Underlying().(*types.Basic); !isB || b.Kind() != types.Bool {
				return false, false
			}
			h := x.Call.StaticCallee()
			if h == nil || h.Pkg == nil || h.Pkg != fn.Pkg || len(h.Blocks) == 0 || h == fn {
				return false, false
			}
			hval := map[string]int64{}
			for i, a := range x.Call.Args {
				if k, ok := a.(*ssa.Const); ok && k.Value != nil && k.Value.Kind() == constant.Int {
					hval["p"+strconv.Itoa(i)] = k.Int64()
					continue
				}
				if v, ok := evalInt(a, 0); ok {
					hval["p"+strconv.Itoa(i)] = v
				}
				// atoms that are field paths of an argument (p.config.Role with p passed as the receiver)
				da := desc(a)
				for k, v := range val {
					if strings.HasPrefix(k, da+".") {
						hval["p"+strconv.Itoa(i)+k[len(da):]] = v
					}
				}
				mapAtomTokens(hval, val, i, da)
			}
			if len(hval) == 0 {
				return false, false
			}
			return evalHelperBool(h, hval)
		}
		return false, false
	}
	reach := map[*ssa.BasicBlock]bool{}
	lastPsEdges = map[[2]*ssa.BasicBlock]bool{}
	seen := map[psState]bool{}
	type item struct {
		b  *ssa.BasicBlock
		e  env
		ei map[int]int64
		ec map[int]int
		el map[ssa.Value]bool
	}
	encAll := func(it item) string {
		s := enc(it.e)
		if len(it.ei) > 0 || len(it.ec) > 0 {
			var ks []int
			for k := range it.ei {
				ks = append(ks, k)
			}
			sort.Ints(ks)
			for _, k := range ks {
				s += "|i" + strconv.Itoa(k) + "=" + strconv.FormatInt(it.ei[k], 10)
			}
			ks = ks[:0]
			for k := range it.ec {
				ks = append(ks, k)
			}
			sort.Ints(ks)
			for _, k := range ks {
				s += "|c" + strconv.Itoa(k) + "=" + strconv.Itoa(it.ec[k])
			}
		}
		if len(it.el) > 0 {
			var ls []string
			for v, b := range it.el {
				ls = append(ls, v.Name()+"="+strconv.FormatBool(b))
			}
			sort.Strings(ls)
			s += "|l" + strings.Join(ls, ",")
		}
		return s
	}
	var q []item
	for _, s := range starts {
		q = append(q, item{s, env{}, map[int]int64{}, map[int]int{}, map[ssa.Value]bool{}})
	}
	for len(q) > 0 {
		it := q[0]
		q = q[1:]
		st := psState{it.b, encAll(it)}
		if seen[st] {
			continue
		}
		seen[st] = true
		reach[it.b] = true
		curI, curC, curL = it.ei, it.ec, it.el
		if visit != nil {
			e := it.e
			ec := it.ec
			psChanChoice = func(p *ssa.Phi) (ssa.Value, bool) {
				if i, ok := chIdx[p]; ok {
					if k, known := ec[i]; known && k < len(p.Edges) {
						return p.Edges[k], true
					}
				}
				return nil, false
			}
			visit(it.b, func(v ssa.Value) (bool, bool) { return evalV(v, e) })
			psChanChoice = nil
		}
		// successors
		var iff *ssa.If
		if len(it.b.Instrs) > 0 {
			iff, _ = it.b.Instrs[len(it.b.Instrs)-1].(*ssa.If)
		}
		for i, s := range it.b.Succs {
			if cut != nil && cut(it.b, i) {
				continue
			}
			if i < 2 && infeasible[it.b][i] {
				continue
			}
			if iff != nil && i < 2 {
				if v, known := evalV(iff.Cond, it.e); known {
					if (i == 0) != v {
						continue
					}
				}
			}
			// compute env for s: phis of s take the value of the edge from it.b
			ne := env{}
			for k, v := range it.e {
				ne[k] = v
			}
			predIdx := -1
			for pi, p := range s.Preds {
				if p == it.b {
					predIdx = pi
					// note: duplicate preds (both If edges to same block) - take first
					break
				}
			}
			for _, in := range s.Instrs {
				p, ok := in.(*ssa.Phi)
				if !ok {
					break
				}
				idx, tracked := phiIdx[p]
				if !tracked || predIdx < 0 {
					continue
				}
				if v, known := evalV(p.Edges[predIdx], it.e); known {
					ne[idx] = v
				} else {
					delete(ne, idx)
				}
			}
			nei := map[int]int64{}
			for k, v := range it.ei {
				nei[k] = v
			}
			nec := map[int]int{}
			for k, v := range it.ec {
				nec[k] = v
			}
			for _, in := range s.Instrs {
				p, ok := in.(*ssa.Phi)
				if !ok {
					break
				}
				if predIdx < 0 {
					continue
				}
				if idx, tracked := intIdx[p]; tracked {
					if v, known := evalInt(p.Edges[predIdx], 0); known {
						nei[idx] = v
					} else {
						delete(nei, idx)
					}
				}
				if idx, tracked := chIdx[p]; tracked {
					nec[idx] = predIdx
				}
			}
			nel := it.el
			if iff != nil && i < 2 {
				// what the taken edge says about the tested value (through negations), if it is used elsewhere too
				base, neg := iff.Cond, false
				for {
					u, isU := base.(*ssa.UnOp)
					if !isU || u.Op != token.NOT {
						break
					}
					base, neg = u.X, !neg
				}
				learn := func(v ssa.Value, truth bool) {
					if _, isPhi := v.(*ssa.Phi); isPhi {
						return
					}
					if _, isConst := v.(*ssa.Const); isConst {
						return
					}
					if refs := v.Referrers(); refs == nil || len(*refs) < 2 {
						return
					}
					cp := map[ssa.Value]bool{}
					for k, vv := range nel {
						cp[k] = vv
					}
					cp[v] = truth
					nel = cp
				}
				learn(iff.Cond, i == 0)
				if base != iff.Cond {
					learn(base, (i == 0) != neg)
				}
			}
			// a learned value stays valid only while its defining block is not re-entered (next loop iteration)
			if len(nel) > 0 {
				for v := range nel {
					if in, ok := v.(ssa.Instruction); ok && in.Block() == s {
						if &nel == &it.el || true {
							cp := map[ssa.Value]bool{}
							for k, vv := range nel {
								if k != v {
									cp[k] = vv
								}
							}
							nel = cp
						}
					}
				}
			}
			lastPsEdges[[2]*ssa.BasicBlock{it.b, s}] = true
			q = append(q, item{s, ne, nei, nec, nel})
		}
	}
	return reach
}

func evalVHelper(v ssa.Value, e map[int]bool, phiIdx map[*ssa.Phi]int) (bool, bool) {
	switch x := v.(type) {
	case *ssa.Const:
		if x.Value != nil && x.Value.Kind() == constant.Bool {
			return constant.BoolVal(x.Value), true
		}
	case *ssa.Phi:
		if i, ok := phiIdx[x]; ok {
			val, known := e[i]
			return val, known
		}
	}
	return false, false
}

// psChanChoice: during a visit, the incoming value a channel-typed phi took on the path being explored.
var psChanChoice func(*ssa.Phi) (ssa.Value, bool)

// lastPsEdges: CFG edges traversed by the most recent psReachVal call (feasible edges under its valuation).
var lastPsEdges map[[2]*ssa.BasicBlock]bool
