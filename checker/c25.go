package main

import (
	"fmt"
	"go/ast"
	"go/types"
	"sort"
	"strings"

	"golang.org/x/tools/go/packages"
	"golang.org/x/tools/go/ssa"
)

func init() {
	register(&Prop{
		ID:        "C25",
		Technique: "lock-region must-dataflow + send/receive pairing on the CFG + request→reply routing table composed with the extracted state machine",
		Explanation: "For the local-state-query, local-tx-monitor, local-tx-submission and peer-sharing clients: the reply channels are the Client channel fields that message handlers send on. For every non-handler function that receives from a reply channel: (a) busyMutex is held at the receive - locked in the function itself, or the function is a helper whose every caller holds it at the call site; (b) the request's SendMessage dominates the receive inside the same uninterrupted lock region; (c) after a successful SendMessage no path returns without having passed the receive (a reply left in flight would be handed to the next caller). " +
			"(d) Routing: the message type constructed for the request leads, in the extracted state machine, to a state whose permitted reply types are dispatched by messageHandler to handlers that send on exactly the channel this caller waits on.",
		Assumptions: []string{"a peer that violates the state machine is rejected before the handler (C11/C16)", "hangs are C15's concern"},
		Run:         runC25,
	})
}

var c25Pkgs = []string{"protocol/localstatequery", "protocol/localtxmonitor", "protocol/localtxsubmission", "protocol/peersharing"}

func runC25(c *Ctx) {
	c.W.buildSSA()
	sms := map[string]*StateMachine{}
	for _, sm := range c.extractStateMachines() {
		if sm.Var == "StateMap" {
			sms[sm.Pkg] = sm
		}
	}
	for _, rel := range c25Pkgs {
		c.checkClientPairing(rel, sms[rel])
	}
	c.checkAnswerCaches()
}

// checkAnswerCaches: a client that answers a call from a remembered reply (local-state-query's current era) instead of
// asking again returns the reply to an earlier request. That is only its own answer while the acquired point is the
// same: whenever a cache field is filled from a reply, every successful acquire must invalidate it.
func (c *Ctx) checkAnswerCaches() {
	rel := "protocol/localstatequery"
	if c.PkgOpt(rel) == nil {
		return
	}
	// cache fields: client fields a query method returns without sending (read, compared with a sentinel, returned)
	get := c.FuncObjOpt(rel, "Client.getCurrentEra")
	if get == nil {
		c.Ok("answer-cache-fresh", rel+":none", 0, "no remembered answers")
		return
	}
	fn := c.SSAOf(get)
	field := ""
	for _, b := range fn.Blocks {
		if r, ok := b.Instrs[len(b.Instrs)-1].(*ssa.Return); ok && len(r.Results) > 0 {
			if t := trace(r.Results[0]); strings.HasSuffix(t, "<p0") && !strings.Contains(t, "(") {
				field = strings.TrimSuffix(t, "<p0")
			}
		}
	}
	if field == "" {
		c.Ok("answer-cache-fresh", rel+":none", fn.Pos(), "the current era is asked for on every call")
		return
	}
	// is the cache ever filled with a reply?
	live := ""
	for _, g := range c.pkgFuncs(rel) {
		for _, in := range fnInstrs(g) {
			st, ok := in.(*ssa.Store)
			if !ok {
				continue
			}
			fa, ok := st.Addr.(*ssa.FieldAddr)
			if !ok || fieldName(fa.X.Type(), fa.Field) != field {
				continue
			}
			if k, isK := st.Val.(*ssa.Const); isK && k.Value != nil && k.Int64() < 0 {
				continue // the "nothing remembered" sentinel
			}
			if g.Name() == "NewClient" || (g.Parent() != nil && g.Parent().Name() == "NewClient") {
				continue
			}
			live = ssaFuncKey(g)
		}
	}
	key := rel + ".(*Client)." + field
	if live == "" {
		c.Ok("answer-cache-fresh", key, fn.Pos(), "the remembered era is never filled from a reply: every call asks")
		return
	}
	// every successful acquire drops it
	acq := c.FuncObjOpt(rel, "Client.handleAcquired")
	if acq == nil {
		c.Undecided("%s is filled in %s but Client.handleAcquired was not found", key, live)
		return
	}
	af := c.SSAOf(acq)
	reset := map[*ssa.BasicBlock]bool{}
	for _, in := range fnInstrs(af) {
		if st, ok := in.(*ssa.Store); ok {
			if fa, ok := st.Addr.(*ssa.FieldAddr); ok && fieldName(fa.X.Type(), fa.Field) == field {
				if k, isK := st.Val.(*ssa.Const); isK && k.Value != nil && k.Int64() < 0 {
					reset[st.Block()] = true
				}
			}
		}
	}
	stale := c.successBypass(af, reset)
	c.Check(stale == "", "answer-cache-fresh", key, af.Pos(), "every successful acquire forgets the remembered era", "the era remembered from a reply (filled in "+live+") survives an acquire (return at "+stale+" without resetting it): after re-acquiring another point GetCurrentEra and every era-dependent query answer from the reply to a request made before the re-acquire")
}

// handlerClosure: functions of the package reachable from Client.messageHandler through static calls (no go).
func (c *Ctx) clientHandlerClosure(rel string) map[*ssa.Function]bool {
	out := map[*ssa.Function]bool{}
	root := c.SSAFunc(rel, "Client.messageHandler")
	var walk func(f *ssa.Function)
	walk = func(f *ssa.Function) {
		if f == nil || out[f] || len(f.Blocks) == 0 || f.Pkg == nil || relPkg(f.Pkg.Pkg.Path()) != rel {
			return
		}
		out[f] = true
		for _, b := range f.Blocks {
			for _, in := range b.Instrs {
				if _, isGo := in.(*ssa.Go); isGo {
					continue
				}
				if ci, ok := in.(ssa.CallInstruction); ok {
					walk(ci.Common().StaticCallee())
				}
			}
		}
	}
	walk(root)
	return out
}

func chanField(d string) string {
	if i := strings.LastIndex(d, "."); i >= 0 {
		return d[i+1:]
	}
	return d
}

func (c *Ctx) checkClientPairing(rel string, sm *StateMachine) {
	H := c.clientHandlerClosure(rel)
	// reply channels: sent on by handlers
	replyBy := map[string]map[string]bool{} // channel field -> handler function names
	for f := range H {
		for _, b := range f.Blocks {
			for _, in := range b.Instrs {
				var ch ssa.Value
				switch x := in.(type) {
				case *ssa.Send:
					ch = x.Chan
				case *ssa.Select:
					for _, st := range x.States {
						if st.Send != nil {
							ch = st.Chan
						}
					}
				}
				if ch == nil {
					continue
				}
				d := desc(ch)
				if !strings.HasPrefix(d, "p0.") {
					continue
				}
				fld := chanField(d)
				if replyBy[fld] == nil {
					replyBy[fld] = map[string]bool{}
				}
				replyBy[fld][f.Name()] = true
			}
		}
	}
	if len(replyBy) == 0 {
		c.Undecided("%s: no reply channel found (handlers send on no Client channel)", rel)
	}
	// receivers
	type recvSite struct {
		fn    *ssa.Function
		instr ssa.Instruction
		field string
	}
	var sites []recvSite
	for _, fn := range c.pkgFuncs(rel) {
		if H[fn] || recvTypeName(fn) != "Client" {
			continue
		}
		for _, b := range fn.Blocks {
			for _, in := range b.Instrs {
				switch x := in.(type) {
				case *ssa.UnOp:
					if x.Op.String() == "<-" {
						if fld := chanField(desc(x.X)); replyBy[fld] != nil && strings.HasPrefix(desc(x.X), "p0.") {
							sites = append(sites, recvSite{fn, x, fld})
						}
					}
				case *ssa.Select:
					for _, st := range x.States {
						if st.Send == nil {
							if fld := chanField(desc(st.Chan)); replyBy[fld] != nil && strings.HasPrefix(desc(st.Chan), "p0.") {
								sites = append(sites, recvSite{fn, x, fld})
							}
						}
					}
				}
			}
		}
	}
	if len(sites) == 0 {
		c.Undecided("%s: no caller-side receive on a reply channel", rel)
	}
	lock, unlock := []string{"Lock"}, []string{"Unlock"}
	// candidate busy locks: every sync.Mutex field of the Client struct (the name is not assumed)
	var mutexes []string
	if tn, ok := c.Pkg(rel).Types.Scope().Lookup("Client").(*types.TypeName); ok {
		if st, ok := tn.Type().Underlying().(*types.Struct); ok {
			for i := 0; i < st.NumFields(); i++ {
				if typeStr(st.Field(i).Type()) == "sync.Mutex" {
					mutexes = append(mutexes, "."+st.Field(i).Name())
				}
			}
		}
	}
	if len(mutexes) == 0 {
		mutexes = []string{".busyMutex"}
	}
	for _, s := range sites {
		if fnIsCleanup(s.fn) {
			continue
		}
		key := fmt.Sprintf("%s:%s", ssaFuncKey(s.fn), s.field)
		// (a)
		held := false
		mu := mutexes[0]
		for _, m := range mutexes {
			if heldAt(s.fn, s.instr, m, lock, unlock) || c.heldOnEntry(rel, s.fn, m, map[*ssa.Function]bool{}) {
				// helper: every static caller (in the package) holds the mutex at the call site, directly or because it is
				// itself such a helper (recursively)
				held = true
				mu = m
			}
		}
		c.Check(held, "reply-under-busy-lock", key, s.instr.Pos(), "the wait for the reply happens with busyMutex held (no other request can be outstanding)", "the reply is awaited without busyMutex held: two callers can wait on "+s.field+" at once and receive each other's replies")
		// (b)
		var sends []ssa.CallInstruction
		for _, ci := range allCalls(s.fn) {
			if strings.HasSuffix(calleeName(ci.Common()), ".SendMessage") || strings.HasSuffix(calleeName(ci.Common()), ".SendMessageAndWait") {
				sends = append(sends, ci)
			}
		}
		domSend := false
		for _, sd := range sends {
			if precedes(sd.(ssa.Instruction), s.instr) && !unlockBetweenSimple(s.fn, sd.(ssa.Instruction), s.instr, mu) {
				domSend = true
			}
		}
		c.Check(domSend, "request-then-reply-same-region", key, s.instr.Pos(), "the request is sent before, and in the same lock region as, the wait for its reply", "the wait on "+s.field+" is not preceded by this function's own request inside one uninterrupted busyMutex region")
		// (c)
		for _, sd := range sends {
			okFact := descCallValue(sd) + " == nil"
			var start []*ssa.BasicBlock
			for _, ef := range edgeFacts(s.fn) {
				if ef.Fact == okFact {
					start = append(start, ef.From.Succs[ef.Succ])
				}
			}
			if len(start) == 0 || !precedes(sd.(ssa.Instruction), s.instr) {
				continue
			}
			leak := false
			for _, st := range start {
				r := reachAvoidBlocks(st, map[*ssa.BasicBlock]bool{s.instr.Block(): true})
				for b := range r {
					if _, isRet := b.Instrs[len(b.Instrs)-1].(*ssa.Return); isRet {
						leak = true
					}
				}
			}
			c.Check(!leak, "reply-always-collected", key, s.instr.Pos(), "after a successful send every path collects the reply before returning", "a path returns after the request was sent without receiving from "+s.field+": the orphaned reply is delivered to the next caller")
		}
	}
	// (d) routing
	if sm != nil {
		c.checkRouting25(rel, sm, H, replyBy)
	}
}

func descCallValue(ci ssa.CallInstruction) string {
	return descCall(ci.Common(), 0)
}

func fnIsCleanup(fn *ssa.Function) bool {
	// goroutines that close the channels after DoneChan only receive to drain; they do not await a reply
	return fn.Parent() != nil && strings.HasPrefix(fn.Parent().Name(), "Start")
}

// unlockBetweenSimple: a non-deferred Unlock of the mutex can execute after a and before b (a dominates b).
func unlockBetweenSimple(fn *ssa.Function, a, b ssa.Instruction, mutexSuffix string) bool {
	for _, ci := range allCalls(fn) {
		if _, isDefer := ci.(*ssa.Defer); isDefer {
			continue
		}
		if !isLockCall(ci, mutexSuffix, "Unlock") {
			continue
		}
		u := ci.(ssa.Instruction)
		if precedes(a, u) && reachesInstr(u, b) {
			return true
		}
	}
	return false
}

// checkRouting25: request type -> state -> permitted replies -> handler -> channel == awaited channel.
func (c *Ctx) checkRouting25(rel string, sm *StateMachine, H map[*ssa.Function]bool, replyBy map[string]map[string]bool) {
	p := c.Pkg(rel)
	// dispatch: message type constant -> handler function name (from Client.messageHandler's switch)
	mh := c.FuncObj(rel, "Client.messageHandler")
	fd := c.Decl(mh)
	dispatch := map[int64]string{}
	var cands []int64
	for _, v := range c.messageTypeConsts(rel) {
		cands = append(cands, v)
	}
	for v, hs := range dispatchTable(c.SSAOf(mh), cands) {
		for _, h := range hs {
			if strings.HasPrefix(h.Name(), "handle") {
				dispatch[v] = h.Name()
			}
		}
	}
	_, _ = fd, p
	if len(dispatch) == 0 {
		c.Undecided("%s: messageHandler dispatch not readable", rel)
	}
	// constructor -> message type
	ctorType := map[string]int64{}
	c.eachFuncDecl(func(r string) bool { return r == rel }, func(pp *packages.Package, fdd *ast.FuncDecl, obj *types.Func) {
		if !strings.HasPrefix(obj.Name(), "NewMsg") {
			return
		}
		ast.Inspect(fdd.Body, func(n ast.Node) bool {
			kv, ok := n.(*ast.KeyValueExpr)
			if !ok {
				return true
			}
			if id, ok := kv.Key.(*ast.Ident); ok && id.Name == "MessageType" {
				if v, ok := constInt(pp.TypesInfo, kv.Value); ok {
					ctorType[obj.Name()] = v
				}
			}
			return true
		})
	})
	// per awaiting function: constructed request types and awaited channels
	for _, fn := range c.pkgFuncs(rel) {
		if H[fn] || recvTypeName(fn) != "Client" || fnIsCleanup(fn) {
			continue
		}
		var awaited []string
		for _, b := range fn.Blocks {
			for _, in := range b.Instrs {
				if u, ok := in.(*ssa.UnOp); ok && u.Op.String() == "<-" {
					if fld := chanField(desc(u.X)); replyBy[fld] != nil {
						awaited = append(awaited, fld)
					}
				}
				if sel, ok := in.(*ssa.Select); ok {
					for _, st := range sel.States {
						if st.Send == nil {
							if fld := chanField(desc(st.Chan)); replyBy[fld] != nil {
								awaited = append(awaited, fld)
							}
						}
					}
				}
			}
		}
		if len(awaited) == 0 {
			continue
		}
		var reqTypes []int64
		for _, ci := range allCalls(fn) {
			if sc := ci.Common().StaticCallee(); sc != nil {
				if t, ok := ctorType[sc.Name()]; ok {
					reqTypes = append(reqTypes, t)
				}
			}
		}
		if len(reqTypes) == 0 {
			continue // request message is built by the caller (helper); routing is checked where it is constructed
		}
		for _, rt := range reqTypes {
			// states reached by rt from any state
			replies := map[int64]bool{}
			for _, e := range sm.Entries {
				for _, t := range e.Trans {
					if t.MsgType == rt {
						if dst := sm.Entries[t.To]; dst != nil && dst.Agency == agServer {
							for _, t2 := range dst.Trans {
								replies[t2.MsgType] = true
							}
						}
					}
				}
			}
			if len(replies) == 0 {
				continue // not a request that hands agency to the server (e.g. Release, Done)
			}
			var rl []int64
			for r := range replies {
				rl = append(rl, r)
			}
			sort.Slice(rl, func(i, j int) bool { return rl[i] < rl[j] })
			for _, r := range rl {
				h := dispatch[r]
				key := fmt.Sprintf("%s:req%d->reply%d", ssaFuncKey(fn), rt, r)
				if h == "" {
					c.Bad("reply-routing", key, fn.Pos(), "reply type %d has no handler in messageHandler", r)
					continue
				}
				var chans []string
				for fld, hs := range replyBy {
					if hs[h] {
						chans = append(chans, fld)
					}
				}
				ok := false
				for _, ch := range chans {
					for _, a := range awaited {
						if a == ch {
							ok = true
						}
					}
				}
				// handlers that deliver through a callback rather than a channel are outside this rule
				if len(chans) == 0 {
					continue
				}
				c.Check(ok, "reply-routing", key, fn.Pos(), fmt.Sprintf("reply %d is delivered by %s on %v, which this call waits on", r, h, chans),
					fmt.Sprintf("request type %d is answered by reply %d, which %s delivers on %v, but this call waits on %v", rt, r, h, chans, awaited))
			}
		}
	}
}

// heldOnEntry: every static call of fn inside the package happens with the mutex held, either locked in the caller
// or because the caller is itself only ever entered with it held.
func (c *Ctx) heldOnEntry(rel string, fn *ssa.Function, mutexSuffix string, visiting map[*ssa.Function]bool) bool {
	if visiting[fn] {
		return true
	}
	visiting[fn] = true
	callers := 0
	for _, g := range c.pkgFuncs(rel) {
		for _, ci := range allCalls(g) {
			if ci.Common().StaticCallee() != fn {
				continue
			}
			callers++
			if heldAt(g, ci.(ssa.Instruction), mutexSuffix, []string{"Lock"}, []string{"Unlock"}) {
				continue
			}
			if !c.heldOnEntry(rel, g, mutexSuffix, visiting) {
				return false
			}
		}
	}
	return callers > 0
}
