package main

import (
	"fmt"
	"go/ast"
	"go/types"
	"sort"
	"strings"

	"golang.org/x/tools/go/packages"
	"golang.org/x/tools/go/ssa"
)

func init() {
	register(&Prop{
		ID:        "C04",
		Technique: "table agreement (codec switch / constants / constructors / struct shape) + finite arity abstraction and checked-assertion dataflow on hand-written decoders",
		Explanation: "(a) For every protocol package: the NewMsgFromCbor switch covers exactly the MessageType* constants, every case builds a struct that embeds protocol.MessageBase (cbor toarray struct whose first element is the type tag, so the CBOR library enforces arity and field kinds), unknown types return an error, the decoded object is returned only after cbor.Decode succeeded and stores a copy of its bytes; every constructor literal of such a struct sets MessageType to the constant its codec case is keyed by (writer/reader agreement). " +
			"(b) Every hand-written UnmarshalCBOR under protocol/ that decodes into a generic list is analysed with the list length as a finite atom (0..8 and an unbounded representative): success must be unreachable for the unbounded cell; for the two shapes the spec fixes the accepting set must be exact (Point {0,2}, MsgReplyNextTx {1,2}). " +
			"(c) In those two decoders every stored field derives from a comma-ok kind assertion on a decoded element whose failure edge cannot reach a success return.",
		Assumptions: []string{"fxamacker/cbor enforces toarray arity and Go field kinds as documented; value-level round trip of every field is that library's behaviour and not decided here"},
		Run:         runC04,
	})
}

func embedsMessageBase(t types.Type) bool {
	if p, ok := t.(*types.Pointer); ok {
		t = p.Elem()
	}
	st, ok := t.Underlying().(*types.Struct)
	if !ok {
		return false
	}
	for i := 0; i < st.NumFields(); i++ {
		f := st.Field(i)
		if f.Embedded() && isNamed(f.Type(), "protocol", "MessageBase") {
			return true
		}
	}
	return false
}

func runC04(c *Ctx) {
	nPkg := 0
	for _, p := range c.W.Pkgs {
		rel := relPkg(p.PkgPath)
		if !strings.HasPrefix(rel, "protocol/") {
			continue
		}
		fobj := c.FuncObjOpt(rel, "NewMsgFromCbor")
		if fobj == nil {
			continue
		}
		nPkg++
		c.checkCodec(p, rel, fobj)
	}
	if nPkg < 15 {
		c.Undecided("only %d protocol codecs found (15 confirmed by hand)", nPkg)
	}
	c.checkHandwrittenDecoders()
}

func (c *Ctx) checkCodec(p *packages.Package, rel string, fobj *types.Func) {
	fd := c.Decl(fobj)
	sig := fobj.Type().(*types.Signature)
	var tagParam *types.Var
	for i := 0; i < sig.Params().Len(); i++ {
		v := sig.Params().At(i)
		if b, ok := v.Type().Underlying().(*types.Basic); ok && b.Info()&types.IsInteger != 0 && b.Kind() != types.Uint8 {
			tagParam = v
		}
	}
	if tagParam == nil {
		c.Undecided("%s.NewMsgFromCbor: message type parameter not found", rel)
	}
	consts := c.messageTypeConsts(rel)
	// case -> struct type(s)
	caseTypes := map[int64][]types.Type{}
	casePos := map[int64]ast.Node{}
	found := false
	swBody, swTag, _ := c.tagSwitchOwner(p, fd, tagParam, 2)
	tagParam = swTag
	ast.Inspect(swBody, func(n ast.Node) bool {
		sw, ok := n.(*ast.SwitchStmt)
		if !ok || sw.Tag == nil {
			return true
		}
		id, ok := unparen(sw.Tag).(*ast.Ident)
		if !ok || p.TypesInfo.Uses[id] != tagParam {
			return true
		}
		found = true
		for _, s := range sw.Body.List {
			cc := s.(*ast.CaseClause)
			for _, e := range cc.List {
				v, ok := constInt(p.TypesInfo, e)
				if !ok {
					c.Bad("codec-cases", rel+":nonconst", e.Pos(), "non-constant case in the codec switch")
					continue
				}
				casePos[v] = e
				ast.Inspect(cc, func(m ast.Node) bool {
					if cl, ok := m.(*ast.CompositeLit); ok {
						t := p.TypesInfo.TypeOf(cl)
						if t != nil {
							caseTypes[v] = append(caseTypes[v], t)
						}
					}
					return true
				})
			}
		}
		return false
	})
	if !found {
		// not written as a switch (if-chain, lookup helper…): which struct is built under which tag value is read off
		// the type-checked program instead
		maxTag := int64(0)
		for _, v := range consts {
			if v > maxTag {
				maxTag = v
			}
		}
		tab := variantAllocTypes(c.SSAOf(fobj), maxTag, func(t *types.Named) bool { return embedsMessageBase(t) })
		for v, ts := range tab {
			for _, t := range ts {
				caseTypes[v] = append(caseTypes[v], types.NewPointer(t))
			}
			casePos[v] = fd
		}
		found = len(tab) > 0
	}
	if !found {
		c.Undecided("%s.NewMsgFromCbor: no switch on the message type", rel)
	}
	// set equality with constants
	constVals := map[int64]string{}
	for n, v := range consts {
		constVals[v] = n
	}
	var names []string
	for n := range consts {
		names = append(names, n)
	}
	sort.Strings(names)
	for _, n := range names {
		v := consts[n]
		_, ok := casePos[v]
		c.Check(ok, "codec-cases", rel+":"+n, fd.Pos(), "constant has a codec case", fmt.Sprintf("message type %s (%d) has no case in NewMsgFromCbor: such a message cannot be decoded", n, v))
	}
	for v, e := range casePos {
		_, ok := constVals[v]
		c.Check(ok, "codec-cases", fmt.Sprintf("%s:case%d", rel, v), e.Pos(), "case is a declared message type", fmt.Sprintf("codec case %d is not one of the package's MessageType constants", v))
		ts := caseTypes[v]
		if len(ts) == 0 {
			c.Bad("message-struct", fmt.Sprintf("%s:case%d", rel, v), e.Pos(), "codec case builds no message struct")
			continue
		}
		for _, t := range ts {
			c.Check(embedsMessageBase(t), "message-struct", fmt.Sprintf("%s:%s", rel, typeStr(t)), e.Pos(), "toarray struct led by MessageBase (type tag first, arity and kinds enforced by the CBOR library)",
				typeStr(t)+" does not embed protocol.MessageBase: its wire shape is not a tagged toarray struct")
		}
	}
	// decode success + SetCbor on the SSA form
	fn := c.SSAOf(fobj)
	succ := successReturns(fn)
	var nonNilSucc []ssa.Instruction
	for _, r := range succ {
		if !isNilConst(r.(*ssa.Return).Results[0]) {
			nonNilSucc = append(nonNilSucc, r)
		}
	}
	if len(nonNilSucc) == 0 {
		c.Bad("codec-decode-checked", rel, fd.Pos(), "NewMsgFromCbor never returns a message")
	}
	v := c.mustPass(fn, nonNilSucc, func(f string) bool {
		return strings.HasPrefix(f, "call:cbor.Decode(") && strings.HasSuffix(f, "#1 == nil")
	})
	for i := range nonNilSucc {
		c.Check(v[i].OK, "codec-decode-checked", rel, nonNilSucc[i].Pos(), "a message is returned only after cbor.Decode succeeded", "a message can be returned although decoding its body failed ("+v[i].Witness+")")
	}
	// constructors agree with the codec
	typeToCase := map[string]int64{}
	ambiguous := map[string]bool{}
	for v, ts := range caseTypes {
		for _, t := range ts {
			k := typeStr(t)
			if old, ok := typeToCase[k]; ok && old != v {
				ambiguous[k] = true
			}
			typeToCase[k] = v
		}
	}
	for _, f := range p.Syntax {
		ast.Inspect(f, func(n ast.Node) bool {
			cl, ok := n.(*ast.CompositeLit)
			if !ok {
				return true
			}
			t := p.TypesInfo.TypeOf(cl)
			if t == nil || !embedsMessageBase(t) {
				return true
			}
			k := typeStr(t)
			want, known := typeToCase[k]
			if !known || ambiguous[k] {
				return true
			}
			// find MessageBase: protocol.MessageBase{MessageType: X}
			for _, el := range cl.Elts {
				kv, ok := el.(*ast.KeyValueExpr)
				if !ok {
					continue
				}
				if id, ok := kv.Key.(*ast.Ident); !ok || id.Name != "MessageBase" {
					continue
				}
				mb, ok := unparen(kv.Value).(*ast.CompositeLit)
				if !ok {
					continue
				}
				for _, e2 := range mb.Elts {
					kv2, ok := e2.(*ast.KeyValueExpr)
					if !ok {
						continue
					}
					if id, ok := kv2.Key.(*ast.Ident); ok && id.Name == "MessageType" {
						got, isC := constInt(p.TypesInfo, kv2.Value)
						c.Check(isC && got == want, "ctor-type-agreement", rel+":"+k, cl.Pos(), fmt.Sprintf("constructor sets MessageType %d, the codec decodes that tag into the same struct", want),
							fmt.Sprintf("%s is built with MessageType %d but NewMsgFromCbor decodes tag %d into it: a built message decodes as a different type", k, got, want))
					}
				}
			}
			return true
		})
	}
}

func (c *Ctx) checkHandwrittenDecoders() {
	spec := map[string][]int64{
		"protocol/common.(*Point).UnmarshalCBOR":                  {0, 2},
		"protocol/localtxmonitor.(*MsgReplyNextTx).UnmarshalCBOR": {1, 2},
	}
	seenSpec := map[string]bool{}
	n := 0
	for _, p := range c.W.Pkgs {
		rel := relPkg(p.PkgPath)
		if !strings.HasPrefix(rel, "protocol/") {
			continue
		}
		for _, fn := range c.pkgFuncs(rel) {
			if fn.Parent() != nil || fn.Name() != "UnmarshalCBOR" {
				continue
			}
			key := ssaFuncKey(fn)
			// generic list decoded from the data parameter
			var listAlloc *ssa.Alloc
			for _, ci := range allCalls(fn) {
				if calleeName(ci.Common()) != "cbor.Decode" || len(ci.Common().Args) != 2 {
					continue
				}
				if _, isP := ci.Common().Args[0].(*ssa.Parameter); !isP {
					continue
				}
				if al, ok := rootValue(ci.Common().Args[1], 0).(*ssa.Alloc); ok {
					ts := typeStr(al.Type())
					if ts == "*[]any" || ts == "*[]interface{}" || ts == "*[]cbor.RawMessage" {
						listAlloc = al
					}
				}
			}
			want, isSpec := spec[key]
			if listAlloc == nil {
				if isSpec {
					seenSpec[key] = true
					c.Bad("decoder-kinds-checked", key, fn.Pos(), "this decoder no longer takes its elements from a generic list with checked kind assertions: ill-typed elements are coerced by the typed decode instead of rejected")
				}
				continue
			}
			n++
			atom := "len(" + desc(listAlloc) + ")"
			succ := successReturns(fn)
			accept := []int64{}
			vals := []int64{0, 1, 2, 3, 4, 5, 6, 7, 8, 1000}
			for _, v := range vals {
				reach := psReachVal(fn, []*ssa.BasicBlock{fn.Blocks[0]}, nil, map[string]int64{atom: v})
				ok := false
				for _, r := range succ {
					if reach[r.Block()] {
						ok = true
					}
				}
				if ok {
					accept = append(accept, v)
				}
			}
			open := len(accept) > 0 && accept[len(accept)-1] == 1000
			usesLen := false
			for _, ef := range edgeFacts(fn) {
				if strings.HasPrefix(ef.Fact, atom+" ") {
					usesLen = true
				}
			}
			if isSpec {
				seenSpec[key] = true
				c.Check(fmt.Sprint(accept) == fmt.Sprint(want), "decoder-arity-exact", key, fn.Pos(), fmt.Sprintf("accepted list lengths are exactly %v", want),
					fmt.Sprintf("accepted list lengths are %v (1000 stands for any larger length), the protocol defines exactly %v", accept, want))
				c.checkKindsChecked(fn, key, listAlloc)
			} else if usesLen {
				c.Check(!open, "decoder-arity-closed", key, fn.Pos(), fmt.Sprintf("accepted list lengths %v are bounded", accept),
					fmt.Sprintf("arbitrarily long lists are accepted (lengths %v, 1000 = any larger): surplus elements are silently ignored", accept))
			} else {
				c.Ok("decoder-arity-delegated", key, fn.Pos(), "generic list is not length-dispatched here (elements are handed to per-element decoders)")
			}
		}
	}
	for k := range spec {
		if !seenSpec[k] {
			c.Bad("decoder-arity-exact", k, 0, "spec'd hand-written decoder %s not found", k)
		}
	}
	c.Note("hand-written generic-list decoders analysed: %d", n)
}

// checkKindsChecked: every store into a receiver field takes a value that comes from a comma-ok type assertion,
// and the failure edge of every comma-ok assertion cannot reach a success return.
func (c *Ctx) checkKindsChecked(top *ssa.Function, key string, list *ssa.Alloc) {
	// units: the decoder and the same-package helpers it hands its receiver to (p.setFromPair(elems[0], elems[1]))
	type unit struct {
		fn   *ssa.Function
		recv ssa.Value
	}
	units := []unit{{top, top.Params[0]}}
	seenU := map[*ssa.Function]bool{top: true}
	for i := 0; i < len(units) && i < 8; i++ {
		u := units[i]
		for _, ci := range allCalls(u.fn) {
			h := samePkgHelper(u.fn, ci.Common())
			if h == nil || seenU[h] || ci.Common().StaticCallee() != h {
				continue
			}
			for ai, a := range ci.Common().Args {
				if rootValue(a, 0) != u.recv || ai >= len(h.Params) {
					continue
				}
				seenU[h] = true
				units = append(units, unit{h, h.Params[ai]})
				// the helper's verdict must reach the decoder's caller: after the call, a nil error is returned only
				// behind the helper-result == nil edge, or the helper's result is itself what is returned
				ei := errorResultIndex(h)
				if ei < 0 {
					c.Undecided("%s: helper %s stores into the receiver but reports no error", key, ssaFuncKey(h))
				}
				var sinks []ssa.Instruction
				for _, r := range successReturns(u.fn) {
					ret := r.(*ssa.Return)
					rv := returnedValue(ret, errorResultIndex(u.fn))
					if rv == ci.Value() {
						continue
					}
					if ex, ok := rv.(*ssa.Extract); ok && ex.Tuple == ci.Value() && ex.Index == ei {
						continue
					}
					sinks = append(sinks, r)
				}
				after := reachFromAvoiding([]*ssa.BasicBlock{ci.Block()}, nil)
				hk := "call:" + ssaFuncKey(h) + "("
				vs := c.mustPass(u.fn, sinks, func(f string) bool {
					return strings.HasPrefix(f, hk) && (strings.HasSuffix(f, ") == nil") || strings.HasSuffix(f, fmt.Sprintf(")#%d == nil", ei)))
				})
				for si, r := range sinks {
					if !after[r.Block()] && r.Block() != ci.Block() {
						continue
					}
					c.Check(vs[si].OK, "decoder-kind-failure-rejected", key+":via:"+h.Name(), r.Pos(), "the helper's rejection is propagated", "the decoder can return nil although "+h.Name()+" rejected an element ("+vs[si].Witness+")")
				}
				break
			}
		}
	}
	nStore := 0
	for _, u := range units {
		fn := u.fn
		succ := successReturns(fn)
		for _, b := range fn.Blocks {
			for _, in := range b.Instrs {
				st, ok := in.(*ssa.Store)
				if !ok {
					continue
				}
				if rootValue(st.Addr, 0) != u.recv {
					continue
				}
				if _, isFA := st.Addr.(*ssa.FieldAddr); !isFA {
					continue
				}
				nStore++
				d := desc(st.Val)
				ok2 := strings.Contains(d, "assert(") && strings.Contains(d, "#0") || isSmallConst(st.Val)
				// a struct value assembled locally: look at what was stored into its fields
				if ld, isLoad := st.Val.(*ssa.UnOp); isLoad && !ok2 {
					if al, isAlloc := ld.X.(*ssa.Alloc); isAlloc {
						all, any := true, false
						for _, u := range referrersOf(al) {
							fa, isFA := u.(*ssa.FieldAddr)
							if !isFA {
								continue
							}
							for _, u2 := range referrersOf(fa) {
								if st2, isSt := u2.(*ssa.Store); isSt && st2.Addr == fa {
									any = true
									d2 := desc(st2.Val)
									if !(strings.Contains(d2, "assert(") && strings.Contains(d2, "#0")) && !isSmallConst(st2.Val) {
										all = false
										d = d2
									}
								}
							}
						}
						ok2 = any && all
					}
				}
				fieldKey := "recv." + fieldName(st.Addr.(*ssa.FieldAddr).X.Type(), st.Addr.(*ssa.FieldAddr).Field)
				if fn == top {
					fieldKey = desc(st.Addr)
				}
				c.Check(ok2, "decoder-kinds-checked", fmt.Sprintf("%s:%s", key, fieldKey), st.Pos(), "field value comes from a checked kind assertion on a decoded element", "field is set from "+d+", not from a checked kind assertion on the decoded element")
			}
		}
		for _, ef := range edgeFacts(fn) {
			if !strings.HasPrefix(ef.Fact, "F:assert(") || !strings.HasSuffix(ef.Fact, "#1") {
				continue
			}
			after := reachFromAvoiding([]*ssa.BasicBlock{ef.From}, func(from *ssa.BasicBlock, i int) bool { return from == ef.From && i != ef.Succ })
			bad := false
			for _, r := range succ {
				if after[r.Block()] {
					bad = true
				}
			}
			c.Check(!bad, "decoder-kind-failure-rejected", key+":"+shortArg(ef.Fact), ef.From.Instrs[len(ef.From.Instrs)-1].Pos(), "a wrong element kind cannot end in success", "a failed kind assertion can still end in a nil error: the element is silently skipped or coerced")
		}
	}
	if nStore == 0 {
		c.Bad("decoder-kinds-checked", key, top.Pos(), "decoder stores nothing into its receiver")
	}
}

func isSmallConst(v ssa.Value) bool {
	_, ok := v.(*ssa.Const)
	return ok
}
