package main

import (
	"go/token"
	"strconv"
	"strings"

	"golang.org/x/tools/go/ssa"
)

func init() {
	register(&Prop{
		ID:        "C28",
		Technique: "rule-list membership + must-pass-through on verifier results + per-iteration path-sensitive escape analysis (bool-phi tracking) of the owner loops, with provenance traces of the compared hashes",
		Explanation: "(1) Every era's rule list (Shelley…Dijkstra) contains rules that resolve to common.UtxoValidateSignatures and common.ValidateRequiredVKeyWitnesses, and from Alonzo on common.ValidateCollateralVKeyWitnesses. (2) UtxoValidateSignatures succeeds only through the nil results of the vkey, bootstrap and input-owner validators. " +
			"(3) In the vkey and bootstrap validators every loop iteration reaches the Ed25519 verification of (witness key, tx.Hash(), witness signature) and can continue only on its success; VerifyVKeySignature succeeds only on ed25519.Verify(pub,msg,sig)==true with both length guards. " +
			"(4) In the input-owner and collateral-owner loops, once an input's address payload is a key hash, the iteration can reach the next iteration or the success return only through a hit in the map keyed by Blake2b224(witness vkey) for the hash traced to that input's UTxO address, or through a bootstrap witness whose computed address root equals that hash; boolean flags are tracked per path, so a flag carried over from an earlier input is seen as unknown. " +
			"(5) Required signers: every element of RequiredSigners() (and key-hash withdrawal credentials) is looked up in the same kind of map and a miss returns an error.",
		Assumptions: []string{"crypto/ed25519 and Blake2b are correct", "the Byron address-root formula's value is not decided (only that the computed root is compared with the input's hash)", "script-locked inputs are handled by other rules"},
		Run:         runC28,
	})
}

func runC28(c *Ctx) {
	c.W.buildSSA()
	rel := "ledger/common"
	lists := c.eraRuleLists()
	want := map[string][]string{
		"shelley": {"UtxoValidateSignatures", "ValidateRequiredVKeyWitnesses"},
		"allegra": {"UtxoValidateSignatures", "ValidateRequiredVKeyWitnesses"},
		"mary":    {"UtxoValidateSignatures", "ValidateRequiredVKeyWitnesses"},
		"alonzo":  {"UtxoValidateSignatures", "ValidateRequiredVKeyWitnesses", "ValidateCollateralVKeyWitnesses"},
		"babbage": {"UtxoValidateSignatures", "ValidateRequiredVKeyWitnesses", "ValidateCollateralVKeyWitnesses"},
		"conway":  {"UtxoValidateSignatures", "ValidateRequiredVKeyWitnesses", "ValidateCollateralVKeyWitnesses"},
		"dijkstra": {"UtxoValidateSignatures", "ValidateRequiredVKeyWitnesses", "ValidateCollateralVKeyWitnesses"},
	}
	for _, era := range eraOrder {
		ws, ok := want[era]
		if !ok {
			continue
		}
		er := lists[era]
		if er == nil {
			c.Undecided("no rule list for era %s", era)
			continue
		}
		got := map[string]bool{}
		for _, rf := range er.Rules {
			fn := c.SSAOf(rf)
			if fn == nil {
				continue
			}
			r := c.resolveDelegation(fn)
			if r.Pkg != nil && strings.HasSuffix(r.Pkg.Pkg.Path(), "/ledger/common") {
				got[r.Name()] = true
			}
		}
		for _, w := range ws {
			c.Check(got[w], "signature-rules-listed", "ledger/"+era+":"+w, er.Pos, "the era's rule list reaches common."+w, "the "+era+" rule list has no rule that resolves to common."+w+": transactions are accepted without that witness check")
		}
	}
	// (2)
	sig := c.SSAFunc(rel, "UtxoValidateSignatures")
	for _, callee := range []string{"ValidateVKeyWitnesses", "ValidateBootstrapWitnesses", "ValidateInputVKeyWitnesses"} {
		var rets []ssa.Instruction
		idx := errorResultIndex(sig)
		for _, b := range sig.Blocks {
			if r, ok := b.Instrs[len(b.Instrs)-1].(*ssa.Return); ok && !definitelyNonNilErr(returnedValue(r, idx), b, 0) {
				// a return of the callee's own error value on its != nil edge is not a success
				rets = append(rets, r)
			}
		}
		v := c.mustPass(sig, rets, func(f string) bool {
			return strings.HasPrefix(f, "call:"+rel+"."+callee+"(p0") && strings.HasSuffix(f, " == nil")
		})
		ok := len(rets) > 0
		w := ""
		for _, x := range v {
			if !x.OK {
				ok = false
				w = x.Witness
			}
		}
		c.Check(ok, "signatures-all-validators", ssaFuncKey(sig)+":"+callee, sig.Pos(), "success only after "+callee+" returned nil", "UtxoValidateSignatures can succeed without "+callee+" having returned nil ("+w+")")
	}
	// (3) verification in every iteration
	c.checkVerifyLoop(c.SSAFunc(rel, "ValidateVKeyWitnesses"), "VerifyVKeySignature", " == nil",
		func(args []string) bool {
			return strings.HasPrefix(args[0], "Vkey<") && strings.HasPrefix(args[1], "Signature<") && strings.Contains(args[2], "Hash(p0)") &&
				strings.Contains(args[0], "Vkey(Witnesses(p0))") && strings.Contains(args[1], "Vkey(Witnesses(p0))")
		})
	c.checkVerifyLoop(c.SSAFunc(rel, "ValidateBootstrapWitnesses"), "Verify", "T:",
		func(args []string) bool {
			return strings.HasPrefix(args[0], "PublicKey<") && strings.HasPrefix(args[2], "Signature<") && strings.Contains(args[1], "Hash(p0)") &&
				strings.Contains(args[0], "Bootstrap(Witnesses(p0))") && strings.Contains(args[2], "Bootstrap(Witnesses(p0))")
		})
	{
		fn := c.SSAFunc(rel, "VerifyVKeySignature")
		key := ssaFuncKey(fn)
		rets := successReturns(fn)
		for _, g := range []struct{ name, fact string }{
			{"ed25519", "T:call:crypto/ed25519.Verify(p0,p2,p1)"},
			{"pubkey-length", "len(p0) == 32"},
			{"signature-length", "len(p1) == 64"},
		} {
			v := c.mustPass(fn, rets, func(f string) bool { return f == g.fact })
			ok := len(rets) > 0
			w := ""
			for _, x := range v {
				if !x.OK {
					ok, w = false, x.Witness
				}
			}
			c.Check(ok, "verifier-sound", key+":"+g.name, fn.Pos(), "success requires "+g.fact, "VerifyVKeySignature can return nil without "+g.fact+" ("+w+")")
		}
	}
	// (4) owners
	c.checkOwnerLoop(c.SSAFunc(rel, "ValidateInputVKeyWitnesses"), "Inputs(p0)", true)
	c.checkOwnerLoop(c.SSAFunc(rel, "ValidateCollateralVKeyWitnesses"), "Collateral(p0)", false)
	// (5) required signers
	{
		fn := c.SSAFunc(rel, "ValidateRequiredVKeyWitnesses")
		key := ssaFuncKey(fn)
		var lk *ssa.Lookup
		for _, in := range fnInstrs(fn) {
			if l, ok := in.(*ssa.Lookup); ok && l.CommaOk {
				if _, isMap := l.X.(*ssa.MakeMap); isMap {
					lk = l
				} else if cl, isCall := l.X.(*ssa.Call); isCall && samePkgHelper(fn, &cl.Call) != nil {
					lk = l
				}
			}
		}
		if lk == nil {
			c.Bad("required-signers-witnessed", key, fn.Pos(), "no lookup of a required signer in the witness-hash map")
		} else {
			kt := trace(lk.Index)
			domOK := false
			for _, ci := range allCalls(fn) {
				if b, ok := ci.Common().Value.(*ssa.Builtin); ok && b.Name() == "append" && len(ci.Common().Args) == 2 && strings.Contains(trace(ci.Common().Args[1]), "RequiredSigners(p0)") {
					if ci.Block().Dominates(lk.Block()) {
						domOK = true
					}
				}
			}
			c.Check(strings.Contains(kt, "RequiredSigners(p0)") && domOK, "required-signers-witnessed", key+":covers-required-signers", lk.Pos(), "the looked-up list starts from tx.RequiredSigners()", "the list of required key hashes does not include tx.RequiredSigners() on every path: "+shortArg(kt))
			c.Check(c.mapKeysAreVkeyHashes(fn, lk.X), "required-signers-witnessed", key+":map-keys", lk.Pos(), "the map is keyed by Blake2b224 of each witness vkey", "the witness map is not keyed by the hash of every witness verification key")
			// a miss cannot reach success or the next element
			start := missTarget(lk)
			bad := ""
			if start != nil {
				reach := psReach(fn, []*ssa.BasicBlock{start}, nil)
				for _, r := range successReturns(fn) {
					if reach[r.Block()] {
						bad = "success return"
					}
				}
				if h := loopHeadOf(lk.Block()); h != nil && reach[h] {
					bad = "next element"
				}
			} else {
				bad = "miss edge not found"
			}
			c.Check(bad == "", "required-signers-witnessed", key+":miss-rejects", lk.Pos(), "a required signer without witness ends in an error", "a required signer whose hash is not among the witnesses still reaches the "+bad)
			// empty-witness shortcut must reject
		}
	}
}

// missTarget: the block entered when the comma-ok lookup reports a miss.
func missTarget(lk *ssa.Lookup) *ssa.BasicBlock {
	fn := lk.Parent()
	want := "lookup("
	for _, ef := range edgeFacts(fn) {
		iff := ef.From.Instrs[len(ef.From.Instrs)-1].(*ssa.If)
		if ex, ok := iff.Cond.(*ssa.Extract); ok && ex.Tuple == lk && ex.Index == 1 && strings.HasPrefix(ef.Fact, "F:"+want) {
			return ef.From.Succs[ef.Succ]
		}
	}
	return nil
}

func (c *Ctx) mapKeysAreVkeyHashes(fn *ssa.Function, m ssa.Value) bool {
	// the map may be built by a same-package helper: follow its returned map and translate the key provenance
	if call, ok := m.(*ssa.Call); ok {
		if h := samePkgHelper(fn, &call.Call); h != nil {
			okAll := false
			for _, hb := range h.Blocks {
				r, isR := hb.Instrs[len(hb.Instrs)-1].(*ssa.Return)
				if !isR || len(r.Results) != 1 {
					continue
				}
				hm := rootValue(r.Results[0], 0)
				n := 0
				for _, in := range fnInstrs(h) {
					mu, isMu := in.(*ssa.MapUpdate)
					if !isMu || rootValue(mu.Map, 0) != hm {
						continue
					}
					n++
					t := substParamsTrace(trace(mu.Key), call.Call.Args)
					if !(strings.HasPrefix(t, "Blake2b224Hash(Vkey<") && strings.Contains(t, "Vkey(Witnesses(p0))")) || !inLoop(mu.Block()) {
						return false
					}
				}
				if n == 0 {
					return false
				}
				okAll = true
			}
			return okAll
		}
	}
	n := 0
	for _, in := range fnInstrs(fn) {
		mu, ok := in.(*ssa.MapUpdate)
		if !ok || mu.Map != m {
			continue
		}
		n++
		t := trace(mu.Key)
		if !(strings.HasPrefix(t, "Blake2b224Hash(Vkey<") && strings.Contains(t, "Vkey(Witnesses(p0))")) {
			return false
		}
		if !inLoop(mu.Block()) {
			return false
		}
	}
	return n > 0
}

// substParamsTrace rewrites a helper's parameter tokens in a trace string with the traces of the caller's arguments.
func substParamsTrace(s string, args []ssa.Value) string {
	return paramTokRe.ReplaceAllStringFunc(s, func(tok string) string {
		i, err := strconv.Atoi(tok[1:])
		if err != nil || i >= len(args) {
			return tok
		}
		return trace(args[i])
	})
}

func (c *Ctx) checkVerifyLoop(fn *ssa.Function, calleeSuffix, passPrefixOrSuffix string, argsOK func([]string) bool) {
	key := ssaFuncKey(fn)
	var call *ssa.Call
	for _, ci := range allCalls(fn) {
		if cl, ok := ci.(*ssa.Call); ok && strings.HasSuffix(calleeName(ci.Common()), "."+calleeSuffix) && inLoop(ci.Block()) {
			call = cl
		}
	}
	if call == nil {
		c.Bad("witness-signatures-verified", key, fn.Pos(), "no signature verification inside the witness loop: supplied signatures are not checked")
		return
	}
	var args []string
	for _, a := range call.Call.Args {
		args = append(args, trace(a))
	}
	c.Check(len(args) == 3 && argsOK(args), "witness-signatures-verified", key+":args", call.Pos(), "verifies (witness key, tx.Hash(), witness signature) of the loop element", "the verification call does not receive the element's key and signature and the transaction id: "+shortArg(strings.Join(args, " ; ")))
	// pass edge
	var passFrom *ssa.BasicBlock
	passSucc := -1
	d := desc(call)
	for _, ef := range edgeFacts(fn) {
		if (passPrefixOrSuffix == "T:" && ef.Fact == "T:"+d) || (passPrefixOrSuffix == " == nil" && ef.Fact == d+" == nil") {
			iff := ef.From.Instrs[len(ef.From.Instrs)-1].(*ssa.If)
			if usesValue(iff.Cond, call) {
				passFrom, passSucc = ef.From, ef.Succ
			}
		}
	}
	if passFrom == nil {
		c.Bad("witness-signatures-verified", key+":decides", call.Pos(), "the verification result is not tested")
		return
	}
	// body start: the loop header's in-loop successor
	head := loopHeadOf(call.Block())
	var starts []*ssa.BasicBlock
	if head != nil {
		for _, s := range head.Succs {
			if reachesBlock(s, head) {
				starts = append(starts, s)
			}
		}
	}
	if len(starts) == 0 {
		c.Undecided("%s: loop head not found", key)
		return
	}
	reach := psReach(fn, starts, func(from *ssa.BasicBlock, succ int) bool { return from == passFrom && succ == passSucc })
	bad := ""
	if reach[head] {
		bad = "the next witness"
	}
	for _, r := range successReturns(fn) {
		if reach[r.Block()] {
			bad = "the success return"
		}
	}
	c.Check(bad == "", "witness-signatures-verified", key+":every-iteration", call.Pos(), "an iteration continues only when the signature verified", "an iteration can reach "+bad+" without the signature having verified: a corrupted or unrelated signature is accepted")
	// all elements: loop bound is len of the ranged slice, start index 0 — guaranteed by range; require the loop to be a range over the witness list
	c.Check(strings.Contains(trace(call.Call.Args[0]), "[]"), "witness-signatures-verified", key+":ranges-all", call.Pos(), "the element comes from indexing the witness list in a range loop", "the verified element is not taken from a range over the witness list")
}

func usesValue(v ssa.Value, target ssa.Value) bool {
	if v == target {
		return true
	}
	switch x := v.(type) {
	case *ssa.BinOp:
		return usesValue(x.X, target) || usesValue(x.Y, target)
	case *ssa.UnOp:
		return usesValue(x.X, target)
	case *ssa.Extract:
		return usesValue(x.Tuple, target)
	}
	return false
}

func (c *Ctx) checkOwnerLoop(fn *ssa.Function, listTrace string, allowBootstrap bool) {
	key := ssaFuncKey(fn)
	// the key-hash assertion of the address payload
	var starts []*ssa.BasicBlock
	var hashTraceOK bool
	var owner []struct {
		from *ssa.BasicBlock
		succ int
	}
	var ta *ssa.TypeAssert
	for _, in := range fnInstrs(fn) {
		if t, ok := in.(*ssa.TypeAssert); ok && strings.HasSuffix(typeStr(t.AssertedType), "AddressPayloadKeyHash") {
			ta = t
		}
	}
	if ta == nil {
		c.Bad("owner-witnessed", key, fn.Pos(), "no key-hash case for the input's address payload")
		return
	}
	pt := trace(ta.X)
	c.Check(strings.HasPrefix(pt, "PayloadPayload(Address(Output<UtxoById(p1,"+listTrace+"[])#0"), "owner-witnessed", key+":payload-of-input", ta.Pos(), "the payload examined is that of the input's own UTxO address", "the payload examined is "+shortArg(pt)+", not the payment payload of the UTxO resolved for the current input")
	for _, ef := range edgeFacts(fn) {
		iff := ef.From.Instrs[len(ef.From.Instrs)-1].(*ssa.If)
		if strings.HasPrefix(ef.Fact, "T:assert(") && usesValue(iff.Cond, ta) {
			starts = append(starts, ef.From.Succs[ef.Succ])
		}
	}
	if len(starts) == 0 {
		c.Undecided("%s: key-hash edge not found", key)
		return
	}
	// owner edges
	nLookup := 0
	for _, in := range fnInstrs(fn) {
		lk, ok := in.(*ssa.Lookup)
		if !ok || !lk.CommaOk {
			continue
		}
		if _, isMap := lk.X.(*ssa.MakeMap); !isMap {
			if cl, isCall := lk.X.(*ssa.Call); !isCall || samePkgHelper(fn, &cl.Call) == nil {
				continue
			}
		}
		kt := trace(lk.Index)
		if !strings.HasPrefix(kt, "Hash<assert<"+pt) {
			continue
		}
		if !c.mapKeysAreVkeyHashes(fn, lk.X) {
			c.Bad("owner-witnessed", key+":map-keys", lk.Pos(), "the witness map is not keyed by the hash of every witness verification key")
			continue
		}
		hashTraceOK = true
		nLookup++
		for _, ef := range edgeFacts(fn) {
			iff := ef.From.Instrs[len(ef.From.Instrs)-1].(*ssa.If)
			if ex, ok := iff.Cond.(*ssa.Extract); ok && ex.Tuple == lk && ex.Index == 1 && strings.HasPrefix(ef.Fact, "T:") {
				owner = append(owner, struct {
					from *ssa.BasicBlock
					succ int
				}{ef.From, ef.Succ})
			}
		}
	}
	c.Check(hashTraceOK, "owner-witnessed", key+":vkey-hash-lookup", ta.Pos(), "the input's key hash is looked up among the hashes of the supplied verification keys", "the input's key hash is never looked up among the hashes of the supplied verification keys")
	if allowBootstrap {
		n := 0
		for _, ef := range edgeFacts(fn) {
			iff := ef.From.Instrs[len(ef.From.Instrs)-1].(*ssa.If)
			bo, ok := iff.Cond.(*ssa.BinOp)
			if !ok || bo.Op.String() != "==" || ef.Succ != 0 {
				continue
			}
			tx, ty := trace(bo.X), trace(bo.Y)
			isRoot := func(s string) bool {
				return strings.HasPrefix(s, "computeByronAddressRoot(PublicKey<") && strings.Contains(s, "ChainCode<") && strings.Contains(s, "Attributes<") && strings.HasSuffix(s, "#0") && strings.Contains(s, "Bootstrap(Witnesses(p0))")
			}
			isHash := func(s string) bool { return strings.HasPrefix(s, "Hash<assert<"+pt) }
			if (isRoot(tx) && isHash(ty)) || (isRoot(ty) && isHash(tx)) {
				n++
				owner = append(owner, struct {
					from *ssa.BasicBlock
					succ int
				}{ef.From, 0})
			}
		}
		if n == 0 {
			// the search may live in a same-package helper returning bool: the helper's true class must pass the comparison
			// of the computed root with the parameter that receives this input's hash
			for _, b := range fn.Blocks {
				iff, isIf := b.Instrs[len(b.Instrs)-1].(*ssa.If)
				if !isIf {
					continue
				}
				call, idx, kind, swapped := helperTest(iff.Cond)
				if call == nil || kind != "bool" {
					continue
				}
				h := samePkgHelper(fn, &call.Call)
				if h == nil {
					continue
				}
				hashParam := -1
				for i, a := range call.Call.Args {
					if strings.HasPrefix(trace(a), "Hash<assert<"+pt) {
						hashParam = i
					}
				}
				if hashParam < 0 || hashParam >= len(h.Params) {
					continue
				}
				hp := h.Params[hashParam]
				// equality edges inside the helper
				type he struct {
					b *ssa.BasicBlock
					s int
				}
				var eq []he
				for _, hb := range h.Blocks {
					hif, ok := hb.Instrs[len(hb.Instrs)-1].(*ssa.If)
					if !ok {
						continue
					}
					bo, ok := hif.Cond.(*ssa.BinOp)
					if !ok || (bo.Op.String() != "==" && bo.Op.String() != "!=") {
						continue
					}
					x, y := bo.X, bo.Y
					if rootValue(y, 0) != ssa.Value(hp) && !(func() bool { a, ok := rootValue(y, 0).(*ssa.Alloc); return ok && singleStore(a) == ssa.Value(hp) })() {
						x, y = y, x
					}
					yr := rootValue(y, 0)
					isHP := yr == ssa.Value(hp)
					if a, ok := yr.(*ssa.Alloc); ok && singleStore(a) == ssa.Value(hp) {
						isHP = true
					}
					xt := substParamsTrace(trace(x), call.Call.Args)
					if !isHP || !(strings.HasPrefix(xt, "computeByronAddressRoot(PublicKey<") && strings.Contains(xt, "ChainCode<") && strings.Contains(xt, "Attributes<") && strings.HasSuffix(xt, "#0") && strings.Contains(xt, "Bootstrap(Witnesses(p0))")) {
						continue
					}
					if bo.Op.String() == "==" {
						eq = append(eq, he{hb, 0})
					} else {
						eq = append(eq, he{hb, 1})
					}
				}
				if len(eq) == 0 {
					continue
				}
				hreach, _ := reachAvoiding(h, func(from *ssa.BasicBlock, s int) bool {
					for _, e := range eq {
						if e.b == from && e.s == s {
							return true
						}
					}
					return false
				})
				allTrue := true
				for _, hb := range h.Blocks {
					if r, ok := hb.Instrs[len(hb.Instrs)-1].(*ssa.Return); ok && idx < len(r.Results) {
						if k, isK := returnedValue(r, idx).(*ssa.Const); isK && desc(k) == "false" {
							continue
						}
						if hreach[hb] {
							allTrue = false
						}
					}
				}
				if allTrue {
					n++
					succ := 0
					if swapped {
						succ = 1
					}
					owner = append(owner, struct {
						from *ssa.BasicBlock
						succ int
					}{b, succ})
				}
			}
		}
		if n == 0 {
			// slices.ContainsFunc(bootstrap witnesses, func(bw) bool { … root(bw) == hash }): true only if some
			// witness's computed root equals this input's hash
			for _, b := range fn.Blocks {
				iff, isIf := b.Instrs[len(b.Instrs)-1].(*ssa.If)
				if !isIf {
					continue
				}
				cond, neg := iff.Cond, false
				for {
					u, isU := cond.(*ssa.UnOp)
					if !isU || u.Op != token.NOT {
						break
					}
					cond, neg = u.X, !neg
				}
				call, isCall := cond.(*ssa.Call)
				if !isCall || !strings.HasPrefix(calleeName(&call.Call), "slices.ContainsFunc") || len(call.Call.Args) != 2 {
					continue
				}
				if !strings.Contains(trace(call.Call.Args[0]), "Bootstrap(Witnesses(p0))") {
					continue
				}
				mc, isMC := call.Call.Args[1].(*ssa.MakeClosure)
				if !isMC {
					continue
				}
				pred, _ := mc.Fn.(*ssa.Function)
				if pred == nil || len(pred.Params) != 1 {
					continue
				}
				// the captured variable holding this input's hash
				var hashFV *ssa.FreeVar
				for i, bnd := range mc.Bindings {
					if strings.HasPrefix(trace(bnd), "Hash<assert<"+pt) && i < len(pred.FreeVars) {
						hashFV = pred.FreeVars[i]
					}
				}
				if hashFV == nil {
					continue
				}
				isRootOfElem := func(v ssa.Value) bool {
					t := trace(v)
					return strings.HasPrefix(t, "computeByronAddressRoot(PublicKey<") && strings.Contains(t, "ChainCode<") && strings.Contains(t, "Attributes<") && strings.HasSuffix(t, "#0") && strings.Contains(t, "<p0")
				}
				isHashFV := func(v ssa.Value) bool {
					r := rootValue(v, 0)
					if r == ssa.Value(hashFV) {
						return true
					}
					if a, ok := r.(*ssa.Alloc); ok && singleStore(a) == ssa.Value(hashFV) {
						return true
					}
					return strings.HasPrefix(trace(v), "free:"+hashFV.Name())
				}
				isEq := func(v ssa.Value) bool {
					bo, ok := v.(*ssa.BinOp)
					return ok && bo.Op == token.EQL && (isRootOfElem(bo.X) && isHashFV(bo.Y) || isRootOfElem(bo.Y) && isHashFV(bo.X))
				}
				// every value the predicate can return is false, the equality itself, or true behind an equality edge
				okPred := true
				var eqEdges [][2]interface{}
				for _, pb := range pred.Blocks {
					if pif, ok := pb.Instrs[len(pb.Instrs)-1].(*ssa.If); ok && isEq(pif.Cond) {
						eqEdges = append(eqEdges, [2]interface{}{pb, 0})
					}
				}
				preach, _ := reachAvoiding(pred, func(from *ssa.BasicBlock, s2 int) bool {
					for _, e := range eqEdges {
						if e[0].(*ssa.BasicBlock) == from && e[1].(int) == s2 {
							return true
						}
					}
					return false
				})
				var check func(v ssa.Value, blk *ssa.BasicBlock, d int) bool
				check = func(v ssa.Value, blk *ssa.BasicBlock, d int) bool {
					if d > 4 {
						return false
					}
					if k, isK := v.(*ssa.Const); isK {
						return desc(k) == "false" || !preach[blk]
					}
					if isEq(v) {
						return true
					}
					if ph, isPhi := v.(*ssa.Phi); isPhi {
						for i, e := range ph.Edges {
							if !check(e, ph.Block().Preds[i], d+1) {
								return false
							}
						}
						return true
					}
					return false
				}
				for _, pb := range pred.Blocks {
					if r, ok := pb.Instrs[len(pb.Instrs)-1].(*ssa.Return); ok && len(r.Results) == 1 {
						if !check(r.Results[0], pb, 0) {
							okPred = false
						}
					}
				}
				if okPred {
					n++
					succ := 0
					if neg {
						succ = 1
					}
					owner = append(owner, struct {
						from *ssa.BasicBlock
						succ int
					}{b, succ})
				}
			}
		}
		c.Check(n == 1, "owner-witnessed", key+":bootstrap-root", ta.Pos(), "a bootstrap witness counts only when the address root computed from its key, chain code and attributes equals the input's hash", "no comparison of the computed Byron address root with the input's hash was found (or more than one)")
	}
	cut := func(from *ssa.BasicBlock, succ int) bool {
		for _, o := range owner {
			if o.from == from && o.succ == succ {
				return true
			}
		}
		return false
	}
	reach := psReach(fn, starts, cut)
	bad := ""
	if h := loopHeadOf(ta.Block()); h != nil && reach[h] {
		bad = "the next input"
	}
	for _, r := range successReturns(fn) {
		if reach[r.Block()] {
			bad = "the success return"
		}
	}
	if !allowBootstrap && bad == "" {
		// collateral: every input of the list, whatever locks it, continues only through a witness hit
		if h := loopHeadOf(ta.Block()); h != nil {
			var body []*ssa.BasicBlock
			for _, s := range h.Succs {
				if reachesBlock(s, h) {
					body = append(body, s)
				}
			}
			r2 := psReach(fn, body, cut)
			why := ""
			if r2[h] {
				why = "the next input"
			}
			for _, r := range successReturns(fn) {
				if r2[r.Block()] {
					why = "the success return"
				}
			}
			c.Check(why == "" && len(body) > 0, "owner-witnessed", key+":every-listed-input", ta.Pos(), "every input of the list lets validation continue only through a witness hit for its own key hash", "an input of the list can reach "+why+" without a verification-key hit for its owner: an input that is not key-locked (script, Byron) or whose owner did not sign is accepted")
		}
	}
	c.Check(bad == "", "owner-witnessed", key+":every-key-locked-input", ta.Pos(), "a key-locked input lets validation continue only through a witness hit for its own hash (flags tracked per path)", "a key-locked input can reach "+bad+" without a verification-key hit or a bootstrap witness deriving its hash in this iteration: an input whose owner did not sign is accepted")
}
