package main

import (
	"strings"

	"golang.org/x/tools/go/ssa"
)

func init() {
	register(&Prop{
		ID:        "C18",
		Technique: "SSA guard dominance, value identity and max-selection shape on the handshake responder; final-message delivery rule",
		Explanation: "In handshake.Server.handleProposeVersions: (1) versions enter the candidate set only on the hit edge of a comma-ok lookup of the proposed version in the responder's own ProtocolVersionMap; (2) the selected version is the running maximum over that set (the update happens exactly on candidate > current); " +
			"(3) AcceptVersion and FinishedFunc are dominated by a checked decode of the proposed version data with the selected version's own decoder and by NetworkMagic(decoded) == NetworkMagic(responder's entry for that version); the same SSA value is the version in AcceptVersion and in FinishedFunc, and AcceptVersion carries the responder's entry for it; " +
			"(4) the mismatch refusal lists the keys of the responder's map, sorted before the message is built; (5) query mode answers with NewMsgQueryReply(own map) and cannot reach FinishedFunc or an AcceptVersion; (6) every refusal/query reply that is followed by an error return (which stops the protocol) is sent with SendMessageAndWait, so it is on the wire before the stop. The initiator side is C19.",
		Assumptions: []string{"agreement over all table pairs follows from (1)-(3) together with C19 on the initiator; it is not enumerated"},
		Run:         runC18,
	})
}

func runC18(c *Ctx) {
	fn := c.SSAFunc("protocol/handshake", "Server.handleProposeVersions")
	key := ssaFuncKey(fn)
	var accept, finished ssa.CallInstruction
	var refuses []ssa.CallInstruction
	var queryReply ssa.CallInstruction
	for _, ci := range allCalls(fn) {
		cn := calleeName(ci.Common())
		switch {
		case cn == "protocol/handshake.NewMsgAcceptVersion":
			accept = ci
		case cn == "protocol/handshake.NewMsgRefuse":
			refuses = append(refuses, ci)
		case cn == "protocol/handshake.NewMsgQueryReply":
			queryReply = ci
		case cn == "" && strings.HasSuffix(desc(ci.Common().Value), ".config.FinishedFunc"):
			finished = ci
		}
	}
	// refusals built in a helper of the handler (s.refuse(reason, err)): the helper's call sites stand for them
	if len(refuses) == 0 {
		for _, g := range closureFuncs(fn, 2) {
			if g == fn {
				continue
			}
			for _, ci := range allCalls(g) {
				if calleeName(ci.Common()) == "protocol/handshake.NewMsgRefuse" {
					for _, at := range liftToCaller(fn, ci, 2) {
						if cj, ok := at.(ssa.CallInstruction); ok {
							refuses = append(refuses, cj)
						}
					}
				}
			}
		}
	}
	if accept == nil || finished == nil || queryReply == nil || len(refuses) == 0 {
		c.Undecided("handleProposeVersions: accept/finished/refuse/query-reply anchors missing")
	}
	selected := accept.Common().Args[0]
	sinks := []ssa.Instruction{accept.(ssa.Instruction), finished.(ssa.Instruction)}
	// (1) candidate set
	var appendCand ssa.CallInstruction
	for _, ci := range allCalls(fn) {
		if calleeName(ci.Common()) == "append" && strings.Contains(typeStr(ci.Common().Args[0].Type()), "[]uint16") && strings.Contains(desc(ci.Common().Args[0]), "phi(") {
			// the one inside the loop over the proposed map (its guard is the lookup)
			for _, ef := range edgeFacts(fn) {
				if strings.HasPrefix(ef.Fact, "T:lookup(p0.config.ProtocolVersionMap,") && (ef.From.Succs[ef.Succ] == ci.Block() || ef.From.Succs[ef.Succ].Dominates(ci.Block())) {
					appendCand = ci
				}
			}
		}
	}
	// (2) max selection: the running value is replaced by a candidate exactly on "candidate > running"
	okMax := false
	fusedUnderLookup := false
	if phi, ok := selected.(*ssa.Phi); ok {
		for _, b := range fn.Blocks {
			iff, isIf := b.Instrs[len(b.Instrs)-1].(*ssa.If)
			if !isIf {
				continue
			}
			bo, ok := iff.Cond.(*ssa.BinOp)
			if !ok {
				continue
			}
			// cand > running (true edge), or running < cand (true edge)
			var cand, running ssa.Value
			switch bo.Op.String() {
			case ">":
				cand, running = bo.X, bo.Y
			case "<":
				cand, running = bo.Y, bo.X
			default:
				continue
			}
			if !(samePhiFamily(running, phi) || running == ssa.Value(phi)) {
				continue
			}
			tb := b.Succs[0]
			for _, p2 := range phiFamily(phi) {
				for i, e := range p2.Edges {
					if e == cand && (p2.Block().Preds[i] == tb || p2.Block().Preds[i] == b) {
						okMax = true
						// fused form: the candidate is a proposed version and the comparison itself happens only
						// after that version was found in the responder's own map
						want := "T:lookup(p0.config.ProtocolVersionMap," + desc(cand) + ")#1"
						if v := c.mustPass(fn, []ssa.Instruction{iff}, func(f string) bool { return f == want }); v[0].OK && strings.Contains(desc(cand), ".VersionMap") {
							fusedUnderLookup = true
						}
					}
				}
			}
		}
	}
	// or the library maximum of the candidate list: slices.Max(versionIntersect)
	if call, isCall := selected.(*ssa.Call); isCall && !okMax && strings.HasPrefix(calleeName(&call.Call), "slices.Max") && len(call.Call.Args) == 1 && appendCand != nil {
		if samePhiFamily(call.Call.Args[0], appendCand.Common().Args[0]) || call.Call.Args[0] == appendCand.Value() || samePhiFamily(call.Call.Args[0], appendCand.Value()) {
			okMax = true
		}
	}
	c.Check(appendCand != nil || fusedUnderLookup, "candidate-offered-by-both", key, fn.Pos(), "a proposed version becomes a candidate only if the responder's map contains it", "the candidate set is not built under a successful lookup of the proposed version in the responder's own version map")
	c.Check(okMax, "select-highest", key, accept.Pos(), "the selected version is replaced exactly when a candidate is greater than the current one (running maximum)", "the selected version is not the maximum of the common versions")
	// (3) guards
	guard := func(rule, okm, bad string, m func(string) bool) {
		for i, v := range c.mustPass(fn, sinks, m) {
			which := []string{"AcceptVersion", "FinishedFunc"}[i]
			c.Check(v.OK, rule, key+":"+which, sinks[i].Pos(), okm, bad+" ("+v.Witness+")")
		}
	}
	selD := desc(selected)
	guard("accept-decoded", "dominated by a checked decode of the proposed data with the selected version's decoder", "acceptance is reachable without the proposed version data having decoded", func(f string) bool {
		return strings.Contains(f, "NewVersionDataFromCborFunc(lookup(") && strings.Contains(f, ".VersionMap,") && strings.HasSuffix(f, "#1 == nil")
	})
	guard("accept-magic", "dominated by NetworkMagic(proposed) == NetworkMagic(own entry)", "acceptance is reachable without the network magics having been compared equal", func(f string) bool {
		return strings.HasPrefix(f, "call:protocol.VersionData.NetworkMagic(") && strings.Contains(f, " == call:protocol.VersionData.NetworkMagic(") && strings.Contains(f, "lookup(p0.config.ProtocolVersionMap,")
	})
	c.Check(finished.Common().Args[1] == selected, "accept-same-version", key, finished.Pos(), "the version reported to FinishedFunc is the SSA value sent in AcceptVersion", "FinishedFunc is told a different version than the one sent in AcceptVersion")
	_ = selD
	okOwn := false
	if lk, ok := accept.Common().Args[1].(*ssa.Lookup); ok {
		okOwn = desc(lk.X) == "p0.config.ProtocolVersionMap" && lk.Index == selected
	}
	c.Check(okOwn, "accept-own-data", key, accept.Pos(), "AcceptVersion carries the responder's own data for the selected version", "AcceptVersion does not carry the responder's ProtocolVersionMap entry of the selected version")
	okData := false
	if ex, ok := finished.Common().Args[2].(*ssa.Extract); ok && ex.Index == 0 {
		if call, ok := ex.Tuple.(*ssa.Call); ok && strings.HasSuffix(desc(call.Call.Value), ".NewVersionDataFromCborFunc") && len(call.Call.Args) == 1 {
			a0 := call.Call.Args[0]
			for {
				if cv, ok := a0.(*ssa.ChangeType); ok {
					a0 = cv.X
					continue
				}
				if cv, ok := a0.(*ssa.Convert); ok {
					a0 = cv.X
					continue
				}
				break
			}
			if lk, ok := a0.(*ssa.Lookup); ok {
				okData = strings.HasSuffix(desc(lk.X), ".VersionMap") && lk.Index == selected
			}
		}
	}
	c.Check(okData, "accept-decoded", key+":data", finished.Pos(), "FinishedFunc receives the proposed data decoded for the selected version", "FinishedFunc does not receive the decoding of the proposed data for the selected version")
	// the decoder is the selected version's own
	okDec := false
	for _, ci := range allCalls(fn) {
		if calleeName(ci.Common()) == "protocol.GetProtocolVersion" && ci.Common().Args[0] == selected {
			okDec = true
		}
	}
	c.Check(okDec, "accept-decoded", key+":decoder", fn.Pos(), "decoder looked up for the selected version", "the decoder used is not GetProtocolVersion(selected version)")
	// (4) refusal list sorted, from the responder's map
	var sortCall ssa.CallInstruction
	sortFn := fn
	for _, g := range closureFuncs(fn, 2) {
		for _, ci := range allCalls(g) {
			if strings.HasPrefix(calleeName(ci.Common()), "slices.Sort") {
				sortCall, sortFn = ci, g
			}
		}
	}
	okSort := false
	if sortCall != nil {
		if sortFn == fn {
			for _, r := range refuses {
				if precedes(sortCall.(ssa.Instruction), r.(ssa.Instruction)) && r.Block() == sortCall.Block() {
					okSort = true
				}
			}
		} else {
			// a helper that returns the sorted list: the sort precedes its return, and a refusal takes its result
			for _, hb := range sortFn.Blocks {
				if hr, ok := hb.Instrs[len(hb.Instrs)-1].(*ssa.Return); ok && precedes(sortCall.(ssa.Instruction), hr) && !inLoop(sortCall.Block()) {
					okSort = true
				}
			}
			used := false
			for _, ci := range allCalls(fn) {
				if ci.Common().StaticCallee() == sortFn && ci.Value() != nil {
					for _, r := range refuses {
						if strings.Contains(trace(r.Common().Args[len(r.Common().Args)-2]), sortFn.Name()+"(") || strings.Contains(desc(r.(ssa.Instruction).(ssa.Value)), sortFn.Name()+"(") {
							used = true
						}
					}
					for _, in := range fnInstrs(fn) {
						if st, ok := in.(*ssa.Store); ok && strings.Contains(desc(st.Val), sortFn.Name()+"(") {
							used = true
						}
					}
				}
			}
			okSort = okSort && used
		}
		src := desc(sortCall.Common().Args[0])
		okSort = okSort && strings.Contains(src, "append(")
	}
	okKeys := false
	for _, ef := range edgeFacts(sortFn) {
		if ef.Fact == "T:next(range(p0.config.ProtocolVersionMap))#0" {
			okKeys = true
		}
	}
	if !(okSort && okKeys) {
		// slices.Sorted(maps.Keys(own map)) handed to a refusal
		for _, ci := range allCalls(fn) {
			if !strings.HasPrefix(calleeName(ci.Common()), "slices.Sorted") || len(ci.Common().Args) != 1 || ci.Value() == nil {
				continue
			}
			keys, isCall := ci.Common().Args[0].(*ssa.Call)
			if !isCall || !strings.HasPrefix(calleeName(&keys.Call), "maps.Keys") || len(keys.Call.Args) != 1 {
				continue
			}
			if t := trace(keys.Call.Args[0]); !strings.HasPrefix(t, "ProtocolVersionMap<config<") {
				continue
			}
			// the sorted list is an element of a refusal's reason
			for _, in := range fnInstrs(fn) {
				if st, ok := in.(*ssa.Store); ok {
					v := st.Val
					if mi, isMI := v.(*ssa.MakeInterface); isMI {
						v = mi.X
					}
					if v == ci.Value() {
						okSort, okKeys = true, true
					}
				}
			}
		}
	}
	c.Check(okSort && okKeys, "refusal-sorted-own-versions", key, fn.Pos(), "the mismatch refusal lists the responder's own versions, sorted ascending before the message is built", "the version-mismatch refusal is not the sorted key list of the responder's version map")
	// (5) query mode
	qd := desc(queryReply.Common().Args[0])
	c.Check(qd == "p0.config.ProtocolVersionMap", "query-reply-own-table", key, queryReply.Pos(), "QueryReply carries the responder's version table", "QueryReply carries "+qd)
	after := reachFromAvoiding([]*ssa.BasicBlock{queryReply.Block()}, nil)
	c.Check(!after[finished.Block()] && !after[accept.Block()] || loopBackOnly(queryReply.Block(), accept.Block()), "query-no-selection", key, queryReply.Pos(), "after a query reply no version is selected", "after answering a query the handler can still accept a version")
	extraC18(c, fn, key, queryReply, finished, selected)
	// (6) final messages are written before the protocol is stopped
	for _, ci := range allCalls(fn) {
		cn := calleeName(ci.Common())
		if cn != "protocol.(*Protocol).SendMessage" {
			continue
		}
		okFact := descCall(ci.Common(), 0) + " == nil"
		var starts []*ssa.BasicBlock
		for _, ef := range edgeFacts(fn) {
			if ef.Fact == okFact {
				starts = append(starts, ef.From.Succs[ef.Succ])
			}
		}
		lost := false
		for _, s := range starts {
			r := reachAvoidBlocks(s, nil)
			for b := range r {
				if ret, ok := b.Instrs[len(b.Instrs)-1].(*ssa.Return); ok && definitelyNonNilErr(ret.Results[0], b, 0) {
					lost = true
				}
			}
		}
		msg := shortArg(desc(ci.Common().Args[1]))
		c.Check(!lost, "final-message-delivered", key+":"+msg, ci.Pos(), "a queued message is not followed by an error return", "message "+msg+" is only queued (SendMessage) and the handler then returns an error, which stops the protocol before the message is necessarily written: the initiator never sees it")
	}
}

func phiFamily(p *ssa.Phi) []*ssa.Phi {
	seen := map[*ssa.Phi]bool{}
	var out []*ssa.Phi
	var walk func(x *ssa.Phi, d int)
	walk = func(x *ssa.Phi, d int) {
		if seen[x] || d > 8 {
			return
		}
		seen[x] = true
		out = append(out, x)
		for _, e := range x.Edges {
			if q, ok := e.(*ssa.Phi); ok {
				walk(q, d+1)
			}
		}
	}
	walk(p, 0)
	return out
}

// loopBackOnly: target is reachable from src only by going around the enclosing loop through its header (not within the same iteration).
func loopBackOnly(src, target *ssa.BasicBlock) bool {
	// the query reply sits in a loop over proposed versions and ends in a return; if its block's only exits are returns, nothing is reachable
	for _, s := range src.Succs {
		if _, ok := s.Instrs[len(s.Instrs)-1].(*ssa.Return); !ok {
			r := reachAvoidBlocks(s, nil)
			if r[target] {
				return false
			}
		}
	}
	return true
}

func init() {
	extraC18 = func(c *Ctx, fn *ssa.Function, key string, queryReply, finished ssa.CallInstruction, selected ssa.Value) {
		// query detection looks at every proposed version that decodes, not only at those the responder also supports
		v := c.mustPass(fn, []ssa.Instruction{queryReply.(ssa.Instruction)}, func(f string) bool {
			return strings.HasPrefix(f, "T:lookup(p0.config.ProtocolVersionMap,")
		})
		c.Check(!v[0].OK, "query-detection-unconditional", key, queryReply.Pos(), "a query flag on any proposed version triggers the query reply", "the query flag is honoured only for proposed versions that are also in the responder's table: a querying initiator with other versions gets a selection or a mismatch refusal instead of the table")
		// debug aid for data identity
		_ = finished
		_ = selected
	}
}

var extraC18 func(c *Ctx, fn *ssa.Function, key string, queryReply, finished ssa.CallInstruction, selected ssa.Value)
